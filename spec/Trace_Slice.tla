----------------------------- MODULE Trace_Slice -----------------------------
(* Trace specification for family "slice" (C16 level validation, C17 entity   *)
(* manifest).                                                                 *)
EXTENDS Slicing, Json, IOUtils

Rec == ndJsonDeserialize(IOEnv.TRACE)
VARIABLES l, bad

ToSet(s) == {s[i] : i \in 1..Len(s)}
NoDup(s) == \A i, j \in 1..Len(s) : i # j => s[i] # s[j]
PolSet(ev) == {ev.pols[i] : i \in 1..Len(ev.pols)}
RespEq(r, exp) ==
  /\ r.decision = exp.decision
  /\ ToSet(r.reasons) = exp.reasons
  /\ NoDup(r.errors) /\ ToSet(r.errors) = exp.errors

\* C16: accepted at level n => the level-n slice suffices on every environment; acceptance is monotone in n
LevelOk(ev) ==
  /\ \A n \in 1..4 : ev.accepted[n] => ev.accepted[n + 1]
  /\ \A i \in 1..Len(ev.envs) :
       LET env == EnvP(ev.envs[i].params)
           exp == Authorize(PolSet(ev), env.req, env.store)
       IN /\ RespEq(ev.envs[i].full, exp)
          /\ \A n \in 1..5 :
               /\ RespEq(ev.envs[i].level[n], Authorize(PolSet(ev), env.req, LevelSlice(env, n - 1)))  \* real authorizer on the slice = reference on the slice
               /\ ev.accepted[n] => Adequate(PolSet(ev), env, LevelSlice(env, n - 1))

\* does an expression use entity tags (the one Cedar feature the manifest analysis documents as unsupported:
\* it then refuses with an explicit error instead of producing a manifest)
RECURSIVE UsesTags(_)
UsesTags(e) ==
  IF e[1] \in {"lit", "var", "slot"} THEN FALSE
  ELSE IF e[1] = "bin" THEN e[2] \in {"getTag", "hasTag"} \/ UsesTags(e[3]) \/ UsesTags(e[4])
  ELSE IF e[1] \in {"and", "or"} THEN UsesTags(e[2]) \/ UsesTags(e[3])
  ELSE IF e[1] \in {"not", "neg", "isEmpty", "get", "has", "like", "is"} THEN UsesTags(e[2])
  ELSE IF e[1] = "if" THEN UsesTags(e[2]) \/ UsesTags(e[3]) \/ UsesTags(e[4])
  ELSE IF e[1] = "set" THEN \E i \in 1..Len(e[2]) : UsesTags(e[2][i])
  ELSE IF e[1] = "record" THEN \E k \in DOMAIN e[2] : UsesTags(e[2][k])
  ELSE IF e[1] = "call" THEN \E i \in 1..Len(e[3]) : UsesTags(e[3][i])
  ELSE FALSE
SetUsesTags(P) == \E p \in P : UsesTags(Condition(p))

\* C17: for a strictly valid policy set the manifest exists and its slice is an adequate sub-store
ManifestOk(ev) ==
  ev.strict =>
    /\ (~ev.manifestOk) => SetUsesTags(PolSet(ev))     \* the only permitted refusal
    /\ ev.manifestOk => \A i \in 1..Len(ev.envs) :
         LET env == EnvP(ev.envs[i].params)
             exp == Authorize(PolSet(ev), env.req, env.store)
         IN /\ "manifest" \in DOMAIN ev.envs[i]
            /\ RespEq(ev.envs[i].manifest, exp)
            /\ SubStore(FromWireStore(ev.envs[i].manifestStore), env.store)
            /\ Adequate(PolSet(ev), env, FromWireStore(ev.envs[i].manifestStore))

Which == IF "WHICH" \in DOMAIN IOEnv THEN IOEnv.WHICH ELSE "both"
Explained(ev) ==
  IF ev.ev = "SliceSetup" THEN TRUE
  ELSE /\ ev.ev = "Slice"
       /\ (Which \in {"both", "level"}) => LevelOk(ev)
       /\ (Which \in {"both", "manifest"}) => ManifestOk(ev)

Init == l = 1 /\ bad = {}
Next == /\ l <= Len(Rec)
        /\ l' = l + 1
        /\ bad' = IF Explained(Rec[l]) THEN bad ELSE bad \cup {l}
Report == (l = Len(Rec) + 1) => PrintT(<<"TRACE-RESULT", Len(Rec), bad>>)
Accepted == TLCGet("stats").diameter = Len(Rec) + 1
==============================================================================
