//! family "syntax" (C05): policy text -> AST -> text round trips.
//!
//! A case carries a surface policy set chosen by spec/MC_Syntax.tla together
//! with the token sequences spec/Syntax.tla prescribes for it in three
//! parenthesisation styles.  The harness only spells the tokens (escapes,
//! digits, whitespace), runs the real parsers and printers, and projects every
//! parsed object back to the abstract form; all judging happens in
//! spec/Trace_Syntax.tla.
//!
//! Other case kinds: "reject" (a token sequence the reference grammar does not
//! derive), "text" / "file" (binding T: policy text from the tree).

use crate::abs::*;
use cedar_policy::{Policy, PolicyId, PolicySet, Template};
use cedar_policy_core::ast;
use rand::rngs::StdRng;
use rand::{Rng, SeedableRng};
use serde_json::{json, Value as J};
use std::str::FromStr;

// ---------------------------------------------------------------- projection
fn ent_to_wire(u: &ast::EntityUID) -> J {
    json!(["ent", u.entity_type().to_string(), str_to_wire(AsRef::<str>::as_ref(u.eid()))])
}

/// expr_to_wire writes entity ids as strings; this family compares ids as
/// code points (the generator enumerates them over the escape alphabets)
fn ent_ids_to_cps(j: &J) -> J {
    let Some(a) = j.as_array() else { return j.clone() };
    match a.first().and_then(|x| x.as_str()) {
        Some("lit") if a.len() == 2 => {
            if let Some(v) = a[1].as_array() {
                if v.len() == 3 && v[0] == "ent" {
                    if let (Some(ty), Some(id)) = (v[1].as_str(), v[2].as_str()) {
                        return json!(["lit", ["ent", ty, str_to_wire(id)]]);
                    }
                }
            }
            j.clone()
        }
        Some("record") if a.len() == 3 => {
            let mut o = serde_json::Map::new();
            if let Some(m) = a[1].as_object() {
                for (k, v) in m {
                    o.insert(k.clone(), ent_ids_to_cps(v));
                }
            }
            json!(["record", o, a[2]])
        }
        Some(_) => J::Array(a.iter().map(|x| if x.is_array() { ent_ids_to_cps(x) } else { x.clone() }).collect()),
        // a list of expressions (set elements, call arguments) or a pattern
        None => J::Array(a.iter().map(|x| if x.is_array() { ent_ids_to_cps(x) } else { x.clone() }).collect()),
    }
}

fn pr_scope_to_wire(c: &ast::PrincipalOrResourceConstraint) -> J {
    use ast::EntityReference as ER;
    use ast::PrincipalOrResourceConstraint as C;
    match c {
        C::Any => json!(["any"]),
        C::Eq(ER::EUID(u)) => json!(["eq", ent_to_wire(u)]),
        C::Eq(ER::Slot(_)) => json!(["eqslot"]),
        C::In(ER::EUID(u)) => json!(["in", ent_to_wire(u)]),
        C::In(ER::Slot(_)) => json!(["inslot"]),
        C::Is(t) => json!(["is", t.to_string()]),
        C::IsIn(t, ER::EUID(u)) => json!(["isin", t.to_string(), ent_to_wire(u)]),
        C::IsIn(t, ER::Slot(_)) => json!(["isinslot", t.to_string()]),
    }
}

fn action_scope_to_wire(c: &ast::ActionConstraint) -> J {
    match c {
        ast::ActionConstraint::Any => json!(["any"]),
        ast::ActionConstraint::Eq(u) => json!(["eq", ent_to_wire(u)]),
        ast::ActionConstraint::In(us) => json!(["inset", us.iter().map(|u| ent_to_wire(u)).collect::<Vec<_>>()]),
    }
}

/// structural projection of a parsed policy or template
pub fn policy_to_wire(t: &ast::Template) -> J {
    let ann: Vec<J> = t
        .annotations()
        .map(|(k, v)| json!([k.to_string(), str_to_wire(v.val.as_str())]))
        .collect();
    let cond = match t.non_scope_constraints() {
        Some(e) => ent_ids_to_cps(&expr_to_wire(e)),
        None => json!(["none"]),
    };
    json!({
        "effect": match t.effect() { ast::Effect::Permit => "permit", ast::Effect::Forbid => "forbid" },
        "annotations": ann,
        "principal": pr_scope_to_wire(t.principal_constraint().as_inner()),
        "action": action_scope_to_wire(t.action_constraint()),
        "resource": pr_scope_to_wire(t.resource_constraint().as_inner()),
        "cond": cond,
    })
}

fn pub_policy_to_wire(p: &Policy) -> J {
    let a: &ast::Policy = p.as_ref();
    policy_to_wire(a.template())
}

fn pub_template_to_wire(t: &Template) -> J {
    let a: &ast::Template = t.as_ref();
    policy_to_wire(a)
}

// ---------------------------------------------------------------- spelling tokens
fn hex(rng: &mut StdRng, n: u32, width: usize) -> String {
    let s = format!("{:0width$x}", n, width = width);
    if rng.gen_bool(0.5) { s.to_uppercase() } else { s }
}

/// one character of a string literal, in a randomly chosen valid spelling
fn spell_char(rng: &mut StdRng, c: char, pattern: bool) -> String {
    let n = c as u32;
    if pattern && c == '*' {
        return "\\*".to_string(); // the only spelling of a literal star
    }
    let mut opts: Vec<String> = vec![];
    if c != '"' && c != '\\' && c != '\r' {
        opts.push(c.to_string());
        opts.push(c.to_string());
    }
    match c {
        '\n' => opts.push("\\n".into()),
        '\r' => opts.push("\\r".into()),
        '\t' => opts.push("\\t".into()),
        '\\' => opts.push("\\\\".into()),
        '\0' => opts.push("\\0".into()),
        '\'' => opts.push("\\'".into()),
        '"' => opts.push("\\\"".into()),
        _ => {}
    }
    if n < 0x80 {
        opts.push(format!("\\x{}", hex(rng, n, 2)));
    }
    let w = rng.gen_range(1..=6usize);
    let h = hex(rng, n, w);
    if h.len() <= 6 {
        opts.push(format!("\\u{{{}}}", h));
    }
    let i = rng.gen_range(0..opts.len());
    opts.swap_remove(i)
}

fn spell_string(rng: &mut StdRng, s: &str, pattern: bool) -> String {
    let mut o = String::from("\"");
    for c in s.chars() {
        o.push_str(&spell_char(rng, c, pattern));
    }
    o.push('"');
    o
}

fn spell_pattern(rng: &mut StdRng, p: &J) -> R<String> {
    let mut o = String::from("\"");
    for e in p.as_array().ok_or("pat")? {
        let n = e.as_i64().ok_or("pat elem")?;
        if n < 0 {
            o.push('*');
        } else {
            let c = char::from_u32(n as u32).ok_or("pat scalar")?;
            o.push_str(&spell_char(rng, c, true));
        }
    }
    o.push('"');
    Ok(o)
}

fn spell_num(rng: &mut StdRng, limbs: &J) -> R<String> {
    let mut m: u128 = 0;
    for l in limbs.as_array().ok_or("num")?.iter().rev() {
        m = m * 10000 + l.as_u64().ok_or("limb")? as u128;
    }
    let zeros = if rng.gen_ratio(1, 12) { "0".repeat(rng.gen_range(1..3)) } else { String::new() };
    Ok(format!("{zeros}{m}"))
}

fn gap(rng: &mut StdRng) -> &'static str {
    match rng.gen_range(0..16) {
        0..=7 => " ",
        8..=10 => "",
        11 => "  ",
        12 => "\n",
        13 => "\t",
        14 => " \n    ",
        _ => " // note\n",
    }
}

fn spell_token(rng: &mut StdRng, t: &J) -> R<String> {
    if let Some(s) = t.as_str() {
        return Ok(s.to_string());
    }
    let a = t.as_array().ok_or_else(|| format!("token {t}"))?;
    let payload = a.get(1).ok_or("token payload")?;
    Ok(match a[0].as_str().ok_or("token tag")? {
        "num" => spell_num(rng, payload)?,
        "str" | "estr" => spell_string(rng, &str_from_wire(payload)?, false),
        "qstr" => spell_string(rng, payload.as_str().ok_or("qstr")?, false),
        "pat" => spell_pattern(rng, payload)?,
        "name" => {
            let parts: Vec<&str> = payload.as_str().ok_or("name")?.split("::").collect();
            let mut o = String::new();
            for (i, p) in parts.iter().enumerate() {
                if i > 0 {
                    o.push_str(if rng.gen_ratio(1, 5) { " :: " } else { "::" });
                }
                o.push_str(p);
            }
            o
        }
        t => return err(format!("unknown token kind {t}")),
    })
}

fn ident_char(c: char) -> bool {
    c.is_ascii_alphanumeric() || c == '_'
}

/// must the two spellings be separated so that they stay two tokens?
fn must_separate(a: &str, b: &str) -> bool {
    let (Some(x), Some(y)) = (a.chars().last(), b.chars().next()) else { return false };
    if ident_char(x) && ident_char(y) {
        return true;
    }
    matches!(
        (x, y),
        ('<', '=') | ('>', '=') | ('=', '=') | ('!', '=') | ('&', '&') | ('|', '|') | (':', ':') | ('/', '/') | ('?', _)
    )
}

/// token sequence -> text; `plain` = single spaces (used where the text itself is compared)
pub fn spell(rng: &mut StdRng, toks: &[J], plain: bool) -> R<String> {
    let mut o = String::new();
    let mut prev = String::new();
    for t in toks {
        let s = spell_token(rng, t)?;
        if !prev.is_empty() {
            let g = if plain { " " } else { gap(rng) };
            if g.is_empty() && must_separate(&prev, &s) {
                o.push(' ');
            } else {
                o.push_str(g);
            }
        }
        o.push_str(&s);
        prev = s;
    }
    Ok(o)
}

/// split a policy-set token sequence into policies (a plain ";" ends a policy)
pub fn split_policies(toks: &[J]) -> Vec<Vec<J>> {
    let mut out = vec![];
    let mut cur = vec![];
    for t in toks {
        cur.push(t.clone());
        if t.as_str() == Some(";") {
            out.push(std::mem::take(&mut cur));
        }
    }
    if !cur.is_empty() {
        out.push(cur);
    }
    out
}

// ---------------------------------------------------------------- views
struct Views {
    views: Vec<J>,
}

impl Views {
    fn new() -> Self {
        Views { views: vec![] }
    }
    /// record a projection under (kind, label); equal projections share one view
    fn add(&mut self, kind: &str, label: &str, p: Vec<J>) {
        let p = J::Array(p);
        for v in self.views.iter_mut() {
            if v["k"] == "ok" && v["p"] == p {
                v["as"].as_array_mut().expect("as").push(json!([kind, label]));
                return;
            }
        }
        self.views.push(json!({"k": "ok", "as": [[kind, label]], "p": p}));
    }
    fn fail(&mut self, label: &str, msg: String, text: &str) {
        self.views.push(json!({"k": "err", "as": [["err", label]], "msg": msg, "text": text}));
    }
}

fn pid(i: usize) -> PolicyId {
    PolicyId::new(format!("policy{i}"))
}

/// the policies of a parsed set in id order policy0, policy1, ..
pub fn set_in_order(ps: &PolicySet) -> R<Vec<J>> {
    let n = ps.num_of_policies() + ps.num_of_templates();
    let mut out = vec![];
    for i in 0..n {
        let id = pid(i);
        if let Some(p) = ps.policy(&id) {
            out.push(pub_policy_to_wire(p));
        } else if let Some(t) = ps.template(&id) {
            out.push(pub_template_to_wire(t));
        } else {
            return err(format!("parsed set has no policy{i} (of {n})"));
        }
    }
    Ok(out)
}

/// the policies of a set in whatever order the set lists them
fn set_any_order(ps: &PolicySet) -> Vec<J> {
    ps.policies().map(pub_policy_to_wire).chain(ps.templates().map(pub_template_to_wire)).collect()
}

enum Parsed {
    P(Policy),
    T(Template),
}

fn parse_one(id: PolicyId, text: &str) -> Result<Parsed, String> {
    // a text with slots is a template; one without is a static policy
    match Policy::parse(Some(id.clone()), text) {
        Ok(p) => Ok(Parsed::P(p)),
        Err(e1) => match Template::parse(Some(id), text) {
            Ok(t) => Ok(Parsed::T(t)),
            Err(e2) => Err(format!("as policy: {e1}; as template: {e2}")),
        },
    }
}

impl Parsed {
    fn wire(&self) -> J {
        match self {
            Parsed::P(p) => pub_policy_to_wire(p),
            Parsed::T(t) => pub_template_to_wire(t),
        }
    }
    /// the library's printer over the AST
    fn ast_print(&self) -> String {
        match self {
            Parsed::P(p) => AsRef::<ast::Policy>::as_ref(p).to_string(),
            Parsed::T(t) => AsRef::<ast::Template>::as_ref(t).to_string(),
        }
    }
    /// through the JSON policy format and back: Display then prints the EST (keeps != > has-chains)
    fn via_json(&self, id: PolicyId) -> Result<Parsed, String> {
        match self {
            Parsed::P(p) => {
                let j = p.to_json().map_err(|e| e.to_string())?;
                Policy::from_json(Some(id), j).map(Parsed::P).map_err(|e| e.to_string())
            }
            Parsed::T(t) => {
                let j = t.to_json().map_err(|e| e.to_string())?;
                Template::from_json(Some(id), j).map(Parsed::T).map_err(|e| e.to_string())
            }
        }
    }
    fn display(&self) -> String {
        match self {
            Parsed::P(p) => p.to_string(),
            Parsed::T(t) => t.to_string(),
        }
    }
    fn to_cedar(&self) -> Option<String> {
        match self {
            Parsed::P(p) => p.to_cedar(),
            Parsed::T(t) => Some(t.to_cedar()),
        }
    }
}

/// all parse / print / re-parse paths over one policy-set text
fn round_trips(text: &str, each: &[String], v: &mut Views) {
    // A: the whole text as a policy set
    let ps = match PolicySet::from_str(text) {
        Ok(ps) => ps,
        Err(e) => {
            v.fail("set", e.to_string(), text);
            return;
        }
    };
    match set_in_order(&ps) {
        Ok(p) => v.add("seq", "set", p),
        Err(e) => v.fail("set", e, text),
    }
    // the core parser entry point
    match cedar_policy_core::parser::parse_policyset(text) {
        Ok(aps) => {
            let mut out = vec![];
            let mut ok = true;
            for i in 0..each.len() {
                let id = ast::PolicyID::from_string(format!("policy{i}"));
                match aps.get_template(&id) {
                    Some(t) => out.push(policy_to_wire(&t)),
                    None => {
                        ok = false;
                        v.fail("core-set", format!("no policy{i}"), text);
                    }
                }
            }
            if ok {
                v.add("seq", "core-set", out);
            }
        }
        Err(e) => v.fail("core-set", e.to_string(), text),
    }
    // C, D, E: every policy on its own: parse, print (AST printer, EST printer), re-parse
    let mut single = vec![];
    let mut ast_rt = vec![];
    let mut est_ast = vec![];
    let mut est_rt = vec![];
    let mut lossless_rt = vec![];
    let mut complete = true;
    for (i, t) in each.iter().enumerate() {
        let p = match parse_one(pid(i), t) {
            Ok(p) => p,
            Err(e) => {
                v.fail("each", e, t);
                complete = false;
                continue;
            }
        };
        single.push(p.wire());
        let printed = p.ast_print();
        match parse_one(pid(i), &printed) {
            Ok(q) => ast_rt.push(q.wire()),
            Err(e) => {
                v.fail("ast-print", e, &printed);
                complete = false;
            }
        }
        match p.to_cedar() {
            Some(txt) => match parse_one(pid(i), &txt) {
                Ok(q) => lossless_rt.push(q.wire()),
                Err(e) => {
                    v.fail("to_cedar", e, &txt);
                    complete = false;
                }
            },
            None => {
                v.fail("to_cedar", "None for an unlinked policy".into(), t);
                complete = false;
            }
        }
        match p.via_json(pid(i)) {
            Ok(q) => {
                est_ast.push(q.wire());
                let printed = q.display();
                match parse_one(pid(i), &printed) {
                    Ok(r) => est_rt.push(r.wire()),
                    Err(e) => {
                        v.fail("est-print", e, &printed);
                        complete = false;
                    }
                }
            }
            Err(e) => {
                v.fail("json", e, t);
                complete = false;
            }
        }
    }
    if complete {
        v.add("seq", "each", single);
        v.add("seq", "ast-print", ast_rt);
        v.add("seq", "to_cedar", lossless_rt);
        v.add("seq", "json", est_ast);
        v.add("seq", "est-print", est_rt);
    }
    // F: the set printed as a whole and parsed again (order and ids may change)
    match ps.to_cedar() {
        Some(txt) => match PolicySet::from_str(&txt) {
            Ok(q) => v.add("bag", "set-to_cedar", set_any_order(&q)),
            Err(e) => v.fail("set-to_cedar", e.to_string(), &txt),
        },
        None => v.fail("set-to_cedar", "None for a set without links".into(), text),
    }
    let shown = ps.to_string();
    match PolicySet::from_str(&shown) {
        Ok(q) => v.add("bagS", "set-display", set_any_order(&q)),
        Err(e) => v.fail("set-display", e.to_string(), &shown),
    }
    // G: through the JSON policy-set format: to_cedar then prints ASTs, Display prints ESTs
    match ps.clone().to_json().map_err(|e| e.to_string()).and_then(|j| PolicySet::from_json_value(j).map_err(|e| e.to_string())) {
        Ok(js) => {
            v.add("bag", "set-json", set_any_order(&js));
            match js.to_cedar() {
                Some(txt) => match PolicySet::from_str(&txt) {
                    Ok(q) => v.add("bag", "set-json-to_cedar", set_any_order(&q)),
                    Err(e) => v.fail("set-json-to_cedar", e.to_string(), &txt),
                },
                None => v.fail("set-json-to_cedar", "None".into(), text),
            }
            let shown = js.to_string();
            match PolicySet::from_str(&shown) {
                Ok(q) => v.add("bagS", "set-json-display", set_any_order(&q)),
                Err(e) => v.fail("set-json-display", e.to_string(), &shown),
            }
        }
        Err(e) => v.fail("set-json", e, text),
    }
}

pub fn case_seed(case: &J, salt: u64) -> u64 {
    let id = case.get("id").map(|x| x.to_string()).unwrap_or_default();
    let mut h: u64 = 0xcbf29ce484222325 ^ salt.wrapping_mul(0x9E3779B97F4A7C15);
    for b in id.bytes() {
        h = (h ^ b as u64).wrapping_mul(0x100000001b3);
    }
    if let Ok(s) = std::env::var("VERIF_SEED") {
        for b in s.bytes() {
            h = (h ^ b as u64).wrapping_mul(0x100000001b3);
        }
    }
    h
}


fn run_ok(case: &J) -> R<J> {
    let toks = case["toks"].as_array().ok_or("toks")?;
    let mut events = vec![];
    let styles = case["styles"].as_array().ok_or("styles")?;
    for (si, st) in styles.iter().enumerate() {
        let ts = toks.get(si).and_then(|x| x.as_array()).ok_or("style toks")?;
        let mut rng = StdRng::seed_from_u64(case_seed(case, si as u64));
        let parts = split_policies(ts);
        let mut each = vec![];
        for p in &parts {
            each.push(spell(&mut rng, p, false)?);
        }
        let mut text = String::new();
        for (i, t) in each.iter().enumerate() {
            if i > 0 {
                text.push_str(gap(&mut rng));
                text.push('\n');
            }
            text.push_str(t);
        }
        let mut v = Views::new();
        round_trips(&text, &each, &mut v);
        events.push(json!({"ev": "Syntax", "id": case["id"], "style": st, "coord": case["coord"],
                           "pols": case["pols"], "text": text, "views": v.views}));
    }
    Ok(json!({"ev": "Multi", "events": events}))
}

/// binding T, second leg: a projection found in the tree, rendered again by the reference grammar
fn run_rerender(case: &J) -> R<J> {
    let toks = case["toks"].as_array().ok_or("toks")?;
    let styles = case["styles"].as_array().ok_or("styles")?;
    let n = case["base"].as_array().ok_or("base")?.len();
    let mut events = vec![];
    for (si, st) in styles.iter().enumerate() {
        let ts = toks.get(si).and_then(|x| x.as_array()).ok_or("style toks")?;
        let mut rng = StdRng::seed_from_u64(case_seed(case, 20 + si as u64));
        let mut each = vec![];
        for p in &split_policies(ts) {
            each.push(spell(&mut rng, p, false)?);
        }
        let text = each.join("\n");
        let mut v = Views::new();
        round_trips(&text, &each, &mut v);
        events.push(json!({"ev": "Stable", "src": format!("{}@{}", case["src"].as_str().unwrap_or("?"), st.as_str().unwrap_or("?")),
                           "n": n, "base": case["base"], "text": text, "views": v.views}));
    }
    Ok(json!({"ev": "Multi", "events": events}))
}

fn run_reject(case: &J) -> R<J> {
    let toks = case["toks"].as_array().ok_or("toks")?;
    let mut rng = StdRng::seed_from_u64(case_seed(case, 7));
    let text = spell(&mut rng, toks, false)?;
    let mut outcomes = vec![];
    outcomes.push(match PolicySet::from_str(&text) {
        Ok(ps) => json!(["ok", "set", set_any_order(&ps)]),
        Err(e) => json!(["err", "set", e.to_string()]),
    });
    outcomes.push(match parse_one(pid(0), &text) {
        Ok(p) => json!(["ok", "each", [p.wire()]]),
        Err(e) => json!(["err", "each", e]),
    });
    Ok(json!({"ev": "SyntaxReject", "id": case["id"], "toks": case["toks"], "text": text, "parse": outcomes}))
}

/// binding T: a policy text from the tree.  base = projection of the text as parsed;
/// views = projections after each print / re-parse path.
pub fn run_text(src: &str, text: &str) -> J {
    let ps = match PolicySet::from_str(text) {
        Ok(ps) => ps,
        Err(e) => return json!({"ev": "SyntaxSkip", "src": src, "why": e.to_string().chars().take(200).collect::<String>()}),
    };
    let base = match set_in_order(&ps) {
        Ok(b) => b,
        Err(e) => return json!({"ev": "SyntaxOdd", "src": src, "why": e}),
    };
    // the lossless per-policy texts are the "each" inputs
    let n = base.len();
    let mut each = vec![];
    for i in 0..n {
        let id = pid(i);
        let t = ps.policy(&id).and_then(|p| p.to_cedar()).or_else(|| ps.template(&id).map(|t| t.to_cedar()));
        match t {
            Some(t) => each.push(t),
            None => return json!({"ev": "SyntaxOdd", "src": src, "why": format!("no text for policy{i}")}),
        }
    }
    let mut v = Views::new();
    round_trips(text, &each, &mut v);
    json!({"ev": "Stable", "src": src, "n": n, "base": base, "views": v.views})
}

pub fn run(case: &J) -> R<J> {
    match case["kind"].as_str().unwrap_or("ok") {
        "ok" => run_ok(case),
        "reject" => run_reject(case),
        "rerender" => run_rerender(case),
        "text" => Ok(run_text(case["src"].as_str().unwrap_or("inline"), case["text"].as_str().ok_or("text")?)),
        "file" => {
            let path = case["path"].as_str().ok_or("path")?;
            let text = std::fs::read_to_string(path).map_err(|e| format!("{path}: {e}"))?;
            Ok(run_text(path, &text))
        }
        k => err(format!("syntax: unknown case kind {k}")),
    }
}

/// binding T has no random driver of its own: the corpus is listed by lib/props_c05.py
pub fn drive(_seed: u64, _n: usize) -> Vec<J> {
    vec![]
}
