------------------------------- MODULE CedarExt -------------------------------
(***************************************************************************)
(* Cedar extension types.  Values:                                         *)
(*   <<"ext", "decimal", i64>>     value * 10^4                            *)
(*   <<"ext", "datetime", i64>>    milliseconds since the Unix epoch       *)
(*   <<"ext", "duration", i64>>    milliseconds                            *)
(*   <<"ext", "ipaddr", ver, addr, prefix>>  ver in {4, 6}; addr = 4 octets*)
(*                                  or 8 16-bit groups; prefix 0..32 / 128 *)
(* ExtCall(fn, args) gives <<"ok", v>>, <<"err", "ext">> for a failing     *)
(* constructor or an overflowing operation, <<"err", "type">> for wrongly  *)
(* typed arguments.  (Grown in CedarExtFull; this module holds the part    *)
(* the core evaluator needs.)                                              *)
(***************************************************************************)
EXTENDS Integers, Sequences, Int64, CedarStrings

ExtOk(v) == <<"ok", v>>
ExtErr == <<"err", "ext">>
ExtTypeErr == <<"err", "type">>

IsStrV(v) == v[1] = "str"
IsExtOf(v, ty) == v[1] = "ext" /\ v[2] = ty

\* <, <= are overloaded for datetime and duration only
ExtComparable(v) == v[2] \in {"datetime", "duration"}
ExtLt(a, b) == Lt(a[3], b[3])
ExtLe(a, b) == Le(a[3], b[3])

----------------------------------------------------------------------------
\* decimal:  -?d+.d{1,4}   value*10^4 within i64
ParseDecimal(s) ==
  LET neg == Len(s) > 0 /\ s[1] = 45
      body == IF neg THEN Slice(s, 2, Len(s)) ELSE s
      dot == IndexOf(body, 46)
      ip == Slice(body, 1, dot - 1)
      fp == Slice(body, dot + 1, Len(body))
  IN IF dot = 0 \/ Len(ip) = 0 \/ Len(fp) = 0 \/ ~AllDigits(ip) \/ ~AllDigits(fp) THEN ExtErr
     ELSE IF Len(fp) > 4 THEN ExtErr
     ELSE IF Len(ip) > 24 THEN ExtErr   \* cannot fit (leading zeros beyond this are not modelled)
     ELSE LET pad == [i \in 1..(4 - Len(fp)) |-> 0]
              m == OfDigits(Digits(ip) \o Digits(fp) \o pad)
              r == Mk(neg, m)
          IN IF r[1] = "ok" THEN ExtOk(<<"ext", "decimal", r[2]>>) ELSE ExtErr

DecimalCmp(fn, a, b) ==
  IF ~(IsExtOf(a, "decimal") /\ IsExtOf(b, "decimal")) THEN ExtTypeErr
  ELSE ExtOk(<<"bool", CASE fn = "lessThan" -> Lt(a[3], b[3])
                         [] fn = "lessThanOrEqual" -> Le(a[3], b[3])
                         [] fn = "greaterThan" -> Lt(b[3], a[3])
                         [] fn = "greaterThanOrEqual" -> Le(b[3], a[3])>>)

----------------------------------------------------------------------------
ExtCall(fn, args) ==
  CASE fn = "decimal" ->
         IF Len(args) # 1 \/ ~IsStrV(args[1]) THEN ExtTypeErr ELSE ParseDecimal(args[1][2])
    [] fn \in {"lessThan", "lessThanOrEqual", "greaterThan", "greaterThanOrEqual"} ->
         IF Len(args) # 2 THEN ExtTypeErr ELSE DecimalCmp(fn, args[1], args[2])
    [] OTHER -> <<"err", "unsupported">>
=============================================================================
