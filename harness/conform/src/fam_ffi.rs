//! family "ffi" (C19): histories over the JSON/FFI front end and its
//! thread-local caches.  Names are made unique per case so that cases do not
//! interfere (the caches cannot be cleared).

use crate::abs::*;
use crate::render;
use crate::schema::*;
use cedar_policy::ffi;
use serde_json::{json, Map, Value as J};
use std::cell::RefCell;
use std::collections::BTreeSet;

thread_local! {
    static FWORLD: RefCell<Option<J>> = const { RefCell::new(None) };
}

fn euid_json(u: &J) -> J {
    json!({"type": u[1], "id": u[2]})
}

/// the FFI presentation of a policy source
fn ffi_policy_set(src: &J) -> R<J> {
    let shape = src["shape"].as_str().ok_or("shape")?;
    let good = src["good"].as_bool().ok_or("good")?;
    let pols = src["pols"].as_array().ok_or("pols")?;
    if !good {
        return Ok(match shape {
            "concat" => json!({"staticPolicies": "permit(principal, action, resource"}),
            _ => json!({"staticPolicies": {"x": "permit(principal, action, resource) when { 1 + };"}}),
        });
    }
    Ok(match shape {
        "concat" => {
            let texts: Vec<String> = pols.iter().map(render::policy_text).collect::<R<Vec<_>>>()?;
            json!({"staticPolicies": texts.join("\n")})
        }
        "map" => {
            let mut m = Map::new();
            for p in pols {
                m.insert(p["id"].as_str().ok_or("id")?.to_string(), json!(render::policy_text(p)?));
            }
            json!({"staticPolicies": m})
        }
        "json" => {
            let mut m = Map::new();
            for p in pols {
                m.insert(p["id"].as_str().ok_or("id")?.to_string(), render::policy_est(p)?);
            }
            json!({"staticPolicies": m})
        }
        "links" => {
            let mut templates = Map::new();
            let mut links = vec![];
            for p in pols {
                let id = p["id"].as_str().ok_or("id")?;
                let tid = format!("T_{id}");
                templates.insert(tid.clone(), json!(render::policy_text(p)?));
                let mut values = Map::new();
                for (k, v) in as_obj(&p["slots"])?.iter() {
                    values.insert(format!("?{k}"), euid_json(v));
                }
                links.push(json!({"templateId": tid, "newId": id, "values": values}));
            }
            json!({"templates": templates, "templateLinks": links})
        }
        s => return err(format!("bad shape {s}")),
    })
}

fn ffi_schema(src: &J) -> R<J> {
    if !src["good"].as_bool().ok_or("good")? {
        return Ok(json!("entity User {"));
    }
    Ok(match src["syntax"].as_str().ok_or("syntax")? {
        "json" => schema_json(&src["schema"])?,
        _ => json!(schema_cedar_text(&src["schema"])?),
    })
}

fn entities_json(store: &J) -> R<J> {
    let mut out = vec![];
    for e in store.as_array().ok_or("store")? {
        if e["uid"][1] == "Action" {
            continue;
        }
        out.push(entity_cedar_json(e)?);
    }
    Ok(J::Array(out))
}

fn context_json(req: &J) -> R<J> {
    value_cedar_json(&req["context"])
}

fn project_answer(ans: &J) -> J {
    if ans["type"] == "success" {
        let r = &ans["response"];
        let mut reasons: Vec<String> = r["diagnostics"]["reason"].as_array().map(|a| a.iter().filter_map(|x| x.as_str().map(String::from)).collect()).unwrap_or_default();
        reasons.sort();
        let mut errors: Vec<String> = r["diagnostics"]["errors"].as_array().map(|a| a.iter().filter_map(|x| x["policyId"].as_str().map(String::from)).collect()).unwrap_or_default();
        errors.sort();
        let d = match r["decision"].as_str() { Some("allow") => "Allow", Some("deny") => "Deny", _ => "?" };
        json!(["ok", {"decision": d, "reasons": reasons, "errors": errors}])
    } else {
        json!(["fail"])
    }
}

/// the same inputs through the Rust API
fn api_answer(world: &J, k: usize, j: usize, validate: bool, ri: usize) -> R<J> {
    use cedar_policy::*;
    let src = &world["polSources"][k - 1];
    let Ok(ps) = ffi::PolicySet::parse(serde_json::from_value(ffi_policy_set(src)?).map_err(|e| e.to_string())?) else {
        return Ok(json!(["fail"]));
    };
    let schema = if j == 0 {
        None
    } else {
        let s = &world["schemaSources"][j - 1];
        let parsed = if !s["good"].as_bool().unwrap_or(false) {
            return Ok(json!(["fail"]));
        } else if s["syntax"] == "json" {
            Schema::from_json_value(schema_json(&s["schema"])?).map_err(|e| e.to_string())?
        } else {
            Schema::from_cedarschema_str(&schema_cedar_text(&s["schema"])?).map_err(|e| e.to_string())?.0
        };
        Some(parsed)
    };
    let req = &world["reqs"][ri - 1];
    let (p, a, r) = (
        EntityUid::from(uid_from_wire(&req["principal"])?),
        EntityUid::from(uid_from_wire(&req["action"])?),
        EntityUid::from(uid_from_wire(&req["resource"])?),
    );
    let ctx = match Context::from_json_value(context_json(req)?, schema.as_ref().map(|s| (s, &a))) {
        Ok(c) => c,
        Err(_) => return Ok(json!(["fail"])),
    };
    let Ok(request) = Request::new(p, a, r, ctx, if validate { schema.as_ref() } else { None }) else {
        return Ok(json!(["fail"]));
    };
    let Ok(ents) = Entities::from_json_value(entities_json(&world["storeWithout"])?, schema.as_ref()) else {
        return Ok(json!(["fail"]));
    };
    let resp = Authorizer::new().is_authorized(&request, &ps, &ents);
    let mut reasons: BTreeSet<String> = resp.diagnostics().reason().map(|x| x.to_string()).collect();
    let mut errors: Vec<String> = resp.diagnostics().errors().map(|e| match e { AuthorizationError::PolicyEvaluationError(pe) => pe.policy_id().to_string() }).collect();
    errors.sort();
    let _ = &mut reasons;
    Ok(json!(["ok", {"decision": if resp.decision() == Decision::Allow { "Allow" } else { "Deny" }, "reasons": reasons, "errors": errors}]))
}

fn stateless_answer(world: &J, k: usize, j: usize, validate: bool, ri: usize) -> R<J> {
    let req = &world["reqs"][ri - 1];
    let mut call = json!({
        "principal": euid_json(&req["principal"]), "action": euid_json(&req["action"]), "resource": euid_json(&req["resource"]),
        "context": context_json(req)?, "validateRequest": validate,
        "policies": ffi_policy_set(&world["polSources"][k - 1])?,
        "entities": entities_json(&world["storeWithout"])?,
    });
    if j != 0 {
        call["schema"] = ffi_schema(&world["schemaSources"][j - 1])?;
    }
    let ans = ffi::is_authorized_json(call).map_err(|e| format!("is_authorized_json: {e}"))?;
    Ok(project_answer(&ans))
}

pub fn run(case: &J) -> R<J> {
    if let Some(s) = case.get("setup") {
        FWORLD.with(|c| *c.borrow_mut() = Some(s.clone()));
        return Ok(json!({"ev": "FfiSetup"}));
    }
    FWORLD.with(|cell| {
        let b = cell.borrow();
        let world = b.as_ref().ok_or("no setup")?;
        let prefix = format!("c{}_", case["id"]);
        let mut steps = vec![];
        for op in case["hist"].as_array().ok_or("hist")? {
            let name = op[0].as_str().ok_or("op")?;
            match name {
                "preparsePs" => {
                    let k = op[2].as_u64().ok_or("k")? as usize;
                    let pset: ffi::PolicySet = serde_json::from_value(ffi_policy_set(&world["polSources"][k - 1])?).map_err(|e| e.to_string())?;
                    let ans = ffi::preparse_policy_set(format!("{prefix}{}", op[1].as_str().ok_or("name")?), pset);
                    steps.push(json!({"op": op, "ok": matches!(ans, ffi::CheckParseAnswer::Success)}));
                }
                "preparseSchema" => {
                    let j = op[2].as_u64().ok_or("j")? as usize;
                    let sch: ffi::Schema = serde_json::from_value(ffi_schema(&world["schemaSources"][j - 1])?).map_err(|e| e.to_string())?;
                    let ans = ffi::preparse_schema(format!("{prefix}{}", op[1].as_str().ok_or("name")?), sch);
                    steps.push(json!({"op": op, "ok": matches!(ans, ffi::CheckParseAnswer::Success)}));
                }
                "stateful" => {
                    let (pn, sn) = (op[1].as_str().ok_or("ps name")?, op[2].as_str().ok_or("schema name")?);
                    let validate = op[3].as_bool().ok_or("validate")?;
                    let ri = op[4].as_u64().ok_or("req")? as usize;
                    let req = &world["reqs"][ri - 1];
                    let mut call = json!({
                        "principal": euid_json(&req["principal"]), "action": euid_json(&req["action"]), "resource": euid_json(&req["resource"]),
                        "context": context_json(req)?, "validateRequest": validate,
                        "preparsedPolicySetId": format!("{prefix}{pn}"),
                        "entities": entities_json(&world["storeWithout"])?,
                    });
                    if !sn.is_empty() {
                        call["preparsedSchemaName"] = json!(format!("{prefix}{sn}"));
                    }
                    let call: ffi::StatefulAuthorizationCall = serde_json::from_value(call).map_err(|e| format!("stateful call: {e}"))?;
                    let ans = serde_json::to_value(ffi::stateful_is_authorized(call)).map_err(|e| e.to_string())?;
                    steps.push(json!({"op": op, "answer": project_answer(&ans)}));
                }
                "stateless" => {
                    let (k, j) = (op[1].as_u64().ok_or("k")? as usize, op[2].as_u64().ok_or("j")? as usize);
                    let validate = op[3].as_bool().ok_or("validate")?;
                    let ri = op[4].as_u64().ok_or("req")? as usize;
                    steps.push(json!({"op": op, "answer": stateless_answer(world, k, j, validate, ri)?, "api": api_answer(world, k, j, validate, ri)?}));
                }
                _ => return err(format!("bad op {name}")),
            }
        }
        Ok(json!({"ev": "FfiHist", "id": case["id"], "steps": steps}))
    })
}

pub fn drive(_seed: u64, _n: usize) -> Vec<J> {
    vec![]
}
