-------------------------------- MODULE World --------------------------------
(***************************************************************************)
(* A fixed small universe used by the case generators (binding G):         *)
(* entities, one store, one request, and pools of literal leaves chosen to *)
(* straddle every case distinction of the evaluator.                       *)
(***************************************************************************)
EXTENDS CedarAuthz, TLC

L(n) == <<"long", OfInt(n)>>
S(cps) == <<"str", cps>>
E(ty, id) == <<"ent", ty, id>>

Ua == E("User", "a")          \* present, attrs, tags, member of Gg (and so of Gh)
Ub == E("User", "b")          \* present, no attrs, no parents
Uz == E("User", "zz")         \* absent
Dd == E("Doc", "d")           \* present, owner = Ua
Gg == E("Group", "g")         \* present, parent Gh
Gh == E("Group", "h")         \* absent but referenced as a parent (leaf)
Av == E("Action", "view")     \* present
Ae == E("Action", "edit")     \* absent

MaxL == <<"long", I64Max>>
MinL == <<"long", I64Min>>

Smile == 128512               \* U+1F600, outside the BMP
StrA == S(<<97>>)
StrStar == S(<<97, 42, 98>>)  \* "a*b"
StrK == S(<<107>>)            \* "k"

EmptySetV == <<"set", {}>>
EmptyRecV == <<"rec", <<>>>>

Store ==
  (Ua :> [attrs |-> [n |-> L(1), s |-> StrA, b |-> <<"bool", TRUE>>, owner |-> Ub,
                     tags |-> <<"set", {L(1), L(2)}>>, rec |-> <<"rec", [n |-> L(7)]>>],
          tags |-> {<<<<107>>, L(5)>>, <<<<>>, StrA>>},
          anc |-> {Gg, Gh}])
  @@ (Ub :> [attrs |-> <<>>, tags |-> {}, anc |-> {}])
  @@ (Dd :> [attrs |-> [owner |-> Ua, n |-> MaxL], tags |-> {}, anc |-> {}])
  @@ (Gg :> [attrs |-> [n |-> L(0)], tags |-> {}, anc |-> {Gh}])
  @@ (Av :> [attrs |-> <<>>, tags |-> {}, anc |-> {}])

Req == [principal |-> Ua, action |-> Av, resource |-> Dd,
        context |-> <<"rec", [n |-> L(2), s |-> StrStar, b |-> <<"bool", FALSE>>,
                              owner |-> Uz, tags |-> EmptySetV,
                              rec |-> <<"rec", [owner |-> Ua]>>]>>]

\* wire form of the store (ToJson turns sets into arrays; uid must be a field)
WireStore ==
  LET us == DOMAIN Store
  IN {[uid |-> u, attrs |-> Store[u].attrs, tags |-> Store[u].tags, anc |-> Store[u].anc] : u \in us}

V(n) == <<"var", n>>
Get(e, a) == <<"get", e, a>>
SetE(es) == <<"set", es>>
RecE(f, keys) == <<"record", f, keys>>
Bin(op, a, b) == <<"bin", op, a, b>>
Call(f, args) == <<"call", f, args>>
Dec(cps) == Call("decimal", <<Lit(S(cps))>>)

\* error atoms: each evaluates to the error class in its name
TypeErrE == Bin("add", Lit(L(1)), Lit(StrA))
OverflowE == Bin("add", Lit(MaxL), Lit(L(1)))
NoEntityE == Get(Lit(Uz), "n")
NoAttrE == Get(V("context"), "missing")
ExtErrE == Dec(<<120>>)                              \* decimal("x")

\* leaves for the depth-1 product
Leaves ==
  << Lit(<<"bool", TRUE>>), Lit(<<"bool", FALSE>>),
     Lit(MinL), Lit(<<"long", Add(I64Min, OfInt(1))[2]>>), Lit(L(0 - 1)), Lit(L(0)), Lit(L(1)), Lit(L(2)),
     Lit(<<"long", Sub(I64Max, OfInt(1))[2]>>), Lit(MaxL),
     Lit(S(<<>>)), Lit(StrA), Lit(StrStar), Lit(S(<<Smile, 120>>)), Lit(StrK),
     Lit(Ua), Lit(Ub), Lit(Uz), Lit(Dd), Lit(Gg), Lit(Gh), Lit(Av),
     SetE(<<>>), SetE(<<Lit(L(1))>>), SetE(<<Lit(L(1)), Lit(L(2))>>), SetE(<<Lit(L(2)), Lit(L(1)), Lit(L(1))>>),
     SetE(<<Lit(Ua)>>), SetE(<<Lit(Gg), Lit(Uz)>>), SetE(<<Lit(Gh), Lit(L(1))>>),
     SetE(<<SetE(<<Lit(L(1))>>)>>), SetE(<<Get(V("principal"), "n")>>),
     RecE(<<>>, <<>>), RecE([n |-> Lit(L(1))], <<"n">>), RecE([n |-> Lit(L(1)), s |-> Lit(StrA)], <<"n", "s">>),
     V("principal"), V("action"), V("resource"), V("context"),
     Get(V("context"), "n"), Get(V("context"), "owner"), Get(V("principal"), "tags"), Get(V("principal"), "rec"),
     Dec(<<49, 46, 53>>), Dec(<<49, 46, 53, 48>>),
     TypeErrE, OverflowE, NoEntityE, NoAttrE, ExtErrE >>

BinOps == <<"eq", "less", "lessEq", "add", "sub", "mul", "in", "contains",
            "containsAll", "containsAny", "getTag", "hasTag">>
AttrNames == <<"n", "s", "owner", "tags", "rec", "missing", "if">>
TypeNames == <<"User", "Doc", "Group", "Action", "NS::User">>
==============================================================================
