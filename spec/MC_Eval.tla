------------------------------- MODULE MC_Eval -------------------------------
(***************************************************************************)
(* Case generator and model-level checks for C02.                          *)
(* Init picks a coordinate (an operator family); Next produces, as the     *)
(* successors of that seed state, every expression of the family over the  *)
(* leaf pools of World.  Each case state is checked against the sanity     *)
(* theorems below (binding M) and printed as one JSON line (binding G).    *)
(***************************************************************************)
EXTENDS World, Json

CONSTANT Tier            \* "quick" | "thorough"

VARIABLES coord, c
vars == <<coord, c>>

NL_ == Len(Leaves)
LeafSet == {Leaves[i] : i \in 1..NL_}
Atoms == << Lit(<<"bool", TRUE>>), Lit(<<"bool", FALSE>>), Lit(L(1)),
            TypeErrE, OverflowE, NoEntityE, NoAttrE, ExtErrE >>
AtomSet == {Atoms[i] : i \in 1..Len(Atoms)}

Small == { Lit(<<"bool", TRUE>>), Lit(L(1)), Lit(StrA), Lit(Ua), SetE(<<Lit(L(1))>>), OverflowE, NoAttrE }

PatSyms == {97, 98, Star, 42, Smile}        \* a b wildcard literal-star non-BMP
StrSyms == {97, 98, 42, Smile}
SeqsUpTo(Sy, n) == UNION {[1..k -> Sy] : k \in 0..n}
LikeN == IF Tier = "quick" THEN 2 ELSE 3

SetPool == { SetE(<<>>), SetE(<<Lit(L(1))>>), SetE(<<Lit(L(1)), Lit(L(2))>>), SetE(<<Lit(L(2)), Lit(L(1)), Lit(L(1))>>),
             SetE(<<Lit(Ua)>>), SetE(<<Lit(Ua), Lit(L(1))>>), SetE(<<SetE(<<>>)>>), SetE(<<SetE(<<Lit(L(1))>>), Lit(L(1))>>),
             SetE(<<RecE([n |-> Lit(L(1))], <<"n">>)>>), SetE(<<Dec(<<49, 46, 53>>)>>), SetE(<<Dec(<<49, 46, 53, 48>>), Lit(L(1))>>),
             Get(V("principal"), "tags") }

Ents == {Ua, Ub, Uz, Dd, Gg, Gh, Av, Ae}
EntPairsSets == {SetE(<<Lit(x)>>) : x \in Ents} \cup {SetE(<<Lit(x), Lit(y)>>) : x \in {Gg, Gh, Ub}, y \in {Gh, Uz, Dd}}

NonEnt == { Lit(<<"bool", TRUE>>), Lit(L(1)), Lit(StrA), RecE(<<>>, <<>>), RecE([n |-> Lit(L(1))], <<"n">>),
            SetE(<<>>), SetE(<<Lit(Ua)>>), Dec(<<49, 46, 53>>), Get(V("principal"), "rec"), Get(V("principal"), "tags") }

DecPool == { Dec(<<48, 46, 48>>), Dec(<<49, 46, 53>>), Dec(<<49, 46, 53, 48>>), Dec(<<45, 49, 46, 53>>),
             Dec(<<45, 48, 46, 48>>), Dec(<<120>>), Lit(L(1)), Lit(StrA) }

Coords ==
  {<<"un", op>> : op \in {"not", "neg", "isEmpty"}}
  \cup {<<"bin", BinOps[i]>> : i \in 1..Len(BinOps)}
  \cup {<<"andor", op>> : op \in {"and", "or"}}
  \cup {<<"has">>, <<"get">>, <<"is">>, <<"if">>, <<"like">>, <<"likeLong">>, <<"likeNonStr">>, <<"hier">>, <<"hierMixed">>, <<"setrec">>}
  \cup {<<"sets", op>> : op \in {"eq", "contains", "containsAll", "containsAny"}}
  \cup {<<"alg", s>> : s \in 1..6}
  \cup {<<"dec", f>> : f \in {"lessThan", "lessThanOrEqual", "greaterThan", "greaterThanOrEqual"}}

CasesOf(k) ==
  CASE k[1] = "un" -> {<<k[2], x>> : x \in LeafSet}
    [] k[1] = "bin" -> {Bin(k[2], x, y) : x \in LeafSet, y \in LeafSet}
    [] k[1] = "andor" -> {<<k[2], x, y>> : x \in LeafSet, y \in LeafSet}
    [] k[1] = "has" -> {<<"has", x, AttrNames[i]>> : x \in LeafSet, i \in 1..Len(AttrNames)}
    [] k[1] = "get" -> {<<"get", x, AttrNames[i]>> : x \in LeafSet, i \in 1..Len(AttrNames)}
    [] k[1] = "is" -> {<<"is", x, TypeNames[i]>> : x \in LeafSet, i \in 1..Len(TypeNames)}
    [] k[1] = "if" -> {<<"if", x, y, z>> : x \in LeafSet, y \in Small, z \in Small}
    [] k[1] = "like" -> {<<"like", Lit(S(s)), p>> : s \in SeqsUpTo(StrSyms, LikeN), p \in SeqsUpTo(PatSyms, LikeN)}
    \* longer texts over two letters against literal segments behind / before / between wildcards: the only match may start
    \* inside an earlier partial match of a self-overlapping segment ("aaab" like "*aab")
    [] k[1] = "likeLong" -> {<<"like", Lit(S(s)), p>> : s \in [1..4 -> {97, 98}] \cup [1..5 -> {97, 98}],
                                                       p \in UNION {{<<Star>> \o q, q \o <<Star>>, <<Star>> \o q \o <<Star>>, <<Star>> \o q \o <<Star, 98>>}
                                                                    : q \in [1..2 -> {97, 98}] \cup [1..3 -> {97, 98}]}}
    [] k[1] = "likeNonStr" -> {<<"like", x, <<Star>>>> : x \in LeafSet}
    [] k[1] = "hier" -> {Bin("in", Lit(x), Lit(y)) : x \in Ents, y \in Ents}
                        \cup {Bin("in", Lit(x), s) : x \in Ents, s \in EntPairsSets}
    \* `in` type-tests the whole right operand, wherever the offending element sits and whatever it is
    [] k[1] = "hierMixed" -> {Bin("in", Lit(x), SetE(<<Lit(y), z>>)) : x \in {Ua, Uz, Gg}, y \in {Ua, Uz, Gg, Gh}, z \in NonEnt}
                             \cup {Bin("in", Lit(x), SetE(<<z, Lit(y)>>)) : x \in {Ua, Uz, Gg}, y \in {Ua, Uz, Gg, Gh}, z \in NonEnt}
                             \cup {Bin("in", Lit(x), SetE(<<Lit(y), z, Lit(w)>>)) : x \in {Ua, Gg}, y \in {Ua, Gh}, w \in {Gg, Ub}, z \in NonEnt}
    [] k[1] = "setrec" -> {SetE(<<x, y>>) : x \in Small, y \in AtomSet}
                          \cup {RecE([a |-> x, b |-> y], <<"a", "b">>) : x \in AtomSet, y \in AtomSet}
                          \cup {Get(RecE([a |-> x, b |-> y], <<"a", "b">>), "a") : x \in Small, y \in AtomSet}
    [] k[1] = "sets" -> {Bin(k[2], x, y) : x \in SetPool, y \in SetPool \cup {Lit(L(1)), Lit(Ua)}}
    [] k[1] = "alg" ->
         (CASE k[2] = 1 -> {<<o1, <<o2, x, y>>, z>> : o1 \in {"and", "or"}, o2 \in {"and", "or"}, x \in AtomSet, y \in AtomSet, z \in AtomSet}
           [] k[2] = 2 -> {<<o1, x, <<o2, y, z>>>> : o1 \in {"and", "or"}, o2 \in {"and", "or"}, x \in AtomSet, y \in AtomSet, z \in AtomSet}
           [] k[2] = 3 -> {<<"if", x, y, z>> : x \in AtomSet, y \in AtomSet, z \in AtomSet}
           [] k[2] = 4 -> {<<o1, <<"not", x>>, <<"if", y, z, x>>>> : o1 \in {"and", "or"}, x \in AtomSet, y \in AtomSet, z \in AtomSet}
           [] k[2] = 5 -> {<<"if", <<o1, x, y>>, z, <<"not", z>>>> : o1 \in {"and", "or"}, x \in AtomSet, y \in AtomSet, z \in AtomSet}
           [] k[2] = 6 -> {Bin(op, <<o1, x, y>>, z) : op \in {"eq", "add", "less"}, o1 \in {"and", "or"}, x \in AtomSet, y \in AtomSet, z \in AtomSet})
    [] k[1] = "dec" -> {Call(k[2], <<x, y>>) : x \in DecPool, y \in DecPool}

Init == coord \in Coords /\ c = <<>>
Next == /\ c = <<>>
        /\ c' \in CasesOf(coord)
        /\ UNCHANGED coord

EvalW(e) == Eval(e, Req, Store, <<>>)

\* ---------------------------------------------------------------- binding M
\* The prose of C02, checked on the specification itself for every generated case.
IsErrAtom(x) == x \in {TypeErrE, OverflowE, NoEntityE, NoAttrE, ExtErrE}
SkippedOperandInvisible(e) ==
  /\ (e[1] = "and" /\ EvalW(e[2]) = Ok(FalseV)) => \A x \in AtomSet : EvalW(<<"and", e[2], x>>) = Ok(FalseV)
  /\ (e[1] = "or" /\ EvalW(e[2]) = Ok(TrueV)) => \A x \in AtomSet : EvalW(<<"or", e[2], x>>) = Ok(TrueV)
  /\ (e[1] = "if" /\ EvalW(e[2]) = Ok(TrueV)) => \A x \in AtomSet : EvalW(<<"if", e[2], e[3], x>>) = EvalW(e[3])
  /\ (e[1] = "if" /\ EvalW(e[2]) = Ok(FalseV)) => \A x \in AtomSet : EvalW(<<"if", e[2], x, e[4]>>) = EvalW(e[4])
NonBoolAlwaysSurfaces(e) ==
  /\ (e[1] \in {"and", "or", "if"} /\ IsOk(EvalW(e[2])) /\ ~IsBool(EvalW(e[2])[2])) => EvalW(e) = Err("type")
  /\ (e[1] = "and" /\ EvalW(e[2]) = Ok(TrueV) /\ IsOk(EvalW(e[3])) /\ ~IsBool(EvalW(e[3])[2])) => EvalW(e) = Err("type")
  /\ (e[1] = "or" /\ EvalW(e[2]) = Ok(FalseV) /\ IsOk(EvalW(e[3])) /\ ~IsBool(EvalW(e[3])[2])) => EvalW(e) = Err("type")
EqTotal(e) ==
  (e[1] = "bin" /\ e[2] = "eq" /\ IsOk(EvalW(e[3])) /\ IsOk(EvalW(e[4]))) => (IsOk(EvalW(e)) /\ IsBool(EvalW(e)[2]))
FirstErrorWins(e) ==
  (e[1] = "bin" /\ ~IsOk(EvalW(e[3]))) => EvalW(e) = EvalW(e[3])
InReflexive(e) ==
  (e[1] = "bin" /\ e[2] = "in" /\ e[3] = e[4] /\ e[3][1] = "lit" /\ IsEnt(e[3][2])) => EvalW(e) = Ok(TrueV)
ResultWellFormed(e) ==
  LET r == EvalW(e) IN r[1] \in {"ok", "err"} /\ (r[1] = "err" => r[2] \in {"type", "noEntity", "noAttr", "overflow", "ext"})

Sane == c # <<>> => /\ SkippedOperandInvisible(c) /\ NonBoolAlwaysSurfaces(c) /\ EqTotal(c)
                    /\ FirstErrorWins(c) /\ InReflexive(c) /\ ResultWellFormed(c)

\* ---------------------------------------------------------------- binding G
Dump == PrintT("CASE " \o ToJson([expr |-> c', coord |-> coord]))
ASSUME PrintT("WORLD " \o ToJson([req |-> Req, store |-> WireStore]))
==============================================================================
