--------------------------- MODULE MC_BatchedLoop ---------------------------
EXTENDS Batched
Spec == BInit /\ [][BNext]_<<loaded, iter, finished>>
\* each call that asks for something grows `loaded`: with Budget > |AllUids| the loop cannot still be asking
NeverStuck == (iter = Budget /\ ~finished) => \A req \in SUBSET AllUids : (req # {} /\ req \cap loaded = {}) => Cardinality(loaded) < Cardinality(AllUids)
==============================================================================
