#!/usr/bin/env python3
"""Regenerate /verif/MANIFEST.json from lib/manifest_table.py (single source of truth)."""
import json, os, sys
sys.path.insert(0, os.path.dirname(os.path.abspath(__file__)))
import manifest_table as T

VERIF = os.path.dirname(os.path.dirname(os.path.abspath(__file__)))
props = [json.loads(l)["id"] for l in open(os.path.join(VERIF, "properties.jsonl")) if l.strip()]
checks = []
for pid in props:
    c = T.CLAIMED.get(pid)
    if not c:
        continue
    checks.append(dict(
        property_id=pid,
        quick_cmd="./check %s --tier quick" % pid,
        thorough_cmd="./check %s --tier thorough" % pid,
        evidence_file="/verif/evidence/%s.json" % pid,
        replay_cmd_template="./check %s --replay {path}" % pid,
        engine=c.get("engine", "tla-conform"),
        level_claimed=dict(category=c["category"], text=c["text"], design_ref=c.get("design_ref", "DESIGN.md section 6, " + pid)),
        level_note=c["note"],
        technique=c.get("technique", "TLA+ specification checked with TLC; TLC-generated cases replayed into the implementation and recorded executions validated against the specification (trace validation)"),
    ))
na = [dict(property_id=p, reason=T.NOT_APPLICABLE.get(p, "check not built yet in this round; planned per DESIGN.md section 6")) for p in props if p not in T.CLAIMED]
m = dict(
    version=1,
    setup_cmd="cd /verif/harness && cp -n /repo/Cargo.lock Cargo.lock; CARGO_NET_OFFLINE=true cargo build --release --offline && CARGO_NET_OFFLINE=true CARGO_TARGET_DIR=/verif/harness/target-cli cargo build --release --offline -p cedar-policy-cli --manifest-path /repo/Cargo.toml && cd /verif/spec && for m in *.tla; do tla-sany $m > /dev/null || exit 1; done",
    hooks=T.HOOKS,
    engines=T.ENGINES,
    checks=checks,
    not_applicable=na,
    notes=T.NOTES,
)
json.dump(m, open(os.path.join(VERIF, "MANIFEST.json"), "w"), indent=1)
print("claimed:", [c["property_id"] for c in checks])
