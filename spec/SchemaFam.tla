------------------------------ MODULE SchemaFam ------------------------------
(* A concrete schema family used by the conformance / validation generators. *)
EXTENDS Schema, TLC

TBool == <<"Bool">>
TLong == <<"Long">>
TStr == <<"String">>
TEnt(t) == <<"Entity", t>>
TSet(t) == <<"Set", t>>
TRec(a) == <<"Record", a>>
Req_(t) == <<t, TRUE>>
Opt_(t) == <<t, FALSE>>
NoTags == <<"none">>

Sc1 == [
  ets |-> [
    User |-> [attrs |-> [n |-> Req_(TLong), opt |-> Opt_(TStr), mgr |-> Opt_(TEnt("User")),
                         rec |-> Req_(TRec([inner |-> Opt_(TLong), flag |-> Req_(TBool)])),
                         fav |-> Opt_(TEnt("Color")), colors |-> Opt_(TSet(TEnt("Color"))),
                         palette |-> Opt_(TSet(TRec([c |-> Req_(TEnt("Color"))]))), grid |-> Opt_(TSet(TSet(TEnt("Color"))))],
             tags |-> TLong, memberOf |-> {"Group", "Org"}, enum |-> {}],
    Group |-> [attrs |-> <<>>, tags |-> NoTags, memberOf |-> {"Org"}, enum |-> {}],
    Org |-> [attrs |-> <<>>, tags |-> NoTags, memberOf |-> {}, enum |-> {}],
    Doc |-> [attrs |-> [owner |-> Req_(TEnt("User")), labels |-> Req_(TSet(TStr)), lvl |-> Opt_(TLong)],
            tags |-> TStr, memberOf |-> {"Folder"}, enum |-> {}],
    Folder |-> [attrs |-> <<>>, tags |-> NoTags, memberOf |-> {"Folder"}, enum |-> {}],
    Color |-> [attrs |-> <<>>, tags |-> NoTags, memberOf |-> {}, enum |-> {"red", "green"}]
  ],
  acts |-> [
    view |-> [applies |-> TRUE, principals |-> {"User"}, resources |-> {"Doc", "Folder"},
              context |-> [flag |-> Req_(TBool), note |-> Opt_(TStr), who |-> Opt_(TEnt("User")), tint |-> Opt_(TEnt("Color")),
                          tints |-> Opt_(TSet(TRec([c |-> Req_(TEnt("Color"))])))],
              memberOf |-> {"all"}],
    edit |-> [applies |-> TRUE, principals |-> {"User", "Group"}, resources |-> {"Doc"},
              context |-> <<>>, memberOf |-> {"rw"}],
    rw |-> [applies |-> FALSE, principals |-> {}, resources |-> {}, context |-> <<>>, memberOf |-> {"all"}],
    all |-> [applies |-> FALSE, principals |-> {}, resources |-> {}, context |-> <<>>, memberOf |-> {}]
  ]
]

\* wire form: sets become arrays, fine for ToJson
WireSchema(Sc) == Sc
==============================================================================
