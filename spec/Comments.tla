------------------------------ MODULE Comments ------------------------------
(***************************************************************************)
(* Comment model of a policy-set text (C12).  A text is a token sequence   *)
(* t1..tn plus, at each boundary 0..n, a list of items: <<"c", text>> (the *)
(* line `//text`) or <<"b">> (a blank line).  A placement lists the        *)
(* non-empty boundaries in ascending order as <<boundary, mode, items>>.   *)
(* The comments of a text are the comment items in boundary order; a       *)
(* comment is identified by its text up to trailing white space.           *)
(***************************************************************************)
EXTENDS Integers, Sequences

RECURSIVE ItemComments(_, _), PlaceComments(_, _)
ItemComments(its, i) ==
  IF i > Len(its) THEN <<>> ELSE (IF its[i][1] = "c" THEN <<"//" \o its[i][2]>> ELSE <<>>) \o ItemComments(its, i + 1)
PlaceComments(ps, i) == IF i > Len(ps) THEN <<>> ELSE ItemComments(ps[i][3], 1) \o PlaceComments(ps, i + 1)
CommentsOf(places) == PlaceComments(places, 1)

PlacesOk(places, n) ==
  /\ \A k \in 1..Len(places) : places[k][1] \in 0..n /\ places[k][2] \in {"own", "trail"}
  /\ \A k \in 1..(Len(places) - 1) : places[k][1] < places[k + 1][1]
=============================================================================
