CONSTANTS SeqLen = 3
  HoleLen = 3
  MaxDepth = 48
INIT Init
NEXT Next
ACTION_CONSTRAINT Dump
CHECK_DEADLOCK FALSE
