CONSTANT Tier = "thorough"
INIT FInit
NEXT FNext
INVARIANT FSane
ACTION_CONSTRAINT FDump
CHECK_DEADLOCK FALSE
