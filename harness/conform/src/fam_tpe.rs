//! family "tpe" (C14): type-aware partial evaluation.  Setup case: schema and
//! the parameter-addressed environment universe.  Each case: a policy set, a
//! base environment, an erasure and the consistent completions.

use crate::abs::*;
use crate::fam_authz::{add_policy, response_to_wire};
use crate::schema::*;
use cedar_policy::{
    Decision, Entities, EntityUid, PartialEntities, PartialEntity, PartialEntityUid, PartialRequest, Policy, PolicyId,
    PolicySet, Request, RestrictedExpression,
};
use cedar_policy_core::ast;
use serde_json::{json, Map, Value as J};
use smol_str::SmolStr;
use std::cell::RefCell;
use std::collections::{BTreeMap, BTreeSet, HashMap, HashSet};

pub struct TSetup {
    pub schema: cedar_policy::Schema,
    pub envs: HashMap<String, (J, Request, Entities)>, // params-json -> (wire env, request, entities)
}
thread_local! {
    pub static TSETUP: RefCell<Option<TSetup>> = const { RefCell::new(None) };
}

pub fn build_env(schema: &cedar_policy::Schema, e: &J) -> R<(Request, Entities)> {
    let non_actions: Vec<ast::Entity> = entities_from_wire(&e["store"])?
        .into_iter()
        .filter(|x| !x.uid().entity_type().is_action())
        .collect();
    let ents = Entities::from_entities(non_actions.into_iter().map(cedar_policy::Entity::from), Some(schema)).map_err(|x| format!("env entities: {x}"))?;
    let (p, a, r) = (
        EntityUid::from(uid_from_wire(&e["req"]["principal"])?),
        EntityUid::from(uid_from_wire(&e["req"]["action"])?),
        EntityUid::from(uid_from_wire(&e["req"]["resource"])?),
    );
    let ctx: cedar_policy::Context = context_from_wire(&e["req"]["context"])?.into();
    let req = Request::new(p, a, r, ctx, Some(schema)).map_err(|x| format!("env request: {x}"))?;
    Ok((req, ents))
}

pub fn do_setup(s: &J) -> R<J> {
    let schema = schema_of(&s["schema"])?;
    let mut envs = HashMap::new();
    for pe in s["envs"].as_array().ok_or("envs")? {
        let (req, ents) = build_env(&schema, &pe["env"])?;
        envs.insert(pe["params"].to_string(), (pe["env"].clone(), req, ents));
    }
    let n = envs.len();
    TSETUP.with(|c| *c.borrow_mut() = Some(TSetup { schema, envs }));
    Ok(json!({"ev": "TpeSetup", "envs": n}))
}

fn rexprs(m: &J) -> R<BTreeMap<SmolStr, RestrictedExpression>> {
    let mut out = BTreeMap::new();
    for (k, v) in as_obj(m)?.iter() {
        out.insert(SmolStr::from(k.as_str()), rexpr_from_wire(v)?.into());
    }
    Ok(out)
}

/// the condition (scope && clauses) of a policy, as a wire expression
pub fn cond_wire(p: &Policy) -> J {
    let a: &ast::Policy = p.as_ref();
    json!({"effect": match a.effect() { ast::Effect::Permit => "permit", ast::Effect::Forbid => "forbid" },
           "cond": expr_to_wire(&a.condition())})
}

pub fn run(case: &J) -> R<J> {
    if let Some(s) = case.get("setup") {
        return do_setup(s);
    }
    TSETUP.with(|cell| {
        let b = cell.borrow();
        let setup = b.as_ref().ok_or("no setup")?;
        let schema = &setup.schema;
        let mut ps = PolicySet::new();
        let mut back = HashMap::new();
        for p in case["pols"].as_array().ok_or("pols")? {
            let id = p["id"].as_str().ok_or("id")?;
            add_policy(&mut ps, p, id, 0)?;
            back.insert(id.to_string(), id.to_string());
        }
        let erase: BTreeSet<String> = case["erase"].as_array().ok_or("erase")?.iter().filter_map(|x| x.as_str().map(String::from)).collect();
        let (base_w, _, _) = setup.envs.get(&case["base"].to_string()).ok_or("base env not in universe")?;
        // ---- partial request
        let pu = uid_from_wire(&base_w["req"]["principal"])?;
        let ru = uid_from_wire(&base_w["req"]["resource"])?;
        let principal = if erase.contains("pid") {
            PartialEntityUid::new(pu.entity_type().clone().into(), None)
        } else {
            PartialEntityUid::from_concrete(pu.clone().into())
        };
        let resource = PartialEntityUid::from_concrete(ru.clone().into());
        let action: EntityUid = uid_from_wire(&base_w["req"]["action"])?.into();
        let context = if erase.contains("ctx") { None } else { Some(context_from_wire(&base_w["req"]["context"])?.into()) };
        let preq = PartialRequest::new(principal, action, resource, context, schema).map_err(|e| format!("partial request: {e}"))?;
        // ---- partial entities
        let mut pents = vec![];
        for e in base_w["store"].as_array().ok_or("store")? {
            let u = uid_from_wire(&e["uid"])?;
            if u.entity_type().is_action() {
                continue;
            }
            let name: &str = u.eid().as_ref();
            if (name == "u1" && erase.contains("u1gone")) || (name == "u2" && erase.contains("u2gone")) {
                continue;
            }
            let attrs = if (name == "u1" && erase.contains("u1attrs")) || (name == "d" && erase.contains("dattrs")) { None } else { Some(rexprs(&e["attrs"])?) };
            let anc = if name == "u1" && erase.contains("u1anc") {
                None
            } else {
                let mut hs = HashSet::new();
                for a in e["anc"].as_array().ok_or("anc")? {
                    hs.insert(EntityUid::from(uid_from_wire(a)?));
                }
                Some(hs)
            };
            let tags = if name == "u1" && erase.contains("u1tags") {
                None
            } else {
                let mut m = BTreeMap::new();
                for t in e["tags"].as_array().ok_or("tags")? {
                    m.insert(SmolStr::from(str_from_wire(&t[0])?), RestrictedExpression::from(rexpr_from_wire(&t[1])?));
                }
                Some(m)
            };
            pents.push(PartialEntity::new(u.into(), attrs, anc, tags, schema).map_err(|x| format!("partial entity: {x}"))?);
        }
        let pentities = PartialEntities::from_partial_entities(pents, schema).map_err(|x| format!("partial entities: {x}"))?;
        // ---- TPE
        let resp = match ps.tpe(&preq, &pentities, schema) {
            Ok(r) => r,
            Err(e) => return Ok(json!({"ev": "Tpe", "tpeError": e.to_string(), "pols": with_record_keys(&case["pols"]), "base": case["base"], "erase": case["erase"]})),
        };
        let mut class = Map::new();
        for (k, it) in [
            ("true", resp.true_permits().chain(resp.true_forbids()).cloned().collect::<Vec<_>>()),
            ("false", resp.false_permits().chain(resp.false_forbids()).cloned().collect::<Vec<_>>()),
            ("error", resp.error_permits().chain(resp.error_forbids()).cloned().collect::<Vec<_>>()),
            ("residual", resp.residual_permits().chain(resp.residual_forbids()).cloned().collect::<Vec<_>>()),
        ] {
            for id in it {
                class.insert(id.to_string(), json!(k));
            }
        }
        // every view of the residuals
        let mut views = Map::new();
        let pset_view = resp.policy_set();
        let resid_ids: BTreeSet<String> = resp.residual_policies().map(|p| p.id().to_string()).collect();
        for id in back.keys() {
            let pid = PolicyId::new(id);
            let mut v = Map::new();
            v.insert("policies".into(), resp.policies().find(|p| p.id() == &pid).map(|p| cond_wire(&p)).unwrap_or(json!({"effect": "absent", "cond": []})));
            v.insert("policy_set".into(), pset_view.policy(&pid).map(cond_wire).unwrap_or(json!({"effect": "absent", "cond": []})));
            v.insert("get_policy".into(), resp.get_policy(&pid).map(|p| cond_wire(&p)).unwrap_or(json!({"effect": "absent", "cond": []})));
            v.insert("residual_policies".into(), resp.residual_policies().find(|p| p.id() == &pid).map(|p| cond_wire(&p)).unwrap_or(json!({"effect": "absent", "cond": []})));
            views.insert(id.clone(), J::Object(v));
        }
        // ---- every completion: reauthorize with the concrete request and entities
        let mut reauth = vec![];
        for cp in case["compl"].as_array().ok_or("compl")? {
            let (_, creq, cents) = setup.envs.get(&cp.to_string()).ok_or("completion not in universe")?;
            reauth.push(match resp.reauthorize(creq, cents) {
                Ok(r) => response_to_wire(&r, &back),
                Err(e) => json!({"error": e.to_string()}),
            });
        }
        let mut out = json!({
            "ev": "Tpe", "pols": with_record_keys(&case["pols"]), "base": case["base"], "erase": case["erase"], "compl": case["compl"],
            "decision": match resp.decision() { Some(Decision::Allow) => "Allow", Some(Decision::Deny) => "Deny", None => "None" },
            "class": class, "views": views, "residualIds": resid_ids, "reauth": reauth,
        });
        if let Some(id) = case.get("id") {
            out["id"] = id.clone();
        }
        Ok(out)
    })
}

pub fn drive(_seed: u64, _n: usize) -> Vec<J> {
    vec![]
}

// ---------------------------------------------------------------- permission queries (C14)
pub fn run_query(case: &J) -> R<J> {
    use cedar_policy::{ActionQueryRequest, PrincipalQueryRequest, ResourceQueryRequest};
    if let Some(s) = case.get("setup") {
        return do_setup(s);
    }
    TSETUP.with(|cell| {
        let b = cell.borrow();
        let setup = b.as_ref().ok_or("no setup")?;
        let schema = &setup.schema;
        let mut ps = PolicySet::new();
        for p in case["pols"].as_array().ok_or("pols")? {
            add_policy(&mut ps, p, p["id"].as_str().ok_or("id")?, 0)?;
        }
        let (base_w, _, ents) = setup.envs.get(&case["base"].to_string()).ok_or("base env not in universe")?;
        let pu: EntityUid = uid_from_wire(&base_w["req"]["principal"])?.into();
        let ru: EntityUid = uid_from_wire(&base_w["req"]["resource"])?.into();
        let au: EntityUid = uid_from_wire(&base_w["req"]["action"])?.into();
        let ctx = || -> R<cedar_policy::Context> { Ok(context_from_wire(&base_w["req"]["context"])?.into()) };
        let mut qerr: Vec<J> = vec![];
        let sorted = |mut v: Vec<J>| -> J {
            v.sort_by_key(|x| x.to_string());
            J::Array(v)
        };
        let resource = match ResourceQueryRequest::new(pu.clone(), au.clone(), ru.type_name().clone(), ctx()?, schema) {
            Ok(rq) => match ps.query_resource(&rq, ents, schema) {
                Ok(it) => sorted(it.map(|u| uid_to_wire(u.as_ref())).collect()),
                Err(e) => { qerr.push(json!(e.to_string())); json!([]) }
            },
            Err(e) => { qerr.push(json!(e.to_string())); json!([]) }
        };
        let principal = match PrincipalQueryRequest::new(pu.type_name().clone(), au.clone(), ru.clone(), ctx()?, schema) {
            Ok(rq) => match ps.query_principal(&rq, ents, schema) {
                Ok(it) => sorted(it.map(|u| uid_to_wire(u.as_ref())).collect()),
                Err(e) => { qerr.push(json!(e.to_string())); json!([]) }
            },
            Err(e) => { qerr.push(json!(e.to_string())); json!([]) }
        };
        let pents = PartialEntities::from_concrete(ents.clone(), schema).map_err(|e| format!("from_concrete: {e}"))?;
        let actions = match ActionQueryRequest::new(PartialEntityUid::from_concrete(pu), PartialEntityUid::from_concrete(ru), None, schema.clone()) {
            Ok(rq) => match ps.query_action(&rq, &pents) {
                Ok(it) => sorted(
                    it.map(|(a, d)| json!([uid_to_wire(a.as_ref()), match d { Some(Decision::Allow) => "Allow", Some(Decision::Deny) => "Deny", None => "None" }]))
                        .collect(),
                ),
                Err(e) => { qerr.push(json!(e.to_string())); json!([]) }
            },
            Err(e) => { qerr.push(json!(e.to_string())); json!([]) }
        };
        Ok(json!({"ev": "Query", "id": case.get("id").cloned().unwrap_or(json!(0)), "pols": with_record_keys(&case["pols"]), "base": case["base"],
                  "resource": resource, "principal": principal, "actions": actions, "qerr": qerr}))
    })
}
