------------------------- MODULE Trace_SchemaSyntax -------------------------
(***************************************************************************)
(* Trace specification for family "schemasyn" (C09).  One event = one      *)
(* unresolved abstract schema s, the outcome of loading its JSON rendering *)
(* (J) and its Cedar rendering (C), of every library translation followed  *)
(* by a reload (JC, JJ, CJ, CC, CR) and the library's own `==` between the *)
(* loaded schemas.  Every loaded schema is a projection of ValidatorSchema.*)
(*   - s denotes something (ScOk)  => J loads and means ScResolve(s); C too *)
(*     when s can be written in the Cedar syntax;                          *)
(*   - s denotes nothing           => neither rendering loads;             *)
(*   - a translation that succeeds must reload, and to the same schema as  *)
(*     its source ("translate" errors are allowed by the property);        *)
(*   - the library's == never says "different".                            *)
(***************************************************************************)
EXTENDS SchemaSyntax, Json, IOUtils

Rec == ndJsonDeserialize(IOEnv.TRACE)
VARIABLES l, bad, kf

SsSet(t) == {t[i] : i \in 1..Len(t)}
SsFromWire(w) ==
  [ns \in DOMAIN w |->
     [cts |-> w[ns].cts,
      ets |-> [b \in DOMAIN w[ns].ets |-> LET e == w[ns].ets[b]
                 IN [enum |-> e.enum, memberOf |-> SsSet(e.memberOf), attrs |-> e.attrs, tags |-> e.tags]],
      acts |-> [id \in DOMAIN w[ns].acts |-> LET a == w[ns].acts[id]
                 IN [memberOf |-> SsSet(a.memberOf), applies |-> a.applies, principals |-> SsSet(a.principals),
                     resources |-> SsSet(a.resources), context |-> a.context]]]]

\* projection of a loaded ValidatorSchema -> the canonical comparison form of SchemaSyntax!ScCanon
\* (an empty JSON object arrives as an empty RECORD, which TLC refuses to compare with the empty tuple/function the
\*  specification builds: every attribute map is rebuilt as a function)
RECURSIVE SsNormT(_)
SsNormA(a) == [k \in DOMAIN a |-> <<SsNormT(a[k][1]), a[k][2]>>]
SsNormT(t) ==
  CASE t[1] \in {"Record", "OpenRecord"} -> <<t[1], SsNormA(t[2])>>
    [] t[1] = "Set" -> <<"Set", SsNormT(t[2])>>
    [] OTHER -> t
SsProj(p) ==
  [ets |-> {LET e == p.ets[i] IN <<e.name, SsNormA(e.attrs), SsNormT(e.tags), SsSet(e.desc), e.enum>> : i \in 1..Len(p.ets)},
   acts |-> {LET a == p.acts[i] IN <<a.ty, a.id, SsSet(a.principals), SsSet(a.resources), SsNormT(a.context),
                                     {<<a.desc[j][1], a.desc[j][2]>> : j \in 1..Len(a.desc)}>> : i \in 1..Len(p.acts)}]

\* what the Cedar syntax can say: every type reference admits both kinds, a context written as a bare name
\* admits common types only, an appliesTo has a non-empty principal and a non-empty resource list (an action
\* with one of them empty can only be written as an action without appliesTo)
RECURSIVE SsEraseT(_)
SsEraseT(t) ==
  CASE t[1] = "Ref" -> <<"Ref", "eoc", t[3], t[4]>>
    [] t[1] = "Set" -> <<"Set", SsEraseT(t[2])>>
    [] t[1] = "Record" -> <<"Record", [k \in DOMAIN t[2] |-> <<SsEraseT(t[2][k][1]), t[2][k][2]>>]>>
    [] OTHER -> t
SsErase(s) ==
  [ns \in DOMAIN s |->
     [cts |-> [b \in DOMAIN s[ns].cts |-> SsEraseT(s[ns].cts[b])],
      ets |-> [b \in DOMAIN s[ns].ets |-> [s[ns].ets[b] EXCEPT !.attrs = [k \in DOMAIN @ |-> <<SsEraseT(@[k][1]), @[k][2]>>],
                                                              !.tags = IF @ = <<"none">> THEN @ ELSE SsEraseT(@)]],
      acts |-> [id \in DOMAIN s[ns].acts |->
                 LET a == s[ns].acts[id]
                 IN IF a.applies /\ (a.principals = {} \/ a.resources = {})
                    THEN [a EXCEPT !.applies = FALSE, !.principals = {}, !.resources = {}, !.context = <<"Record", <<>>>>]
                    ELSE [a EXCEPT !.context = IF @[1] = "Ref" THEN <<"Ref", "common", @[3], @[4]>> ELSE SsEraseT(@)]]]]

Has(ev, k) == k \in DOMAIN ev.steps
Loaded(ev, k) == Has(ev, k) /\ ev.steps[k][1] = "ok"
PrOf(ev, k) == SsProj(ev.steps[k][2])
\* a translation step (src --library--> other syntax --load-->)
\* (the property speaks about schemas that ARE accepted: nothing is demanded when the source did not load)
TranslOk(ev, k, src) ==
  LET r == ev.steps[k]
  IN Loaded(ev, src) =>
       CASE r[1] = "ok" -> PrOf(ev, k) = PrOf(ev, src)
         [] r[1] = "err" /\ r[2] = "translate" -> TRUE
         [] OTHER -> FALSE

\* annotations (style bit 2 of the renderers: two on every non-empty namespace, common type, entity type, action):
\* every fragment - rendered, translated, re-translated - carries exactly those, with the same keys and values
AnnCount(s) == Cardinality(DOMAIN s \ {""}) + Cardinality(ScuComPairs(s)) + Cardinality(ScuEntPairs(s)) + Cardinality(ScuActPairs(s))
AnnOk(ev, s) ==
  LET want == IF (ev.style \div 4) % 2 = 1 THEN 2 * AnnCount(s) ELSE 0
  IN /\ \A k \in DOMAIN ev.ann : Len(ev.ann[k]) = want
     /\ \A k1, k2 \in DOMAIN ev.ann : ev.ann[k1] = ev.ann[k2]

Core(ev, withJC) ==
  LET s == SsFromWire(ev.s)
      ok == ScOk(s)
      exp == ScCanon(ScResolve(s))
      cx == ScCedarExpressible(s)
  IN /\ Has(ev, "J") /\ Has(ev, "C")
     /\ AnnOk(ev, s)
     /\ IF ok THEN Loaded(ev, "J") /\ PrOf(ev, "J") = exp ELSE ~Loaded(ev, "J")
     /\ (ev.steps["C"][1] = "na") <=> ~cx
     /\ cx => (IF ok THEN Loaded(ev, "C") /\ PrOf(ev, "C") = exp ELSE ~Loaded(ev, "C"))
     /\ \A k \in {"JJ"} \cup (IF withJC THEN {"JC"} ELSE {}) : Has(ev, k) => TranslOk(ev, k, "J")
     /\ \A k \in {"CJ", "CC", "CR"} : Has(ev, k) => TranslOk(ev, k, "C")
     /\ \A k \in DOMAIN ev.lib_eq : (withJC \/ k # "J=JC") => ev.lib_eq[k]

\* Known-finding class "to_cedarschema is silently lossy": the JSON syntax can restrict a reference to
\* entity types ({"type":"Entity"}) or to common types ({"type": name}) and can give an action an appliesTo
\* with one empty list; to_cedarschema prints the bare name (admits both kinds) resp. no appliesTo at all,
\* without reporting an error, so the printed schema denotes ScResolve(SsErase(s)) instead of ScResolve(s).
IsKnownFinding(ev) ==
  /\ ev.ev = "SchemaSyn" /\ ~Core(ev, TRUE) /\ Core(ev, FALSE)
  /\ LET s == SsFromWire(ev.s)
         er == SsErase(s)
     IN /\ ScOk(s) /\ Has(ev, "JC") /\ (ev.steps["JC"][1] # "err" \/ ev.steps["JC"][2] = "load")
        /\ IF ScOk(er) THEN ScCanon(ScResolve(er)) # ScCanon(ScResolve(s)) /\ Loaded(ev, "JC") /\ PrOf(ev, "JC") = ScCanon(ScResolve(er))
           ELSE ~Loaded(ev, "JC")

\* T binding: a schema file of the repository.  No abstract schema is known, so only the relation the property states is
\* judged: every translation of a loadable file that succeeds reloads to the same schema (projection and library ==);
\* translating the translation back does too.
FileOk(ev) ==
  /\ Has(ev, "S")
  /\ \A k \in DOMAIN ev.steps \ {"S"} : TranslOk(ev, k, "S")
  /\ \A k \in DOMAIN ev.lib_eq : ev.lib_eq[k]
Explained(ev) == IF ev.ev = "SchemaFile" THEN FileOk(ev) ELSE ev.ev = "SchemaSyn" /\ (Core(ev, TRUE) \/ IsKnownFinding(ev))

Init == l = 1 /\ bad = {} /\ kf = {}
Next == /\ l <= Len(Rec)
        /\ l' = l + 1
        /\ bad' = IF Explained(Rec[l]) THEN bad ELSE bad \cup {l}
        /\ kf' = IF Rec[l].ev = "SchemaSyn" /\ IsKnownFinding(Rec[l]) THEN kf \cup {l} ELSE kf
Report == (l = Len(Rec) + 1) => (PrintT(<<"TRACE-RESULT", Len(Rec), bad>>) /\ PrintT(<<"TRACE-KF", kf>>))
Accepted == TLCGet("stats").diameter = Len(Rec) + 1
==============================================================================
