CONSTANTS AllUids = {1, 2, 3}
  Budget = 4
INIT BInit
NEXT BNext
INVARIANT Inv
INVARIANT NeverStuck
CHECK_DEADLOCK FALSE
