------------------------------ MODULE CedarAuthz ------------------------------
(***************************************************************************)
(* Policies and the authorization decision.                                *)
(*                                                                         *)
(* A policy is a record                                                    *)
(*   [id, effect \in {"permit","forbid"}, principal, action, resource      *)
(*    (scope constraints), conds (tuple of <<"when"|"unless", expr>>),     *)
(*    slots (function from slot name to entity; empty for static ones)]    *)
(* Scope constraints:                                                      *)
(*   <<"any">> <<"eq", ent>> <<"in", ent>> <<"is", type>>                  *)
(*   <<"isin", type, ent>> <<"inset", <<ents>>>> (action only)             *)
(*   <<"eqslot">> <<"inslot">> <<"isinslot", type>>  (templates)           *)
(***************************************************************************)
EXTENDS CedarExpr

Var(n) == <<"var", n>>
Lit(v) == <<"lit", v>>
EntSetExpr(es) == <<"set", [i \in 1..Len(es) |-> Lit(es[i])]>>

ScopeExpr(v, c) ==
  CASE c[1] = "any" -> Lit(TrueV)
    [] c[1] = "eq" -> <<"bin", "eq", Var(v), Lit(c[2])>>
    [] c[1] = "in" -> <<"bin", "in", Var(v), Lit(c[2])>>
    [] c[1] = "is" -> <<"is", Var(v), c[2]>>
    [] c[1] = "isin" -> <<"and", <<"is", Var(v), c[2]>>, <<"bin", "in", Var(v), Lit(c[3])>>>>
    [] c[1] = "inset" -> <<"bin", "in", Var(v), EntSetExpr(c[2])>>
    [] c[1] = "eqslot" -> <<"bin", "eq", Var(v), <<"slot", v>>>>
    [] c[1] = "inslot" -> <<"bin", "in", Var(v), <<"slot", v>>>>
    [] c[1] = "isinslot" -> <<"and", <<"is", Var(v), c[2]>>, <<"bin", "in", Var(v), <<"slot", v>>>>>>

CondExpr(c) == IF c[1] = "when" THEN c[2] ELSE <<"not", c[2]>>

RECURSIVE CondsFrom(_, _)
CondsFrom(cs, i) ==
  IF i > Len(cs) THEN Lit(TrueV)
  ELSE IF i = Len(cs) THEN CondExpr(cs[i])
  ELSE <<"and", CondExpr(cs[i]), CondsFrom(cs, i + 1)>>

\* scope && conditions, evaluated left to right
Condition(p) ==
  <<"and", ScopeExpr("principal", p.principal),
    <<"and", ScopeExpr("action", p.action),
      <<"and", ScopeExpr("resource", p.resource), CondsFrom(p.conds, 1)>>>>>>

\* Slots used by a template's scope
SlotsOf(p) == (IF p.principal[1] \in {"eqslot", "inslot", "isinslot"} THEN {"principal"} ELSE {})
         \cup (IF p.resource[1] \in {"eqslot", "inslot", "isinslot"} THEN {"resource"} ELSE {})

\* Linking as syntactic substitution: the static policy with the entity written in place of the slot
SubstScope(c, ent) ==
  CASE c[1] = "eqslot" -> <<"eq", ent>>
    [] c[1] = "inslot" -> <<"in", ent>>
    [] c[1] = "isinslot" -> <<"isin", c[2], ent>>
    [] OTHER -> c
LinkBySubstitution(t, newId, env) ==
  [t EXCEPT !.id = newId,
            !.principal = IF "principal" \in DOMAIN env THEN SubstScope(t.principal, env["principal"]) ELSE t.principal,
            !.resource = IF "resource" \in DOMAIN env THEN SubstScope(t.resource, env["resource"]) ELSE t.resource,
            !.slots = <<>>]

\* "sat" / "unsat" / "err"
Outcome(p, req, store) ==
  LET r == Eval(Condition(p), req, store, p.slots)
  IN IF ~IsOk(r) THEN "err" ELSE IF r[2] = TrueV THEN "sat" ELSE "unsat"

\* Decision algebra over a set of <<id, effect, outcome>> triples
SatIds(T, eff) == {t[1] : t \in {u \in T : u[2] = eff /\ u[3] = "sat"}}
DecisionOf(T) == IF SatIds(T, "permit") # {} /\ SatIds(T, "forbid") = {} THEN "Allow" ELSE "Deny"
ReasonsOf(T) == IF SatIds(T, "forbid") # {} THEN SatIds(T, "forbid") ELSE SatIds(T, "permit")
ErrorsOf(T) == {t[1] : t \in {u \in T : u[3] = "err"}}
ResponseOf(T) == [decision |-> DecisionOf(T), reasons |-> ReasonsOf(T), errors |-> ErrorsOf(T)]

\* P : a set of policies (ids distinct)
Triples(P, req, store) == {<<p.id, p.effect, Outcome(p, req, store)>> : p \in P}
Authorize(P, req, store) == ResponseOf(Triples(P, req, store))
=============================================================================
