------------------------ MODULE MC_EntityStoreRepair ------------------------
(* Exhaustive refinement check of EntityStoreRepair against EntityStore:   *)
(* every reachable stored state x every operation x every argument x every *)
(* iteration order of the hash containers.                                  *)
EXTENDS EntityStoreRepair, FiniteSets

CONSTANTS NU,      \* number of uids
          MaxB,    \* longest batch / removal sequence
          Vals,    \* data versions (only duplicate detection looks at them)
          AllOrders \* TRUE: every iteration order; FALSE: ascending and descending only
VARIABLE I
Uids == 1..NU
Perms == IF AllOrders THEN {p \in [1..NU -> Uids] : \A i, j \in 1..NU : i # j => p[i] # p[j]}
         ELSE {[i \in 1..NU |-> i], [i \in 1..NU |-> NU + 1 - i]}
Entries == {<<u, p, v>> : u \in Uids, p \in SUBSET Uids, v \in Vals}
SeqsOver(S, n) == UNION {[1..k -> S] : k \in 1..n}
Batches == SeqsOver(Entries, MaxB)
Removals == {s \in SeqsOver(Uids, MaxB) : \A i, j \in DOMAIN s : i # j => s[i] # s[j]}

Init == I = <<>>
Step(op, arg, ord) ==
  /\ Assert(Refines(I, op, arg, ord), <<"the incremental repair does not refine EntityStore", I, op, arg, ord>>)
  /\ LET r == ApplyImpl(I, op, arg, ord) IN I' = IF r[1] = "ok" THEN r[2] ELSE I
Next == \E ord \in Perms :
          \/ \E b \in Batches : Step("add", b, ord) \/ Step("upsert", b, ord)
          \/ \E s \in Removals : Step("remove", s, ord)
Inv == ClosedI(I) /\ Acyclic(AbsI(I))
==============================================================================
