------------------------------ MODULE MC_Symcc ------------------------------
(* Case generator for C18: strictly valid policy sets (and pairs of sets) over *)
(* Sc2, each compiled against the literal symbolic environment of 10 concrete   *)
(* environments.                                                                *)
EXTENDS MC_TpePols, Json
VARIABLES coord, c
EnvChoices == { <<TRUE, "u2", TRUE, TRUE, "g", TRUE, "u1", 3, "u1">>, <<FALSE, "none", FALSE, FALSE, "no", FALSE, "u2", 2, "u1">>,
                <<TRUE, "u3", FALSE, TRUE, "no", FALSE, "u1", 5, "u1">>, <<FALSE, "u2", TRUE, FALSE, "g", TRUE, "u2", 1, "u2">>,
                <<TRUE, "u2", FALSE, FALSE, "g", FALSE, "u2", 4, "u1">>, <<FALSE, "u3", TRUE, TRUE, "no", TRUE, "u1", 1, "u2">>,
                <<TRUE, "none", TRUE, FALSE, "no", TRUE, "u2", 5, "u2">>, <<FALSE, "u2", FALSE, TRUE, "g", FALSE, "u1", 3, "u1">>,
                <<TRUE, "u2", TRUE, TRUE, "no", TRUE, "u2", 1, "u1">>, <<TRUE, "u2", TRUE, FALSE, "g", TRUE, "u1", 2, "u2">> }
Seconds == {<<WithId(TP[i], "q1", "permit")>> : i \in {8, 14, 20, 21}} \cup {<<WithId(TP[16], "q1", "permit"), WithId(TP[1], "q2", "forbid")>>}
Coords == 1..8
CasesOf(k) == {[pols |-> ps, pols2 |-> qs, envs |-> EnvChoices] : ps \in {x \in PolSets : SetHash(x) % 8 = k - 1}, qs \in Seconds}
Init == coord \in Coords /\ c = <<>>
Next == c = <<>> /\ c' \in CasesOf(coord) /\ UNCHANGED coord
Dump == PrintT("CASE " \o ToJson(c'))
ASSUME PrintT("WORLD " \o ToJson([schema |-> Sc2, envs |-> {[params |-> p, env |-> WireEnv(EnvP(p))] : p \in EnvChoices}]))
==============================================================================
