--------------------------------- MODULE Est ---------------------------------
(***************************************************************************)
(* The JSON policy format (EST) as a function of the abstract policy (C06).*)
(* EstOf(p) is a TLA+ value that ToJson renders as the documented JSON:    *)
(* operator keys, `.`/has with attr, like with Wildcard / Literal pattern  *)
(* elements, is with optional in, extension calls as single-key objects,   *)
(* Value / Var / Slot leaves, a conditions list, annotations.  Long and    *)
(* string leaves are emitted as {"__long": i64} / {"__str": code points}   *)
(* markers that the harness side replaces by the JSON number / string.     *)
(***************************************************************************)
EXTENDS CedarAuthz, TLC

K1(k, v) == (k :> v)
LR(a, b) == [left |-> a, right |-> b]
EstLit(v) ==
  CASE v[1] = "bool" -> [Value |-> v[2]]
    [] v[1] = "long" -> [Value |-> [__long |-> v[2]]]
    [] v[1] = "str" -> [Value |-> [__str |-> v[2]]]
    [] v[1] = "ent" -> [Value |-> [__entity |-> [type |-> v[2], id |-> v[3]]]]
BinKey(op) == CASE op = "eq" -> "==" [] op = "less" -> "<" [] op = "lessEq" -> "<=" [] op = "add" -> "+" [] op = "sub" -> "-" [] op = "mul" -> "*" [] OTHER -> op
PatElem(x) == IF x = Star THEN "Wildcard" ELSE [Literal |-> [__str |-> <<x>>]]

RECURSIVE EstExpr(_)
EstExpr(e) ==
  CASE e[1] = "lit" -> EstLit(e[2])
    [] e[1] = "var" -> [Var |-> e[2]]
    [] e[1] = "slot" -> [Slot |-> IF e[2] = "principal" THEN "?principal" ELSE "?resource"]
    [] e[1] = "if" -> K1("if-then-else", K1("if", EstExpr(e[2])) @@ K1("then", EstExpr(e[3])) @@ K1("else", EstExpr(e[4])))
    [] e[1] = "and" -> K1("&&", LR(EstExpr(e[2]), EstExpr(e[3])))
    [] e[1] = "or" -> K1("||", LR(EstExpr(e[2]), EstExpr(e[3])))
    [] e[1] = "not" -> K1("!", [arg |-> EstExpr(e[2])])
    [] e[1] = "neg" -> [neg |-> [arg |-> EstExpr(e[2])]]
    [] e[1] = "isEmpty" -> [isEmpty |-> [arg |-> EstExpr(e[2])]]
    [] e[1] = "bin" -> K1(BinKey(e[2]), LR(EstExpr(e[3]), EstExpr(e[4])))
    [] e[1] = "call" -> K1(e[2], [i \in 1..Len(e[3]) |-> EstExpr(e[3][i])])
    [] e[1] = "get" -> K1(".", [left |-> EstExpr(e[2]), attr |-> e[3]])
    [] e[1] = "has" -> [has |-> [left |-> EstExpr(e[2]), attr |-> e[3]]]
    [] e[1] = "like" -> [like |-> [left |-> EstExpr(e[2]), pattern |-> [i \in 1..Len(e[3]) |-> PatElem(e[3][i])]]]
    [] e[1] = "is" -> K1("is", [left |-> EstExpr(e[2]), entity_type |-> e[3]])
    [] e[1] = "set" -> [Set |-> [i \in 1..Len(e[2]) |-> EstExpr(e[2][i])]]
    [] e[1] = "record" -> [Record |-> [k \in DOMAIN e[2] |-> EstExpr(e[2][k])]]

\* ---- alternative JSON spellings of the same policy: a has-chain written with an attr
\* array, sets / records of literals and extension constructors written as one Value
GetPath(b, as) == IF Len(as) = 0 THEN b ELSE
  LET RECURSIVE G(_) G(k) == IF k = 0 THEN b ELSE <<"get", G(k - 1), as[k]>> IN G(Len(as))
RECURSIVE ChainOf(_)
ChainOf(e) ==
  IF e[1] = "has" THEN <<e[2], <<e[3]>>>>
  ELSE IF e[1] = "and" /\ e[3][1] = "has"
       THEN LET ch == ChainOf(e[2])
            IN IF Len(ch) = 2 /\ e[3][2] = GetPath(ch[1], ch[2]) THEN <<ch[1], Append(ch[2], e[3][3])>> ELSE <<>>
       ELSE <<>>
LitJson(v) ==
  CASE v[1] = "bool" -> v[2]
    [] v[1] = "long" -> [__long |-> v[2]]
    [] v[1] = "str" -> [__str |-> v[2]]
    [] v[1] = "ent" -> [__entity |-> [type |-> v[2], id |-> v[3]]]
AllLits(es) == \A i \in DOMAIN es : es[i][1] = "lit"
PlainKeys(r) == \A k \in DOMAIN r : k \notin {"__entity", "__extn", "__expr"}
RECURSIVE EstAlt(_)
EstAlt(e) ==
  CASE e[1] \in {"lit", "var", "slot"} -> EstExpr(e)
    [] e[1] = "if" -> K1("if-then-else", K1("if", EstAlt(e[2])) @@ K1("then", EstAlt(e[3])) @@ K1("else", EstAlt(e[4])))
    [] e[1] = "and" -> (LET ch == ChainOf(e)
                        IN IF Len(ch) = 2 THEN [has |-> [left |-> EstAlt(ch[1]), attr |-> ch[2]]]
                           ELSE K1("&&", LR(EstAlt(e[2]), EstAlt(e[3]))))
    [] e[1] = "or" -> K1("||", LR(EstAlt(e[2]), EstAlt(e[3])))
    [] e[1] = "not" -> K1("!", [arg |-> EstAlt(e[2])])
    [] e[1] = "neg" -> [neg |-> [arg |-> EstAlt(e[2])]]
    [] e[1] = "isEmpty" -> [isEmpty |-> [arg |-> EstAlt(e[2])]]
    [] e[1] = "bin" -> K1(BinKey(e[2]), LR(EstAlt(e[3]), EstAlt(e[4])))
    [] e[1] = "call" -> (IF e[2] \in {"decimal", "ip", "datetime", "duration"} /\ Len(e[3]) = 1 /\ e[3][1][1] = "lit" /\ e[3][1][2][1] = "str"
                         THEN [Value |-> [__extn |-> [fn |-> e[2], arg |-> [__str |-> e[3][1][2][2]]]]]
                         ELSE K1(e[2], [i \in 1..Len(e[3]) |-> EstAlt(e[3][i])]))
    [] e[1] = "get" -> K1(".", [left |-> EstAlt(e[2]), attr |-> e[3]])
    [] e[1] = "has" -> [has |-> [left |-> EstAlt(e[2]), attr |-> <<e[3]>>]]
    [] e[1] = "like" -> [like |-> [left |-> EstAlt(e[2]), pattern |-> [i \in 1..Len(e[3]) |-> PatElem(e[3][i])]]]
    [] e[1] = "is" -> K1("is", [left |-> EstAlt(e[2]), entity_type |-> e[3]])
    [] e[1] = "set" -> (IF AllLits(e[2]) THEN [Value |-> [i \in 1..Len(e[2]) |-> LitJson(e[2][i][2])]]
                        ELSE [Set |-> [i \in 1..Len(e[2]) |-> EstAlt(e[2][i])]])
    [] e[1] = "record" -> (IF AllLits(e[2]) /\ PlainKeys(e[2]) /\ DOMAIN e[2] # {} THEN [Value |-> [k \in DOMAIN e[2] |-> LitJson(e[2][k][2])]]
                           ELSE [Record |-> [k \in DOMAIN e[2] |-> EstAlt(e[2][k])]])

EntJ(u) == [type |-> u[2], id |-> u[3]]
EstScope(v, c) ==
  CASE c[1] = "any" -> [op |-> "All"]
    [] c[1] = "eq" -> [op |-> "==", entity |-> EntJ(c[2])]
    [] c[1] = "in" -> [op |-> "in", entity |-> EntJ(c[2])]
    [] c[1] = "is" -> [op |-> "is", entity_type |-> c[2]]
    [] c[1] = "isin" -> K1("op", "is") @@ K1("entity_type", c[2]) @@ K1("in", [entity |-> EntJ(c[3])])
    [] c[1] = "inset" -> [op |-> "in", entities |-> [i \in 1..Len(c[2]) |-> EntJ(c[2][i])]]
    [] c[1] = "eqslot" -> [op |-> "==", slot |-> "?" \o v]
    [] c[1] = "inslot" -> [op |-> "in", slot |-> "?" \o v]
    [] c[1] = "isinslot" -> K1("op", "is") @@ K1("entity_type", c[2]) @@ K1("in", [slot |-> "?" \o v])

\* p.annotations : tuple of <<key, value code points>>
EstOf(p) ==
  [effect |-> p.effect,
   principal |-> EstScope("principal", p.principal),
   action |-> EstScope("action", p.action),
   resource |-> EstScope("resource", p.resource),
   conditions |-> [i \in 1..Len(p.conds) |-> [kind |-> p.conds[i][1], body |-> EstExpr(p.conds[i][2])]],
   annotations |-> [k \in {p.annotations[i][1] : i \in 1..Len(p.annotations)} |->
                      [__str |-> (CHOOSE a \in {p.annotations[i] : i \in 1..Len(p.annotations)} : a[1] = k)[2]]]]
EstAltOf(p) == [EstOf(p) EXCEPT !.conditions = [i \in 1..Len(p.conds) |-> [kind |-> p.conds[i][1], body |-> EstAlt(p.conds[i][2])]]]
==============================================================================
