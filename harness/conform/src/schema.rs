//! Abstract schema (spec/Schema.tla wire form) -> cedar JSON schema, and
//! wire values/entities -> cedar entity JSON (explicit `__entity`/`__extn` forms).

use crate::abs::*;
use serde_json::{json, Map, Value as J};

pub fn type_json(ty: &J) -> R<J> {
    let a = ty.as_array().ok_or("type")?;
    Ok(match a[0].as_str().ok_or("type tag")? {
        "Bool" => json!({"type": "Boolean"}),
        "Long" => json!({"type": "Long"}),
        "String" => json!({"type": "String"}),
        "Entity" => json!({"type": "Entity", "name": a[1]}),
        "Set" => json!({"type": "Set", "element": type_json(&a[1])?}),
        "Record" => json!({"type": "Record", "attributes": attrs_json(&a[1])?}),
        "Ext" => json!({"type": "Extension", "name": a[1]}),
        t => return err(format!("type_json: {t}")),
    })
}

pub fn attrs_json(attrs: &J) -> R<J> {
    let mut m = Map::new();
    for (k, v) in as_obj(attrs)?.iter() {
        let mut t = type_json(&v[0])?;
        t["required"] = json!(v[1].as_bool().ok_or("required flag")?);
        m.insert(k.clone(), t);
    }
    Ok(J::Object(m))
}

/// abstract schema -> cedar JSON schema.  An entity type named `A::B::T` is declared as `T` in namespace `A::B`
/// (references keep the full name); everything else, actions included, lives in the empty namespace.
pub fn schema_json(sc: &J) -> R<J> {
    let mut ets = Map::new();
    let mut other: std::collections::BTreeMap<String, Map<String, J>> = Default::default();
    for (name, et) in as_obj(&sc["ets"])?.iter() {
        let (ns, base) = match name.rfind("::") {
            Some(i) => (name[..i].to_string(), name[i + 2..].to_string()),
            None => (String::new(), name.clone()),
        };
        let ets: &mut Map<String, J> = if ns.is_empty() { &mut ets } else { other.entry(ns).or_default() };
        let name = &base;
        let en = et["enum"].as_array().ok_or("enum")?;
        if !en.is_empty() {
            ets.insert(name.clone(), json!({"enum": en}));
            continue;
        }
        let mut o = json!({
            "memberOfTypes": et["memberOf"],
            "shape": {"type": "Record", "attributes": attrs_json(&et["attrs"])?},
        });
        if et["tags"] != json!(["none"]) {
            o["tags"] = type_json(&et["tags"])?;
        }
        ets.insert(name.clone(), o);
    }
    let mut acts = Map::new();
    for (id, a) in as_obj(&sc["acts"])?.iter() {
        let mut o = json!({
            "memberOf": a["memberOf"].as_array().ok_or("memberOf")?.iter().map(|x| json!({"id": x})).collect::<Vec<_>>(),
        });
        if a["applies"].as_bool().ok_or("applies")? {
            o["appliesTo"] = json!({
                "principalTypes": a["principals"], "resourceTypes": a["resources"],
                "context": {"type": "Record", "attributes": attrs_json(&a["context"])?},
            });
        }
        acts.insert(id.clone(), o);
    }
    let mut doc = Map::new();
    doc.insert(String::new(), json!({"entityTypes": ets, "actions": acts}));
    for (ns, e) in other {
        doc.insert(ns, json!({"entityTypes": e, "actions": {}}));
    }
    Ok(J::Object(doc))
}

pub fn schema_of(sc: &J) -> R<cedar_policy::Schema> {
    cedar_policy::Schema::from_json_value(schema_json(sc)?).map_err(|e| format!("schema: {e}"))
}

/// wire value -> cedar JSON value with explicit escapes
pub fn value_cedar_json(v: &J) -> R<J> {
    let a = v.as_array().ok_or("value")?;
    Ok(match a[0].as_str().ok_or("tag")? {
        "bool" => a[1].clone(),
        "long" => json!(i64_from_wire(&a[1])?),
        "str" => json!(str_from_wire(&a[1])?),
        "ent" => json!({"__entity": {"type": a[1], "id": a[2]}}),
        "set" => J::Array(a[1].as_array().ok_or("set")?.iter().map(value_cedar_json).collect::<R<Vec<_>>>()?),
        "rec" => {
            let mut m = Map::new();
            for (k, x) in as_obj(&a[1])?.iter() {
                m.insert(k.clone(), value_cedar_json(x)?);
            }
            J::Object(m)
        }
        "ext" => {
            if a[1] == "datetime" {
                return err("datetime literal in JSON not supported by this renderer");
            }
            let (f, s) = ext_ctor_text(a)?;
            json!({"__extn": {"fn": f, "arg": s}})
        }
        t => return err(format!("value_cedar_json: {t}")),
    })
}

/// wire entity {uid, attrs, tags, anc} -> cedar entity JSON (anc given as parents)
pub fn entity_cedar_json(e: &J) -> R<J> {
    let mut attrs = Map::new();
    for (k, v) in as_obj(&e["attrs"])?.iter() {
        attrs.insert(k.clone(), value_cedar_json(v)?);
    }
    let mut tags = Map::new();
    if let Some(ts) = e.get("tags").and_then(|t| t.as_array()) {
        for t in ts {
            tags.insert(str_from_wire(&t[0])?, value_cedar_json(&t[1])?);
        }
    }
    let parents: Vec<J> = e["anc"]
        .as_array()
        .map(|a| a.iter().map(|p| json!({"type": p[1], "id": p[2]})).collect())
        .unwrap_or_default();
    let mut o = json!({"uid": {"type": e["uid"][1], "id": e["uid"][2]}, "attrs": attrs, "parents": parents});
    if !tags.is_empty() {
        o["tags"] = J::Object(tags);
    }
    Ok(o)
}

// ---------------------------------------------------------------- Cedar schema syntax
fn type_cedar(ty: &J) -> R<String> {
    let a = ty.as_array().ok_or("type")?;
    Ok(match a[0].as_str().ok_or("type tag")? {
        "Bool" => "Bool".into(),
        "Long" => "Long".into(),
        "String" => "String".into(),
        "Entity" => a[1].as_str().ok_or("entity name")?.to_string(),
        "Set" => format!("Set<{}>", type_cedar(&a[1])?),
        "Record" => attrs_cedar(&a[1])?,
        "Ext" => a[1].as_str().ok_or("ext name")?.to_string(),
        t => return err(format!("type_cedar: {t}")),
    })
}

fn attrs_cedar(attrs: &J) -> R<String> {
    let mut parts = vec![];
    for (k, v) in as_obj(attrs)?.iter() {
        let opt = if v[1].as_bool().ok_or("required")? { "" } else { "?" };
        parts.push(format!("\"{k}\"{opt}: {}", type_cedar(&v[0])?));
    }
    Ok(format!("{{ {} }}", parts.join(", ")))
}

/// abstract schema -> the human-readable Cedar schema syntax (independent renderer)
pub fn schema_cedar_text(sc: &J) -> R<String> {
    let mut s = String::new();
    for (name, et) in as_obj(&sc["ets"])?.iter() {
        let en = et["enum"].as_array().ok_or("enum")?;
        if !en.is_empty() {
            let ids: Vec<String> = en.iter().map(|x| format!("\"{}\"", x.as_str().unwrap_or(""))).collect();
            s.push_str(&format!("entity {name} enum [{}];\n", ids.join(", ")));
            continue;
        }
        let parents: Vec<String> = et["memberOf"].as_array().ok_or("memberOf")?.iter().filter_map(|x| x.as_str().map(String::from)).collect();
        let inp = if parents.is_empty() { String::new() } else { format!(" in [{}]", parents.join(", ")) };
        let tags = if et["tags"] != json!(["none"]) { format!(" tags {}", type_cedar(&et["tags"])?) } else { String::new() };
        s.push_str(&format!("entity {name}{inp} {}{tags};\n", attrs_cedar(&et["attrs"])?));
    }
    for (id, a) in as_obj(&sc["acts"])?.iter() {
        let groups: Vec<String> = a["memberOf"].as_array().ok_or("memberOf")?.iter().map(|x| format!("\"{}\"", x.as_str().unwrap_or(""))).collect();
        let inp = if groups.is_empty() { String::new() } else { format!(" in [{}]", groups.join(", ")) };
        if a["applies"].as_bool().ok_or("applies")? {
            let ps: Vec<String> = a["principals"].as_array().ok_or("principals")?.iter().filter_map(|x| x.as_str().map(String::from)).collect();
            let rs: Vec<String> = a["resources"].as_array().ok_or("resources")?.iter().filter_map(|x| x.as_str().map(String::from)).collect();
            s.push_str(&format!(
                "action \"{id}\"{inp} appliesTo {{ principal: [{}], resource: [{}], context: {} }};\n",
                ps.join(", "), rs.join(", "), attrs_cedar(&a["context"])?
            ));
        } else {
            s.push_str(&format!("action \"{id}\"{inp};\n"));
        }
    }
    Ok(s)
}
