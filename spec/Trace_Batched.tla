---------------------------- MODULE Trace_Batched ----------------------------
(* Trace specification for family "batched" (C15).  One event = a policy set, *)
(* an environment, a loader behaviour, and for every budget 0..n the outcome   *)
(* and the recorded loader calls (one call = one iteration of the loop).       *)
EXTENDS TypedWorld, Json, IOUtils
INSTANCE Batched WITH AllUids <- {}, Budget <- 0, loaded <- {}, iter <- 0, finished <- FALSE

Rec == ndJsonDeserialize(IOEnv.TRACE)
VARIABLES l, bad

ToSet(s) == {s[i] : i \in 1..Len(s)}
PolSet(ev) == {ev.pols[i] : i \in 1..Len(ev.pols)}

\* entity uids occurring in a wire expression (for the termination bound)
RECURSIVE UidsIn(_)
UidsIn(e) ==
  IF e[1] = "lit" THEN (IF e[2][1] = "ent" THEN {e[2]} ELSE {})
  ELSE IF e[1] \in {"var", "slot"} THEN {}
  ELSE IF e[1] \in {"and", "or"} THEN UidsIn(e[2]) \cup UidsIn(e[3])
  ELSE IF e[1] \in {"not", "neg", "isEmpty"} THEN UidsIn(e[2])
  ELSE IF e[1] = "if" THEN UidsIn(e[2]) \cup UidsIn(e[3]) \cup UidsIn(e[4])
  ELSE IF e[1] = "bin" THEN UidsIn(e[3]) \cup UidsIn(e[4])
  ELSE IF e[1] \in {"get", "has", "like", "is"} THEN UidsIn(e[2])
  ELSE IF e[1] = "set" THEN UNION {UidsIn(e[2][i]) : i \in 1..Len(e[2])}
  ELSE IF e[1] = "record" THEN UNION {UidsIn(e[2][k]) : k \in DOMAIN e[2]}
  ELSE IF e[1] = "call" THEN UNION {UidsIn(e[3][i]) : i \in 1..Len(e[3])}
  ELSE {}
RECURSIVE UidsInValue(_)
UidsInValue(v) ==
  CASE v[1] = "ent" -> {v}
    [] v[1] = "set" -> UNION {UidsInValue(x) : x \in v[2]}
    [] v[1] = "rec" -> UNION {UidsInValue(v[2][k]) : k \in DOMAIN v[2]}
    [] OTHER -> {}
UidsOfPolicy(p) == UidsIn(Condition(p))
UidsOfEnv(env) ==
  {env.req.principal, env.req.action, env.req.resource} \cup UidsInValue(env.req.context)
  \cup DOMAIN env.store
  \cup UNION {UNION {UidsInValue(env.store[u].attrs[k]) : k \in DOMAIN env.store[u].attrs} \cup env.store[u].anc
              \cup UNION {UidsInValue(t[2]) : t \in env.store[u].tags} : u \in DOMAIN env.store}

Calls(cs) == [i \in 1..Len(cs) |-> [req |-> ToSet(cs[i].req), ret |-> ToSet(cs[i].ret)]]

Explained(ev) ==
  IF ev.ev = "TpeSetup" THEN TRUE
  ELSE /\ ev.ev = "Batched"
       /\ LET env == EnvP(ev.params)
              expected == Authorize(PolSet(ev), env.req, env.store).decision
              nUids == Cardinality(UidsOfEnv(env) \cup UNION {UidsOfPolicy(p) : p \in PolSet(ev)})
          IN /\ OutcomesOk(ev.outcomes, expected, nUids)
             \* the loop itself: never more calls than the budget, never asks again for what it holds,
             \* the loader answered at least what was asked
             /\ \A b \in 1..Len(ev.calls) : LoopOk(Calls(ev.calls[b]), b - 1)

Init == l = 1 /\ bad = {}
Next == /\ l <= Len(Rec)
        /\ l' = l + 1
        /\ bad' = IF Explained(Rec[l]) THEN bad ELSE bad \cup {l}
Report == (l = Len(Rec) + 1) => PrintT(<<"TRACE-RESULT", Len(Rec), bad>>)
Accepted == TLCGet("stats").diameter = Len(Rec) + 1
==============================================================================
