---------------------------- MODULE CedarStrings ----------------------------
(***************************************************************************)
(* Cedar strings are sequences of Unicode scalar values (naturals).        *)
(* A `like` pattern is a sequence whose elements are either a scalar value *)
(* (a literal character, including a literal star written \* in source)    *)
(* or Star (= -1), the wildcard that matches any sequence of characters.   *)
(***************************************************************************)
EXTENDS Integers, Sequences

Star == 0 - 1

RECURSIVE LikeFrom(_, _, _, _)
LikeFrom(s, p, i, j) ==
  IF j > Len(p) THEN i > Len(s)
  ELSE IF p[j] = Star
       THEN LikeFrom(s, p, i, j + 1) \/ (i <= Len(s) /\ LikeFrom(s, p, i + 1, j))
       ELSE i <= Len(s) /\ s[i] = p[j] /\ LikeFrom(s, p, i + 1, j + 1)

Like(s, p) == LikeFrom(s, p, 1, 1)

\* ASCII helpers used by the extension parsers
IsDigit(c) == c >= 48 /\ c <= 57
DigitVal(c) == c - 48
AllDigits(s) == \A i \in 1..Len(s) : IsDigit(s[i])
Digits(s) == [i \in 1..Len(s) |-> DigitVal(s[i])]

\* index of first occurrence of c in s at or after i, 0 if none
RECURSIVE IndexFrom(_, _, _)
IndexFrom(s, c, i) == IF i > Len(s) THEN 0 ELSE IF s[i] = c THEN i ELSE IndexFrom(s, c, i + 1)
IndexOf(s, c) == IndexFrom(s, c, 1)
Count(s, c) == LET RECURSIVE Cnt(_)
                   Cnt(i) == IF i > Len(s) THEN 0 ELSE (IF s[i] = c THEN 1 ELSE 0) + Cnt(i + 1)
               IN Cnt(1)
Slice(s, a, b) == IF a > b THEN <<>> ELSE [i \in 1..(b - a + 1) |-> s[a + i - 1]]   \* s[a..b]

\* split on a separator character: sequence of pieces
RECURSIVE SplitFrom(_, _, _, _)
SplitFrom(s, c, start, i) ==
  IF i > Len(s) THEN <<Slice(s, start, Len(s))>>
  ELSE IF s[i] = c THEN <<Slice(s, start, i - 1)>> \o SplitFrom(s, c, i + 1, i + 1)
  ELSE SplitFrom(s, c, start, i + 1)
Split(s, c) == SplitFrom(s, c, 1, 1)
=============================================================================
