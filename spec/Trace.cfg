INIT Init
NEXT Next
INVARIANT Report
POSTCONDITION Accepted
CHECK_DEADLOCK FALSE
