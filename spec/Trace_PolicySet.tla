--------------------------- MODULE Trace_PolicySet ---------------------------
(* Trace specification for family "pset" (C08).  Each event is one policy-set *)
(* edit recorded from the real API with projected pre/post states, every view *)
(* of the post state, and the authorizer's answers on a battery of requests.  *)
EXTENDS PsBodies, Json, IOUtils
INSTANCE PolicySetSM WITH TSlots <- TSlotsOf

Rec == ndJsonDeserialize(IOEnv.TRACE)
VARIABLES l, bad

ToSet(s) == {s[i] : i \in 1..Len(s)}
NoDup(s) == \A i, j \in 1..Len(s) : i # j => s[i] # s[j]
SIdx(tag) == CASE tag = "s1" -> 1 [] tag = "s2" -> 2 [] OTHER -> 0
TIdx(tag) == CASE tag = "t1" -> 1 [] tag = "t2" -> 2 [] tag = "t3" -> 3 [] OTHER -> 0
TagOf(b) == b.annotations[1][2]

\* abstract state from the public projection
AbsPub(p) == [st |-> [id \in DOMAIN p.st |-> SIdx(p.st[id][1])],
              tm |-> [id \in DOMAIN p.tm |-> TIdx(p.tm[id][1])],
              ln |-> [id \in DOMAIN p.ln |-> [tid |-> p.ln[id].tid, env |-> p.ln[id].env]]]
\* abstract state from a wire state (bodies already numbers)
AbsWire(w) == [st |-> w.st, tm |-> w.tm,
               ln |-> [id \in DOMAIN w.ln |-> [tid |-> w.ln[id].tid, env |-> w.ln[id].env]]]

Views(p, PS) ==
  /\ ~p.dupIds
  /\ \A id \in DOMAIN PS.st : PS.st[id] \in 1..Len(SBodies) /\ p.st[id][2] = SBodies[PS.st[id]].effect
  /\ \A id \in DOMAIN PS.tm : PS.tm[id] \in 1..Len(TBodies) /\ p.tm[id][2] = TBodies[PS.tm[id]].effect
  \* a link's effect and annotations are those of its template
  /\ \A id \in DOMAIN PS.ln :
       /\ PS.ln[id].tid \in DOMAIN PS.tm
       /\ p.ln[id].body = TagOf(TBodies[PS.tm[PS.ln[id].tid]])
       /\ p.ln[id].effect = TBodies[PS.tm[PS.ln[id].tid]].effect
  /\ DOMAIN p.linkedBy = DOMAIN PS.tm
  /\ \A t \in DOMAIN PS.tm : NoDup(p.linkedBy[t]) /\ ToSet(p.linkedBy[t]) = LinksOf(PS, t)
  /\ \A id \in DOMAIN p.lookups :
       /\ p.lookups[id][1] = (id \in DOMAIN PS.st \cup DOMAIN PS.ln)       \* policy(id)
       /\ p.lookups[id][2] = (id \in DOMAIN PS.tm)                         \* template(id)
       \* get_linked_policies(id): defined for templates, an error for unused ids; what it answers
       \* for the id of a static or linked policy is not part of the property
       /\ (id \in DOMAIN PS.tm => p.lookups[id][3]) /\ (id \notin Ids(PS) => ~p.lookups[id][3])
  /\ p.counts = <<Cardinality(DOMAIN PS.st) + Cardinality(DOMAIN PS.ln), Cardinality(DOMAIN PS.tm), Ids(PS) = {}>>

AstView(a, PS) ==
  /\ NoDup(a.st) /\ ToSet(a.st) = DOMAIN PS.st
  /\ NoDup(a.tm) /\ ToSet(a.tm) = DOMAIN PS.tm
  /\ DOMAIN a.ln = DOMAIN PS.ln /\ \A id \in DOMAIN PS.ln : a.ln[id] = PS.ln[id].tid
  /\ DOMAIN a.linkedBy = DOMAIN PS.tm
  /\ \A t \in DOMAIN PS.tm : ToSet(a.linkedBy[t]) = LinksOf(PS, t)

RespOk(r, exp) ==
  /\ r.decision = exp.decision
  /\ ToSet(r.reasons) = exp.reasons
  /\ NoDup(r.errors) /\ ToSet(r.errors) = exp.errors

BatteryOk(ev, PS) ==
  LET exp == Battery(PS)
  IN Len(ev.battery) = Len(exp) /\ \A i \in 1..Len(exp) : RespOk(ev.battery[i], exp[i])

SpecStep(pre, op) ==
  CASE op[1] = "add" -> AddStatic(pre, op[2], op[3])
    [] op[1] = "addTemplate" -> AddTemplate(pre, op[2], op[3])
    [] op[1] = "link" -> Link(pre, op[2], op[3], op[4])
    [] op[1] = "unlink" -> Unlink(pre, op[2])
    [] op[1] = "removeStatic" -> RemoveStatic(pre, op[2])
    [] op[1] = "removeTemplate" -> RemoveTemplate(pre, op[2])
    [] op[1] = "merge" -> MergeStrict(pre, AbsWire(op[2]))

Explained(ev) ==
  /\ ev.ev = "PsOp"
  /\ LET pre == AbsPub(ev.pre)
         post == AbsPub(ev.post)
     IN /\ WellFormed(pre) /\ Views(ev.pre, pre)
        /\ IF ev.op[1] = "merge" /\ ev.op[3]
           THEN \* merge with renaming: always succeeds; which fresh ids are picked is cedar's choice
                /\ ev.ok
                /\ GoodRenaming(pre, AbsWire(ev.op[2]), ev.renaming)
                /\ post = MergeWith(pre, AbsWire(ev.op[2]), ev.renaming)
           ELSE LET r == SpecStep(pre, ev.op)
                IN IF ev.ok THEN r[1] = "ok" /\ post = r[2] /\ DOMAIN ev.renaming = {}
                   ELSE r[1] = "err" /\ post = pre           \* a failed operation changes nothing
        /\ WellFormed(post) /\ Views(ev.post, post) /\ AstView(ev.postAst, post)
        /\ BatteryOk(ev, post)

Init == l = 1 /\ bad = {}
Next == /\ l <= Len(Rec)
        /\ l' = l + 1
        /\ bad' = IF Explained(Rec[l]) THEN bad ELSE bad \cup {l}
Report == (l = Len(Rec) + 1) => PrintT(<<"TRACE-RESULT", Len(Rec), bad>>)
Accepted == TLCGet("stats").diameter = Len(Rec) + 1
==============================================================================
