----------------------------- MODULE Trace_Robust -----------------------------
(* Trace specification for family "robust" (C20): the outcome alphabet of every *)
(* entry point is {ok, err}.  A recorded panic (or any other outcome) cannot be *)
(* explained.  The same holds implicitly in every other family, whose trace     *)
(* specs reject "Panic" events.                                                 *)
EXTENDS Integers, Sequences, TLC, Json, IOUtils

Rec == ndJsonDeserialize(IOEnv.TRACE)
VARIABLES l, bad
Explained(ev) ==
  /\ ev.ev = "Robust"
  /\ Len(ev.outcomes) > 0
  /\ \A i \in 1..Len(ev.outcomes) : ev.outcomes[i][2] \in {"ok", "err"}
Init == l = 1 /\ bad = {}
Next == /\ l <= Len(Rec)
        /\ l' = l + 1
        /\ bad' = IF Explained(Rec[l]) THEN bad ELSE bad \cup {l}
Report == (l = Len(Rec) + 1) => PrintT(<<"TRACE-RESULT", Len(Rec), bad>>)
Accepted == TLCGet("stats").diameter = Len(Rec) + 1
==============================================================================
