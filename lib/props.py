"""Per-property family descriptions."""
import json


def _world_case(extra_keys):
    def f(world, c, i):
        case = dict(id=i, world="W", req=world["req"], store=world["store"])
        for k in extra_keys:
            case[k] = c[k]
        return case
    return f


def _flip_result(r):
    if r == ["ok", ["bool", True]]:
        return ["ok", ["bool", False]]
    return ["ok", ["bool", True]]


def _mutate_eval(ev):
    if ev.get("ev") != "Eval":
        return None
    ev = dict(ev)
    ev["ast"] = _flip_result(ev["ast"])
    return ev


def _mutate_authz(ev):
    if ev.get("ev") != "Authz" or not ev.get("responses"):
        return None
    ev = json.loads(json.dumps(ev))
    r = ev["responses"][0]["resp"]
    r["decision"] = "Deny" if r["decision"] == "Allow" else "Allow"
    return ev


def _eval_nontrivial(ev):
    e = ev.get("expr")
    return ev.get("ev") == "Eval" and isinstance(e, list) and e and e[0] not in ("lit", "var")


C02 = dict(
    family="eval", trace_module="Trace_Eval.tla",
    models=[dict(name="mc_eval", module="MC_Eval.tla", cfg=dict(quick="MC_Eval_quick.cfg", thorough="MC_Eval_thorough.cfg"),
                 cases=_world_case(["expr"]))],
    drive_n=dict(quick=6000, thorough=150000),
    nontrivial=_eval_nontrivial, key=lambda ev: [ev.get("expr"), ev.get("req"), ev.get("store")],
    mutate=_mutate_eval,
    rule="G: every expression of MC_Eval's operator families over World's leaf pools (TLC-enumerated, complete for the pools); "
         "T: seeded random expressions/worlds from the harness generator. Each case is evaluated through 5 arrival paths "
         "(builder AST, Cedar text, JSON policy format, when-clause, unless-clause) and every result is recomputed by "
         "CedarExpr!Eval in TLC. non-trivial = expression is not a bare literal/variable; distinct by (expr, request, store).",
    exhaustive=dict(quick=False, thorough=False),
    assumptions=["harness build/project walkers and text/EST renderers (harness/conform/src/{abs,render}.rs) are faithful",
                 "TLC evaluates the TLA+ reference semantics correctly",
                 "record-literal key order (byte order) is supplied by the harness/generator, not derived in TLA+"],
)

C01 = dict(
    family="authz", trace_module="Trace_Authz.tla",
    models=[dict(name="mc_authz", module="MC_Authz.tla", cfg=dict(quick="MC_Authz_3.cfg", thorough="MC_Authz_4.cfg"),
                 cases=_world_case(["pols"]))],
    drive_n=dict(quick=1500, thorough=30000),
    nontrivial=lambda ev: ev.get("ev") == "Authz" and len(ev.get("pols", [])) >= 1,
    key=lambda ev: [ev.get("pols"), ev.get("req"), ev.get("store")],
    mutate=_mutate_authz, chunk=2000,
    rule="G: every multiset of <= N policies over 16 bodies x 2 effects (sat/unsat/err realised by constants, scopes, "
         "request-dependent conditions of each error class, template links), complete for N; T: random policy sets/worlds. "
         "Each case is authorised under all insertion orders (n<=4), 3 id spellings, text/JSON arrival, concatenated text, "
         "reversed entity order and 0-2 preceding calls; every distinct response must equal CedarAuthz!Authorize. "
         "non-trivial = at least one policy; distinct by (policies, request, store).",
    exhaustive=dict(quick=False, thorough=False),
    assumptions=["harness renderers and projections are faithful", "TLC evaluates the TLA+ reference semantics correctly"],
)

FAMILIES = {"C01": C01, "C02": C02}


# ----------------------------------------------------------------- C04
def _store_case(world, c, i):
    pre = [[r[0], r[1], r[2]] for r in c["pre"]]
    return dict(id=i, nu=3, hist=[["from", pre], [c["op"], c["arg"]]])


def _mutate_store(ev):
    if ev.get("ev") != "EsOp" or ev["res"][0] != "ok" or not ev.get("post"):
        return None
    ev = json.loads(json.dumps(ev))
    row = ev["post"][0]
    # drop one ancestor, or invent one
    if row[3]:
        row[3] = row[3][1:]
    else:
        row[3] = [row[0] % 3 + 1]
    return ev


C04 = dict(
    family="store", trace_module="Trace_EntityStore.tla",
    models=[dict(name="mc_store", module="MC_EntityStore.tla", cfg=dict(quick="MC_EntityStore_3.cfg", thorough="MC_EntityStore_3.cfg"),
                 cases=_store_case, limit=dict(quick=9000, thorough=None))],
    drive_n=dict(quick=1200, thorough=40000),
    nontrivial=lambda ev: ev.get("ev") == "EsOp",
    key=lambda ev: [ev.get("pre"), ev.get("op"), ev.get("arg")],
    mutate=_mutate_store, chunk=1500,
    rule="G: every (reachable store over 3 uids, operation, argument) transition of EntityStore.tla with single-entry batches and all "
         "remove subsets (TLC-enumerated; quick replays a seeded sample of 9000, thorough all), pre-state built with from_entities; "
         "T: random histories of 2-9 from/add/upsert/remove/fromEnforce steps over 3-8 uids with batches of 1-4 (duplicates, dangling "
         "parents, cycles, diamonds). After every step: direct parents, ancestors() listing, is_ancestor_of for all pairs, `b in a` "
         "for all pairs through the evaluator and through a policy scope via the authorizer. distinct by (pre-state, op, argument).",
    assumptions=["harness projection of Entities (parents(), ancestors(), attribute v) is faithful",
                 "duplicate detection modelled as implemented (cedar's deep_eq on closed ancestor sets); the property does not constrain it"],
)
FAMILIES["C04"] = C04
