CONSTANTS
  NU = 4
  MaxB = 1
  Vals = {0}
  AllOrders = TRUE
INIT Init
NEXT Next
INVARIANT Inv
CHECK_DEADLOCK FALSE
