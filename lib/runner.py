"""Dispatcher and the generic M/G/T pipeline."""
import argparse
import json
import os
import sys
import time
import traceback

import vlib
from vlib import ToolError, log


def pipeline(prop, tier, fam):
    """fam: dict describing a family (see props_*.py).  Returns exit code."""
    t0 = time.time()
    wd = vlib.workdir(prop)
    seed = vlib.seed()
    vlib.build_harness(fam.get("bins", ("conform",)))
    binary = fam.get("binary")
    vlib.TRACE_ENV.clear()
    vlib.TRACE_ENV.update(fam.get("trace_env", {}))
    vlib.TRACE_ENV["TIER"] = tier

    states = transitions = 0
    model_info = []
    traces = []          # (path, source)
    ncases = 0
    # ---- M + G: model-check the spec, collect generated cases
    if "per_state" in fam:
        fam["per_state"][0] = 8 if tier == "thorough" else 1
    for m in fam.get("models", []):
        cfg = m["cfg"][tier]
        if cfg is None:
            continue
        kw = {}
        if m.get("pre"):
            # e.g. random typed policy sets produced by the harness, handed to the TLC generator through the environment
            kw["env_extra"] = m["pre"](fam, tier, wd, seed)
        if m.get("simulate"):
            kw.update(simulate=m["simulate"][tier], depth=m.get("depth", 50), seed_=seed)
        r = vlib.run_model(m["module"], cfg, wd, m["name"], timeout=m.get("timeout", 3000), workers=m.get("workers"), **kw)
        if not r["ok"]:
            sys.stderr.write(r["tail"])
            raise ToolError("model %s/%s failed: %s (rc=%s)" % (m["module"], cfg, r["error"], r["rc"]))
        states += r["distinct"]
        transitions += r["generated"]
        model_info.append(dict(module=m["module"], cfg=cfg, generated=r["generated"], distinct=r["distinct"], wall_s=round(r["wall"], 1)))
        log("model %s: %d generated / %d distinct in %.1fs" % (m["module"], r["generated"], r["distinct"], r["wall"]))
        if m.get("cases"):
            world = None
            for w in vlib.tlc_lines(r["out"], "WORLD"):
                world = w
            fam["_world"] = world
            cases = []
            for i, c in enumerate(vlib.tlc_lines(r["out"], "CASE")):
                out = m["cases"](world, c, i)
                if isinstance(out, list):
                    cases.extend(out)
                elif out is not None:
                    cases.append(out)
            limit = m.get("limit", {}).get(tier)
            if limit and len(cases) > limit:
                import random
                rnd = random.Random(seed)
                # cases marked _keep (thin families the sample must not miss) are always replayed
                kept = [c for c in cases if isinstance(c, dict) and c.get("_keep")]
                rest = [c for c in cases if not (isinstance(c, dict) and c.get("_keep"))]
                cases = kept + rnd.sample(rest, max(0, min(len(rest), limit - len(kept))))
            for c in cases:
                if isinstance(c, dict):
                    c.pop("_keep", None)
            if m.get("setup"):
                cases.insert(0, m["setup"](world))
                # kept for --replay: a single case of this family needs the same setup first
                with open(os.path.join(wd, "setup.%s.json" % m.get("family", fam["family"])), "w") as sf:
                    json.dump(cases[0], sf)
            cpath = os.path.join(wd, m["name"] + ".cases.ndjson")
            vlib.write_ndjson(cpath, cases)
            tpath = os.path.join(wd, m["name"] + ".trace.ndjson")
            vlib.conform("replay", m.get("family", fam["family"]), cpath, tpath, binary=binary)
            traces.append((tpath, "G:" + m["name"], m.get("trace_module", fam["trace_module"])))
            ncases += len(cases)
            os.remove(r["out"])
    # ---- T: randomized driver
    dn = fam.get("drive_n", {}).get(tier, 0)
    if dn:
        tpath = os.path.join(wd, "drive.trace.ndjson")
        vlib.conform("drive", fam["family"], seed, dn, tpath, binary=binary)
        traces.append((tpath, "T:drive", fam["trace_module"]))
    if fam.get("extra_traces"):
        for extra in fam["extra_traces"](fam, tier, wd, seed):
            traces.append(extra)

    # ---- validate every trace with TLC
    total = 0
    bad_all = []
    samples = []
    distinct = set()
    nontrivial = fam.get("nontrivial", lambda ev: True)
    per_source = {}
    for tpath, source, tmod in traces:
        n, bad, st = vlib.validate_trace(tmod, tpath, wd, chunk=fam.get("chunk", 4000))
        states += st
        transitions += st
        total += n
        per_source[source] = dict(events=n, unexplained=len(bad))
        bad_all += bad
        with open(tpath) as f:
            for k, line in enumerate(f):
                if not line.strip():
                    continue
                ev = json.loads(line)
                if k < 2 and len(samples) < 4:
                    samples.append(vlib.trunc(ev))
                if nontrivial(ev):
                    distinct.add(vlib.fingerprint(fam.get("key", lambda e: e)(ev)))
        log("trace %s: %d events, %d unexplained" % (source, n, len(bad)))

    # events the trace spec itself classified as instances of a known finding: suppressed only if
    # /verif/known_findings.json lists that finding (status "known") for this property
    kf_id = fam.get("known_finding_id")
    nkf = len(vlib.KF_EVENTS)
    if nkf:
        listed = [f for f in vlib.load_known() if f.get("status") == "known" and f.get("property") == prop and f.get("id") == kf_id]
        if listed:
            print("KNOWN-FINDING: property=%s %s (%d events)" % (prop, listed[0]["what"], nkf), flush=True)
        else:
            bad_all += [(0, line) for _, line in vlib.KF_EVENTS]
    vlib.KF_EVENTS.clear()
    nviol = vlib.report(prop, bad_all, wd)
    # ---- canary: the binding is demonstrated, not assumed
    ncanary = 0
    if nviol == 0 and traces and fam.get("mutate"):
        clean = [t for t in traces if per_source[t[1]]["unexplained"] == 0]
        if clean:
            ncanary = vlib.canary(clean[0][2], clean[0][0], wd, fam["mutate"])
            log("canary: %d corrupted events rejected" % ncanary)

    cov = dict(
        states=max(states, 1), transitions=max(transitions, 1),
        traces_validated_against_impl=total - len(bad_all),
        samples=samples or ["none"],
        evaluations=total, distinct_nontrivial=len(distinct),
        rule=fam.get("rule", ""),
        models=model_info, sources=per_source, generated_cases=ncases, canaries_rejected=ncanary,
        exhaustive=bool(fam.get("exhaustive", {}).get(tier, False)),
    )
    cov.update(fam.get("extra_coverage", {}))
    vlib.write_evidence(prop, tier, fam.get("level", "model_checking"), cov, fam.get("assumptions", []), time.time() - t0, nviol)
    log("%s %s: %d events validated, %d violations, %.1fs" % (prop, tier, total, nviol, time.time() - t0))
    return 1 if nviol else 0


def replay(prop, path, fam):
    """re-run the single abstract case of a replay file through the harness and the trace spec"""
    wd = vlib.workdir(prop)
    vlib.build_harness(fam.get("bins", ("conform",)))
    vlib.TRACE_ENV.clear()
    vlib.TRACE_ENV.update(fam.get("trace_env", {}))
    vlib.TRACE_ENV["TIER"] = "thorough"
    with open(path) as f:
        rep = json.load(f)
    ev = rep["event"]
    case = fam.get("case_of_event", lambda e: e.get("case", e))(ev)
    cpath = os.path.join(wd, "replay.cases.ndjson")
    tpath = os.path.join(wd, "replay.trace.ndjson")
    # a property may be served by several harness families: the event says which one recorded it
    famname = fam.get("family_of_event", lambda e: fam["family"])(ev)
    cases = [case]
    spath = os.path.join(wd, "setup.%s.json" % famname)
    needs_setup = any(m.get("setup") and m.get("family", fam["family"]) == famname for m in fam.get("models", []))
    if needs_setup:
        if not os.path.exists(spath):
            raise ToolError("replay of a %s case needs the family's setup (%s): run ./check %s --tier quick once first" % (famname, spath, prop))
        with open(spath) as sf:
            cases.insert(0, json.load(sf))
    vlib.write_ndjson(cpath, cases)
    tmod = fam.get("trace_module_of_event", lambda e: fam["trace_module"])(ev)
    vlib.conform("replay", famname, cpath, tpath, binary=fam.get("binary"))
    n, bad, _ = vlib.validate_trace(tmod, tpath, wd)
    with open(tpath) as f:
        print(f.read()[:4000])
    if bad:
        print("VIOLATION property=%s replay=%s" % (prop, path))
        return 1
    print("replayed case is explained by the specification")
    return 0


def main(argv):
    ap = argparse.ArgumentParser()
    ap.add_argument("prop")
    ap.add_argument("--tier", default=os.environ.get("VERIF_TIER", "quick"), choices=["quick", "thorough"])
    ap.add_argument("--replay")
    a = ap.parse_args(argv)
    import props
    try:
        fam = props.FAMILIES.get(a.prop)
        if fam is None:
            print("no check for %s" % a.prop, file=sys.stderr)
            return 2
        if callable(fam):
            return fam(a.prop, a.tier, a.replay)
        if a.replay:
            return replay(a.prop, a.replay, fam)
        return pipeline(a.prop, a.tier, fam)
    except ToolError as e:
        print("TOOL-ERROR: %s" % e, file=sys.stderr)
        return 2
    except Exception:
        traceback.print_exc()
        return 2
