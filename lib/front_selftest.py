"""Hand-run self-test of the front family's binding (not part of any registered command):
   python3 lib/front_selftest.py corrupt   - corrupt 26 recorded fields of the last run's trace; Trace_Front must reject exactly those
   python3 lib/front_selftest.py mutate    - mutate the specification in 14 places (scratch copy); real events must be rejected
Both read /verif/work/C19/mc_front.trace.ndjson as left by `./check C19`."""
import collections
import copy
import json
import os
import shutil
import sys

sys.path.insert(0, os.path.dirname(os.path.abspath(__file__)))
import vlib

D = os.path.join(vlib.WORK, "C19", "selftest") + "/"
TRACE = os.path.join(vlib.WORK, "C19", "mc_front.trace.ndjson")


def corrupt():
    lines = [l for l in open(TRACE) if l.strip()]
    evs = [json.loads(l) for l in lines]
    used = set()
    plan = []
    def find(pred, name):
        for i, e in enumerate(evs):
            if e.get('ev') == 'Front' and i not in used and pred(e):
                used.add(i); return i
        raise SystemExit("no event for " + name)
    def plant(name, pred, mut):
        i = find(pred, name); e = copy.deepcopy(evs[i]); mut(e); plan.append((i, name, e))
    k = lambda e: e['op'][0]
    plant("cliAuthorize: exit 0 -> 2", lambda e: k(e)=='cliAuthorize' and e['cli']['exit']==0, lambda e: e['cli'].__setitem__('exit', 2))
    plant("cliAuthorize: printed word ALLOW -> DENY", lambda e: k(e)=='cliAuthorize' and e['cli']['word']=='ALLOW', lambda e: e['cli'].__setitem__('word', 'DENY'))
    plant("cliAuthorize: a determining policy dropped", lambda e: k(e)=='cliAuthorize' and e['cli']['reasons'], lambda e: e['cli']['reasons'].pop())
    plant("cliAuthorize: an erroring policy dropped", lambda e: k(e)=='cliAuthorize' and e['cli']['errors'], lambda e: e['cli']['errors'].pop())
    plant("cliAuthorize: reason renamed to its positional id", lambda e: k(e)=='cliAuthorize' and 'first' in e['cli']['reasons'], lambda e: e['cli'].__setitem__('reasons', ['policy0' if r=='first' else r for r in e['cli']['reasons']]))
    plant("validate(ffi): error id b -> a", lambda e: k(e)=='validate' and e['ffi'][0]=='ok' and 'b' in e['ffi'][1], lambda e: e['ffi'].__setitem__(1, ['a']))
    plant("authorize(ffi): the JSON-string / typed entry points disagree with the JSON-value one", lambda e: k(e)=='authorize' and e['ffi'][0]=='ok', lambda e: e.__setitem__('ffi', ['split']))
    plant("validate(ffi): the entry points disagree", lambda e: k(e)=='validate' and e['ffi'][0]=='ok' and not e['ffi'][1], lambda e: e.__setitem__('ffi', ['split']))
    plant("check_parse: typed and JSON-string entry points disagree", lambda e: k(e)=='checkParse' and e.get('ffi2')=='ok', lambda e: e.__setitem__('ffi2', 'split'))
    plant("format: JSON-string entry point disagrees", lambda e: k(e)=='format' and e['ffi'][0]=='ok', lambda e: e.__setitem__('ffi', ['split']))
    plant("authorize: partial entry point decides the opposite on a concrete call", lambda e: k(e)=='authorize' and e['ffi'][0]=='ok' and e.get('partial',[''])[0]=='ok', lambda e: e.__setitem__('partial', ['ok', 'Deny' if e['partial'][1]=='Allow' else 'Allow']))
    plant("authorize: partial entry point undecided on a concrete call", lambda e: k(e)=='authorize' and e['ffi'][0]=='ok' and e.get('partial',[''])[0]=='ok', lambda e: e.__setitem__('partial', ['ok', 'none']))
    plant("validate(api): error ids emptied", lambda e: k(e)=='validate' and e['api'][0]=='ok' and e['api'][1], lambda e: (e['api'].__setitem__(1, []), e['api'].__setitem__(3, True)))
    plant("cliValidate: exit 3 -> 0", lambda e: k(e)=='cliValidate' and e['cli']['exit']==3, lambda e: e['cli'].__setitem__('exit', 0))
    def deep(e):
        e['doc']['conditions'][0]['body'] = {"Value": True}
    plant("policy_to_json: document body altered", lambda e: k(e)=='convPolicy' and e['op'][2]=='toJson' and e['doc'].get('conditions'), deep)
    plant("policy_to_json: FFI string differs from the API's", lambda e: k(e)=='convPolicy' and e['op'][2]=='toJson', lambda e: e['ffi'].__setitem__(1, e['ffi'][1] + ' '))
    plant("policy_to_text: text no longer reads back as the policy", lambda e: k(e)=='convPolicy' and e['op'][2]=='toText', lambda e: e.__setitem__('back', ['ok', e['p0'].replace('permit', 'forbid') if 'permit' in e['p0'] else e['p0'].replace('forbid','permit')]))
    plant("schema_to_text: text altered", lambda e: k(e)=='convSchema' and e['ffi'][0]=='ok', lambda e: e['ffi'].__setitem__(1, e['ffi'][1] + "//x"))
    plant("format: result differs from the formatter's", lambda e: k(e)=='format' and e['ffi'][0]=='ok', lambda e: e['ffi'].__setitem__(1, e['ffi'][1].replace('\n', '\n ', 1)))
    plant("check_parse: ok -> fail", lambda e: k(e)=='checkParse' and e['ffi']=='ok', lambda e: e.__setitem__('ffi', 'fail'))
    plant("cliCheckParse: exit 1 -> 0", lambda e: k(e)=='cliCheckParse' and e['cli']['exit']==1, lambda e: e['cli'].__setitem__('exit', 0))
    plant("cliTranslateSchema: printed schema altered", lambda e: k(e)=='cliTranslateSchema' and e['cli']['exit']==0, lambda e: e['cli'].__setitem__('stdout', e['cli']['stdout'] + ' '))
    def tp(e):
        i = sorted(e['static'])[0]; e['static'][i]['effect'] = 'forbid' if e['static'][i]['effect']=='permit' else 'permit'
    plant("cliTranslatePolicy: a printed JSON policy altered", lambda e: k(e)=='cliTranslatePolicy' and e['op'][2]=='cedar-to-json' and e['cli']['exit']==0 and isinstance(e['static'], dict), tp)
    plant("cliLink: exit 0 -> 1", lambda e: k(e)=='cliLink' and e['cli']['exit']==0, lambda e: e['cli'].__setitem__('exit', 1))
    plant("cliFormat: printed text altered", lambda e: k(e)=='cliFormat' and e['cli']['exit']==0, lambda e: e['cli'].__setitem__('stdout', e['cli']['stdout'] + ' '))
    plant("cli crashed (recorded as data)", lambda e: k(e)=='cliValidate', lambda e: (e['cli'].__setitem__('exit', 101), e['cli'].__setitem__('how', 'panic')))
    out = list(lines)
    for i, name, e in plan:
        out[i] = json.dumps(e) + "\n"
    p = D + 'corrupted.ndjson'
    open(p, 'w').writelines(out)
    n, bad, _ = vlib.validate_trace("Trace_Front.tla", p, D, chunk=4000, parallel=1)
    got = sorted(b[0] for b in bad)
    want = sorted(i + 1 for i, _, _ in plan)
    print("events", n, "planted", len(want), "rejected", len(got), "exactly the planted lines:", got == want)
    for i, name, e in sorted(plan):
        print("  line %4d %-60s %s" % (i + 1, name, "REJECTED" if i + 1 in got else "accepted (!)"))
    return got == want


def mutate():
    MUT = D + 'spec_mut'
    muts = [
     ("Front.tla", 'FrCliId(p) == IF p.ann = <<>> THEN p.id ELSE p.ann[1]', 'FrCliId(p) == p.id', "CLI does not rename from @id"),
     ("Front.tla", 'ELSE [exit |-> IF r[2].decision = "Allow" THEN 0 ELSE 2,', 'ELSE [exit |-> IF r[2].decision = "Allow" THEN 0 ELSE 1,', "Deny exits 1"),
     ("Front.tla", '\\/ (mode = "strict" /\\ "strictEq" \\in p.faults)', '\\/ ("strictEq" \\in p.faults)', "Long == String is an error in permissive mode too"),
     ("Front.tla", 'ELSE IF FrInvalidIds(k, FrSc(j), "strict", TRUE) # {} THEN 3 ELSE 0', 'ELSE IF FrInvalidIds(k, FrSc(j), "strict", TRUE) # {} THEN 1 ELSE 0', "validation failure exits 1"),
     ("Est.tla", 'op = "less" -> "<"', 'op = "less" -> "<="', "JSON key of < is <="),
     ("Front.tla", 'FrSchemaOk(j) == FrSchemaSources[j].good /\\ FrSchemaSources[j].wf', 'FrSchemaOk(j) == FrSchemaSources[j].good', "a fragment with an undeclared type is a schema"),
     ("Front.tla", 'FrApiGood(k) == FrPolSources[k].good \\/ FrPolSources[k].shape = "concatT"', 'FrApiGood(k) == FrPolSources[k].good', "the API refuses a text with a template"),
     ("Ffi.tla", 'ELSE IF j # 0 /\\ validate /\\ ~ConformsRequest(SchemaSources[j].schema, r) THEN FFail', 'ELSE IF FALSE THEN FFail', "request validation is never applied"),
     ("Front.tla", '/\\ withAction => FfiI!ConformsCtx(FrSc(j), FReqs[ri].action, FReqs[ri].context)', '/\\ FfiI!ConformsCtx(FrSc(j), FReqs[ri].action, FReqs[ri].context)', "check_parse_context validates without an action"),
     ("Front.tla", '/\\ nid \\notin FrCliIdsInUse(k)', '/\\ TRUE', "link accepts an id in use"),
     ("Front.tla", 'reasons |-> IF verbose THEN r[2].reasons ELSE {},', 'reasons |-> r[2].reasons,', "determining policies printed without --verbose"),
     ("Front.tla", 'IF FrSchemaSources[j].good /\\ ((dir = "json-to-cedar") = (FrSchemaSources[j].syntax = "json")) THEN 0 ELSE 1', 'IF FrSchemaSources[j].good THEN 0 ELSE 1', "translate-schema ignores the direction"),
     ("Front.tla", '\\cup {idOf(p) : p \\in {q \\in FrPolsOf(k) : FrIsLinked(q) /\\ "slotType" \\in q.faults}}', '', "links are not validated"),
     ("Front.tla", 'FrEstDoc(p) == LET e == EstOf(p) IN IF p.annotations = <<>> THEN', 'FrEstDoc(p) == LET e == EstOf(p) IN IF FALSE THEN', "an empty annotations object is written"),
    ]
    trace = TRACE
    ok = 0
    for fname, old, new, what in muts:
        shutil.rmtree(MUT, ignore_errors=True)
        os.makedirs(MUT)
        for f in os.listdir('/verif/spec'):
            if f.endswith('.tla') or f.endswith('.cfg'):
                shutil.copy(os.path.join('/verif/spec', f), MUT)
        s = open(os.path.join(MUT, fname)).read()
        assert s.count(old) == 1, (fname, old, s.count(old))
        open(os.path.join(MUT, fname), 'w').write(s.replace(old, new))
        vlib.SPEC = MUT
        try:
            n, bad, _ = vlib.validate_trace("Trace_Front.tla", trace, D, chunk=4000, parallel=1)
            kinds = collections.Counter(json.loads(b[1])['op'][0] for b in bad)
            print("%-62s %4d of %d real events rejected  %s" % (what, len(bad), n, dict(kinds)))
            ok += 1 if bad else 0
        except vlib.ToolError as e:
            print("%-62s TLC aborted: %s" % (what, str(e).splitlines()[0][:100]))
    shutil.rmtree(MUT, ignore_errors=True)
    print("mutations detected: %d of %d" % (ok, len(muts)))
    return ok == len(muts)


if __name__ == "__main__":
    os.makedirs(D, exist_ok=True)
    good = corrupt() if sys.argv[1:] == ["corrupt"] else mutate() if sys.argv[1:] == ["mutate"] else sys.exit(__doc__)
    shutil.rmtree(D, ignore_errors=True)
    sys.exit(0 if good else 1)
