CONSTANTS
  NU = 3
  MaxB = 2
  Vals = {0, 1}
  AllOrders = TRUE
INIT Init
NEXT Next
INVARIANT Inv
CHECK_DEADLOCK FALSE
