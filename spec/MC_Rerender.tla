----------------------------- MODULE MC_Rerender -----------------------------
(* Binding T of C05, second leg: every policy set found in the tree (the      *)
(* `base` projection of a Stable event of the corpus trace) is read as a      *)
(* surface AST and rendered by the reference grammar in each style; the       *)
(* harness parses the rendering and Trace_Syntax requires the same projection *)
(* again (and again after every print path).                                  *)
EXTENDS Syntax, TLC, Json, IOUtils

Rec == ndJsonDeserialize(IOEnv.CORPUS)
VARIABLES i, done

Init == i \in {k \in 1..Len(Rec) : Rec[k].ev = "Stable"} /\ done = FALSE
Next == ~done /\ done' = TRUE /\ UNCHANGED i
Sane == done => \A s \in 1..3 : SxDepthOk(SxSetToks(SxSurfaceSet(Rec[i].base), SxStyles[s]), 1, 0)
Dump == PrintT("CASE " \o ToJson([kind |-> "rerender", src |-> Rec[i].src, base |-> Rec[i].base, styles |-> SxStyles,
                                  toks |-> [s \in 1..3 |-> SxSetToks(SxSurfaceSet(Rec[i].base), SxStyles[s])]]))
==============================================================================
