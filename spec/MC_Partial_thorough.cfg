INIT Init
NEXT Next
INVARIANT CompletionsConcrete
ACTION_CONSTRAINT Dump
CHECK_DEADLOCK FALSE
