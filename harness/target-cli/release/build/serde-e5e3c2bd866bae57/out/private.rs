#[doc(hidden)]
pub mod __private229 {
    #[doc(hidden)]
    pub use crate::private::*;
}
use serde_core::__private229 as serde_core_private;
