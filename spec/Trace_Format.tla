----------------------------- MODULE Trace_Format -----------------------------
(* Trace specification for family "format" (C12).                             *)
(*  Format      a policy set of MC_Format with a comment placement, formatted *)
(*              at one (line_width, indent_width).  Explained iff formatting  *)
(*              and re-formatting succeed; input, output and re-formatted     *)
(*              output all parse to Syntax!SxSetCore of the surface set (same *)
(*              policies under the same ids policy0.., same annotations);     *)
(*              the comments found in each of the three texts are exactly the *)
(*              placement's comments in order; and, without comments,         *)
(*              formatting the output again returns it unchanged.             *)
(*  FormatFile  (binding T) a policy file of the tree: same equalities, with  *)
(*              the input's own projection and comments as the reference.     *)
EXTENDS Syntax, Comments, TLC, Json, IOUtils

Rec == ndJsonDeserialize(IOEnv.TRACE)
VARIABLES l, bad

Roles(views) == UNION {{views[i].as[k] : k \in 1..Len(views[i].as)} : i \in 1..Len(views)}
Has(ev, fields) == fields \subseteq DOMAIN ev
Succeeded(ev) == Has(ev, {"out", "out2", "cin", "cout", "cout2", "views"}) /\ ev.out[1] = "ok" /\ ev.out2[1] = "ok"

FormatOk(ev) ==
  /\ Succeeded(ev)
  /\ LET exp == SxSetCore(ev.pols)
         cexp == CommentsOf(ev.places)
     IN /\ Roles(ev.views) = {"in", "out", "out2"}
        /\ \A i \in 1..Len(ev.views) :
             /\ \A k \in 1..Len(ev.views[i].p) : SxWireAnnOk(ev.views[i].p[k])
             /\ SxSeqOfWire(ev.views[i].p) = exp
        /\ ev.cin = cexp
        /\ ev.cout = cexp
        /\ ev.cout2 = cexp
        /\ (cexp = <<>>) => ev.out2[2] = ev.out[2]

FileOk(ev) ==
  /\ Succeeded(ev)
  /\ Len(ev.views) = 1
  /\ Roles(ev.views) = {"in", "out", "out2"}
  /\ ev.cout = ev.cin
  /\ ev.cout2 = ev.cin
  /\ (ev.cin = <<>>) => ev.out2[2] = ev.out[2]

Explained(ev) ==
  CASE ev.ev = "Format" -> FormatOk(ev)
    [] ev.ev = "FormatFile" -> FileOk(ev)
    [] ev.ev = "FormatSkip" -> TRUE        \* not a parseable policy set: the property says nothing
    [] OTHER -> FALSE

Init == l = 1 /\ bad = {}
Next == /\ l <= Len(Rec)
        /\ l' = l + 1
        /\ bad' = IF Explained(Rec[l]) THEN bad ELSE bad \cup {l}
Report == (l = Len(Rec) + 1) => PrintT(<<"TRACE-RESULT", Len(Rec), bad>>)
Accepted == TLCGet("stats").diameter = Len(Rec) + 1
==============================================================================
