------------------------------- MODULE PsBodies -------------------------------
(* Concrete policy and template bodies for the policy-set family (C08), over *)
(* the entities of World, and the meaning of an abstract policy-set state:   *)
(* the set of policies it denotes, with links defined by substitution.       *)
EXTENDS World

AnyC == <<"any">>
SBodies == <<
  [effect |-> "permit", principal |-> <<"eq", Ua>>, action |-> AnyC, resource |-> AnyC, conds |-> <<>>,
   annotations |-> <<<<"body", "s1">>>>],
  [effect |-> "forbid", principal |-> AnyC, action |-> AnyC, resource |-> <<"is", "Doc">>,
   conds |-> <<<<"when", Bin("eq", Get(V("principal"), "n"), Lit(L(1)))>>>>,
   annotations |-> <<<<"body", "s2">>>>]
>>
TBodies == <<
  [effect |-> "permit", principal |-> <<"eqslot">>, action |-> AnyC, resource |-> AnyC, conds |-> <<>>,
   annotations |-> <<<<"body", "t1">>>>],
  [effect |-> "forbid", principal |-> <<"inslot">>, action |-> AnyC, resource |-> <<"inslot">>,
   conds |-> <<<<"when", Lit(TrueV)>>>>, annotations |-> <<<<"body", "t2">>>>],
  [effect |-> "permit", principal |-> AnyC, action |-> <<"eq", Av>>, resource |-> <<"isinslot", "Doc">>,
   conds |-> <<<<"unless", Get(V("principal"), "b")>>>>, annotations |-> <<<<"body", "t3">>>>]
>>
TSlotsOf(tb) == CASE tb = 1 -> {"principal"} [] tb = 2 -> {"principal", "resource"} [] tb = 3 -> {"resource"}

MkPol(id, b, slots) == [id |-> id, effect |-> b.effect, principal |-> b.principal, action |-> b.action,
                     resource |-> b.resource, conds |-> b.conds, slots |-> slots]

\* the policies an abstract state denotes; a link is its template with the entities written in place of the slots
PoliciesOf(PS) ==
  {MkPol(id, SBodies[PS.st[id]], <<>>) : id \in DOMAIN PS.st}
  \cup {LinkBySubstitution(MkPol(id, TBodies[PS.tm[PS.ln[id].tid]], <<>>), id, PS.ln[id].env) : id \in DOMAIN PS.ln}

Requests == << Req, [Req EXCEPT !.principal = Ub], [Req EXCEPT !.resource = Gg] >>
Battery(PS) == [i \in 1..Len(Requests) |-> Authorize(PoliciesOf(PS), Requests[i], Store)]
==============================================================================
