//! family "store" (C04): histories of entity-store operations through the
//! public `cedar_policy::Entities` API; after every step the abstract state
//! (direct parents, data version, ancestor listing) and all pairwise
//! hierarchy queries are recorded.

use crate::abs::*;
use crate::gen::Gen;
use cedar_policy::{Entities, Entity, EntityUid};
use cedar_policy_core::ast;
use cedar_policy_core::entities::TCComputation;
use cedar_policy_core::evaluator::Evaluator;
use cedar_policy_core::extensions::Extensions;
use rand::Rng;
use serde_json::{json, Value as J};
use std::collections::{BTreeSet, HashMap, HashSet};

fn core_uid(k: i64) -> ast::EntityUID {
    uid("T", &format!("e{k}")).expect("uid")
}

fn num_of(u: &ast::EntityUID) -> i64 {
    let s: &str = u.eid().as_ref();
    s.trim_start_matches('e').parse().unwrap_or(-1)
}

fn entity_of(entry: &J) -> R<Entity> {
    let u = entry[0].as_i64().ok_or("entry uid")?;
    let parents: HashSet<EntityUid> = entry[1]
        .as_array()
        .ok_or("entry parents")?
        .iter()
        .map(|p| EntityUid::from(core_uid(p.as_i64().unwrap_or(-1))))
        .collect();
    let v = entry[2].as_i64().ok_or("entry v")?;
    let mut attrs = HashMap::new();
    attrs.insert("v".to_string(), cedar_policy::RestrictedExpression::new_long(v));
    Entity::new(EntityUid::from(core_uid(u)), attrs, parents).map_err(|e| e.to_string())
}

fn project(es: &Entities) -> J {
    let core: &cedar_policy_core::entities::Entities = es.as_ref();
    let mut rows: Vec<(i64, J)> = vec![];
    for e in core.iter() {
        let u = num_of(e.uid());
        let par: BTreeSet<i64> = e.parents().map(num_of).collect();
        // the public ancestor listing
        let anc: BTreeSet<i64> = es
            .ancestors(&EntityUid::from(e.uid().clone()))
            .map(|it| it.map(|a| num_of(a.as_ref())).collect())
            .unwrap_or_default();
        let v = match e.get("v") {
            Some(ast::PartialValue::Value(val)) => match val.value_kind() {
                ast::ValueKind::Lit(ast::Literal::Long(n)) => *n,
                _ => -1,
            },
            _ => -1,
        };
        rows.push((u, json!([u, par, v, anc])));
    }
    rows.sort_by_key(|r| r.0);
    J::Array(rows.into_iter().map(|r| r.1).collect())
}

fn err_kind(e: &cedar_policy::entities_errors::EntitiesError) -> &'static str {
    use cedar_policy::entities_errors::EntitiesError as E;
    match e {
        E::Duplicate(_) => "duplicate",
        E::TransitiveClosureError(_) => "tc",
        _ => "other",
    }
}

fn queries(es: &Entities, nu: i64) -> R<(J, J, J)> {
    let core: &cedar_policy_core::entities::Entities = es.as_ref();
    let mut is_anc = vec![];
    let mut is_in = vec![];
    let mut scope_in = vec![];
    let dummy = core_uid(0);
    let req = ast::Request::new(
        (dummy.clone(), None),
        (dummy.clone(), None),
        (dummy.clone(), None),
        ast::Context::empty(),
        None::<&ast::RequestSchemaAllPass>,
        Extensions::all_available(),
    )
    .map_err(|e| e.to_string())?;
    let ev = Evaluator::new(req, core, Extensions::all_available());
    let authorizer = cedar_policy::Authorizer::new();
    for a in 1..=nu {
        for b in 1..=nu {
            let (ua, ub) = (core_uid(a), core_uid(b));
            is_anc.push(json!([a, b, es.is_ancestor_of(&ua.clone().into(), &ub.clone().into())]));
            // `b in a` through the evaluator
            let e = ast::Expr::is_in(ast::Expr::val(ub.clone()), ast::Expr::val(ua.clone()));
            let r = ev.interpret(&e, &HashMap::new());
            is_in.push(json!([a, b, result_to_wire(&r)]));
        }
    }
    // and through a policy scope `principal in a` with principal = b, via the authorizer
    for a in 1..=nu {
        let b = (a % nu) + 1;
        for (x, y) in [(a, b), (a, a)] {
            let (ux, uy) = (core_uid(x), core_uid(y));
            let src = format!("permit(principal in T::\"e{x}\", action, resource);");
            let ps: cedar_policy::PolicySet = src.parse().map_err(|e| format!("{e}"))?;
            let rq: cedar_policy::Request = ast::Request::new(
                (uy.clone(), None),
                (dummy.clone(), None),
                (dummy.clone(), None),
                ast::Context::empty(),
                None::<&ast::RequestSchemaAllPass>,
                Extensions::all_available(),
            )
            .map_err(|e| e.to_string())?
            .into();
            let resp = authorizer.is_authorized(&rq, &ps, es);
            let _ = ux;
            scope_in.push(json!([x, y, resp.decision() == cedar_policy::Decision::Allow]));
        }
    }
    Ok((J::Array(is_anc), J::Array(is_in), J::Array(scope_in)))
}

pub fn run(case: &J) -> R<J> {
    let hist = case["hist"].as_array().ok_or("hist")?;
    let nu = case["nu"].as_i64().unwrap_or(4);
    let mut store = Entities::empty();
    let mut steps = vec![];
    for step in hist {
        let op = step[0].as_str().ok_or("op")?;
        let arg = &step[1];
        let pre = project(&store);
        let result = match op {
            "from" | "add" | "upsert" => {
                let batch = arg
                    .as_array()
                    .ok_or("batch")?
                    .iter()
                    .map(entity_of)
                    .collect::<R<Vec<_>>>()?;
                match op {
                    "from" => Entities::from_entities(batch, None),
                    "add" => store.clone().add_entities(batch, None),
                    _ => store.clone().upsert_entities(batch, None),
                }
            }
            "remove" => {
                let uids: Vec<EntityUid> = arg
                    .as_array()
                    .ok_or("uids")?
                    .iter()
                    .map(|u| EntityUid::from(core_uid(u.as_i64().unwrap_or(-1))))
                    .collect();
                store.clone().remove_entities(uids)
            }
            "fromEnforce" => {
                // the batch's parents are the complete ancestor sets claimed by the caller
                let batch = arg
                    .as_array()
                    .ok_or("batch")?
                    .iter()
                    .map(|e| entity_of(e).map(|x| AsRef::<ast::Entity>::as_ref(&x).clone()))
                    .collect::<R<Vec<_>>>()?;
                cedar_policy_core::entities::Entities::from_entities(
                    batch,
                    None::<&cedar_policy_core::entities::NoEntitiesSchema>,
                    TCComputation::EnforceAlreadyComputed,
                    Extensions::all_available(),
                )
                .map(Entities::from)
            }
            _ => return err(format!("bad op {op}")),
        };
        let res = match result {
            Ok(s) => {
                store = s;
                json!(["ok"])
            }
            Err(e) => json!(["err", err_kind(&e)]),
        };
        let post = project(&store);
        let (is_anc, is_in, scope_in) = queries(&store, nu)?;
        steps.push(json!({
            "ev": "EsOp", "op": op, "arg": arg, "res": res, "pre": pre, "post": post,
            "isAnc": is_anc, "in": is_in, "scopeIn": scope_in,
        }));
    }
    Ok(json!({"ev": "Multi", "events": steps}))
}

fn batch(g: &mut Gen, nu: i64, maxlen: usize) -> J {
    let n = g.rng.gen_range(1..=maxlen);
    let mut b = vec![];
    for _ in 0..n {
        let u = g.rng.gen_range(1..=nu);
        let mut par = BTreeSet::new();
        for p in 1..=nu {
            if g.chance(if nu > 5 { 18 } else { 30 }) {
                par.insert(p);
            }
        }
        b.push(json!([u, par, if g.chance(80) { 0 } else { 1 }]));
    }
    J::Array(b)
}

fn batch_op(g: &mut Gen, nu: i64) -> J {
    let op = *g.pick(&["add", "upsert"]);
    json!([op, batch(g, nu, 2)])
}

pub fn drive(seed: u64, n: usize) -> Vec<J> {
    let mut g = Gen::new(seed ^ 0xE57);
    (0..n)
        .map(|i| {
            if i % 2 == 1 {
                // a random DAG (edges from lower to higher numbers, relabelled) with most
                // entities present, then one or two removals / replacements: the shapes where
                // an ancestor must survive or vanish depending on the remaining paths
                let nu: i64 = *g.pick(&[4, 5, 6, 7]);
                let mut perm: Vec<i64> = (1..=nu).collect();
                for k in (1..perm.len()).rev() {
                    let j = g.rng.gen_range(0..=k);
                    perm.swap(k, j);
                }
                let dens = *g.pick(&[25, 40, 60]);
                let mut b = vec![];
                for a in 0..nu as usize {
                    if !g.chance(88) {
                        continue;
                    }
                    let mut par = BTreeSet::new();
                    for c in (a + 1)..nu as usize {
                        if g.chance(dens) {
                            par.insert(perm[c]);
                        }
                    }
                    b.push(json!([perm[a], par, 0]));
                }
                let mut hist = vec![json!(["from", b])];
                for _ in 0..g.rng.gen_range(1..3) {
                    let u = g.rng.gen_range(1..=nu);
                    match g.rng.gen_range(0..4) {
                        0 | 1 => hist.push(json!(["remove", [u]])),
                        2 => {
                            let mut par = BTreeSet::new();
                            for p in 1..=nu {
                                if g.chance(25) {
                                    par.insert(p);
                                }
                            }
                            hist.push(json!(["upsert", [[u, par, 1]]]))
                        }
                        _ => hist.push(batch_op(&mut g, nu)),
                    }
                }
                return json!({"id": i, "nu": nu, "hist": hist});
            }
            let nu: i64 = *g.pick(&[3, 4, 5, 6, 8]);
            let len = g.rng.gen_range(2..10);
            let mut hist = vec![];
            for k in 0..len {
                let op = if k == 0 && g.chance(60) {
                    "from"
                } else {
                    *g.pick(&["add", "add", "upsert", "upsert", "remove", "remove", "from", "fromEnforce"])
                };
                let arg = match op {
                    "remove" => {
                        let mut s = BTreeSet::new();
                        for _ in 0..g.rng.gen_range(1..3) {
                            s.insert(g.rng.gen_range(1..=nu));
                        }
                        json!(s)
                    }
                    "from" | "fromEnforce" => batch(&mut g, nu, 4),
                    _ => batch(&mut g, nu, 3),
                };
                hist.push(json!([op, arg]));
            }
            json!({"id": i, "nu": nu, "hist": hist})
        })
        .collect()
}
