//! family "schemasyn" (C09): one unresolved abstract schema, rendered to both concrete
//! syntaxes, loaded, translated each way with the library, reloaded; every loaded
//! `ValidatorSchema` is projected to the resolved abstract form by a structural walk.
//! Nothing is compared here except through the library's own `==` (recorded, judged in TLC).

use crate::abs::*;
use crate::schema_syntax::*;
use cedar_policy::{Schema, SchemaFragment};
use cedar_policy_core::validator::types::{BoolType, EntityKind, OpenTag, Type};
use cedar_policy_core::validator::{ValidatorEntityTypeKind, ValidatorSchema};
use serde_json::{json, Map, Value as J};

fn type_wire(t: &Type) -> J {
    match t {
        Type::Never => json!(["Never"]),
        Type::Bool(BoolType::AnyBool) => json!(["Bool"]),
        Type::Bool(BoolType::True) => json!(["True"]),
        Type::Bool(BoolType::False) => json!(["False"]),
        Type::Long => json!(["Long"]),
        Type::String => json!(["String"]),
        Type::Entity(EntityKind::AnyEntity) => json!(["AnyEntity"]),
        Type::Entity(EntityKind::Entity(lub)) => match lub.get_single_entity() {
            Some(e) => json!(["Entity", e.to_string()]),
            None => json!(["EntityLub", format!("{lub:?}")]),
        },
        Type::Set { element_type: Some(e) } => json!(["Set", type_wire(e)]),
        Type::Set { element_type: None } => json!(["SetAny"]),
        Type::Record { attrs, open_attributes } => {
            let mut m = Map::new();
            for (k, a) in attrs.iter() {
                m.insert(k.to_string(), json!([type_wire(&a.attr_type), a.is_required]));
            }
            match open_attributes {
                OpenTag::ClosedAttributes => json!(["Record", m]),
                OpenTag::OpenAttributes => json!(["OpenRecord", m]),
            }
        }
        Type::ExtensionType { name } => json!(["Ext", name.to_string()]),
    }
}

pub fn project_schema(schema: &Schema) -> J {
    let vs: &ValidatorSchema = schema.as_ref();
    let mut ets = vec![];
    for et in vs.entity_types() {
        let mut attrs = Map::new();
        for (k, a) in et.attributes().iter() {
            attrs.insert(k.to_string(), json!([type_wire(&a.attr_type), a.is_required]));
        }
        let mut desc: Vec<String> = et.descendants.iter().map(|d| d.to_string()).collect();
        desc.sort();
        let en: Vec<J> = match &et.kind {
            ValidatorEntityTypeKind::Enum(choices) => choices.iter().map(|e| json!(AsRef::<str>::as_ref(e))).collect(),
            ValidatorEntityTypeKind::Standard(_) => vec![],
        };
        let open = matches!(et.open_attributes(), OpenTag::OpenAttributes);
        let mut o = json!({
            "name": et.name().to_string(), "attrs": attrs,
            "tags": et.tag_type().map(type_wire).unwrap_or_else(|| json!(["none"])),
            "desc": desc, "enum": en,
        });
        if open {
            o["open"] = json!(true);
        }
        ets.push(o);
    }
    ets.sort_by_key(|e| e["name"].as_str().unwrap_or("").to_string());
    let mut acts = vec![];
    for a in vs.action_ids() {
        let mut ps: Vec<String> = a.applies_to_principals().map(|t| t.to_string()).collect();
        let mut rs: Vec<String> = a.applies_to_resources().map(|t| t.to_string()).collect();
        ps.sort();
        rs.sort();
        let mut desc: Vec<J> = a.descendants().map(|d| json!([d.entity_type().to_string(), AsRef::<str>::as_ref(d.eid())])).collect();
        desc.sort_by_key(|x| x.to_string());
        acts.push(json!({
            "ty": a.name().entity_type().to_string(), "id": AsRef::<str>::as_ref(a.name().eid()),
            "principals": ps, "resources": rs, "context": type_wire(a.context()), "desc": desc,
        }));
    }
    acts.sort_by_key(|a| format!("{} {}", a["ty"], a["id"]));
    json!({"ets": ets, "acts": acts})
}

/// every annotation of a fragment, read off its lossless JSON form: [path, key, value], sorted
fn annotations_of(frag: SchemaFragment) -> J {
    fn walk(v: &J, path: &str, out: &mut Vec<J>) {
        match v {
            J::Object(m) => {
                for (k, x) in m.iter() {
                    if k == "annotations" {
                        if let J::Object(a) = x {
                            for (ak, av) in a.iter() {
                                out.push(json!([path, ak, av]));
                            }
                        }
                    } else {
                        walk(x, &format!("{path}/{k}"), out);
                    }
                }
            }
            J::Array(a) => {
                for (i, x) in a.iter().enumerate() {
                    walk(x, &format!("{path}/{i}"), out);
                }
            }
            _ => {}
        }
    }
    let mut out = vec![];
    match frag.to_json_value() {
        Ok(v) => walk(&v, "", &mut out),
        Err(e) => out.push(json!(["?", "error", e.to_string()])),
    }
    out.sort_by_key(|x| x.to_string());
    J::Array(out)
}

fn short(e: impl std::fmt::Display) -> String {
    let s = e.to_string();
    s.chars().take(160).collect()
}

fn loaded(r: Result<Schema, String>, keep: &mut Vec<(String, Schema)>, label: &str) -> J {
    match r {
        Ok(s) => {
            let p = project_schema(&s);
            keep.push((label.to_string(), s));
            json!(["ok", p])
        }
        Err(e) => json!(["err", "load", e]),
    }
}

/// a schema file of the repository (T binding): load it, translate it with the library in every direction, reload
fn run_file(case: &J) -> R<J> {
    let path = case["file"].as_str().ok_or("file")?;
    let text = std::fs::read_to_string(path).map_err(|e| format!("{path}: {e}"))?;
    let is_json = case["syntax"] == "json";
    let mut keep: Vec<(String, Schema)> = vec![];
    let mut steps = Map::new();
    let frag = if is_json {
        steps.insert("S".into(), loaded(Schema::from_json_str(&text).map_err(short), &mut keep, "S"));
        SchemaFragment::from_json_str(&text).map_err(short)
    } else {
        steps.insert("S".into(), loaded(Schema::from_cedarschema_str(&text).map(|(s, _)| s).map_err(short), &mut keep, "S"));
        SchemaFragment::from_cedarschema_str(&text).map(|(f, _)| f).map_err(short)
    };
    match frag {
        Err(e) => {
            steps.insert("SC".into(), json!(["err", "fragment", e.clone()]));
            steps.insert("SJ".into(), json!(["err", "fragment", e]));
        }
        Ok(frag) => {
            match frag.to_cedarschema() {
                Err(e) => {
                    steps.insert("SC".into(), json!(["err", "translate", short(e)]));
                }
                Ok(t) => {
                    steps.insert("SC".into(), loaded(Schema::from_cedarschema_str(&t).map(|(s, _)| s).map_err(short), &mut keep, "SC"));
                    // and once more: the printer's output is a fixed point up to meaning
                    if let Ok((f2, _)) = SchemaFragment::from_cedarschema_str(&t) {
                        if let Ok(v) = f2.to_json_value() {
                            steps.insert("SCJ".into(), loaded(Schema::from_json_value(v).map_err(short), &mut keep, "SCJ"));
                        }
                    }
                }
            }
            match frag.to_json_value() {
                Err(e) => {
                    steps.insert("SJ".into(), json!(["err", "translate", short(e)]));
                }
                Ok(v) => {
                    steps.insert("SJ".into(), loaded(Schema::from_json_value(v.clone()).map_err(short), &mut keep, "SJ"));
                    if let Ok(f2) = SchemaFragment::from_json_value(v) {
                        if let Ok(t) = f2.to_cedarschema() {
                            steps.insert("SJC".into(), loaded(Schema::from_cedarschema_str(&t).map(|(s, _)| s).map_err(short), &mut keep, "SJC"));
                        }
                    }
                }
            }
        }
    }
    if !is_json {
        match cedar_policy::schema_str_to_json_with_resolved_types(&text) {
            Err(e) => {
                steps.insert("SR".into(), json!(["err", "translate", short(e)]));
            }
            Ok((v, _)) => {
                steps.insert("SR".into(), loaded(Schema::from_json_value(v).map_err(short), &mut keep, "SR"));
            }
        }
    }
    let mut lib_eq = Map::new();
    if let Some((l0, s0)) = keep.first() {
        let v0: &ValidatorSchema = s0.as_ref();
        for (l, s) in keep.iter().skip(1) {
            let v: &ValidatorSchema = s.as_ref();
            lib_eq.insert(format!("{l0}={l}"), json!(v0 == v));
        }
    }
    Ok(json!({"ev": "SchemaFile", "file": path, "syntax": case["syntax"], "steps": steps, "lib_eq": lib_eq}))
}

pub fn run(case: &J) -> R<J> {
    if case.get("file").is_some() {
        return run_file(case);
    }
    let s = &case["s"];
    let style = Style(case.get("style").and_then(|x| x.as_u64()).unwrap_or(0));
    // the renderings themselves are echoed only on request (replays): they are functions of (s, style)
    let verbose = case.get("verbose").and_then(|x| x.as_bool()).unwrap_or(false);
    let js = unresolved_json(s, style)?;
    let mut ann = Map::new();
    let cs = unresolved_cedar(s, style)?;
    let mut keep: Vec<(String, Schema)> = vec![];
    let mut steps = Map::new();

    // ---- the JSON rendering and its translations
    steps.insert("J".into(), loaded(Schema::from_json_value(js.clone()).map_err(short), &mut keep, "J"));
    match SchemaFragment::from_json_value(js.clone()) {
        Err(e) => {
            steps.insert("JC".into(), json!(["err", "fragment", short(e)]));
            steps.insert("JJ".into(), json!(["err", "fragment", short(e_dummy())]));
        }
        Ok(frag) => {
            ann.insert("J".into(), annotations_of(frag.clone()));
            match frag.to_cedarschema() {
                Err(e) => {
                    steps.insert("JC".into(), json!(["err", "translate", short(e)]));
                }
                Ok(text) => {
                    steps.insert("JC".into(), loaded(Schema::from_cedarschema_str(&text).map(|(s, _)| s).map_err(short), &mut keep, "JC"));
                    if let Ok((f2, _)) = SchemaFragment::from_cedarschema_str(&text) {
                        ann.insert("JC".into(), annotations_of(f2));
                    }
                    if verbose {
                        steps.insert("JC_text".into(), json!(text));
                    }
                }
            }
            match frag.to_json_value() {
                Err(e) => {
                    steps.insert("JJ".into(), json!(["err", "translate", short(e)]));
                }
                Ok(v) => {
                    if let Ok(f2) = SchemaFragment::from_json_value(v.clone()) {
                        ann.insert("JJ".into(), annotations_of(f2));
                    }
                    steps.insert("JJ".into(), loaded(Schema::from_json_value(v).map_err(short), &mut keep, "JJ"));
                }
            }
        }
    }
    // ---- the Cedar rendering and its translations
    match &cs {
        None => {
            steps.insert("C".into(), json!(["na"]));
        }
        Some(text) => {
            steps.insert("C".into(), loaded(Schema::from_cedarschema_str(text).map(|(s, _)| s).map_err(short), &mut keep, "C"));
            match SchemaFragment::from_cedarschema_str(text) {
                Err(e) => {
                    steps.insert("CJ".into(), json!(["err", "fragment", short(e)]));
                }
                Ok((frag, _)) => {
                    ann.insert("C".into(), annotations_of(frag.clone()));
                    match frag.to_cedarschema() {
                        Err(e) => {
                            steps.insert("CC".into(), json!(["err", "translate", short(e)]));
                        }
                        Ok(t2) => {
                            steps.insert("CC".into(), loaded(Schema::from_cedarschema_str(&t2).map(|(s, _)| s).map_err(short), &mut keep, "CC"));
                            if let Ok((f2, _)) = SchemaFragment::from_cedarschema_str(&t2) {
                                ann.insert("CC".into(), annotations_of(f2));
                            }
                        }
                    }
                    match frag.to_json_value() {
                        Err(e) => {
                            steps.insert("CJ".into(), json!(["err", "translate", short(e)]));
                        }
                        Ok(v) => {
                            if let Ok(f2) = SchemaFragment::from_json_value(v.clone()) {
                                ann.insert("CJ".into(), annotations_of(f2));
                            }
                            steps.insert("CJ".into(), loaded(Schema::from_json_value(v).map_err(short), &mut keep, "CJ"));
                        }
                    }
                }
            }
            // Cedar text -> JSON with resolved types (a third translation the API offers)
            match cedar_policy::schema_str_to_json_with_resolved_types(text) {
                Err(e) => {
                    steps.insert("CR".into(), json!(["err", "translate", short(e)]));
                }
                Ok((v, _)) => {
                    if let Ok(f2) = SchemaFragment::from_json_value(v.clone()) {
                        ann.insert("CR".into(), annotations_of(f2));
                    }
                    steps.insert("CR".into(), loaded(Schema::from_json_value(v).map_err(short), &mut keep, "CR"));
                }
            }
        }
    }
    // the library's own equality between every loaded schema and the first loaded one
    let mut lib_eq = Map::new();
    if let Some((l0, s0)) = keep.first() {
        let v0: &ValidatorSchema = s0.as_ref();
        for (l, s) in keep.iter().skip(1) {
            let v: &ValidatorSchema = s.as_ref();
            lib_eq.insert(format!("{l0}={l}"), json!(v0 == v));
        }
    }
    let mut out = json!({"ev": "SchemaSyn", "s": s, "steps": steps, "lib_eq": lib_eq, "ann": ann, "style": style.0});
    if verbose {
        out["json"] = js;
        if let Some(t) = cs {
            out["cedar_text"] = json!(t);
        }
    }
    for k in ["id", "coord", "cedar", "ok"] {
        if let Some(v) = case.get(k) {
            out[k] = v.clone();
        }
    }
    Ok(out)
}

fn e_dummy() -> &'static str {
    "see JC"
}

pub fn drive(_seed: u64, _n: usize) -> Vec<J> {
    vec![]
}
