------------------------------ MODULE MC_Slice ------------------------------
(* Case generator for C16 / C17: strictly valid policy sets that put a        *)
(* dereference chain of depth 1..4 in every syntactic context, over Sc2.      *)
(* Binding M: the level-n slice of the specification is monotone in n and the *)
(* full store is the limit.                                                   *)
EXTENDS MC_TpePols, Slicing, Json

VARIABLES coord, c

\* dereference chains: <<expression of type Long, guard that makes it safe>>
Chains == <<
  <<G_(Pv, "n"), TT_>>,
  <<G_(G_(Pv, "mgr"), "n"), H_(Pv, "mgr")>>,
  <<G_(G_(G_(Rv, "owner"), "mgr"), "n"), H_(G_(Rv, "owner"), "mgr")>>,
  <<G_(G_(G_(G_(Rv, "owner"), "mgr"), "mgr"), "n"), And_(H_(G_(Rv, "owner"), "mgr"), H_(G_(G_(Rv, "owner"), "mgr"), "mgr"))>>,
  <<G_(G_(G_(Pv, "mgr"), "mgr"), "n"), And_(H_(Pv, "mgr"), H_(G_(Pv, "mgr"), "mgr"))>>
>>
\* entity-valued chains: <<expression of type User, guard>>
EChains == << <<Pv, TT_>>, <<G_(Pv, "mgr"), H_(Pv, "mgr")>>, <<G_(Rv, "owner"), TT_>>, <<G_(G_(Rv, "owner"), "mgr"), H_(G_(Rv, "owner"), "mgr")>> >>
Lt10(e) == B_("less", e, LitL(10))
RecLit(e) == <<"record", [a |-> e], <<"a">>>>
Ctx(k, ch) ==
  LET e == ch[1] g == ch[2] IN
  CASE k = 1 -> And_(g, Lt10(e))                                             \* bare
    [] k = 2 -> And_(g, Lt10(G_(RecLit(e), "a")))                             \* through a record literal
    [] k = 3 -> And_(g, B_("contains", <<"set", <<e, LitL(1)>>>>, LitL(1)))  \* as a set element
    [] k = 4 -> If_(g, Lt10(e), FF_)                                          \* in an if branch
    [] k = 5 -> And_(g, Lt10(If_(Lt10(e), e, LitL(0))))                       \* as an if guard and branch
    [] k = 6 -> Or_(Not_(H_(Pv, "opt")), And_(g, Lt10(e)))
ECtx(k, ch) ==
  LET e == ch[1] g == ch[2] IN
  CASE k = 1 -> And_(g, B_("in", e, <<"lit", TG>>))                            \* left operand of in
    [] k = 2 -> And_(g, B_("hasTag", e, LitS(TagK)))                          \* hasTag operand
    [] k = 3 -> And_(g, And_(B_("hasTag", e, LitS(TagK)), Lt10(B_("getTag", e, LitS(TagK)))))
    [] k = 4 -> And_(g, H_(e, "opt"))                                          \* under has
    [] k = 5 -> And_(g, B_("eq", e, <<"lit", TU2>>))                           \* compared, not dereferenced
    [] k = 6 -> And_(g, Lt10(G_(If_(H_(e, "mgr"), G_(e, "mgr"), e), "n")))     \* if-then-else producing an entity
    [] k = 7 -> And_(g, B_("contains", <<"set", <<e>>>>, Pv))                  \* set of entities
    [] k = 8 -> And_(g, Lt10(G_(G_(RecLit(e), "a"), "n")))                     \* record containing an entity, then dereferenced
    [] k = 9 -> And_(g, H_(G_(e, "rec"), "inner"))                             \* has on a record reached through the chain
    [] k = 10 -> And_(g, And_(H_(G_(e, "rec"), "inner"), Lt10(G_(G_(e, "rec"), "inner"))))
    [] k = 11 -> And_(g, Or_(B_("in", e, <<"lit", TG>>), B_("in", e, <<"lit", TG2>>)))   \* two membership tests on one path
    [] k = 12 -> And_(g, And_(Not_(B_("in", e, <<"lit", TG>>)), B_("in", e, <<"lit", TG2>>)))
    \* an `||` whose RIGHT operand is statically true still evaluates it whenever the left one is false
    [] k = 13 -> And_(g, Or_(B_("eq", G_(Pv, "n"), LitL(5)), <<"is", e, "User">>))
    [] k = 14 -> And_(g, Or_(B_("eq", G_(Pv, "n"), LitL(5)), Or_(Lt10(G_(e, "n")), TT_)))
    \* ... with the guard inside the statically true operand as well: nothing outside it pays for the dereferences
    [] k = 15 -> Or_(B_("eq", G_(Pv, "n"), LitL(5)), Or_(And_(g, Lt10(G_(e, "n"))), TT_))
    [] k = 16 -> Or_(Not_(H_(Pv, "n")), Or_(And_(g, B_("hasTag", e, LitS(TagK))), TT_))
\* an action literal other than the request's action is an entity like any other: dereferencing it (`in`) needs it in the slice
ActLitPols ==
  {<<WithId(WhenP(s, e), "p1", eff)>> : s \in {1, 5}, eff \in {"permit"},
     e \in {B_("in", <<"lit", TEdit>>, <<"lit", TAll>>), Not_(B_("in", <<"lit", TEdit>>, <<"lit", TAll>>)),
            And_(B_("in", <<"lit", TEdit>>, <<"set", <<<<"lit", TAll>>, <<"lit", TView>>>>>>), Lt10(G_(Pv, "n"))),
            B_("in", <<"lit", TView>>, <<"lit", TAll>>), Or_(B_("in", <<"lit", TAll>>, <<"lit", TEdit>>), B_("in", Av, <<"lit", TAll>>))}}
LevelPols ==
  ActLitPols \cup
  {<<WithId(WhenP(2, Ctx(k, Chains[i])), "p1", "permit")>> : k \in 1..6, i \in 1..Len(Chains)}
  \cup {<<WithId(WhenP(2, ECtx(k, EChains[i])), "p1", "permit")>> : k \in 1..16, i \in 1..Len(EChains)}
  \cup {<<WithId(WhenP(2, ECtx(1, EChains[i])), "p1", "permit"),
          WithId(WhenP(2, And_(EChains[i][2], B_("in", EChains[i][1], <<"lit", TG2>>))), "p2", "permit")>> : i \in 1..Len(EChains)}
  \cup {<<WithId(WhenP(2, Ctx(1, Chains[i])), "p1", "permit"), WithId(WhenP(2, ECtx(k, EChains[j])), "p2", "forbid")>>
        : i \in 1..Len(Chains), k \in {1, 3, 6}, j \in 1..Len(EChains)}
AllSets == IF "RANDPOLS" \in DOMAIN IOEnv THEN PolSets ELSE LevelPols \cup PolSets

EnvChoices == { <<TRUE, "u2", TRUE, TRUE, "g", TRUE, "u2", 3, "u1">>, <<FALSE, "none", FALSE, FALSE, "no", TRUE, "u2", 5, "u1">>,   \* owner u2 with its manager u4 two hops from the resource
                <<FALSE, "u2", TRUE, FALSE, "g2", TRUE, "u2", 2, "u1">>,
                <<TRUE, "u2", TRUE, TRUE, "g", TRUE, "u1", 3, "u1">>, <<FALSE, "none", FALSE, FALSE, "no", FALSE, "u2", 2, "u1">>,
                <<TRUE, "u3", FALSE, TRUE, "no", FALSE, "u1", 5, "u1">>, <<FALSE, "u2", TRUE, FALSE, "g", TRUE, "u2", 1, "u2">>,
                <<TRUE, "u2", FALSE, FALSE, "g", FALSE, "u2", 4, "u1">>, <<FALSE, "u3", TRUE, TRUE, "no", TRUE, "u1", 1, "u2">>,
                <<TRUE, "none", TRUE, FALSE, "no", TRUE, "u2", 5, "u2">>, <<FALSE, "u2", FALSE, TRUE, "g", FALSE, "u1", 3, "u1">>,
                <<TRUE, "u2", TRUE, TRUE, "no", TRUE, "u2", 1, "u1">>, <<TRUE, "u2", TRUE, FALSE, "g", TRUE, "u1", 2, "u2">>,
                <<TRUE, "u2", TRUE, TRUE, "g2", TRUE, "u1", 3, "u1">>, <<FALSE, "none", FALSE, FALSE, "g2", FALSE, "u2", 2, "u2">> }
Levels == 0..4

Coords == 1..8
CasesOf(k) == {[pols |-> ps] : ps \in {x \in AllSets : SetHash(x) % 8 = k - 1}}
Init == coord \in Coords /\ c = <<>>
Next == c = <<>> /\ c' \in CasesOf(coord) /\ UNCHANGED coord

\* ---------------------------------------------------------------- binding M
SliceMonotone == \A p \in EnvChoices : \A n \in 0..3 : LevelUids(EnvP(p), n) \subseteq LevelUids(EnvP(p), n + 1)
SliceLimit == \A p \in EnvChoices : LevelSlice(EnvP(p), 4) = [u \in LevelUids(EnvP(p), 4) |-> EnvP(p).store[u]]
ASSUME SliceMonotone /\ SliceLimit

Dump == PrintT("CASE " \o ToJson(c'))
ASSUME PrintT("WORLD " \o ToJson([schema |-> Sc2,
          envs |-> {[params |-> p, env |-> WireEnv(EnvP(p)), levels |-> [n \in 1..5 |-> LevelUids(EnvP(p), n - 1)]] : p \in EnvChoices}]))
==============================================================================
