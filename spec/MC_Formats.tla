------------------------------ MODULE MC_Formats ------------------------------
(* Case generator for C06: policies and templates over World whose conditions  *)
(* use every operator of the JSON policy format, every scope form, several      *)
(* when/unless clauses and annotations; TLC emits the abstract policy together  *)
(* with EstOf(policy).  Binding M: EstOf is injective on the generated cases.   *)
EXTENDS World, Est, Json

VARIABLES coord, c
Lf == << Lit(<<"bool", TRUE>>), Lit(L(1)), Lit(MinL), Lit(MaxL), Lit(S(<<97, 34, 92, 10, Smile>>)), Lit(Ua), V("principal"), V("context"),
         Get(V("context"), "n"), SetE(<<Lit(L(1)), Lit(StrA)>>), RecE([a |-> Lit(L(1)), if |-> Lit(StrA)], <<"a", "if">>), Dec(<<49, 46, 53>>) >>
LfSet == {Lf[i] : i \in 1..Len(Lf)}
HasChain(b, as) == LET RECURSIVE H(_) H(k) == IF k = 1 THEN <<"has", b, as[1]>> ELSE <<"and", H(k - 1), <<"has", GetPath(b, SubSeq(as, 1, k - 1)), as[k]>>>> IN H(Len(as))
Exprs(k) ==
  CASE k = "bin" -> {Bin(BinOps[i], x, y) : i \in 1..Len(BinOps), x \in LfSet, y \in {Lf[2], Lf[5], Lf[6], Lf[10]}}
    [] k = "un" -> {<<op, x>> : op \in {"not", "neg", "isEmpty"}, x \in LfSet}
                   \cup {<<op, x, y>> : op \in {"and", "or"}, x \in LfSet, y \in {Lf[1], Lf[9]}}
    [] k = "acc" -> {<<op, x, a>> : op \in {"get", "has"}, x \in LfSet, a \in {"n", "if", "a b", ""}}
                    \cup {<<"is", x, t>> : x \in LfSet, t \in {"User", "NS::T"}}
                    \cup {<<"like", x, p>> : x \in {Lf[5], Lf[9]}, p \in {<<>>, <<Star>>, <<97, Star, 42, Smile>>, <<34, 92>>}}
    [] k = "misc" -> {<<"if", x, y, z>> : x \in {Lf[1], Lf[9]}, y \in {Lf[2], Lf[6]}, z \in {Lf[5], Lf[11]}}
                     \cup {SetE(<<x, y>>) : x \in LfSet, y \in {Lf[2], Lf[10]}} \cup {SetE(<<>>)}
                     \cup {Call(f, <<x, y>>) : f \in {"lessThan", "isInRange"}, x \in {Lf[12], Lf[2]}, y \in {Lf[12]}}
                     \cup {Call(f, <<x>>) : f \in {"decimal", "ip", "isIpv4", "toDate"}, x \in {Lf[5], Lf[12]}}
                     \cup {Bin("add", Bin("mul", Lf[2], x), <<"neg", y>>) : x \in {Lf[2], Lf[9]}, y \in {Lf[2], Lf[3]}}
    [] k = "alt" -> {HasChain(b, as) : b \in {Lf[7], Lf[8], Lf[9], Lf[11]}, as \in {<<"n", "m">>, <<"a b", "if", "">>, <<"n", "n", "n", "n">>}}
                    \cup {<<"and", HasChain(Lf[8], <<"n", "m">>), HasChain(Lf[7], <<"x", "y">>)>>,
                          <<"and", <<"and", Lf[1], <<"has", Lf[8], "n">>>>, <<"has", Get(Lf[8], "n"), "m">>>>,
                          <<"and", <<"has", Lf[8], "n">>, <<"has", Get(Lf[7], "n"), "m">>>>,
                          <<"or", HasChain(Lf[8], <<"n", "m">>), <<"not", HasChain(Lf[8], <<"n", "m", "k">>)>>>>}
                    \cup {Bin("eq", x, y) : x, y \in {SetE(<<>>), Lf[10], SetE(<<Lit(Ua), Lit(<<"bool", FALSE>>), Lit(MinL)>>), Lf[11],
                                                      RecE([k |-> Lit(Ua)], <<"k">>), Dec(<<49, 46, 53>>), Call("ip", <<Lit(S(<<49, 46, 50, 46, 51, 46, 52>>))>>),
                                                      SetE(<<Lf[10], Lit(L(1))>>)}}
AnyS == <<"any">>
PScopes == <<AnyS, <<"eq", Ua>>, <<"in", Gg>>, <<"is", "User">>, <<"isin", "User", Gg>>, <<"eqslot">>, <<"inslot">>, <<"isinslot", "NS::T">>>>
AScopes == <<AnyS, <<"eq", Av>>, <<"inset", <<Av, Ae>>>>, <<"inset", <<>>>>, <<"in", Av>>>>
RScopes == <<AnyS, <<"eq", Dd>>, <<"is", "Doc">>, <<"inslot">>, <<"isin", "Doc", Gg>>, <<"isinslot", "Doc">>, <<"eqslot">>>>
Anns == << <<>>, <<<<"id", <<120>>>>>>, <<<<"a", <<>>>>, <<"b_c", <<34, 92, 10, Smile>>>>>> >>
Pol(eff, pr, ac, re, conds, ann) == [effect |-> eff, principal |-> pr, action |-> ac, resource |-> re, conds |-> conds, annotations |-> ann, id |-> "p"]

Coords == {<<"expr", k, w>> : k \in {"bin", "un", "acc", "misc", "alt"}, w \in {"when", "unless"}} \cup {<<"scope", i>> : i \in 1..Len(PScopes)} \cup {<<"clauses">>}
CasesOf(k) ==
  CASE k[1] = "expr" -> {Pol("permit", AnyS, AnyS, AnyS, <<<<k[3], e>>>>, Anns[1]) : e \in Exprs(k[2])}
    [] k[1] = "scope" -> {Pol(eff, PScopes[k[2]], AScopes[a], RScopes[r], <<>>, Anns[n]) : eff \in {"permit", "forbid"}, a \in 1..Len(AScopes), r \in 1..Len(RScopes), n \in 1..Len(Anns)}
    [] k[1] = "clauses" -> {Pol("forbid", pr, AnyS, RScopes[4], cs, Anns[3])
                            : pr \in {PScopes[2], PScopes[6]},
                              cs \in {<<>>} \cup {<<<<k1, Lf[1]>>, <<k2, Lf[9]>>>> : k1, k2 \in {"when", "unless"}}
                                   \cup {<<<<k1, Lf[9]>>, <<k2, Bin("eq", Lf[2], Lf[2])>>, <<k3, Lf[1]>>>> : k1, k2, k3 \in {"when", "unless"}}}
Init == coord \in Coords /\ c = <<>>
Next == c = <<>> /\ c' \in CasesOf(coord) /\ UNCHANGED coord
Dump == PrintT("CASE " \o ToJson([policy |-> c', est |-> EstOf(c'), alt |-> EstAltOf(c')]))
==============================================================================
