"""Random strictly valid policy sets over schema Sc2 (TypedWorld.tla), produced by the harness generator gen_typed.rs.

The TLC case generators that share MC_TpePols.tla (TPE, permission queries, batched, slicing, SymCC) read them through
RANDPOLS=<file> and combine them with their own coordinates; the judge stays the trace specification."""
import json
import os
import random

import vlib


def _world(wd):
    r = vlib.run_model("MC_Sc2World.tla", "MC_Sc2World.cfg", wd, "sc2world", timeout=600, workers=1)
    if not r["ok"]:
        raise vlib.ToolError("MC_Sc2World failed: %s" % r["error"])
    world = None
    for w in vlib.tlc_lines(r["out"], "WORLD"):
        world = w
    os.remove(r["out"])
    return world


def singles(wd, seed, n, depth=3):
    """-> list of dict(policy=wire policy with id p1, strict=bool) (every strictly valid one generated, a quarter of the others)"""
    path = os.path.join(wd, "typedgen.%d.%d.out.ndjson" % (seed, n))
    if not os.path.exists(path):
        world = _world(wd)
        cpath = os.path.join(wd, "typedgen.cases.ndjson")
        vlib.write_ndjson(cpath, [dict(setup=dict(schema=world["schema"])), dict(gen=dict(seed=seed, n=n, depth=depth))])
        vlib.conform("replay", "typedgen", cpath, path)
    out = []
    with open(path) as f:
        for line in f:
            ev = json.loads(line)
            if ev.get("ev") == "TypedGen":
                out.append(dict(policy=ev["policy"], strict=ev["strict"]))
            elif ev.get("ev") != "TypedGenSetup":
                raise vlib.ToolError("typedgen: %s" % line[:300])
    return out


def pre(nsets, maxlen=3):
    """-> a `pre` hook for a model dict: writes <wd>/randpols.ndjson with nsets[tier] policy sets, returns the TLC environment"""
    def hook(fam, tier, wd, seed):
        n = nsets[tier]
        path = os.path.join(wd, "randpols.%d.%d.ndjson" % (seed, n))
        if not os.path.exists(path):
            pool = [s["policy"] for s in singles(wd, seed, max(2 * n, 200)) if s["strict"]]
            rnd = random.Random(seed)
            sets = []
            for _ in range(n):
                k = rnd.choice([1, 1, 2, 3][:maxlen + 1]) if maxlen > 1 else 1
                k = min(k, maxlen)
                sets.append(dict(pols=[dict(rnd.choice(pool), id="p%d" % (j + 1)) for j in range(k)]))
            vlib.write_ndjson(path, sets)
        return dict(RANDPOLS=path)
    return hook
