----------------------------- MODULE EntityStore -----------------------------
(***************************************************************************)
(* The entity store as a state machine (C04).                              *)
(*                                                                         *)
(* Abstract state: ents = function from the uids that have a record to     *)
(*   [par |-> set of direct parents, v |-> data version].                  *)
(* A parent without a record is a leaf.  The observable hierarchy is       *)
(* Reach: the least fixed point of parent steps; nothing else is stored,   *)
(* so an ancestor exists only while a path justifies it.                   *)
(*                                                                         *)
(* Operations (what cedar documents and implements):                       *)
(*   From(batch)    build from a batch, computing the closure              *)
(*   Add(batch)     add; a uid already present (or repeated in the batch)  *)
(*                  is a Duplicate error unless the definition is identical*)
(*                  (same data, and the given parents equal the ancestor   *)
(*                  set of the stored entity - cedar's deep_eq)            *)
(*   Upsert(batch)  add or overwrite (last entry for a uid wins)           *)
(*   Remove(uids)   delete the present ones and every edge to them;        *)
(*                  uids without a record are ignored (dangling edges stay)*)
(*   FromEnforce(b) accept the given ancestor sets iff closed and acyclic  *)
(* Every operation answers <<"err","tc">> (no store)    iff the resulting  *)
(* graph would make some entity its own ancestor.                          *)
(* A batch is a sequence of <<uid, parents, v>>.                           *)
(***************************************************************************)
EXTENDS Integers, Sequences, FiniteSets

Par(E, u) == IF u \in DOMAIN E THEN E[u].par ELSE {}

RECURSIVE ReachFrom(_, _, _)
ReachFrom(E, frontier, seen) ==
  IF frontier \subseteq seen THEN seen
  ELSE ReachFrom(E, UNION {Par(E, u) : u \in frontier \ seen}, seen \cup frontier)
Reach(E, u) == ReachFrom(E, Par(E, u), {})          \* proper ancestors of u (u itself only on a cycle)
Acyclic(E) == \A u \in DOMAIN E : u \notin Reach(E, u)

IsAncestorOf(E, a, e) == a = e \/ a \in Reach(E, e)  \* `e in a`

Restrict(f, S) == [x \in S |-> f[x]]
Put(E, u, rec) == [x \in DOMAIN E \cup {u} |-> IF x = u THEN rec ELSE E[x]]

EsOk(E) == <<"ok", E>>
EsErr(k) == <<"err", k>>

\* sequential insertion with duplicate detection.  `fresh` = uids inserted by
\* this batch (their "ancestor set" for the identity test is still the given parents)
RECURSIVE AddSeq(_, _, _, _, _)
AddSeq(E0, E, fresh, batch, i) ==
  IF i > Len(batch) THEN EsOk(E)
  ELSE LET u == batch[i][1]
           p == batch[i][2]
           v == batch[i][3]
       IN IF u \notin DOMAIN E THEN AddSeq(E0, Put(E, u, [par |-> p, v |-> v]), fresh \cup {u}, batch, i + 1)
          ELSE LET stored == IF u \in fresh THEN E[u].par ELSE Reach(E0, u)
               IN IF E[u].v = v /\ stored = p THEN AddSeq(E0, E, fresh, batch, i + 1)
                  ELSE EsErr("duplicate")

Checked(r) == IF r[1] = "ok" /\ ~Acyclic(r[2]) THEN EsErr("tc") ELSE r

From(batch) == Checked(AddSeq(<<>>, <<>>, {}, batch, 1))
Add(E, batch) == Checked(AddSeq(E, E, {}, batch, 1))

RECURSIVE UpsertSeq(_, _, _)
UpsertSeq(E, batch, i) ==
  IF i > Len(batch) THEN E
  ELSE UpsertSeq(Put(E, batch[i][1], [par |-> batch[i][2], v |-> batch[i][3]]), batch, i + 1)
Upsert(E, batch) == Checked(EsOk(UpsertSeq(E, batch, 1)))

Remove(E, uids) ==
  LET gone == uids \cap DOMAIN E
  IN EsOk([u \in DOMAIN E \ gone |-> [E[u] EXCEPT !.par = @ \ gone]])

\* enforce mode: the batch's "parents" are the complete ancestor sets claimed by the caller
FromEnforce(batch) ==
  LET r == AddSeq(<<>>, <<>>, {}, batch, 1)
  IN IF r[1] # "ok" THEN r
     ELSE LET E == r[2]
          IN IF \E u \in DOMAIN E : u \in E[u].par THEN EsErr("tc")
             ELSE IF \A u \in DOMAIN E : \A a \in E[u].par \cap DOMAIN E : E[a].par \subseteq E[u].par
                  THEN r ELSE EsErr("tc")

Apply(E, op, arg) ==
  CASE op = "from" -> From(arg)
    [] op = "add" -> Add(E, arg)
    [] op = "upsert" -> Upsert(E, arg)
    [] op = "remove" -> Remove(E, arg)
    [] op = "fromEnforce" -> FromEnforce(arg)

\* the projection the implementation is compared on
Proj(E) == [u \in DOMAIN E |-> [par |-> E[u].par, v |-> E[u].v, anc |-> Reach(E, u)]]
==============================================================================
