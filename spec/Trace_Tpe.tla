------------------------------ MODULE Trace_Tpe ------------------------------
(* Trace specification for family "tpe" (C14): definite TPE decisions hold on  *)
(* every consistent completion, every residual behaves like its original on    *)
(* every completion, all views present the same residuals, and reauthorizing   *)
(* gives the reference response.                                               *)
EXTENDS TypedWorld, Json, IOUtils

Rec == ndJsonDeserialize(IOEnv.TRACE)
VARIABLES l, bad

ToSet(s) == {s[i] : i \in 1..Len(s)}
NoDup(s) == \A i, j \in 1..Len(s) : i # j => s[i] # s[j]
PolSet(ev) == {ev.pols[i] : i \in 1..Len(ev.pols)}
Ids(ev) == {ev.pols[i].id : i \in 1..Len(ev.pols)}

OutcomeOfCond(e, env) ==
  LET r == Eval(e, env.req, env.store, <<>>)
  IN IF ~IsOk(r) THEN "err" ELSE IF r[2] = TrueV THEN "sat" ELSE "unsat"

RespEq(r, exp) ==
  /\ "decision" \in DOMAIN r
  /\ r.decision = exp.decision
  /\ ToSet(r.reasons) = exp.reasons
  /\ NoDup(r.errors) /\ ToSet(r.errors) = exp.errors

ViewNames == {"policies", "policy_set", "get_policy"}

ViewsSame(ev) ==
  \A id \in Ids(ev) :
    /\ ev.views[id]["policies"].effect # "absent"
    /\ ev.views[id]["policy_set"] = ev.views[id]["policies"]
    /\ ev.views[id]["get_policy"] = ev.views[id]["policies"]
    \* residual_policies lists exactly the non-trivial residuals, presented identically
    /\ (ev.class[id] = "residual") <=> (id \in ToSet(ev.residualIds))
    /\ (ev.class[id] = "residual") => ev.views[id]["residual_policies"] = ev.views[id]["policies"]

SoundOn(ev, i) ==
  LET env == EnvP(ev.compl[i])
      T == Triples(PolSet(ev), env.req, env.store)
      exp == ResponseOf(T)
      out(id) == (CHOOSE t \in T : t[1] = id)[3]
  IN /\ ev.decision \in {"None", exp.decision}
     /\ \A id \in Ids(ev) :
          /\ (ev.class[id] = "true") => out(id) = "sat"
          /\ (ev.class[id] = "false") => out(id) = "unsat"
          /\ (ev.class[id] = "error") => out(id) = "err"
          /\ \A v \in ViewNames :
               ev.views[id][v].effect # "absent" =>
                 /\ OutcomeOfCond(ev.views[id][v].cond, env) = out(id)
                 /\ ev.views[id][v].effect = (CHOOSE p \in PolSet(ev) : p.id = id).effect
     /\ RespEq(ev.reauth[i], exp)

\* ---- permission queries: the answer is exactly the set of candidates the ordinary
\* authorizer allows (resource / principal), and an action query never omits an allowed
\* action nor labels one definitely allowed (denied) that is not
DecisionOn(ev, env) == ResponseOf(Triples(PolSet(ev), env.req, env.store)).decision
OfType(store, ty) == {u \in DOMAIN store : u[2] = ty}
QueryOk(ev) ==
  LET env == EnvP(ev.base)
      resExp == {u \in OfType(env.store, env.req.resource[2]) :
                   DecisionOn(ev, [env EXCEPT !.req.resource = u]) = "Allow"}
      prExp == {u \in OfType(env.store, env.req.principal[2]) :
                   DecisionOn(ev, [env EXCEPT !.req.principal = u]) = "Allow"}
      \* the action query leaves action and context open: every environment that agrees
      \* with the base on everything else
      compl == {EnvP(p) : p \in Agree(ev.base, {8}, FALSE)}
      acts == {e.req.action : e \in compl}
      listed == {ev.actions[i][1] : i \in 1..Len(ev.actions)}
      label(a) == (CHOOSE i \in 1..Len(ev.actions) : ev.actions[i][1] = a)
  IN /\ ev.qerr = <<>>
     /\ NoDup(ev.resource) /\ ToSet(ev.resource) = resExp
     /\ NoDup(ev.principal) /\ ToSet(ev.principal) = prExp
     /\ \A i, j \in 1..Len(ev.actions) : i # j => ev.actions[i][1] # ev.actions[j][1]
     /\ listed \subseteq acts
     /\ \A a \in acts :
          LET ds == {DecisionOn(ev, e) : e \in {x \in compl : x.req.action = a}}
          IN /\ ("Allow" \in ds) => a \in listed
             /\ (a \in listed) => LET lb == ev.actions[label(a)][2]
                                  IN /\ lb # "Deny"
                                     /\ (lb = "Allow") => ds = {"Allow"}

Explained(ev) ==
  IF ev.ev = "TpeSetup" THEN ev.envs = Cardinality(AllParams(0))
  ELSE IF ev.ev = "Query" THEN QueryOk(ev)
  ELSE /\ ev.ev = "Tpe"
       /\ "tpeError" \notin DOMAIN ev
       /\ DOMAIN ev.class = Ids(ev)
       /\ Len(ev.reauth) = Len(ev.compl)
       /\ ViewsSame(ev)
       /\ \A i \in 1..Len(ev.compl) : SoundOn(ev, i)

Init == l = 1 /\ bad = {}
Next == /\ l <= Len(Rec)
        /\ l' = l + 1
        /\ bad' = IF Explained(Rec[l]) THEN bad ELSE bad \cup {l}
Report == (l = Len(Rec) + 1) => PrintT(<<"TRACE-RESULT", Len(Rec), bad>>)
Accepted == TLCGet("stats").diameter = Len(Rec) + 1
==============================================================================
