----------------------------- MODULE PolicyPool -----------------------------
(* Policy building blocks over schema Sc2 shared by the validation, TPE,     *)
(* batched and slicing generators: access atoms with their matching guards,  *)
(* connectives, scopes and type probes.                                      *)
EXTENDS TypedWorld

Pv == <<"var", "principal">>
Rv == <<"var", "resource">>
Cv == <<"var", "context">>
Av == <<"var", "action">>
G_(e, a) == <<"get", e, a>>
H_(e, a) == <<"has", e, a>>
B_(op, a, b) == <<"bin", op, a, b>>
And_(a, b) == <<"and", a, b>>
Or_(a, b) == <<"or", a, b>>
Not_(a) == <<"not", a>>
If_(a, b, d) == <<"if", a, b, d>>
LitL(n) == <<"lit", TL(n)>>
LitS(cps) == <<"lit", <<"str", cps>>>>
TT_ == <<"lit", TrueV>>
FF_ == <<"lit", FalseV>>

\* access atoms: <<expression, matching guard, needsView>>
Atoms == <<
  <<G_(Pv, "opt"), H_(Pv, "opt"), FALSE>>,
  <<G_(G_(Pv, "mgr"), "n"), H_(Pv, "mgr"), FALSE>>,
  <<G_(G_(Pv, "mgr"), "opt"), And_(H_(Pv, "mgr"), H_(G_(Pv, "mgr"), "opt")), FALSE>>,
  <<G_(G_(Pv, "rec"), "inner"), H_(G_(Pv, "rec"), "inner"), FALSE>>,
  <<B_("getTag", Pv, LitS(TagK)), B_("hasTag", Pv, LitS(TagK)), FALSE>>,
  <<G_(Cv, "lim"), H_(Cv, "lim"), TRUE>>,
  <<G_(G_(Rv, "owner"), "opt"), H_(G_(Rv, "owner"), "opt"), FALSE>>,
  <<G_(Pv, "n"), TT_, FALSE>>,
  <<B_("add", G_(G_(Pv, "mgr"), "n"), LitL(1)), H_(Pv, "mgr"), FALSE>>,      \* may overflow: allowed
  <<G_(G_(G_(Rv, "owner"), "mgr"), "n"), H_(G_(Rv, "owner"), "mgr"), FALSE>>,
  \* a tag key that is itself computed from (another) entity's data
  <<B_("getTag", Pv, G_(G_(Rv, "owner"), "s")), B_("hasTag", Pv, G_(G_(Rv, "owner"), "s")), FALSE>>,
  <<B_("getTag", G_(Rv, "owner"), G_(Pv, "s")), B_("hasTag", G_(Rv, "owner"), G_(Pv, "s")), FALSE>>
>>
NA == Len(Atoms)
Use(i) == B_("less", Atoms[i][1], LitL(10))
Guard(i) == Atoms[i][2]
\* guard pool for atom i: 1 matching, 2 the next atom's guard, 3 true, 4 an unrelated comparison
GuardOf(i, k) == CASE k = 1 -> Guard(i) [] k = 2 -> Guard((i % NA) + 1) [] k = 3 -> TT_ [] k = 4 -> B_("less", G_(Pv, "n"), LitL(5))

NK == 24
Conn(k, g, g2, u) ==
  CASE k = 1 -> And_(g, u)
    [] k = 2 -> And_(u, g)
    [] k = 3 -> Or_(g, u)
    [] k = 4 -> Or_(Not_(g), u)
    [] k = 5 -> And_(Or_(g, g2), u)
    [] k = 6 -> And_(And_(g, g2), u)
    [] k = 7 -> If_(g, u, FF_)
    [] k = 8 -> If_(g, TT_, u)
    [] k = 9 -> If_(Not_(g), FF_, u)
    [] k = 10 -> And_(g, And_(TT_, u))
    [] k = 11 -> Not_(And_(g, u))
    [] k = 12 -> u
    [] k = 13 -> And_(And_(g2, g), u)
    [] k = 14 -> And_(Or_(g2, g), u)
    [] k = 15 -> Or_(Or_(g, g2), u)
    [] k = 16 -> If_(g2, And_(g, u), FF_)
    [] k = 17 -> And_(If_(g, TT_, FF_), u)
    [] k = 18 -> And_(Not_(Not_(g)), u)
    [] k = 19 -> And_(And_(g, TT_), u)
    [] k = 20 -> And_(And_(TT_, g), u)
    [] k = 21 -> And_(Or_(g, FF_), u)
    [] k = 22 -> And_(Or_(FF_, g), u)
    \* what an `if` learns in its test holds in the then-branch only: an else-branch that can be true leaks nothing outwards
    [] k = 23 -> And_(If_(g, TT_, B_("less", G_(Pv, "n"), LitL(5))), u)
    [] k = 24 -> And_(If_(g, B_("less", LitL(0), G_(Pv, "n")), g2), u)

AnyC == <<"any">>
Scopes == <<
  [effect |-> "permit", principal |-> AnyC, action |-> <<"eq", TView>>, resource |-> AnyC],
  [effect |-> "permit", principal |-> AnyC, action |-> AnyC, resource |-> AnyC],
  [effect |-> "permit", principal |-> <<"is", "User">>, action |-> <<"in", TAll>>, resource |-> <<"is", "Doc">>],
  [effect |-> "forbid", principal |-> <<"eq", TU1>>, action |-> <<"eq", TEdit>>, resource |-> AnyC],
  [effect |-> "permit", principal |-> <<"in", TG>>, action |-> <<"eq", TView>>, resource |-> <<"eq", TD>>]
>>
ScopeIsViewOnly(s) == s \in {1, 5}

Pol(s, conds) == [id |-> "p", effect |-> Scopes[s].effect, principal |-> Scopes[s].principal, action |-> Scopes[s].action,
                  resource |-> Scopes[s].resource, conds |-> conds, slots |-> <<>>]

\* type probes: <<expression, mustAccept>>
Probes == <<
  <<B_("eq", G_(Pv, "n"), LitS(<<97>>)), FALSE>>,
  <<B_("less", G_(Pv, "n"), LitS(<<97>>)), FALSE>>,
  <<B_("in", Pv, G_(Rv, "owner")), TRUE>>,
  <<B_("contains", <<"set", <<LitL(1), LitS(<<97>>)>>>>, LitL(1)), FALSE>>,
  <<<<"like", G_(Pv, "n"), <<97>>>>, FALSE>>,
  <<B_("less", G_(Pv, "missing"), LitL(1)), FALSE>>,
  <<And_(B_("less", G_(Pv, "n"), LitL(9)), G_(Pv, "n")), FALSE>>,
  <<B_("eq", If_(B_("less", G_(Pv, "n"), LitL(9)), LitL(1), LitS(<<97>>)), LitL(1)), FALSE>>,
  <<B_("less", G_(G_(G_(Pv, "mgr"), "mgr"), "n"), LitL(1)), FALSE>>,
  <<B_("less", G_(G_(Rv, "owner"), "n"), LitL(10)), TRUE>>,
  <<And_(B_("eq", Av, <<"lit", TView>>), B_("less", G_(Cv, "lim"), LitL(1))), FALSE>>,
  <<B_("less", B_("getTag", Pv, LitS(<<122, 122>>)), LitL(1)), FALSE>>,
  <<H_(Pv, "zzz"), TRUE>>,
  <<<<"is", Pv, "Doc">>, TRUE>>,
  <<B_("eq", G_(Rv, "pub"), TT_), TRUE>>,
  <<And_(B_("in", Pv, <<"lit", TG>>), B_("less", G_(Pv, "n"), LitL(3))), TRUE>>,
  <<B_("less", B_("mul", G_(Pv, "n"), G_(G_(Rv, "owner"), "n")), LitL(3)), TRUE>>,
  <<B_("eq", G_(Pv, "mgr"), Pv), FALSE>>,
  <<And_(H_(Pv, "mgr"), B_("eq", G_(Pv, "mgr"), Pv)), TRUE>>,
  <<B_("hasTag", Rv, LitS(TagK)), FALSE>>,
  \* `action in [..]` whose set mixes action literals with a computed action: nothing may be concluded from the literals alone,
  \* the unguarded optional access behind it stays an error
  <<And_(B_("in", Av, <<"set", <<<<"lit", TEdit>>, If_(B_("less", G_(Pv, "n"), LitL(5)), <<"lit", TView>>, <<"lit", TEdit>>)>>>>), Use(1)), FALSE>>,
  <<If_(B_("in", <<"lit", TView>>, <<"set", <<<<"lit", TEdit>>, If_(G_(Rv, "pub"), <<"lit", TView>>, <<"lit", TAll>>)>>>>), Use(2), FF_), FALSE>>
>>

==============================================================================
