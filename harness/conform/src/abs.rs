//! Abstract (wire) JSON <-> cedar objects. Deliberately dumb structural walks.
//! Wire format: DESIGN.md section 4 / Appendix A. Tagged arrays, tag first.

use cedar_policy_core::ast::{
    self, BinaryOp, EntityType, EntityUID, Eid, Expr, ExprKind, Literal, Name, Pattern,
    PatternElem, RestrictedExpr, SlotId, UnaryOp, Value, ValueKind, Var,
};
use cedar_policy_core::evaluator::EvaluationError;
use cedar_policy_core::extensions::Extensions;
use serde_json::{json, Map, Value as J};
use smol_str::SmolStr;
use std::collections::{BTreeMap, HashSet};
use std::str::FromStr;

pub type R<T> = Result<T, String>;

pub fn err<T>(s: impl Into<String>) -> R<T> {
    Err(s.into())
}

// ---------------------------------------------------------------- i64 <-> limbs
pub fn i64_to_wire(n: i64) -> J {
    let neg = n < 0;
    let mut m = n.unsigned_abs();
    let mut limbs = vec![];
    for _ in 0..5 {
        limbs.push((m % 10000) as u64);
        m /= 10000;
    }
    json!([neg, limbs])
}

pub fn i64_from_wire(j: &J) -> R<i64> {
    let a = j.as_array().ok_or("i64: not array")?;
    let neg = a.first().and_then(|x| x.as_bool()).ok_or("i64: neg")?;
    let limbs = a.get(1).and_then(|x| x.as_array()).ok_or("i64: limbs")?;
    let mut m: u128 = 0;
    for l in limbs.iter().rev() {
        m = m * 10000 + l.as_u64().ok_or("i64: limb")? as u128;
    }
    if neg {
        if m > (1u128 << 63) {
            return err("i64: out of range");
        }
        Ok((-(m as i128)) as i64)
    } else {
        if m > i64::MAX as u128 {
            return err("i64: out of range");
        }
        Ok(m as i64)
    }
}

// ---------------------------------------------------------------- strings
pub fn str_to_wire(s: &str) -> J {
    J::Array(s.chars().map(|c| json!(c as u32)).collect())
}

pub fn str_from_wire(j: &J) -> R<String> {
    let a = j.as_array().ok_or("str: not array")?;
    let mut s = String::new();
    for c in a {
        let cp = c.as_u64().ok_or("str: cp")? as u32;
        s.push(char::from_u32(cp).ok_or("str: not a scalar value")?);
    }
    Ok(s)
}

// ---------------------------------------------------------------- names / uids
pub fn name(s: &str) -> R<Name> {
    Name::from_str(s).map_err(|e| format!("bad name {s}: {e}"))
}

pub fn etype(s: &str) -> R<EntityType> {
    Ok(EntityType::from(name(s)?))
}

pub fn uid(ty: &str, id: &str) -> R<EntityUID> {
    Ok(EntityUID::from_components(etype(ty)?, Eid::new(id), None))
}

pub fn uid_from_wire(j: &J) -> R<EntityUID> {
    let a = j.as_array().ok_or("uid: not array")?;
    if a.len() != 3 || a[0] != "ent" {
        return err(format!("uid: bad {j}"));
    }
    uid(a[1].as_str().ok_or("uid ty")?, a[2].as_str().ok_or("uid id")?)
}

pub fn uid_to_wire(u: &EntityUID) -> J {
    json!(["ent", u.entity_type().to_string(), AsRef::<str>::as_ref(u.eid())])
}

/// TLC prints an empty record as `[]`
pub fn as_obj(j: &J) -> R<Map<String, J>> {
    match j {
        J::Object(m) => Ok(m.clone()),
        J::Array(a) if a.is_empty() => Ok(Map::new()),
        _ => err(format!("expected object: {j}")),
    }
}

// ---------------------------------------------------------------- values
/// wire value -> restricted expression (the way data reaches cedar)
pub fn rexpr_from_wire(j: &J) -> R<RestrictedExpr> {
    let a = j.as_array().ok_or_else(|| format!("value: not array {j}"))?;
    let tag = a.first().and_then(|x| x.as_str()).ok_or("value: tag")?;
    match tag {
        "bool" => Ok(RestrictedExpr::val(a[1].as_bool().ok_or("bool")?)),
        "long" => Ok(RestrictedExpr::val(i64_from_wire(&a[1])?)),
        "str" => Ok(RestrictedExpr::val(str_from_wire(&a[1])?)),
        "ent" => Ok(RestrictedExpr::val(uid_from_wire(j)?)),
        "set" => {
            let items = a[1].as_array().ok_or("set items")?;
            Ok(RestrictedExpr::set(
                items.iter().map(rexpr_from_wire).collect::<R<Vec<_>>>()?,
            ))
        }
        "rec" => {
            let m = as_obj(&a[1])?;
            let pairs = m
                .iter()
                .map(|(k, v)| Ok((SmolStr::from(k.as_str()), rexpr_from_wire(v)?)))
                .collect::<R<Vec<_>>>()?;
            RestrictedExpr::record(pairs).map_err(|e| e.to_string())
        }
        "ext" => ext_rexpr_from_wire(a),
        // an unknown standing for a value (partial evaluation families)
        "unknown" => Ok(RestrictedExpr::unknown(ast::Unknown::new_untyped(
            a.get(1).and_then(|x| x.as_str()).ok_or("unknown name")?,
        ))),
        "extcall" => {
            let f = name(a[1].as_str().ok_or("extcall fn")?)?;
            let args = a[2].as_array().ok_or("extcall args")?;
            Ok(RestrictedExpr::call_extension_fn(
                f,
                args.iter().map(rexpr_from_wire).collect::<R<Vec<_>>>()?,
            ))
        }
        _ => err(format!("value: unknown tag {tag}")),
    }
}

fn call1(f: &str, arg: String) -> R<RestrictedExpr> {
    Ok(RestrictedExpr::call_extension_fn(
        name(f)?,
        vec![RestrictedExpr::val(arg)],
    ))
}

/// A represented extension value (spec form) -> a constructor call producing it.
pub fn ext_ctor_text(a: &[J]) -> R<(String, String)> {
    let ty = a[1].as_str().ok_or("ext ty")?;
    match ty {
        "decimal" => {
            let v = i64_from_wire(&a[2])? as i128;
            let neg = v < 0;
            let m = v.unsigned_abs();
            Ok((
                "decimal".into(),
                format!("{}{}.{:04}", if neg { "-" } else { "" }, m / 10000, m % 10000),
            ))
        }
        "duration" => Ok(("duration".into(), format!("{}ms", i64_from_wire(&a[2])?))),
        "ipaddr" => {
            let ver = a[2].as_u64().ok_or("ip ver")?;
            let parts = a[3].as_array().ok_or("ip addr")?;
            let pre = a[4].as_u64().ok_or("ip prefix")?;
            let s = if ver == 4 {
                parts.iter().map(|p| p.to_string()).collect::<Vec<_>>().join(".")
            } else {
                parts
                    .iter()
                    .map(|p| format!("{:x}", p.as_u64().unwrap_or(0)))
                    .collect::<Vec<_>>()
                    .join(":")
            };
            Ok(("ip".into(), format!("{s}/{pre}")))
        }
        _ => err(format!("ext: unknown type {ty}")),
    }
}

fn ext_rexpr_from_wire(a: &[J]) -> R<RestrictedExpr> {
    let ty = a[1].as_str().ok_or("ext ty")?;
    if ty == "datetime" {
        // datetime("1970-01-01").offset(duration("<n>ms"))
        let ms = i64_from_wire(&a[2])?;
        let epoch = call1("datetime", "1970-01-01".into())?;
        let dur = call1("duration", format!("{ms}ms"))?;
        return Ok(RestrictedExpr::call_extension_fn(
            name("offset")?,
            vec![epoch, dur],
        ));
    }
    let (f, s) = ext_ctor_text(a)?;
    call1(&f, s)
}

pub fn value_from_wire(j: &J) -> R<Value> {
    let re = rexpr_from_wire(j)?;
    let ev = cedar_policy_core::evaluator::RestrictedEvaluator::new(Extensions::all_available());
    ev.interpret(re.as_borrowed()).map_err(|e| e.to_string())
}

/// cedar value -> wire. Extension values are written as the constructor-call
/// tree cedar itself keeps for them (`["extcall", fn, args]`); the
/// specification evaluates that tree, the harness never interprets it.
pub fn value_to_wire(v: &Value) -> J {
    match v.value_kind() {
        ValueKind::Lit(l) => lit_to_wire(l),
        ValueKind::Set(s) => {
            let mut items: Vec<J> = s.iter().map(value_to_wire).collect();
            items.sort_by_key(|x| x.to_string());
            items.dedup();
            json!(["set", items])
        }
        ValueKind::Record(r) => {
            let mut m = Map::new();
            for (k, v) in r.iter() {
                m.insert(k.to_string(), value_to_wire(v));
            }
            json!(["rec", m])
        }
        ValueKind::ExtensionValue(_) => {
            let re = RestrictedExpr::from(v.clone());
            rexpr_to_wire(&re)
        }
    }
}

pub fn lit_to_wire(l: &Literal) -> J {
    match l {
        Literal::Bool(b) => json!(["bool", b]),
        Literal::Long(n) => json!(["long", i64_to_wire(*n)]),
        Literal::String(s) => json!(["str", str_to_wire(s)]),
        Literal::EntityUID(u) => uid_to_wire(u),
    }
}

pub fn rexpr_to_wire(re: &RestrictedExpr) -> J {
    bre_to_wire(re.as_borrowed())
}

pub fn bre_to_wire(re: ast::BorrowedRestrictedExpr<'_>) -> J {
    if let Some(b) = re.as_bool() {
        return json!(["bool", b]);
    }
    if let Some(n) = re.as_long() {
        return json!(["long", i64_to_wire(n)]);
    }
    if let Some(s) = re.as_string() {
        return json!(["str", str_to_wire(s)]);
    }
    if let Some(u) = re.as_euid() {
        return uid_to_wire(u);
    }
    if let Some(items) = re.as_set_elements() {
        let mut items: Vec<J> = items.map(bre_to_wire).collect();
        items.sort_by_key(|x| x.to_string());
        items.dedup();
        return json!(["set", items]);
    }
    if let Some(pairs) = re.as_record_pairs() {
        let mut m = Map::new();
        for (k, v) in pairs {
            m.insert(k.to_string(), bre_to_wire(v));
        }
        return json!(["rec", m]);
    }
    if let Some((f, args)) = re.as_extn_fn_call() {
        let args: Vec<J> = args.map(bre_to_wire).collect();
        return json!(["extcall", f.to_string(), args]);
    }
    json!(["opaque", format!("{re:?}")])
}

// ---------------------------------------------------------------- expressions
fn var_of(s: &str) -> R<Var> {
    Ok(match s {
        "principal" => Var::Principal,
        "action" => Var::Action,
        "resource" => Var::Resource,
        "context" => Var::Context,
        _ => return err(format!("bad var {s}")),
    })
}

pub fn binop_of(s: &str) -> R<BinaryOp> {
    Ok(match s {
        "eq" => BinaryOp::Eq,
        "less" => BinaryOp::Less,
        "lessEq" => BinaryOp::LessEq,
        "add" => BinaryOp::Add,
        "sub" => BinaryOp::Sub,
        "mul" => BinaryOp::Mul,
        "in" => BinaryOp::In,
        "contains" => BinaryOp::Contains,
        "containsAll" => BinaryOp::ContainsAll,
        "containsAny" => BinaryOp::ContainsAny,
        "getTag" => BinaryOp::GetTag,
        "hasTag" => BinaryOp::HasTag,
        _ => return err(format!("bad binop {s}")),
    })
}

pub fn binop_name(op: BinaryOp) -> &'static str {
    match op {
        BinaryOp::Eq => "eq",
        BinaryOp::Less => "less",
        BinaryOp::LessEq => "lessEq",
        BinaryOp::Add => "add",
        BinaryOp::Sub => "sub",
        BinaryOp::Mul => "mul",
        BinaryOp::In => "in",
        BinaryOp::Contains => "contains",
        BinaryOp::ContainsAll => "containsAll",
        BinaryOp::ContainsAny => "containsAny",
        BinaryOp::GetTag => "getTag",
        BinaryOp::HasTag => "hasTag",
    }
}

pub fn pattern_from_wire(j: &J) -> R<Pattern> {
    let a = j.as_array().ok_or("pattern")?;
    let mut elems = vec![];
    for e in a {
        let n = e.as_i64().ok_or("pattern elem")?;
        if n < 0 {
            elems.push(PatternElem::Wildcard);
        } else {
            elems.push(PatternElem::Char(
                char::from_u32(n as u32).ok_or("pattern: scalar")?,
            ));
        }
    }
    Ok(Pattern::from(elems))
}

pub fn pattern_to_wire(p: &Pattern) -> J {
    J::Array(
        p.iter()
            .map(|e| match e {
                PatternElem::Char(c) => json!(*c as u32),
                PatternElem::Wildcard => json!(-1),
            })
            .collect(),
    )
}

/// Build the AST *without* the builder's constant folding? No: through the
/// public constructors, exactly as a host application would.
pub fn expr_from_wire(j: &J) -> R<Expr> {
    let a = j.as_array().ok_or_else(|| format!("expr: not array {j}"))?;
    let tag = a.first().and_then(|x| x.as_str()).ok_or("expr: tag")?;
    let sub = |i: usize| -> R<Expr> { expr_from_wire(a.get(i).ok_or("expr: missing operand")?) };
    let s = |i: usize| -> R<&str> {
        a.get(i)
            .and_then(|x| x.as_str())
            .ok_or_else(|| format!("expr: missing string at {i} in {j}"))
    };
    Ok(match tag {
        "lit" => {
            let v = &a[1];
            let va = v.as_array().ok_or("lit")?;
            match va[0].as_str().ok_or("lit tag")? {
                "bool" => Expr::val(va[1].as_bool().ok_or("bool")?),
                "long" => Expr::val(i64_from_wire(&va[1])?),
                "str" => Expr::val(str_from_wire(&va[1])?),
                "ent" => Expr::val(uid_from_wire(v)?),
                t => return err(format!("lit: bad tag {t}")),
            }
        }
        "var" => Expr::var(var_of(s(1)?)?),
        "slot" => Expr::slot(match s(1)? {
            "principal" => SlotId::principal(),
            "resource" => SlotId::resource(),
            x => return err(format!("bad slot {x}")),
        }),
        "unknown" => {
            let n = s(1)?;
            match a.get(2) {
                Some(t) if !t.is_null() => {
                    Expr::unknown(ast::Unknown::new_with_type(n, type_from_wire(t)?))
                }
                _ => Expr::unknown(ast::Unknown::new_untyped(n)),
            }
        }
        "if" => Expr::ite(sub(1)?, sub(2)?, sub(3)?),
        "and" => Expr::and(sub(1)?, sub(2)?),
        "or" => Expr::or(sub(1)?, sub(2)?),
        "not" => Expr::not(sub(1)?),
        "neg" => Expr::neg(sub(1)?),
        "isEmpty" => Expr::is_empty(sub(1)?),
        "bin" => Expr::binary_app(binop_of(s(1)?)?, sub(2)?, sub(3)?),
        "call" => {
            let args = a[2].as_array().ok_or("call args")?;
            Expr::call_extension_fn(
                name(s(1)?)?,
                args.iter().map(expr_from_wire).collect::<R<Vec<_>>>()?,
            )
        }
        "get" => Expr::get_attr(sub(1)?, s(2)?.into()),
        "has" => Expr::has_attr(sub(1)?, s(2)?.into()),
        "like" => Expr::like(sub(1)?, pattern_from_wire(&a[2])?),
        "is" => Expr::is_entity_type(sub(1)?, etype(s(2)?)?),
        "set" => {
            let items = a[1].as_array().ok_or("set items")?;
            Expr::set(items.iter().map(expr_from_wire).collect::<R<Vec<_>>>()?)
        }
        "record" => {
            let m = as_obj(&a[1])?;
            let pairs = m
                .iter()
                .map(|(k, v)| Ok((SmolStr::from(k.as_str()), expr_from_wire(v)?)))
                .collect::<R<Vec<_>>>()?;
            Expr::record(pairs).map_err(|e| e.to_string())?
        }
        _ => return err(format!("expr: unknown tag {tag}")),
    })
}

pub fn type_from_wire(j: &J) -> R<ast::Type> {
    let a = j.as_array().ok_or("type")?;
    Ok(match a[0].as_str().ok_or("type tag")? {
        "bool" => ast::Type::Bool,
        "long" => ast::Type::Long,
        "str" => ast::Type::String,
        "set" => ast::Type::Set,
        "rec" => ast::Type::Record,
        "ent" => ast::Type::Entity {
            ty: etype(a[1].as_str().ok_or("type ent")?)?,
        },
        t => return err(format!("bad type {t}")),
    })
}

/// cedar AST -> wire (projection)
pub fn expr_to_wire<T>(e: &Expr<T>) -> J {
    match e.expr_kind() {
        ExprKind::Lit(l) => json!(["lit", lit_to_wire(l)]),
        ExprKind::Var(v) => json!(["var", v.to_string()]),
        ExprKind::Slot(s) => json!(["slot", if s.is_principal() { "principal" } else { "resource" }]),
        ExprKind::Unknown(u) => json!(["unknown", u.name.to_string()]),
        ExprKind::If { test_expr, then_expr, else_expr } => json!([
            "if",
            expr_to_wire(test_expr),
            expr_to_wire(then_expr),
            expr_to_wire(else_expr)
        ]),
        ExprKind::And { left, right } => json!(["and", expr_to_wire(left), expr_to_wire(right)]),
        ExprKind::Or { left, right } => json!(["or", expr_to_wire(left), expr_to_wire(right)]),
        ExprKind::UnaryApp { op, arg } => {
            let t = match op {
                UnaryOp::Not => "not",
                UnaryOp::Neg => "neg",
                UnaryOp::IsEmpty => "isEmpty",
            };
            json!([t, expr_to_wire(arg)])
        }
        ExprKind::BinaryApp { op, arg1, arg2 } => {
            json!(["bin", binop_name(*op), expr_to_wire(arg1), expr_to_wire(arg2)])
        }
        ExprKind::ExtensionFunctionApp { fn_name, args } => {
            json!(["call", fn_name.to_string(), args.iter().map(expr_to_wire).collect::<Vec<_>>()])
        }
        ExprKind::GetAttr { expr, attr } => json!(["get", expr_to_wire(expr), attr.to_string()]),
        ExprKind::HasAttr { expr, attr } => json!(["has", expr_to_wire(expr), attr.to_string()]),
        ExprKind::Like { expr, pattern } => {
            json!(["like", expr_to_wire(expr), pattern_to_wire(pattern)])
        }
        ExprKind::Is { expr, entity_type } => {
            json!(["is", expr_to_wire(expr), entity_type.to_string()])
        }
        ExprKind::Set(items) => json!(["set", items.iter().map(expr_to_wire).collect::<Vec<_>>()]),
        ExprKind::Record(m) => {
            let mut o = Map::new();
            let mut keys = vec![];
            for (k, v) in m.iter() {
                o.insert(k.to_string(), expr_to_wire(v));
                keys.push(k.to_string());
            }
            json!(["record", o, keys])
        }
    }
}

/// add the ascending key order (`e[3]` of a record node) to a wire expression
/// generated without it.  Byte-wise string order, the order of the AST's map.
pub fn with_record_keys(j: &J) -> J {
    match j {
        J::Array(a) => {
            if a.first().and_then(|x| x.as_str()) == Some("record") && a.len() >= 2 {
                let m = as_obj(&a[1]).unwrap_or_default();
                let sorted: BTreeMap<String, J> =
                    m.iter().map(|(k, v)| (k.clone(), with_record_keys(v))).collect();
                let keys: Vec<String> = sorted.keys().cloned().collect();
                let mut o = Map::new();
                for (k, v) in sorted {
                    o.insert(k, v);
                }
                json!(["record", o, keys])
            } else {
                J::Array(a.iter().map(with_record_keys).collect())
            }
        }
        J::Object(m) => J::Object(m.iter().map(|(k, v)| (k.clone(), with_record_keys(v))).collect()),
        _ => j.clone(),
    }
}

// ---------------------------------------------------------------- results
pub fn err_class(e: &EvaluationError) -> &'static str {
    match e {
        EvaluationError::EntityDoesNotExist(_) => "noEntity",
        EvaluationError::EntityAttrDoesNotExist(_) => "noAttr",
        EvaluationError::RecordAttrDoesNotExist(_) => "noAttr",
        EvaluationError::FailedExtensionFunctionLookup(_) => "unknownFn",
        EvaluationError::TypeError(_) => "type",
        EvaluationError::WrongNumArguments(_) => "arity",
        EvaluationError::IntegerOverflow(_) => "overflow",
        EvaluationError::UnlinkedSlot(_) => "unlinkedSlot",
        EvaluationError::FailedExtensionFunctionExecution(_) => "ext",
        EvaluationError::NonValue(_) => "nonValue",
        EvaluationError::RecursionLimit(_) => "recursion",
    }
}

pub fn result_to_wire(r: &Result<Value, EvaluationError>) -> J {
    match r {
        Ok(v) => json!(["ok", value_to_wire(v)]),
        Err(e) => json!(["err", err_class(e)]),
    }
}

// ---------------------------------------------------------------- environments
/// wire store: [{uid, attrs, tags, anc}]  (anc = full ancestor set)
pub fn entities_from_wire(j: &J) -> R<Vec<ast::Entity>> {
    let a = j.as_array().ok_or("store: not array")?;
    let mut out = vec![];
    for e in a {
        let u = uid_from_wire(&e["uid"])?;
        let attrs = as_obj(&e["attrs"])?
            .iter()
            .map(|(k, v)| Ok((SmolStr::from(k.as_str()), rexpr_from_wire(v)?)))
            .collect::<R<Vec<_>>>()?;
        let mut tags = vec![];
        if let Some(ts) = e.get("tags").and_then(|t| t.as_array()) {
            for t in ts {
                tags.push((SmolStr::from(str_from_wire(&t[0])?), rexpr_from_wire(&t[1])?));
            }
        }
        let mut anc = HashSet::new();
        if let Some(ps) = e.get("anc").and_then(|t| t.as_array()) {
            for p in ps {
                anc.insert(uid_from_wire(p)?);
            }
        }
        out.push(
            ast::Entity::new(u, attrs, HashSet::new(), anc, tags, Extensions::all_available())
                .map_err(|e| e.to_string())?,
        );
    }
    Ok(out)
}

pub fn core_entities_from_wire(j: &J) -> R<cedar_policy_core::entities::Entities> {
    use cedar_policy_core::entities::{Entities, NoEntitiesSchema, TCComputation};
    Entities::from_entities(
        entities_from_wire(j)?,
        None::<&NoEntitiesSchema>,
        TCComputation::ComputeNow,
        Extensions::all_available(),
    )
    .map_err(|e| e.to_string())
}

pub fn context_from_wire(j: &J) -> R<ast::Context> {
    let a = j.as_array().ok_or("context")?;
    if a[0] != "rec" {
        return err("context: not a record");
    }
    let pairs = as_obj(&a[1])?
        .iter()
        .map(|(k, v)| Ok((SmolStr::from(k.as_str()), rexpr_from_wire(v)?)))
        .collect::<R<Vec<_>>>()?;
    ast::Context::from_pairs(pairs, Extensions::all_available()).map_err(|e| e.to_string())
}

pub fn core_request_from_wire(j: &J) -> R<ast::Request> {
    ast::Request::new(
        (uid_from_wire(&j["principal"])?, None),
        (uid_from_wire(&j["action"])?, None),
        (uid_from_wire(&j["resource"])?, None),
        context_from_wire(&j["context"])?,
        None::<&ast::RequestSchemaAllPass>,
        Extensions::all_available(),
    )
    .map_err(|e| e.to_string())
}
