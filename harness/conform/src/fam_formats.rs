//! family "formats" (C06): one policy or template; every structured-format hop
//! (JSON/EST from the spec, to_json/from_json, text->CST->EST->AST, PST,
//! protobuf, policy-set JSON and protobuf with a template link) is taken and
//! the result projected; the projections must all be the one of the policy
//! parsed from text.

use crate::abs::*;
use crate::fam_syntax::policy_to_wire;
use crate::render;
use cedar_policy::proto::traits::Protobuf;
use cedar_policy::{Policy, PolicyId, PolicySet, SlotId, Template};
use cedar_policy_core::ast;
use serde_json::{json, Map, Value as J};
use std::collections::HashMap;

fn proj_policy(p: &Policy) -> J {
    let a: &ast::Policy = p.as_ref();
    let mut o = policy_to_wire(a.template());
    o["id"] = json!(a.id().to_string());
    o
}
fn proj_template(t: &Template) -> J {
    let a: &ast::Template = t.as_ref();
    let mut o = policy_to_wire(a);
    o["id"] = json!(a.id().to_string());
    o
}
fn e<T: std::fmt::Display>(x: T) -> J {
    json!({"error": x.to_string()})
}

fn has_slot(p: &J) -> bool {
    ["principal", "resource"].iter().any(|k| p[*k][0].as_str().map(|t| t.ends_with("slot")).unwrap_or(false))
}

/// PolicySet::to_cedar(): absent, or text that must parse back to the same policies (ids are not part of Cedar text)
fn set_to_cedar(s: &PolicySet) -> J {
    match s.to_cedar() {
        None => json!(["none"]),
        Some(t) => match t.parse::<PolicySet>() {
            Err(x) => json!(["unparsable", t, x.to_string()]),
            Ok(s2) => {
                let strip = |mut o: J| {
                    o.as_object_mut().map(|m| m.remove("id"));
                    o
                };
                let mut v: Vec<J> = s2.policies().map(|q| strip(proj_policy(q))).chain(s2.templates().map(|q| strip(proj_template(q)))).collect();
                v.sort_by_key(|x| x.to_string());
                json!(["ok", v])
            }
        },
    }
}

pub fn run(case: &J) -> R<J> {
    let p = &case["policy"];
    let text = render::policy_text(p)?;
    let id = PolicyId::new("p");
    let mut hops = Map::new();
    let is_template = has_slot(p);
    let p0;
    if is_template {
        let t0 = Template::parse(Some(id.clone()), &text).map_err(|x| format!("template parse: {x}\n{text}"))?;
        p0 = proj_template(&t0);
        hops.insert("spec_est".into(), Template::from_json(Some(id.clone()), case["est"].clone()).map(|t| proj_template(&t)).unwrap_or_else(e));
        hops.insert(
            "to_json_from_json".into(),
            t0.to_json().map_err(|x| x.to_string()).and_then(|j| Template::from_json(Some(id.clone()), j).map_err(|x| x.to_string())).map(|t| proj_template(&t)).unwrap_or_else(e),
        );
        hops.insert("pst".into(), t0.to_pst().map_err(|x| x.to_string()).and_then(|x| Template::from_pst(x).map_err(|x| x.to_string())).map(|t| proj_template(&t)).unwrap_or_else(e));
        hops.insert(
            "proto".into(),
            t0.encode().map_err(|x| x.to_string()).and_then(|b| Template::decode(&b[..]).map_err(|x| x.to_string())).map(|t| proj_template(&t)).unwrap_or_else(e),
        );
        // policy set with the template and one link
        let mut ps = PolicySet::new();
        ps.add_template(t0.clone()).map_err(|x| x.to_string())?;
        let mut env = HashMap::new();
        let a: &ast::Template = t0.as_ref();
        for s in a.slots() {
            let (slot, u) = if s.id.is_principal() { (SlotId::principal(), uid("User", "a")?) } else { (SlotId::resource(), uid("Doc", "d\"\\\n")?) };
            env.insert(slot, u.into());
        }
        ps.link(id.clone(), PolicyId::new("l"), env).map_err(|x| x.to_string())?;
        let view = |s: &PolicySet| -> J {
            let t = s.template(&id).map(proj_template).unwrap_or(json!({"absent": true}));
            let l = s.policy(&PolicyId::new("l")).map(|l| {
                let mut envw = Map::new();
                for (k, v) in l.template_links().unwrap_or_default() {
                    envw.insert(k.to_string(), uid_to_wire(v.as_ref()));
                }
                json!({"proj": proj_policy(l), "tid": l.template_id().map(|x| x.to_string()).unwrap_or_default(), "env": envw})
            });
            json!({"template": t, "link": l.unwrap_or(json!({"absent": true}))})
        };
        let v0 = view(&ps);
        hops.insert("set_p0".into(), json!({"view": v0}));
        hops.insert(
            "set_json".into(),
            ps.clone().to_json().map_err(|x| x.to_string()).and_then(|j| PolicySet::from_json_value(j).map_err(|x| x.to_string())).map(|s| json!({"view": view(&s)})).unwrap_or_else(e),
        );
        hops.insert(
            "set_proto".into(),
            ps.encode().map_err(|x| x.to_string()).and_then(|b| PolicySet::decode(&b[..]).map_err(|x| x.to_string())).map(|s| json!({"view": view(&s)})).unwrap_or_else(e),
        );
        hops.insert("set_pst".into(), ps.to_pst().map_err(|x| x.to_string()).and_then(|x| PolicySet::from_pst(x).map_err(|x| x.to_string())).map(|s| json!({"view": view(&s)})).unwrap_or_else(e));
        // a set with a link cannot be written as Cedar text, whichever way the set was built
        let mut tc = Map::new();
        tc.insert("text".into(), set_to_cedar(&ps));
        if let Ok(s2) = ps.clone().to_json().map_err(|x| x.to_string()).and_then(|j| PolicySet::from_json_value(j).map_err(|x| x.to_string())) {
            tc.insert("json".into(), set_to_cedar(&s2));
            tc.insert("json_link".into(), json!(s2.policy(&PolicyId::new("l")).map(|l| l.to_cedar().is_some())));
        }
        if let Ok(s2) = ps.to_pst().map_err(|x| x.to_string()).and_then(|x| PolicySet::from_pst(x).map_err(|x| x.to_string())) {
            tc.insert("pst".into(), set_to_cedar(&s2));
        }
        if let Ok(s2) = ps.encode().map_err(|x| x.to_string()).and_then(|b| PolicySet::decode(&b[..]).map_err(|x| x.to_string())) {
            tc.insert("proto".into(), set_to_cedar(&s2));
        }
        tc.insert("text_link".into(), json!(ps.policy(&PolicyId::new("l")).map(|l| l.to_cedar().is_some())));
        // the link on its own: through the PST and through JSON it becomes a static policy with the same condition
        // (scope and clauses with the slots substituted)
        if let Some(l) = ps.policy(&PolicyId::new("l")) {
            // projection: the condition with every slot replaced by the entity the policy binds it to
            fn subst(j: &J, env: &HashMap<String, J>) -> J {
                match j {
                    J::Array(a) if a.len() == 2 && a[0] == "slot" => {
                        a[1].as_str().and_then(|s| env.get(s)).map(|u| json!(["lit", u])).unwrap_or_else(|| j.clone())
                    }
                    J::Array(a) => J::Array(a.iter().map(|x| subst(x, env)).collect()),
                    J::Object(m) => J::Object(m.iter().map(|(k, v)| (k.clone(), subst(v, env))).collect()),
                    _ => j.clone(),
                }
            }
            let cond = |q: &Policy| -> J {
                let a: &ast::Policy = q.as_ref();
                let mut envw: HashMap<String, J> = HashMap::new();
                for (k, v) in q.template_links().unwrap_or_default() {
                    envw.insert(if k == SlotId::principal() { "principal".into() } else { "resource".into() }, uid_to_wire(v.as_ref()));
                }
                json!({"effect": a.effect().to_string(), "cond": subst(&expr_to_wire(&a.condition()), &envw)})
            };
            let mut lk = Map::new();
            lk.insert("orig".into(), cond(l));
            lk.insert("pst".into(), l.to_pst().map_err(|x| x.to_string()).and_then(|x| Policy::from_pst(x).map_err(|x| x.to_string())).map(|q| cond(&q)).unwrap_or_else(e));
            lk.insert("json".into(), l.to_json().map_err(|x| x.to_string()).and_then(|j| Policy::from_json(Some(PolicyId::new("l")), j).map_err(|x| x.to_string())).map(|q| cond(&q)).unwrap_or_else(e));
            if let Ok(s2) = ps.to_pst().map_err(|x| x.to_string()).and_then(|x| PolicySet::from_pst(x).map_err(|x| x.to_string())) {
                if let Some(l2) = s2.policy(&PolicyId::new("l")) {
                    lk.insert("set_pst".into(), cond(l2));
                    lk.insert("set_pst_json".into(), l2.to_json().map_err(|x| x.to_string()).and_then(|j| Policy::from_json(Some(PolicyId::new("l")), j).map_err(|x| x.to_string())).map(|q| cond(&q)).unwrap_or_else(e));
                    lk.insert("set_pst_pst".into(), l2.to_pst().map_err(|x| x.to_string()).and_then(|x| Policy::from_pst(x).map_err(|x| x.to_string())).map(|q| cond(&q)).unwrap_or_else(e));
                }
            }
            hops.insert("link".into(), J::Object(lk));
        }
        hops.insert("to_cedar".into(), J::Object(tc));
    } else {
        let q0 = Policy::parse(Some(id.clone()), &text).map_err(|x| format!("policy parse: {x}\n{text}"))?;
        p0 = proj_policy(&q0);
        hops.insert("spec_est".into(), Policy::from_json(Some(id.clone()), case["est"].clone()).map(|t| proj_policy(&t)).unwrap_or_else(e));
        hops.insert(
            "to_json_from_json".into(),
            q0.to_json().map_err(|x| x.to_string()).and_then(|j| Policy::from_json(Some(id.clone()), j).map_err(|x| x.to_string())).map(|t| proj_policy(&t)).unwrap_or_else(e),
        );
        hops.insert("pst".into(), q0.to_pst().map_err(|x| x.to_string()).and_then(|x| Policy::from_pst(x).map_err(|x| x.to_string())).map(|t| proj_policy(&t)).unwrap_or_else(e));
        let mut ps = PolicySet::new();
        ps.add(q0.clone()).map_err(|x| x.to_string())?;
        let view = |s: &PolicySet| -> J { s.policy(&id).map(proj_policy).unwrap_or(json!({"absent": true})) };
        hops.insert(
            "set_json".into(),
            ps.clone().to_json().map_err(|x| x.to_string()).and_then(|j| PolicySet::from_json_value(j).map_err(|x| x.to_string())).map(|s| view(&s)).unwrap_or_else(e),
        );
        hops.insert(
            "set_proto".into(),
            ps.encode().map_err(|x| x.to_string()).and_then(|b| PolicySet::decode(&b[..]).map_err(|x| x.to_string())).map(|s| view(&s)).unwrap_or_else(e),
        );
        hops.insert("set_pst".into(), ps.to_pst().map_err(|x| x.to_string()).and_then(|x| PolicySet::from_pst(x).map_err(|x| x.to_string())).map(|s| view(&s)).unwrap_or_else(e));
        let mut tc = Map::new();
        tc.insert("text".into(), set_to_cedar(&ps));
        if let Ok(s2) = ps.clone().to_json().map_err(|x| x.to_string()).and_then(|j| PolicySet::from_json_value(j).map_err(|x| x.to_string())) {
            tc.insert("json".into(), set_to_cedar(&s2));
        }
        if let Ok(s2) = ps.to_pst().map_err(|x| x.to_string()).and_then(|x| PolicySet::from_pst(x).map_err(|x| x.to_string())) {
            tc.insert("pst".into(), set_to_cedar(&s2));
        }
        if let Ok(s2) = ps.encode().map_err(|x| x.to_string()).and_then(|b| PolicySet::decode(&b[..]).map_err(|x| x.to_string())) {
            tc.insert("proto".into(), set_to_cedar(&s2));
        }
        hops.insert("to_cedar".into(), J::Object(tc));
    }
    // the JSON obtained directly from the text (CST -> EST) converts back to the same policy
    hops.insert(
        "text_cst_est".into(),
        match cedar_policy_core::parser::parse_policy_or_template_to_est(&text) {
            Ok(est) => match est.try_into_ast_policy_or_template(Some(ast::PolicyID::from_string("p"))) {
                Ok(t) => {
                    let mut o = policy_to_wire(&t);
                    o["id"] = json!("p");
                    o
                }
                Err(x) => e(x),
            },
            Err(x) => e(x),
        },
    );

    // alternative JSON spellings (has-chains with an attr array, literal sets / records / extension values as one
    // Value) and the hops that start from a JSON-built policy: PST, PST then JSON, JSON again, text
    let mut alts = Map::new();
    for (name, est) in [("est", &case["est"]), ("alt", &case["alt"])] {
        if est.is_null() {
            continue;
        }
        let proj_from = |j: J| -> Result<J, String> {
            if is_template {
                Template::from_json(Some(id.clone()), j).map(|t| proj_template(&t)).map_err(|x| x.to_string())
            } else {
                Policy::from_json(Some(id.clone()), j).map(|t| proj_policy(&t)).map_err(|x| x.to_string())
            }
        };
        alts.insert(format!("{name}_from_json"), proj_from(est.clone()).unwrap_or_else(e));
        if is_template {
            if let Ok(t) = Template::from_json(Some(id.clone()), est.clone()) {
                alts.insert(format!("{name}_pst"), t.to_pst().map_err(|x| x.to_string()).and_then(|x| Template::from_pst(x).map_err(|x| x.to_string())).map(|t| proj_template(&t)).unwrap_or_else(e));
                alts.insert(
                    format!("{name}_pst_json"),
                    t.to_pst().map_err(|x| x.to_string()).and_then(|x| Template::from_pst(x).map_err(|x| x.to_string())).and_then(|t| t.to_json().map_err(|x| x.to_string())).and_then(&proj_from).unwrap_or_else(e),
                );
                alts.insert(format!("{name}_json"), t.to_json().map_err(|x| x.to_string()).and_then(&proj_from).unwrap_or_else(e));
                alts.insert(format!("{name}_text"), Template::parse(Some(id.clone()), t.to_string()).map(|t| proj_template(&t)).unwrap_or_else(e));
                alts.insert(
                    format!("{name}_proto"),
                    t.encode().map_err(|x| x.to_string()).and_then(|b| Template::decode(&b[..]).map_err(|x| x.to_string())).map(|t| proj_template(&t)).unwrap_or_else(e),
                );
            }
        } else if let Ok(t) = Policy::from_json(Some(id.clone()), est.clone()) {
            alts.insert(format!("{name}_pst"), t.to_pst().map_err(|x| x.to_string()).and_then(|x| Policy::from_pst(x).map_err(|x| x.to_string())).map(|t| proj_policy(&t)).unwrap_or_else(e));
            alts.insert(
                format!("{name}_pst_json"),
                t.to_pst().map_err(|x| x.to_string()).and_then(|x| Policy::from_pst(x).map_err(|x| x.to_string())).and_then(|t| t.to_json().map_err(|x| x.to_string())).and_then(&proj_from).unwrap_or_else(e),
            );
            alts.insert(format!("{name}_json"), t.to_json().map_err(|x| x.to_string()).and_then(&proj_from).unwrap_or_else(e));
            alts.insert(format!("{name}_text"), Policy::parse(Some(id.clone()), t.to_string()).map(|t| proj_policy(&t)).unwrap_or_else(e));
            let mut ps = PolicySet::new();
            if ps.add(t.clone()).is_ok() {
                let view = |s: &PolicySet| -> J { s.policy(&id).map(proj_policy).unwrap_or(json!({"absent": true})) };
                alts.insert(format!("{name}_set_pst"), ps.to_pst().map_err(|x| x.to_string()).and_then(|x| PolicySet::from_pst(x).map_err(|x| x.to_string())).map(|s| view(&s)).unwrap_or_else(e));
                alts.insert(format!("{name}_set_proto"), ps.encode().map_err(|x| x.to_string()).and_then(|b| PolicySet::decode(&b[..]).map_err(|x| x.to_string())).map(|s| view(&s)).unwrap_or_else(e));
                alts.insert(
                    format!("{name}_set_json"),
                    ps.clone().to_json().map_err(|x| x.to_string()).and_then(|j| PolicySet::from_json_value(j).map_err(|x| x.to_string())).map(|s| view(&s)).unwrap_or_else(e),
                );
            }
        }
    }
    let mut out = json!({"ev": "Formats", "template": is_template, "policy": p, "p0": p0, "hops": hops, "alts": alts});
    if let Some(idv) = case.get("id") {
        out["id"] = idv.clone();
    }
    Ok(out)
}

pub fn drive(_seed: u64, _n: usize) -> Vec<J> {
    vec![]
}
