------------------------------ MODULE TypedWorld ------------------------------
(***************************************************************************)
(* A schema (Sc2), the complete set of conformant environments over a small*)
(* universe (every optional component present or absent, an entity         *)
(* reference with and without a record, i64 extreme), used by the          *)
(* validation, partial-evaluation, batched and slicing families.           *)
(***************************************************************************)
EXTENDS SchemaFam

Sc2 == [
  ets |-> [
    User |-> [attrs |-> [n |-> Req_(TLong), opt |-> Opt_(TLong), mgr |-> Opt_(TEnt("User")),
                         rec |-> Req_(TRec([inner |-> Opt_(TLong)])), s |-> Req_(TStr)],
             tags |-> TLong, memberOf |-> {"Group"}, enum |-> {}],
    Group |-> [attrs |-> <<>>, tags |-> NoTags, memberOf |-> {}, enum |-> {}],
    Doc |-> [attrs |-> [owner |-> Req_(TEnt("User")), pub |-> Req_(TBool)],
            tags |-> NoTags, memberOf |-> {}, enum |-> {}]
  ],
  acts |-> [
    view |-> [applies |-> TRUE, principals |-> {"User"}, resources |-> {"Doc"},
              context |-> [flag |-> Req_(TBool), lim |-> Opt_(TLong)], memberOf |-> {"all"}],
    edit |-> [applies |-> TRUE, principals |-> {"User"}, resources |-> {"Doc"},
              context |-> <<>>, memberOf |-> {"all"}],
    all |-> [applies |-> FALSE, principals |-> {}, resources |-> {}, context |-> <<>>, memberOf |-> {}]
  ]
]

TL(n) == <<"long", OfInt(n)>>
TU1 == <<"ent", "User", "u1">>
TU2 == <<"ent", "User", "u2">>
TU3 == <<"ent", "User", "u3">>      \* referenced but never has a record
TU4 == <<"ent", "User", "u4">>      \* always present; u2's manager when u2 has its optional data: a user two hops from a Doc owned by u2
TG == <<"ent", "Group", "g">>
TG2 == <<"ent", "Group", "g2">>
TD == <<"ent", "Doc", "d">>
TView == ActUid("view")
TEdit == ActUid("edit")
TAll == ActUid("all")
TagK == <<107>>                      \* "k"

ERec(attrs, tags, anc) == [attrs |-> attrs, tags |-> tags, anc |-> anc]
FunOf(pairs) == [k \in {p[1] : p \in pairs} |-> (CHOOSE p \in pairs : p[1] = k)[2]]

U1Of(opt, mgr, inner, tags, ing) ==
  ERec(FunOf({<<"n", TL(1)>>, <<"s", <<"str", TagK>>>>, <<"rec", <<"rec", IF inner THEN [inner |-> TL(1)] ELSE <<>>>>>>}
             \cup (IF opt THEN {<<"opt", TL(5)>>} ELSE {})
             \cup (IF mgr = "none" THEN {} ELSE {<<"mgr", IF mgr = "u2" THEN TU2 ELSE TU3>>})),
       IF tags THEN {<<TagK, TL(1)>>} ELSE {},
       IF ing = "g" THEN {TG} ELSE IF ing = "g2" THEN {TG2} ELSE {})
U2Of(opt) == ERec(FunOf({<<"n", <<"long", I64Max>>>>, <<"s", <<"str", <<122>>>>>>, <<"rec", <<"rec", <<>>>>>>} \cup (IF opt THEN {<<"opt", TL(5)>>, <<"mgr", TU4>>} ELSE {})), {}, {})
U4Rec == ERec(FunOf({<<"n", TL(4)>>, <<"s", <<"str", <<122>>>>>>, <<"rec", <<"rec", [inner |-> TL(2)]>>>>}), {<<TagK, TL(9)>>}, {TG2})
DOf(owner) == ERec([owner |-> owner, pub |-> <<"bool", TRUE>>], {}, {})
NoData == ERec(<<>>, {}, {})

StoreOf(u1, u2, d) ==
  (TU1 :> u1) @@ (TU2 :> u2) @@ (TU4 :> U4Rec) @@ (TD :> d) @@ (TG :> NoData) @@ (TG2 :> NoData)
  @@ (TView :> ERec(<<>>, {}, {TAll})) @@ (TEdit :> ERec(<<>>, {}, {TAll})) @@ (TAll :> NoData)

ActCtx == { <<TView, [flag |-> <<"bool", TRUE>>]>>, <<TView, [flag |-> <<"bool", FALSE>>]>>,
            <<TView, [flag |-> <<"bool", TRUE>>, lim |-> TL(3)]>>, <<TView, [flag |-> <<"bool", FALSE>>, lim |-> TL(3)]>>,
            <<TEdit, <<>>>> }

EnvOf(u1, u2, d, ac) == [req |-> [principal |-> TU1, action |-> ac[1], resource |-> TD, context |-> <<"rec", ac[2]>>],
                         store |-> StoreOf(u1, u2, d)]
\* not a zero-arity constant on purpose (TLC would evaluate it eagerly everywhere it is extended)
Envs(dummy) ==
  {EnvOf(U1Of(opt, mgr, inner, tags, ing), U2Of(opt2), DOf(owner), ac)
   : opt \in BOOLEAN, mgr \in {"none", "u2", "u3"}, inner \in BOOLEAN, tags \in BOOLEAN, ing \in {"no", "g"},
     opt2 \in BOOLEAN, owner \in {TU1, TU2}, ac \in ActCtx}

\* environments addressed by a parameter tuple
\*   <<opt, mgr, inner, tags, ing, opt2, owner, ac, princ>>
ActCtxSeq == << <<TView, [flag |-> <<"bool", TRUE>>]>>, <<TView, [flag |-> <<"bool", FALSE>>]>>,
                <<TView, [flag |-> <<"bool", TRUE>>, lim |-> TL(3)]>>, <<TView, [flag |-> <<"bool", FALSE>>, lim |-> TL(3)]>>,
                <<TEdit, <<>>>> >>
UidOfName(n) == IF n = "u1" THEN TU1 ELSE TU2
EnvP(p) ==
  LET e == EnvOf(U1Of(p[1], p[2], p[3], p[4], p[5]), U2Of(p[6]), DOf(UidOfName(p[7])), ActCtxSeq[p[8]])
  IN [e EXCEPT !.req.principal = UidOfName(p[9])]
ParamDoms == << BOOLEAN, {"none", "u2", "u3"}, BOOLEAN, BOOLEAN, {"no", "g", "g2"}, BOOLEAN, {"u1", "u2"}, 1..5, {"u1", "u2"} >>
AllParams(dummy) == {<<a, b, cc, d, e, f, g, h, i>> : a \in ParamDoms[1], b \in ParamDoms[2], cc \in ParamDoms[3], d \in ParamDoms[4],
                       e \in ParamDoms[5], f \in ParamDoms[6], g \in ParamDoms[7], h \in ParamDoms[8], i \in ParamDoms[9]}
\* parameter tuples that agree with `base` outside the positions in `free`; position 8 (action+context) keeps the action
Agree(base, free, actionFixed) ==
  {p \in AllParams(0) : /\ \A k \in 1..9 : (k \notin free) => p[k] = base[k]
                         /\ ((8 \in free /\ actionFixed) => (ActCtxSeq[p[8]][1] = ActCtxSeq[base[8]][1]))}

WireStoreOf(st) == {[uid |-> u, attrs |-> st[u].attrs, tags |-> st[u].tags, anc |-> st[u].anc] : u \in DOMAIN st}
WireEnv(e) == [req |-> e.req, store |-> WireStoreOf(e.store)]

\* outcome class of a policy on an environment
ClassOf(p, env) ==
  LET r == Eval(Condition(p), env.req, env.store, p.slots)
  IN IF IsOk(r) THEN (IF r[2] = TrueV THEN "true" ELSE IF r[2] = FalseV THEN "false" ELSE "nonbool")
     ELSE r[2]
==============================================================================
