"""C05 - policy text -> AST -> text round trip (family "syntax")."""
import glob
import json
import os
import re

import vlib


def _case(world, c, i):
    c = dict(c)
    c["id"] = i
    return c


# ----------------------------------------------------------------- binding T: the tree's own policy texts
_RS_DIRS = ["cedar-policy-core/src/parser", "cedar-policy-core/src/ast", "cedar-policy-core/src/est",
            "cedar-policy/src", "cedar-policy-formatter/src", "cedar-policy-cli/src", "cedar-policy-cli/tests"]
_RAW = re.compile(r'r(#*)"(.*?)"\1', re.S)
_PLAIN = re.compile(r'"((?:[^"\\\n]|\\.)*)"')


def policy_files():
    out = []
    for p in sorted(glob.glob(os.path.join(vlib.REPO, "**", "*.cedar"), recursive=True)):
        if "/target/" in p:
            continue
        out.append(p)
    return out


def embedded_policies():
    """policy texts written as string literals in the parser / printer / CLI sources and tests"""
    seen = set()
    out = []
    for d in _RS_DIRS:
        for p in sorted(glob.glob(os.path.join(vlib.REPO, d, "**", "*.rs"), recursive=True)):
            try:
                src = open(p, errors="replace").read()
            except OSError:
                continue
            texts = [m.group(2) for m in _RAW.finditer(src)]
            texts += [m.group(1) for m in _PLAIN.finditer(src) if "\\" not in m.group(1)]
            k = 0
            for t in texts:
                if not re.search(r"\b(permit|forbid)\s*\(", t) or len(t) > 20000:
                    continue
                if t in seen:
                    continue
                seen.add(t)
                out.append(dict(kind="text", src="%s#%d" % (os.path.relpath(p, vlib.REPO), k), text=t))
                k += 1
    return out


def _corpus(fam, tier, wd, seed):
    cases = [dict(kind="file", path=p) for p in policy_files()] + embedded_policies()
    for i, c in enumerate(cases):
        c["id"] = "t%d" % i
    cpath = os.path.join(wd, "corpus.cases.ndjson")
    tpath = os.path.join(wd, "corpus.trace.ndjson")
    vlib.write_ndjson(cpath, cases)
    vlib.conform("replay", "syntax", cpath, tpath)
    traces = [(tpath, "T:corpus", "Trace_Syntax.tla")]
    # second leg: TLC reads the projections found in the tree as surface ASTs and renders them with the
    # reference grammar (MC_Rerender); the harness parses those renderings, same stability rule
    r = vlib.run_model("MC_Rerender.tla", "MC_Rerender.cfg", wd, "mc_rerender", workers=8, env_extra=dict(CORPUS=tpath))
    if not r["ok"]:
        raise vlib.ToolError("MC_Rerender failed: %s\n%s" % (r["error"], r["tail"][-2000:]))
    rcases = []
    for i, c in enumerate(vlib.tlc_lines(r["out"], "CASE")):
        c["id"] = "r%d" % i
        rcases.append(c)
    os.remove(r["out"])
    rc = os.path.join(wd, "rerender.cases.ndjson")
    rt = os.path.join(wd, "rerender.trace.ndjson")
    vlib.write_ndjson(rc, rcases)
    vlib.conform("replay", "syntax", rc, rt)
    traces.append((rt, "T:rerender", "Trace_Syntax.tla"))
    return traces


def _mutate(ev):
    """canary: the real parser's answer for one policy is altered; TLC must notice"""
    ev = json.loads(json.dumps(ev))
    if ev.get("ev") == "Syntax" and ev.get("views"):
        for v in ev["views"]:
            if v.get("k") == "ok" and v.get("p"):
                p = v["p"][0]
                if p["cond"] != ["none"]:
                    p["cond"] = ["not", p["cond"]]
                else:
                    p["effect"] = "forbid" if p["effect"] == "permit" else "permit"
                return ev
        return None
    if ev.get("ev") == "SyntaxReject":
        ev["parse"][0] = ["ok", "set", []]
        return ev
    return None


def _case_of_event(ev):
    """--replay: the generated case is looked up by id in the last run's case file"""
    if ev.get("ev") == "Stable" or ev.get("ev") == "SyntaxSkip":
        src = ev.get("src", "")
        if os.path.exists(src):
            return dict(kind="file", id="replay", path=src)
        for c in embedded_policies():
            if c["src"] == src:
                return dict(c, id="replay")
        raise vlib.ToolError("cannot find source %s" % src)
    for name in ("mc_syntax.cases.ndjson", "replay.cases.ndjson"):
        path = os.path.join(vlib.workdir("C05"), name)
        if os.path.exists(path):
            for c in vlib.read_ndjson(path):
                if c.get("id") == ev.get("id"):
                    return c
    raise vlib.ToolError("case %s not found: run ./check C05 first" % ev.get("id"))


C05 = dict(
    family="syntax", trace_module="Trace_Syntax.tla", case_of_event=_case_of_event,
    models=[dict(name="mc_syntax", module="MC_Syntax.tla",
                 cfg=dict(quick="MC_Syntax_quick.cfg", thorough="MC_Syntax_thorough.cfg"), cases=_case)],
    extra_traces=_corpus,
    nontrivial=lambda ev: ev.get("ev") in ("Syntax", "Stable") and bool(ev.get("views")),
    key=lambda ev: [ev.get("pols"), ev.get("style"), ev.get("src")],
    mutate=_mutate, chunk=6000,
    rule="G: MC_Syntax (TLC-enumerated surface policy sets, complete for its pools): every operator shape (39: || && == != < <= > >= in + - * "
         "contains containsAll containsAny getTag hasTag `is..in` method and function calls, set and record literals, ! - isEmpty .attr [\"attr\"] has "
         "has-chains like is, if-then-else) in every operand position of every other one over three operand fillers (member expressions, negative "
         "literals, boolean literals); depth 3 over 10 operators; every !/- sequence up to length 5 over 9 bases incl. i64::MIN; left/right/balanced "
         "chains of 6 binary operators; every sequence of up to 3 member accesses / method calls on 14 receivers; 7 boundary literals in 16 positions; "
         "all strings of length <= 2 over 17 code points (quote, backslash, newline, NUL, *, non-BMP, U+202E, CR, DEL, ...) as string literal, "
         "entity id (scope and condition), annotation value and pattern, wildcard patterns of length <= 3; 19 attribute names (reserved words, empty, "
         "quote, backslash) as .a / [\"a\"] / has / record key; 9x8x9 scope constraints x effect; 0-3 annotations; 0-3 when/unless clauses with "
         "literal bodies (folding); policy sets of 1-4 policies incl. templates; 46 texts the grammar rejects. Each case is rendered by Syntax!SxToks in "
         "three parenthesisation styles (minimal / full / redundant with trailing commas), spelled by the harness with seeded random whitespace, "
         "comments and escape spellings, and run through 12 parse / print / re-parse paths (PolicySet::from_str, core parse_policyset, Policy/Template::"
         "parse, AST printer, to_cedar, JSON round trip, EST printer, PolicySet::to_cedar / Display before and after JSON). TLC recomputes the "
         "desugared AST (Syntax!SxCore) and requires every path's projection to equal it (in order, or as a multiset where a set is printed). "
         "T: every *.cedar file in the tree and every policy text embedded as a string literal in the parser / AST / EST / API / formatter / CLI "
         "sources: projection stable under the same paths; and every projection so found is read back as a surface AST, rendered by Syntax!SxToks in the "
         "three styles (MC_Rerender) and must parse to the same projection again. distinct by (surface set, style) / source.",
    exhaustive=dict(quick=False, thorough=False),
    assumptions=["the harness's token spelling (escapes, digits, whitespace) and its structural projection of ast::Template are faithful",
                 "record-literal key order and the identifier / reserved-word classification of the generated attribute names are tabulated in Syntax.tla",
                 "PolicySet's Display prints policies() only: templates are not expected in its output (to_cedar is checked for them)",
                 "evaluation agreement of equal ASTs is C02's concern and not re-checked here"],
)
