------------------------------- MODULE Syntax -------------------------------
(***************************************************************************)
(* Surface abstract syntax of Cedar policies, the desugaring the parser    *)
(* performs (SxCore), and the reference concrete syntax (SxToks): a token  *)
(* sequence derived from the grammar's precedence table, in three          *)
(* parenthesisation styles.  Used by C05 (round trip) and C12 (formatter). *)
(*                                                                         *)
(* Surface expressions = the core forms of CedarExpr.tla plus              *)
(*   <<"rel", op, a, b>>        op in gt ge ne       a > b, a >= b, a != b *)
(*   <<"hasChain", e, attrs>>   e has a.b.c                                *)
(*   <<"isIn", e, T, x>>        e is T in x                                *)
(*   <<"rec", <<<<k, e>>, ..>>>> record literal in *written* key order     *)
(*   <<"lit", <<"long", x>>>>   x may be negative: the text -N             *)
(* Entity literals carry their id as code points: <<"ent", type, cps>>.    *)
(* A surface policy is a record [effect, annotations (tuple of <<key,      *)
(* <<"none">> | <<"s", cps>>>>), principal, action, resource (scope        *)
(* constraints of CedarAuthz.tla plus <<"in", e>> for actions), conds      *)
(* (tuple of <<"when"|"unless", expr>>)].                                  *)
(*                                                                         *)
(* Tokens: plain TLA+ strings for keywords, punctuation and identifiers;   *)
(* <<"num", limbs>> (magnitude, base 10^4 little-endian), <<"str", cps>>,  *)
(* <<"estr", cps>> (entity id), <<"pat", elems>>, <<"qstr", string>> (an   *)
(* attribute name written as a string literal), <<"name", "A::B">>.  The   *)
(* harness only spells these (escapes, digits) and inserts whitespace.     *)
(***************************************************************************)
EXTENDS Integers, Sequences, FiniteSets

\* ------------------------------------------------------------ lexical tables
\* TLC cannot look inside strings, so the classification of the attribute
\* names / record keys used by the generators is tabulated here.
SxReserved == {"true", "false", "if", "then", "else", "in", "is", "like", "has", "__cedar"}
\* names that may be written bare after `.`, after `has`, and as record keys
SxPlainIdents == {"n", "s", "a", "b", "c", "owner", "tags", "rec", "missing", "_x", "x1",
                  "principal", "action", "resource", "context", "permit", "forbid", "when", "unless"}
\* all record keys of the generator pools in ascending byte order (the order of the AST's map)
SxKeyOrder == <<"", "0a", "__cedar", "_x", "a", "a b", "a\"b", "a\\b", "b", "c", "has", "if", "in", "is",
                "like", "n", "naïve", "owner", "permit", "principal", "s", "then", "true", "when", "x٣", "é">>
SxSortKeys(K) == SelectSeq(SxKeyOrder, LAMBDA k : k \in K)

\* extension functions that must be called in method style; all others in function style
SxMethodFns == {"lessThan", "lessThanOrEqual", "greaterThan", "greaterThanOrEqual", "isIpv4", "isIpv6",
                "isLoopback", "isMulticast", "isInRange", "offset", "durationSince", "toDate", "toTime",
                "toMilliseconds", "toSeconds", "toMinutes", "toHours", "toDays"}
\* binary operators written as methods
SxMethodOps == {"contains", "containsAll", "containsAny", "getTag", "hasTag"}

SxIsLong(e) == e[1] = "lit" /\ e[2][1] = "long"
SxIsNegLong(e) == SxIsLong(e) /\ e[2][2][1]
SxIsNatLong(e) == SxIsLong(e) /\ ~e[2][2][1]
SxIsBoolLit(e) == e[1] = "lit" /\ e[2][1] = "bool"

\* ------------------------------------------------------------ desugaring
\* the AST builders fold && / || of two boolean literals
SxAnd(a, b) == IF SxIsBoolLit(a) /\ SxIsBoolLit(b) THEN <<"lit", <<"bool", a[2][2] /\ b[2][2]>>>> ELSE <<"and", a, b>>
SxOr(a, b) == IF SxIsBoolLit(a) /\ SxIsBoolLit(b) THEN <<"lit", <<"bool", a[2][2] \/ b[2][2]>>>> ELSE <<"or", a, b>>

\* e has a1.a2...an  =  ((e has a1) && (e.a1 has a2)) && ... , left-nested
RECURSIVE SxHasFold(_, _, _, _)
SxHasFold(hasE, getE, attrs, i) ==
  IF i > Len(attrs) THEN hasE
  ELSE SxHasFold(SxAnd(hasE, <<"has", getE, attrs[i]>>), <<"get", getE, attrs[i]>>, attrs, i + 1)

SxRelCore(op) == CASE op = "gt" -> "lessEq" [] op = "ge" -> "less" [] op = "ne" -> "eq"

RECURSIVE SxCore(_)
SxCore(e) ==
  CASE e[1] \in {"lit", "var", "slot"} -> e
    [] e[1] = "if" -> <<"if", SxCore(e[2]), SxCore(e[3]), SxCore(e[4])>>
    [] e[1] = "and" -> SxAnd(SxCore(e[2]), SxCore(e[3]))
    [] e[1] = "or" -> SxOr(SxCore(e[2]), SxCore(e[3]))
    [] e[1] \in {"not", "neg", "isEmpty"} -> <<e[1], SxCore(e[2])>>
    [] e[1] = "bin" -> <<"bin", e[2], SxCore(e[3]), SxCore(e[4])>>
    [] e[1] = "rel" -> <<"not", <<"bin", SxRelCore(e[2]), SxCore(e[3]), SxCore(e[4])>>>>
    [] e[1] = "call" -> <<"call", e[2], [i \in 1..Len(e[3]) |-> SxCore(e[3][i])]>>
    [] e[1] \in {"get", "has"} -> <<e[1], SxCore(e[2]), e[3]>>
    [] e[1] = "hasChain" ->
         LET x == SxCore(e[2])
         IN SxHasFold(<<"has", x, e[3][1]>>, <<"get", x, e[3][1]>>, e[3], 2)
    [] e[1] = "like" -> <<"like", SxCore(e[2]), e[3]>>
    [] e[1] = "is" -> <<"is", SxCore(e[2]), e[3]>>
    [] e[1] = "isIn" ->
         LET x == SxCore(e[2])
         IN SxAnd(<<"is", x, e[3]>>, <<"bin", "in", x, SxCore(e[4])>>)
    [] e[1] = "set" -> <<"set", [i \in 1..Len(e[2]) |-> SxCore(e[2][i])]>>
    [] e[1] = "rec" ->
         LET ps == e[2]
             K == {ps[i][1] : i \in 1..Len(ps)}
         IN <<"record", [k \in K |-> SxCore(ps[CHOOSE i \in 1..Len(ps) : ps[i][1] = k][2])], SxSortKeys(K)>>

\* a record literal must not repeat a key (the parser rejects it)
SxRecOk(ps) == \A i, j \in 1..Len(ps) : i # j => ps[i][1] # ps[j][1]

SxCondCore(c) == IF c[1] = "when" THEN SxCore(c[2]) ELSE <<"not", SxCore(c[2])>>
\* all clauses conjoined in order, right-nested: c1 && (c2 && c3)
RECURSIVE SxCondsFrom(_, _)
SxCondsFrom(cs, i) ==
  IF i = Len(cs) THEN SxCondCore(cs[i]) ELSE SxAnd(SxCondCore(cs[i]), SxCondsFrom(cs, i + 1))
SxCondsCore(cs) == IF Len(cs) = 0 THEN <<"none">> ELSE SxCondsFrom(cs, 1)

\* `action in e` is kept as the one-element list
SxActionCore(c) == IF c[1] = "in" THEN <<"inset", <<c[2]>>>> ELSE c
\* an annotation without a value has the value ""
SxAnnCore(as) == {<<as[i][1], IF as[i][2][1] = "none" THEN <<>> ELSE as[i][2][2]>> : i \in 1..Len(as)}
SxAnnOk(as) == \A i, j \in 1..Len(as) : i # j => as[i][1] # as[j][1]

\* core policy: a tuple, so that policies can be compared with each other
SxPolicyCore(p) ==
  <<p.effect, SxAnnCore(p.annotations), p.principal, SxActionCore(p.action), p.resource, SxCondsCore(p.conds)>>
SxSetCore(ps) == [i \in 1..Len(ps) |-> SxPolicyCore(ps[i])]

\* the projection the harness writes for one parsed policy -> the same tuple
SxOfWire(w) ==
  <<w.effect, {<<w.annotations[i][1], w.annotations[i][2]>> : i \in 1..Len(w.annotations)},
    w.principal, w.action, w.resource, w.cond>>
SxWireAnnOk(w) == \A i, j \in 1..Len(w.annotations) : i # j => w.annotations[i][1] # w.annotations[j][1]
SxSeqOfWire(ws) == [i \in 1..Len(ws) |-> SxOfWire(ws[i])]

\* two sequences are equal as multisets
SxPerms(n) == {f \in [1..n -> 1..n] : \A i, j \in 1..n : i # j => f[i] # f[j]}
SxSameBag(s, t) == Len(s) = Len(t) /\ \E f \in SxPerms(Len(s)) : \A i \in 1..Len(s) : s[i] = t[f[i]]

\* ------------------------------------------------------------ reference concrete syntax
\* Precedence of the grammar (grammar.lalrpop), loosest first:
\*   0 Expr (if-then-else)  1 Or  2 And  3 Relation (non-associative)  4 Add  5 Mult
\*   6 Unary (1..4 repetitions of one operator; -N is a unary expression)
\*   7 Member (Primary followed by accesses / calls)  8 Primary
SxPrec(e) ==
  CASE e[1] = "lit" -> IF SxIsNegLong(e) THEN 6 ELSE 8
    [] e[1] \in {"var", "slot", "set", "rec"} -> 8
    [] e[1] \in {"call", "get", "isEmpty"} -> 7
    [] e[1] = "bin" -> (CASE e[2] \in SxMethodOps -> 7
                          [] e[2] = "mul" -> 5
                          [] e[2] \in {"add", "sub"} -> 4
                          [] OTHER -> 3)
    [] e[1] \in {"not", "neg"} -> 6
    [] e[1] \in {"rel", "has", "hasChain", "like", "is", "isIn"} -> 3
    [] e[1] = "and" -> 2
    [] e[1] = "or" -> 1
    [] e[1] = "if" -> 0

\* min = the grammar's precedence; full = every non-member operand is parenthesised; red = everything is
\* parenthesised, literals and receivers included; redc = red, and every non-empty list ends with a comma
SxStyles == <<"min", "full", "redc">>
SxAllStyles == <<"min", "full", "red", "redc">>
\* level demanded of an operand in a position whose grammatical level is n
SxLvl(st, n) == CASE st = "min" -> n [] st = "full" -> (IF n < 7 THEN 7 ELSE n) [] st \in {"red", "redc"} -> 9

SxBinSym(op) == CASE op = "eq" -> "==" [] op = "less" -> "<" [] op = "lessEq" -> "<=" [] op = "in" -> "in"
                  [] op = "add" -> "+" [] op = "sub" -> "-" [] op = "mul" -> "*"
                  [] op = "gt" -> ">" [] op = "ge" -> ">=" [] op = "ne" -> "!="
SxUnSym(op) == IF op = "not" THEN "!" ELSE "-"
SxBare(attr, st) == st # "full" /\ attr \in SxPlainIdents
SxAttrTok(attr, st) == IF SxBare(attr, st) THEN attr ELSE <<"qstr", attr>>
SxEntToks(v) == << <<"name", v[2]>>, "::", <<"estr", v[3]>> >>
SxLitToks(v) ==
  CASE v[1] = "bool" -> <<IF v[2] THEN "true" ELSE "false">>
    [] v[1] = "long" -> IF v[2][1] THEN <<"-", <<"num", v[2][2]>>>> ELSE << <<"num", v[2][2]>> >>
    [] v[1] = "str" -> << <<"str", v[2]>> >>
    [] v[1] = "ent" -> SxEntToks(v)
\* a non-empty list may end with a comma
SxTrail(n, st) == IF st = "redc" /\ n > 0 THEN <<",">> ELSE <<>>

RECURSIVE SxT(_, _), SxP(_, _, _), SxUn(_, _, _, _), SxList(_, _, _), SxRecList(_, _, _), SxChain(_, _)
\* e in a position of grammatical level n
SxP(e, n, st) == IF SxPrec(e) >= SxLvl(st, n) THEN SxT(e, st) ELSE <<"(">> \o SxT(e, st) \o <<")">>
\* operand of a unary operator, `left` more repetitions of the same operator allowed.
\* -N with N a number token is the literal, so negation of a non-negative literal needs
\* parentheses, while negation of a negative literal may be written `- -N`.
SxUn(op, a, left, st) ==
  IF st = "min" /\ left >= 1 /\ a[1] = op THEN <<SxUnSym(op)>> \o SxUn(op, a[2], left - 1, st)
  ELSE IF st = "min" /\ left >= 1 /\ op = "neg" /\ SxIsNegLong(a) THEN SxT(a, st)
  ELSE IF op = "neg" /\ SxIsNatLong(a) THEN <<"(">> \o SxT(a, st) \o <<")">>
  ELSE SxP(a, 7, st)
SxList(es, i, st) ==
  IF i > Len(es) THEN <<>>
  ELSE SxP(es[i], 0, st) \o (IF i < Len(es) THEN <<",">> ELSE <<>>) \o SxList(es, i + 1, st)
SxRecList(ps, i, st) ==
  IF i > Len(ps) THEN <<>>
  ELSE <<SxAttrTok(ps[i][1], st), ":">> \o SxP(ps[i][2], 0, st)
       \o (IF i < Len(ps) THEN <<",">> ELSE <<>>) \o SxRecList(ps, i + 1, st)
SxChain(attrs, i) == IF i > Len(attrs) THEN <<>> ELSE (IF i > 1 THEN <<".">> ELSE <<>>) \o <<attrs[i]>> \o SxChain(attrs, i + 1)
SxT(e, st) ==
  CASE e[1] = "lit" -> SxLitToks(e[2])
    [] e[1] = "var" -> <<e[2]>>
    [] e[1] = "slot" -> <<"?" \o e[2]>>
    [] e[1] = "if" -> <<"if">> \o SxP(e[2], 0, st) \o <<"then">> \o SxP(e[3], 0, st) \o <<"else">> \o SxP(e[4], 0, st)
    [] e[1] = "or" -> SxP(e[2], 1, st) \o <<"||">> \o SxP(e[3], 2, st)
    [] e[1] = "and" -> SxP(e[2], 2, st) \o <<"&&">> \o SxP(e[3], 3, st)
    [] e[1] = "rel" -> SxP(e[3], 4, st) \o <<SxBinSym(e[2])>> \o SxP(e[4], 4, st)
    [] e[1] = "bin" ->
         (CASE e[2] \in SxMethodOps -> SxP(e[3], 7, st) \o <<".", e[2], "(">> \o SxP(e[4], 0, st) \o SxTrail(1, st) \o <<")">>
            [] e[2] = "mul" -> SxP(e[3], 5, st) \o <<"*">> \o SxP(e[4], 6, st)
            [] e[2] \in {"add", "sub"} -> SxP(e[3], 4, st) \o <<SxBinSym(e[2])>> \o SxP(e[4], 5, st)
            [] OTHER -> SxP(e[3], 4, st) \o <<SxBinSym(e[2])>> \o SxP(e[4], 4, st))
    [] e[1] \in {"not", "neg"} -> <<SxUnSym(e[1])>> \o SxUn(e[1], e[2], 3, st)
    [] e[1] = "isEmpty" -> SxP(e[2], 7, st) \o <<".", "isEmpty", "(", ")">>
    [] e[1] = "call" ->
         IF e[2] \in SxMethodFns
         THEN SxP(e[3][1], 7, st) \o <<".", e[2], "(">> \o SxList(Tail(e[3]), 1, st) \o SxTrail(Len(e[3]) - 1, st) \o <<")">>
         ELSE <<e[2], "(">> \o SxList(e[3], 1, st) \o SxTrail(Len(e[3]), st) \o <<")">>
    [] e[1] = "get" -> SxP(e[2], 7, st) \o (IF SxBare(e[3], st) THEN <<".", e[3]>> ELSE <<"[", <<"qstr", e[3]>>, "]">>)
    [] e[1] = "has" -> SxP(e[2], 4, st) \o <<"has", SxAttrTok(e[3], st)>>
    [] e[1] = "hasChain" -> SxP(e[2], 4, st) \o <<"has">> \o SxChain(e[3], 1)
    [] e[1] = "like" -> SxP(e[2], 4, st) \o <<"like", <<"pat", e[3]>>>>
    [] e[1] = "is" -> SxP(e[2], 4, st) \o <<"is", <<"name", e[3]>>>>
    [] e[1] = "isIn" -> SxP(e[2], 4, st) \o <<"is", <<"name", e[3]>>, "in">> \o SxP(e[4], 4, st)
    [] e[1] = "set" -> <<"[">> \o SxList(e[2], 1, st) \o SxTrail(Len(e[2]), st) \o <<"]">>
    [] e[1] = "rec" -> <<"{">> \o SxRecList(e[2], 1, st) \o SxTrail(Len(e[2]), st) \o <<"}">>

SxExprToks(e, st) == SxP(e, 0, st)

RECURSIVE SxEntList(_, _)
SxEntList(es, i) ==
  IF i > Len(es) THEN <<>> ELSE SxEntToks(es[i]) \o (IF i < Len(es) THEN <<",">> ELSE <<>>) \o SxEntList(es, i + 1)
SxScopeToks(v, c) ==
  CASE c[1] = "any" -> <<v>>
    [] c[1] = "eq" -> <<v, "==">> \o SxEntToks(c[2])
    [] c[1] = "in" -> <<v, "in">> \o SxEntToks(c[2])
    [] c[1] = "is" -> <<v, "is", <<"name", c[2]>>>>
    [] c[1] = "isin" -> <<v, "is", <<"name", c[2]>>, "in">> \o SxEntToks(c[3])
    [] c[1] = "inset" -> <<v, "in", "[">> \o SxEntList(c[2], 1) \o <<"]">>
    [] c[1] = "eqslot" -> <<v, "==", "?" \o v>>
    [] c[1] = "inslot" -> <<v, "in", "?" \o v>>
    [] c[1] = "isinslot" -> <<v, "is", <<"name", c[2]>>, "in", "?" \o v>>
RECURSIVE SxAnnToks(_, _), SxCondToks(_, _, _)
SxAnnToks(as, i) ==
  IF i > Len(as) THEN <<>>
  ELSE <<"@", as[i][1]>> \o (IF as[i][2][1] = "none" THEN <<>> ELSE <<"(", <<"str", as[i][2][2]>>, ")">>) \o SxAnnToks(as, i + 1)
SxCondToks(cs, i, st) ==
  IF i > Len(cs) THEN <<>>
  ELSE <<cs[i][1], "{">> \o SxExprToks(cs[i][2], st) \o <<"}">> \o SxCondToks(cs, i + 1, st)
SxPolicyToks(p, st) ==
  SxAnnToks(p.annotations, 1) \o <<p.effect, "(">> \o SxScopeToks("principal", p.principal) \o <<",">>
  \o SxScopeToks("action", p.action) \o <<",">> \o SxScopeToks("resource", p.resource) \o SxTrail(1, st) \o <<")">>
  \o SxCondToks(p.conds, 1, st) \o <<";">>
RECURSIVE SxSetToksFrom(_, _, _)
SxSetToksFrom(ps, i, st) == IF i > Len(ps) THEN <<>> ELSE SxPolicyToks(ps[i], st) \o SxSetToksFrom(ps, i + 1, st)
SxSetToks(ps, st) == SxSetToksFrom(ps, 1, st)

\* ------------------------------------------------------------ core AST read as surface AST
\* (binding T: the projection of a policy found in the tree is rendered again by the reference
\* grammar; a record becomes a literal written in the AST's key order)
RECURSIVE SxSurface(_)
SxSurface(e) ==
  CASE e[1] \in {"lit", "var", "slot"} -> e
    [] e[1] = "if" -> <<"if", SxSurface(e[2]), SxSurface(e[3]), SxSurface(e[4])>>
    [] e[1] \in {"and", "or"} -> <<e[1], SxSurface(e[2]), SxSurface(e[3])>>
    [] e[1] \in {"not", "neg", "isEmpty"} -> <<e[1], SxSurface(e[2])>>
    [] e[1] = "bin" -> <<"bin", e[2], SxSurface(e[3]), SxSurface(e[4])>>
    [] e[1] = "call" -> <<"call", e[2], [i \in 1..Len(e[3]) |-> SxSurface(e[3][i])]>>
    [] e[1] \in {"get", "has", "like", "is"} -> <<e[1], SxSurface(e[2]), e[3]>>
    [] e[1] = "set" -> <<"set", [i \in 1..Len(e[2]) |-> SxSurface(e[2][i])]>>
    [] e[1] = "record" -> <<"rec", [i \in 1..Len(e[3]) |-> <<e[3][i], SxSurface(e[2][e[3][i]])>>]>>
SxSurfacePolicy(w) ==
  [effect |-> w.effect,
   annotations |-> [i \in 1..Len(w.annotations) |-> <<w.annotations[i][1], <<"s", w.annotations[i][2]>>>>],
   principal |-> w.principal, action |-> w.action, resource |-> w.resource,
   conds |-> IF w.cond[1] = "none" THEN <<>> ELSE <<<<"when", SxSurface(w.cond)>>>>]
SxSurfaceSet(ws) == [i \in 1..Len(ws) |-> SxSurfacePolicy(ws[i])]

\* sanity (binding M): parentheses / brackets balance and never close below zero.
\* Only plain-string tokens are inspected (literal tokens are tuples).
RECURSIVE SxDepthOk(_, _, _)
SxDepthOk(ts, i, d) ==
  IF i > Len(ts) THEN d = 0
  ELSE IF Len(ts[i]) = 1 /\ ts[i] \in {"(", "[", "{"} THEN SxDepthOk(ts, i + 1, d + 1)
  ELSE IF Len(ts[i]) = 1 /\ ts[i] \in {")", "]", "}"} THEN d > 0 /\ SxDepthOk(ts, i + 1, d - 1)
  ELSE SxDepthOk(ts, i + 1, d)
=============================================================================
