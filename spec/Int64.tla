------------------------------- MODULE Int64 -------------------------------
(***************************************************************************)
(* Exact signed 64-bit integer arithmetic for TLC, whose own integers are  *)
(* 32-bit.  A number is the pair <<neg, m>> where m is the magnitude as a  *)
(* 5-tuple of base-10^4 limbs, least significant first.  Zero is always    *)
(* <<FALSE, <<0,0,0,0,0>>>> so that equal numbers are equal TLA+ values.   *)
(* All products are < 10^8 and all column sums < 5*10^8 < 2^31.            *)
(***************************************************************************)
EXTENDS Integers, Sequences

B == 10000
NL == 5                                   \* limbs in a canonical magnitude

ZeroM == <<0, 0, 0, 0, 0>>
I64Zero == <<FALSE, ZeroM>>

\* 2^63 = 9223372036854775808  and  2^63 - 1
Mag63   == <<5808, 5477, 368, 3372, 922>>
MagMax  == <<5807, 5477, 368, 3372, 922>>
I64Max  == <<FALSE, MagMax>>
I64Min  == <<TRUE, Mag63>>

\* magnitudes of arbitrary length (little endian), compared as numbers
Limb(m, i) == IF i <= Len(m) THEN m[i] ELSE 0

RECURSIVE CmpFrom(_, _, _)
CmpFrom(a, b, i) ==                        \* compare limbs i, i-1, .., 1
  IF i = 0 THEN 0
  ELSE IF Limb(a, i) < Limb(b, i) THEN 0 - 1
  ELSE IF Limb(a, i) > Limb(b, i) THEN 1
  ELSE CmpFrom(a, b, i - 1)

MaxLen(a, b) == IF Len(a) > Len(b) THEN Len(a) ELSE Len(b)
CmpM(a, b) == CmpFrom(a, b, MaxLen(a, b))   \* -1, 0, 1

IsZeroM(m) == \A i \in 1..Len(m) : m[i] = 0

\* a + b on magnitudes, result has MaxLen+1 limbs
RECURSIVE AddFrom(_, _, _, _, _)
AddFrom(a, b, i, n, carry) ==
  IF i > n THEN <<carry>>
  ELSE LET s == Limb(a, i) + Limb(b, i) + carry
       IN <<s % B>> \o AddFrom(a, b, i + 1, n, s \div B)
AddM(a, b) == AddFrom(a, b, 1, MaxLen(a, b), 0)

\* a - b on magnitudes, requires a >= b; result has MaxLen limbs
RECURSIVE SubFrom(_, _, _, _, _)
SubFrom(a, b, i, n, borrow) ==
  IF i > n THEN <<>>
  ELSE LET d == Limb(a, i) - Limb(b, i) - borrow
       IN IF d < 0 THEN <<d + B>> \o SubFrom(a, b, i + 1, n, 1)
          ELSE <<d>> \o SubFrom(a, b, i + 1, n, 0)
SubM(a, b) == SubFrom(a, b, 1, MaxLen(a, b), 0)

\* schoolbook product: column k (1-based) = sum_{i+j=k+1} a[i]*b[j]
RECURSIVE ColSum(_, _, _, _)
ColSum(a, b, k, i) ==
  IF i > k THEN 0
  ELSE Limb(a, i) * Limb(b, k + 1 - i) + ColSum(a, b, k, i + 1)
RECURSIVE MulFrom(_, _, _, _, _)
MulFrom(a, b, k, n, carry) ==
  IF k > n THEN <<carry % B, carry \div B>>
  ELSE LET s == ColSum(a, b, k, 1) + carry
       IN <<s % B>> \o MulFrom(a, b, k + 1, n, s \div B)
MulM(a, b) == MulFrom(a, b, 1, Len(a) + Len(b) - 1, 0)

\* multiply magnitude by a small natural (< 10^4) and add a small natural
RECURSIVE MulSmallFrom(_, _, _, _)
MulSmallFrom(a, k, i, carry) ==
  IF i > Len(a) THEN <<carry % B, carry \div B>>
  ELSE LET s == a[i] * k + carry
       IN <<s % B>> \o MulSmallFrom(a, k, i + 1, s \div B)
MulSmallAdd(a, k, c) == MulSmallFrom(a, k, 1, c)

\* divide magnitude by a small positive natural (< 10^4): <<quotient, remainder>>
RECURSIVE DivSmallFrom(_, _, _, _)
DivSmallFrom(a, k, i, rem) ==              \* processes limbs i, i-1, .., 1
  IF i = 0 THEN <<<<>>, rem>>
  ELSE LET cur == rem * B + a[i]
           rest == DivSmallFrom(a, k, i - 1, cur % k)
       IN <<rest[1] \o <<cur \div k>>, rest[2]>>
DivSmall(a, k) == DivSmallFrom(a, k, Len(a), 0)

\* canonical 5-limb form, or "big" when the magnitude does not fit 5 limbs
Fits5(m) == \A i \in 1..Len(m) : i > NL => m[i] = 0
Norm5(m) == [i \in 1..NL |-> Limb(m, i)]

\* Build a signed value from sign and arbitrary-length magnitude.
\* Result: <<"ok", <<neg, m5>>>> or <<"ovf">>.
Mk(neg, m) ==
  IF ~Fits5(m) THEN <<"ovf">>
  ELSE LET m5 == Norm5(m)
       IN IF IsZeroM(m5) THEN <<"ok", I64Zero>>
          ELSE IF neg THEN (IF CmpM(m5, Mag63) <= 0 THEN <<"ok", <<TRUE, m5>>>> ELSE <<"ovf">>)
          ELSE (IF CmpM(m5, MagMax) <= 0 THEN <<"ok", <<FALSE, m5>>>> ELSE <<"ovf">>)

IsI64(x) == /\ Len(x) = 2 /\ x[1] \in BOOLEAN /\ Len(x[2]) = NL
            /\ \A i \in 1..NL : x[2][i] \in 0..(B - 1)
            /\ Mk(x[1], x[2]) = <<"ok", x>>

Cmp(x, y) ==                               \* -1, 0, 1 on signed values
  IF x[1] # y[1] THEN (IF x[1] THEN 0 - 1 ELSE 1)
  ELSE IF x[1] THEN CmpM(y[2], x[2]) ELSE CmpM(x[2], y[2])
Lt(x, y) == Cmp(x, y) < 0
Le(x, y) == Cmp(x, y) <= 0

Neg(x) == Mk(~x[1], x[2])

Add(x, y) ==
  IF x[1] = y[1] THEN Mk(x[1], AddM(x[2], y[2]))
  ELSE IF CmpM(x[2], y[2]) >= 0 THEN Mk(x[1], SubM(x[2], y[2]))
  ELSE Mk(y[1], SubM(y[2], x[2]))

NegRaw(y) == IF IsZeroM(y[2]) THEN y ELSE <<~y[1], y[2]>>   \* may denote +2^63: not canonical, only fed to Add
Sub(x, y) == Add(x, NegRaw(y))

Mul(x, y) == Mk(x[1] # y[1], MulM(x[2], y[2]))

\* conversions with TLC integers (|n| < 2^31)
RECURSIVE NatLimbs(_)
NatLimbs(n) == IF n = 0 THEN <<>> ELSE <<n % B>> \o NatLimbs(n \div B)
OfInt(n) == IF n < 0 THEN <<TRUE, Norm5(NatLimbs(0 - n))>> ELSE <<FALSE, Norm5(NatLimbs(n))>>
\* only for values known to be small
ToIntM(m) == m[1] + B * m[2] + (IF m[3] > 20 THEN 2000000000 ELSE B * B * m[3])
ToInt(x) == IF x[1] THEN 0 - ToIntM(x[2]) ELSE ToIntM(x[2])
IsSmall(x) == x[2][4] = 0 /\ x[2][5] = 0 /\ x[2][3] <= 20

\* decimal digit sequences (each element 0..9, most significant first) -> magnitude
RECURSIVE DigitsToM(_, _, _)
DigitsToM(ds, i, acc) ==
  IF i > Len(ds) THEN acc
  ELSE DigitsToM(ds, i + 1, MulSmallAdd(acc, 10, ds[i]))
\* to keep lengths bounded the caller should reject digit strings longer than 24
OfDigits(ds) == DigitsToM(ds, 1, <<0>>)

\* truncating division of a signed value by a small positive natural
DivTrunc(x, k) == LET q == DivSmall(x[2], k)[1]
                  IN Mk(x[1], q)[2]
\* floor division and non-negative remainder, small positive k
ModFloor(x, k) == LET r == DivSmall(x[2], k)[2]
                  IN IF x[1] /\ r # 0 THEN k - r ELSE r
DivFloor(x, k) == LET qr == DivSmall(x[2], k)
                  IN IF x[1] /\ qr[2] # 0
                     THEN Mk(TRUE, AddM(qr[1], <<1>>))[2]
                     ELSE Mk(x[1], qr[1])[2]
=============================================================================
