#!/bin/bash
# confirm_seed.sh <seed-name> <worktree> <demo-file-in-seed_demo> [extra cargo test packages...]
# Confirms a seeded change independently: compiles, existing tests pass, demo fails with / passes without.
# Then stores it under /verif/seeded/<seed-name>/ and removes the worktree.
set -u
NAME=$1; WT=$2; DEMO=$3; shift 3
OUT=/verif/seeded/$NAME
mkdir -p $OUT
LOG=$OUT/confirm.log
: > $LOG
cd $WT || exit 2
export CARGO_TARGET_DIR=$WT/target CARGO_NET_OFFLINE=true
TEST=$(basename $DEMO .rs)
git apply -R --check seed_patch.diff 2>>$LOG || { echo "patch not applied in worktree" >> $LOG; git apply seed_patch.diff 2>>$LOG; }
DEMO_PKG=${DEMO_PKG:-cedar-policy}; cp seed_demo/$DEMO $DEMO_PKG/tests/$DEMO
echo "== demo with patch" >> $LOG
cargo test --offline -p $DEMO_PKG ${FEATURES:+--features $FEATURES} --test $TEST >> $LOG 2>&1; WITH=$?
echo "== existing tests with patch" >> $LOG
EXIST=0
cargo test --offline -p cedar-policy-core --lib ${CORE_FEATURES:+--features $CORE_FEATURES} 2>&1 | tail -4 >> $LOG; [ ${PIPESTATUS[0]} -eq 0 ] || EXIST=1
cargo test --offline -p cedar-policy --lib ${FEATURES:+--features $FEATURES} 2>&1 | tail -4 >> $LOG; [ ${PIPESTATUS[0]} -eq 0 ] || EXIST=1
for pkg in "$@"; do cargo test --offline -p $pkg 2>&1 | tail -4 >> $LOG; [ ${PIPESTATUS[0]} -eq 0 ] || EXIST=1; done
git apply -R seed_patch.diff
echo "== demo without patch" >> $LOG
cargo test --offline -p $DEMO_PKG ${FEATURES:+--features $FEATURES} --test $TEST >> $LOG 2>&1; WITHOUT=$?
cp seed_patch.diff $OUT/patch.diff
cp seed_demo/* $OUT/ 2>/dev/null
python3 - "$NAME" "$WITH" "$EXIST" "$WITHOUT" <<'PY'
import json, sys
name, w, e, wo = sys.argv[1], int(sys.argv[2]), int(sys.argv[3]), int(sys.argv[4])
try:
    meta = json.load(open("seed_meta.json"))
except Exception:
    meta = {}
meta["confirmed_by_framework_author"] = dict(
    demo_fails_with_patch=(w != 0), existing_tests_pass_with_patch=(e == 0), demo_passes_without_patch=(wo == 0),
    ran="lib/confirm_seed.sh in the scratch worktree: cargo test -p cedar-policy --test <demo> with and without the patch; cargo test -p cedar-policy-core --lib and -p cedar-policy --lib with the patch")
json.dump(meta, open("/verif/seeded/%s/meta.json" % name, "w"), indent=1)
print(name, "with=%d exist=%d without=%d" % (w, e, wo))
PY
cd /repo && git worktree remove --force $WT
