#!/usr/bin/env python3
"""Re-run every stored seeded change against its property's quick check (development aid, not a registered command).

  python3 lib/seed_regress.py [-j N] [name-prefix ...]

For each /verif/seeded/<name>/patch.diff: a scratch worktree of /repo HEAD under /tmp/seedreg/<slot>/repo gets the patch,
`VERIF_ALT_REPO=<worktree> VERIF_ALT_DIR=/tmp/seedreg/<slot>/alt ./check <ID> --tier quick` must exit 1 with VIOLATION lines.
Results go to /verif/seeded/REGRESSION.json."""
import concurrent.futures
import json
import os
import re
import subprocess
import sys
import time

VERIF = os.path.dirname(os.path.dirname(os.path.abspath(__file__)))
SEEDED = os.path.join(VERIF, "seeded")
EXTRA = {"C20-datetime-unicode-digits-unwrap": ["C20", "C07"]}


def run_one(slot, name):
    base = "/tmp/seedreg/%d" % slot
    wt = os.path.join(base, "repo")
    os.makedirs(base, exist_ok=True)
    subprocess.run(["git", "-C", "/repo", "worktree", "remove", "--force", wt], stdout=subprocess.DEVNULL, stderr=subprocess.DEVNULL)
    subprocess.run(["git", "-C", "/repo", "worktree", "prune"])
    r = subprocess.run(["git", "-C", "/repo", "worktree", "add", "--detach", wt, "HEAD", "-q"], stdout=subprocess.PIPE, stderr=subprocess.STDOUT, text=True)
    if r.returncode != 0:
        return dict(name=name, status="worktree-failed", detail=r.stdout[-300:])
    out = []
    try:
        a = subprocess.run(["git", "-C", wt, "apply", os.path.join(SEEDED, name, "patch.diff")], stdout=subprocess.PIPE, stderr=subprocess.STDOUT, text=True)
        if a.returncode != 0:
            return dict(name=name, status="patch-does-not-apply", detail=a.stdout[-300:])
        for prop in EXTRA.get(name, [name[:3]]):
            t0 = time.time()
            env = dict(os.environ, VERIF_ALT_REPO=wt, VERIF_ALT_DIR=os.path.join(base, "alt"))
            c = subprocess.run([os.path.join(VERIF, "check"), prop, "--tier", "quick"], cwd=VERIF, env=env, stdout=subprocess.PIPE, stderr=subprocess.STDOUT, text=True)
            nviol = len(re.findall(r"^VIOLATION property=", c.stdout, re.M))
            summary = [l for l in c.stdout.splitlines() if "violations" in l][-1:]
            out.append(dict(property=prop, rc=c.returncode, violation_lines=nviol, summary=summary, wall_s=round(time.time() - t0)))
    finally:
        subprocess.run(["git", "-C", "/repo", "worktree", "remove", "--force", wt], stdout=subprocess.DEVNULL, stderr=subprocess.DEVNULL)
    caught = any(o["rc"] == 1 and o["violation_lines"] > 0 for o in out)
    return dict(name=name, status="caught" if caught else "NOT-CAUGHT", runs=out)


def main():
    args = sys.argv[1:]
    jobs = 3
    if args[:1] == ["-j"]:
        jobs = int(args[1])
        args = args[2:]
    names = sorted(n for n in os.listdir(SEEDED) if os.path.exists(os.path.join(SEEDED, n, "patch.diff")))
    results = {}
    path = os.path.join(SEEDED, "REGRESSION.json")
    if os.path.exists(path):
        results = json.load(open(path))
    if args == ["--missing"]:
        names = [n for n in names if n not in results]
    elif args:
        names = [n for n in names if any(n.startswith(a) for a in args)]
    slots = list(range(jobs))
    import queue
    q = queue.Queue()
    for s in slots:
        q.put(s)

    def work(name):
        s = q.get()
        try:
            return run_one(s, name)
        finally:
            q.put(s)
    with concurrent.futures.ThreadPoolExecutor(jobs) as ex:
        for res in ex.map(work, names):
            results[res["name"]] = res
            print(res["name"], res["status"], [(o["property"], o["rc"], o["violation_lines"], o["wall_s"]) for o in res.get("runs", [])], flush=True)
            json.dump(results, open(path, "w"), indent=1)


if __name__ == "__main__":
    main()
