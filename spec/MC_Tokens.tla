------------------------------ MODULE MC_Tokens ------------------------------
(***************************************************************************)
(* Input generator for C20 (no panics).  In the system specification every *)
(* entry point's outcome alphabet is {ok, err}; there is no action whose   *)
(* outcome is a panic.  This module enumerates inputs the other families   *)
(* do not: token sequences over the policy-language, Cedar-schema and JSON *)
(* alphabets (valid or not), placed bare and inside otherwise valid        *)
(* skeletons, and nesting towers of every bracketing construct.            *)
(***************************************************************************)
EXTENDS Integers, Sequences, TLC, Json

CONSTANTS SeqLen,     \* max length of free token sequences
          HoleLen,    \* max length of token sequences placed in skeleton holes
          MaxDepth    \* nesting towers up to this depth
VARIABLES coord, c

PolTok == <<"permit", "forbid", "(", ")", "{", "}", "[", "]", ",", ";", ":", "::", ".", "==", "!=", "<", "<=", ">", ">=",
            "&&", "||", "!", "-", "+", "*", "in", "has", "like", "is", "if", "then", "else", "when", "unless",
            "principal", "action", "resource", "context", "?principal", "?resource", "true", "false", "1",
            "9223372036854775808", "\"s\"", "\"a*\\*\"", "User::\"a\"", "@id(\"x\")", "@", "x", "ip(\"1.2.3.4\")", "decimal", "\"\\u{0}\"", "/*", "//", "__cedar">>
ExprTok == <<"(", ")", "{", "}", "[", "]", ",", ":", "::", ".", "==", "<", "&&", "||", "!", "-", "+", "*", "in", "has", "like", "is",
             "if", "then", "else", "principal", "context", "true", "1", "\"s\"", "User::\"a\"", "x", "?principal">>
SchTok == <<"entity", "action", "type", "namespace", "in", "appliesTo", "principal", "resource", "context", "tags", "enum", "Set", "<", ">",
            "{", "}", "[", "]", ",", ";", ":", "::", "=", "?", "Long", "String", "Bool", "A", "B", "\"a\"", "@doc(\"x\")", "__cedar">>
JsonTok == <<"{", "}", "[", "]", ",", ":", "\"a\"", "\"__entity\"", "\"__extn\"", "\"type\"", "\"id\"", "\"uid\"", "\"attrs\"", "\"parents\"",
             "1", "-1", "1.5", "1e400", "true", "null", "\"\"", "\"\\ud800\"">>

SeqsOf(T, n) == UNION {[1..k -> 1..Len(T)] : k \in 0..n}
Toks(T, idx) == [i \in 1..Len(idx) |-> T[idx[i]]]

\* skeletons with one hole: <<kind, prefix tokens, suffix tokens, hole alphabet>>
Skeletons == <<
  <<"policy", <<"permit", "(", "principal", ",", "action", ",", "resource", ")", "when", "{">>, <<"}", ";">>, "expr">>,
  <<"policy", <<"permit", "(">>, <<")", ";">>, "expr">>,
  <<"policy", <<"@">>, <<"permit", "(", "principal", ",", "action", ",", "resource", ")", ";">>, "pol">>,
  <<"policy", <<"permit", "(", "principal", ",", "action", ",", "resource", ")">>, <<";">>, "pol">>,
  <<"schema", <<"entity", "A">>, <<";">>, "sch">>,
  <<"schema", <<"entity", "A", "{", "x", ":">>, <<"}", ";">>, "sch">>,
  <<"schema", <<"action", "a", "appliesTo", "{">>, <<"}", ";">>, "sch">>,
  <<"schema", <<"type", "T", "=">>, <<";">>, "sch">>,
  <<"schema", <<"namespace", "N", "{">>, <<"}">>, "sch">>,
  <<"json", <<"{", "\"effect\"", ":", "\"permit\"", ",", "\"principal\"", ":", "{", "\"op\"", ":", "\"All\"", "}", ",", "\"action\"", ":", "{", "\"op\"", ":", "\"All\"", "}", ",",
             "\"resource\"", ":", "{", "\"op\"", ":", "\"All\"", "}", ",", "\"conditions\"", ":", "[", "{", "\"kind\"", ":", "\"when\"", ",", "\"body\"", ":">>, <<"}", "]", "}">>, "json">>,
  <<"json", <<"[", "{", "\"uid\"", ":", "{", "\"type\"", ":", "\"User\"", ",", "\"id\"", ":", "\"a\"", "}", ",", "\"attrs\"", ":">>, <<",", "\"parents\"", ":", "[", "]", "}", "]">>, "json">>,
  <<"json", <<"{", "\"x\"", ":">>, <<"}">>, "json">>
>>
AlphaOf(a) == CASE a = "expr" -> ExprTok [] a = "pol" -> PolTok [] a = "sch" -> SchTok [] a = "json" -> JsonTok

\* nesting towers: <<kind, open tokens, innermost tokens, close tokens>> repeated d times
Towers == <<
  <<"policy", <<"(">>, <<"1">>, <<")">>>>, <<"policy", <<"[">>, <<"1">>, <<"]">>>>, <<"policy", <<"{", "a", ":">>, <<"1">>, <<"}">>>>,
  <<"policy", <<"!">>, <<"true">>, <<>>>>, <<"policy", <<"-">>, <<"1">>, <<>>>>, <<"policy", <<"if", "true", "then">>, <<"1">>, <<"else", "2">>>>,
  <<"policy", <<"if">>, <<"true">>, <<"then", "true", "else", "false">>>>, <<"policy", <<>>, <<"principal">>, <<".", "a">>>>,
  <<"policy", <<>>, <<"1">>, <<"+", "1">>>>, <<"policy", <<>>, <<"true">>, <<"&&", "true">>>>, <<"policy", <<"1", "+", "(">>, <<"1">>, <<")">>>>,
  <<"policy", <<>>, <<"principal">>, <<"[", "\"a\"", "]">>>>, <<"policy", <<"decimal", "(">>, <<"\"1.0\"">>, <<")">>>>,
  <<"schema", <<"Set", "<">>, <<"Long">>, <<">">>>>, <<"schema", <<"{", "a", ":">>, <<"Long">>, <<"}">>>>,
  <<"json", <<"[">>, <<"1">>, <<"]">>>>, <<"json", <<"{", "\"a\"", ":">>, <<"1">>, <<"}">>>>,
  <<"json", <<"{", "\"!\"", ":", "{", "\"arg\"", ":">>, <<"{", "\"Value\"", ":", "true", "}">>, <<"}", "}">>>>
>>
RECURSIVE Rep(_, _)
Rep(s, n) == IF n = 0 THEN <<>> ELSE s \o Rep(s, n - 1)
TowerToks(t, d) == Rep(t[2], d) \o t[3] \o Rep(t[4], d)
\* towers are embedded so that they are syntactically plausible for their kind
Embed(kind, toks, where) ==
  CASE kind = "policy" -> <<"permit", "(", "principal", ",", "action", ",", "resource", ")", "when", "{">> \o toks \o <<"}", ";">>
    [] kind = "schema" -> <<"entity", "A", "{", "x", ":">> \o toks \o <<"}", ";">>
    [] kind = "json" -> (IF where = 1 THEN <<"{", "\"x\"", ":">> \o toks \o <<"}">>
                         ELSE <<"[", "{", "\"uid\"", ":", "{", "\"type\"", ":", "\"User\"", ",", "\"id\"", ":", "\"a\"", "}", ",", "\"attrs\"", ":", "{", "\"k\"", ":">> \o toks
                              \o <<"}", ",", "\"parents\"", ":", "[", "]", "}", "]">>)

Coords == {<<"free", k, i>> : k \in {"policy", "schema", "json"}, i \in 1..8}
          \cup {<<"hole", s, i>> : s \in 1..Len(Skeletons), i \in 1..4}
          \cup {<<"tower", t>> : t \in 1..Len(Towers)}
FreeAlpha(k) == CASE k = "policy" -> PolTok [] k = "schema" -> SchTok [] k = "json" -> JsonTok
CasesOf(k) ==
  CASE k[1] = "free" -> {[kind |-> k[2], tokens |-> Toks(FreeAlpha(k[2]), idx)] : idx \in {s \in SeqsOf(FreeAlpha(k[2]), SeqLen) : Len(s) = 0 \/ s[1] % 8 = k[3] - 1}}
    [] k[1] = "hole" -> LET sk == Skeletons[k[2]] al == AlphaOf(sk[4])
                        IN {[kind |-> sk[1], tokens |-> sk[2] \o Toks(al, idx) \o sk[3]] : idx \in {s \in SeqsOf(al, HoleLen) : Len(s) = 0 \/ s[1] % 4 = k[3] - 1}}
    [] k[1] = "tower" -> LET t == Towers[k[2]]
                         IN {[kind |-> t[1], tokens |-> Embed(t[1], TowerToks(t, d), w)] : d \in 1..MaxDepth, w \in 1..2}

Init == coord \in Coords /\ c = <<>>
Next == c = <<>> /\ c' \in CasesOf(coord) /\ UNCHANGED coord
Dump == PrintT("CASE " \o ToJson(c'))
==============================================================================
