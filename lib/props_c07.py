"""C07 - extension types (decimal, ip, datetime, duration) compute exact results."""
import json


def _ext_case(world, c, i):
    """CASE line of MC_Ext -> harness case.  Events are self-contained (replayable): the request is
    World's principal/action/resource with a context that is empty or, for the `ctx` coordinates,
    carries represented extension values that must reach cedar through the request context; the
    store is empty (no MC_Ext expression touches it)."""
    ctx = c.get("ctx")
    req = dict(world["req"])
    req["context"] = ["rec", ctx if isinstance(ctx, dict) and ctx else {}]
    return dict(id=i, expr=c["expr"], req=req, store=[])


def _flip(r):
    if r == ["ok", ["bool", True]]:
        return ["ok", ["bool", False]]
    return ["ok", ["bool", True]]


def _mutate(ev):
    if ev.get("ev") != "Eval":
        return None
    ev = json.loads(json.dumps(ev))
    ev["ast"] = _flip(ev["ast"])
    return ev


def _nontrivial(ev):
    e = ev.get("expr")
    return ev.get("ev") == "Eval" and isinstance(e, list) and e and e[0] not in ("lit", "var")


C07 = dict(
    family="ext", trace_module="Trace_Eval.tla",
    models=[dict(name="mc_ext", module="MC_Ext.tla", cfg=dict(quick="MC_Ext_quick.cfg", thorough="MC_Ext_thorough.cfg"),
                 cases=_ext_case)],
    drive_n=dict(quick=8000, thorough=200000),
    nontrivial=_nontrivial, key=lambda ev: [ev.get("expr"), ev.get("req", {}).get("context") if isinstance(ev.get("req"), dict) else None],
    mutate=_mutate,
    rule="G: MC_Ext (TLC-enumerated, complete for its part tables): every constructor string composed from the per-type part tables "
         "(decimal sign x integer part x fraction; IPv4 octets^4 x prefixes; IPv6 head/tail group counts x '::' x one mutated group x prefixes; "
         "datetime dates x hh x mm x ss x fraction x zone; duration unit subsets, per-unit i64 edges, unit orders) plus hand-picked odd strings, each "
         "wrapped in a record of observations (==/comparison against the canonical spelling and its neighbours, isIpv4/isLoopback/isMulticast/"
         "isInRange, durationSince(epoch).toMilliseconds, toDate, toTime, toMilliseconds..toDays); all pairs of 16-38 boundary values per type (plus "
         "wrongly typed operands) for the decimal comparisons, isInRange, offset, durationSince, ==, <, <=; every unary function on every pool "
         "value; isInRange for all prefix pairs 0..32 (IPv4) / 14 prefixes (IPv6) on address pairs differing in one bit; isLoopback/isMulticast "
         "for all prefixes; operand values arriving as represented values through the request context (harness spells them canonically). "
         "T: seeded random strings from the same part tables with single-character mutations, random operations, respelled-value equalities, "
         "random represented values through the context. Every case runs through 5 arrival paths (builder AST, Cedar text, JSON policy format, "
         "when-clause, unless-clause); every result is recomputed by CedarExpr!Eval / CedarExt!ExtCall in TLC (extension values come back as "
         "cedar's constructor-call tree and are re-evaluated by the specification). non-trivial = not a bare literal/variable; distinct by (expr, context).",
    exhaustive=dict(quick=False, thorough=False),
    assumptions=["harness build/project walkers and text/EST renderers (harness/conform/src/{abs,render}.rs) are faithful",
                 "TLC evaluates the TLA+ reference semantics correctly",
                 "a value returned by a constructor is observed as cedar's stored constructor call (same string), so wrong parses are caught "
                 "through the observation records (operations, canonical-spelling equality), not through the returned value alone",
                 "non-ASCII digits and strings longer than the part tables produce are out of scope",
                 "wrong-arity calls are not generated (Cedar text cannot express them); the spec classes them as 'arity'"],
)
