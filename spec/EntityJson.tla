------------------------------ MODULE EntityJson ------------------------------
(***************************************************************************)
(* C10.  The JSON forms of Cedar data.                                     *)
(*                                                                         *)
(* JSON trees (tagged tuples):  <<"jbool", b>>  <<"jnum", i64>>            *)
(*   <<"jstr", code points>>  <<"jarr", <<t1, ..>>>>  <<"jobj", [k |-> t]>> *)
(* Value templates = values whose extension leaves are SPELLED:            *)
(*   <<"extsp", fn, code points>>   the value of the constructor call fn(s) *)
(*   <<"extap", fn, template>>      the value of the unary call fn(arg)     *)
(* EjVal(t) is the value a template denotes (CedarExt!ExtCall decides).    *)
(*                                                                         *)
(* EjForms(t, ty) = every JSON tree that may be written for t where the    *)
(* schema expects type ty: always the explicit escapes                     *)
(* {"__entity":{type,id}} / {"__extn":{fn,arg}}, and, only where ty is an  *)
(* entity / extension type, the implicit forms {type,id} / {fn,arg} / the  *)
(* bare constructor string - an independent choice at every node.          *)
(* EjDecNS(j) decodes a tree by its escape keys (no schema), EjDec(j, ty)  *)
(* by the expected type (entities/json/value.rs                            *)
(* ValueParser::val_into_restricted_expr).  Record keys __entity, __extn,  *)
(* __expr are reserved: a value with such a key has no JSON form.          *)
(***************************************************************************)
EXTENDS SchemaFam

\* TLC cannot look inside a string: the names that occur both as TLA+ strings (entity types, ids,
\* function names, keys) and as JSON string contents are tabulated once
EjTable == [User |-> <<85,115,101,114>>, Group |-> <<71,114,111,117,112>>, Color |-> <<67,111,108,111,114>>, Action |-> <<65,99,116,105,111,110>>, Ghost |-> <<71,104,111,115,116>>, u1 |-> <<117,49>>, u2 |-> <<117,50>>, u3 |-> <<117,51>>, g1 |-> <<103,49>>, g2 |-> <<103,50>>, red |-> <<114,101,100>>, green |-> <<103,114,101,101,110>>, blue |-> <<98,108,117,101>>, view |-> <<118,105,101,119>>, edit |-> <<101,100,105,116>>, all |-> <<97,108,108>>, x |-> <<120>>, decimal |-> <<100,101,99,105,109,97,108>>, ip |-> <<105,112>>, datetime |-> <<100,97,116,101,116,105,109,101>>, duration |-> <<100,117,114,97,116,105,111,110>>, toDate |-> <<116,111,68,97,116,101>>, toTime |-> <<116,111,84,105,109,101>>, offset |-> <<111,102,102,115,101,116>>, k1 |-> <<107,49>>, k2 |-> <<107,50>>, type |-> <<116,121,112,101>>, id |-> <<105,100>>, fn |-> <<102,110>>, arg |-> <<97,114,103>>] @@ ("" :> <<>>) @@ ("NS::Team" :> <<78,83,58,58,84,101,97,109>>) @@ ("NS::Sub::Unit" :> <<78,83,58,58,83,117,98,58,58,85,110,105,116>>) @@ ("t 1" :> <<116,32,49>>) @@ ("u::x" :> <<117,58,58,120>>) @@ ("lead" :> <<108,101,97,100>>) @@ ("unit" :> <<117,110,105,116>>) @@ ("nsref" :> <<110,115,114,101,102>>) @@ ("nsrefs" :> <<110,115,114,101,102,115>>)
EjCp(s) == EjTable[s]
EjKnown(cps) == \E s \in DOMAIN EjTable : EjTable[s] = cps
EjNm(cps) == CHOOSE s \in DOMAIN EjTable : EjTable[s] = cps

JB(b) == <<"jbool", b>>
JN(x) == <<"jnum", x>>
JS(cps) == <<"jstr", cps>>
JA(s) == <<"jarr", s>>
JO(f) == <<"jobj", f>>
JNm(s) == JS(EjCp(s))
EjNoTy == <<"none">>
EjReserved == {"__entity", "__extn", "__expr"}
EjCtor(extty) == CASE extty = "decimal" -> "decimal" [] extty = "ipaddr" -> "ip"
                   [] extty = "datetime" -> "datetime" [] extty = "duration" -> "duration"
\* parameter types of the extension functions that return extension values
EjArgTys(fn) == CASE fn \in {"toDate", "toTime"} -> << <<"Ext", "datetime">> >>
                  [] fn = "offset" -> << <<"Ext", "datetime">>, <<"Ext", "duration">> >>
                  [] fn = "durationSince" -> << <<"Ext", "datetime">>, <<"Ext", "datetime">> >>
                  [] OTHER -> << <<"String">> >>
EjErr(w) == <<"err", w>>
EjIsErr(v) == v[1] = "err"
EjCallV(fn, args) == LET r == ExtCall(fn, args) IN IF r[1] = "ok" THEN r[2] ELSE EjErr("ext")

\* ---------------------------------------------------------------- templates
RECURSIVE EjVal(_)
EjVal(t) ==
  CASE t[1] = "set" -> <<"set", {EjVal(x) : x \in t[2]}>>
    [] t[1] = "rec" -> <<"rec", [k \in DOMAIN t[2] |-> EjVal(t[2][k])]>>
    [] t[1] = "extsp" -> EjCallV(t[2], << <<"str", t[3]>> >>)
    [] t[1] = "extap" -> EjCallV(t[2], << EjVal(t[3]) >>)
    [] OTHER -> t

RECURSIVE EjSeq(_)
EjSeq(S) == IF S = {} THEN <<>> ELSE LET x == CHOOSE y \in S : TRUE IN <<x>> \o EjSeq(S \ {x})
RECURSIVE EjProd(_)
EjProd(ss) == IF Len(ss) = 0 THEN {<<>>} ELSE {<<h>> \o t : h \in ss[1], t \in EjProd(Tail(ss))}

EjTypeId(u) == JO([type |-> JNm(u[2]), id |-> JNm(u[3])])
EjUidExplicit(u) == JO("__entity" :> EjTypeId(u))
EjUidForms(u) == {EjUidExplicit(u), EjTypeId(u)}

RECURSIVE EjForms(_, _)
EjForms(t, ty) ==
  CASE t[1] = "bool" -> {JB(t[2])}
    [] t[1] = "long" -> {JN(t[2])}
    [] t[1] = "str" -> {JS(t[2])}
    [] t[1] = "ent" -> IF ty[1] = "Entity" THEN EjUidForms(t) ELSE {EjUidExplicit(t)}
    [] t[1] = "extsp" ->
         LET fa == JO([fn |-> JNm(t[2]), arg |-> JS(t[3])])
         IN {JO("__extn" :> fa)} \cup (IF ty[1] = "Ext" THEN {fa, JS(t[3])} ELSE {})
    [] t[1] = "extap" ->
         \* the argument sits where the function's parameter type is expected - but only under a schema
         LET aty == IF ty[1] = "Ext" THEN EjArgTys(t[2])[1] ELSE EjNoTy
             fas == {JO([fn |-> JNm(t[2]), arg |-> a]) : a \in EjForms(t[3], aty)}
         IN {JO("__extn" :> fa) : fa \in fas} \cup (IF ty[1] = "Ext" THEN fas ELSE {})
    [] t[1] = "set" ->
         LET els == EjSeq(t[2])
             ety == IF ty[1] = "Set" THEN ty[2] ELSE EjNoTy
         IN {JA(s) : s \in EjProd([i \in 1..Len(els) |-> EjForms(els[i], ety)])}
    [] t[1] = "rec" ->
         LET ks == EjSeq(DOMAIN t[2])
             kty(k) == IF ty[1] = "Record" /\ k \in DOMAIN ty[2] THEN ty[2][k][1] ELSE EjNoTy
         IN {JO([k \in DOMAIN t[2] |-> s[CHOOSE i \in 1..Len(ks) : ks[i] = k]])
             : s \in EjProd([i \in 1..Len(ks) |-> EjForms(t[2][ks[i]], kty(ks[i]))])}
EjExplicit(t) == CHOOSE j \in EjForms(t, EjNoTy) : TRUE

\* a value that has a JSON form at all
RECURSIVE EjSerializable(_)
EjSerializable(v) ==
  CASE v[1] = "set" -> \A x \in v[2] : EjSerializable(x)
    [] v[1] = "rec" -> DOMAIN v[2] \cap EjReserved = {} /\ \A k \in DOMAIN v[2] : EjSerializable(v[2][k])
    [] OTHER -> TRUE

\* ---------------------------------------------------------------- decoding
EjIsStr(j) == j[1] = "jstr"
EjIsTypeId(o) == o[1] = "jobj" /\ {"type", "id"} \subseteq DOMAIN o[2] /\ EjIsStr(o[2]["type"]) /\ EjIsStr(o[2]["id"])
EjUidOf(o) == IF EjKnown(o[2]["type"][2]) /\ EjKnown(o[2]["id"][2])
              THEN <<"ent", EjNm(o[2]["type"][2]), EjNm(o[2]["id"][2])>> ELSE EjErr("name")
\* {fn, arg} or {fn, args: [..]} (value.rs FnAndArgs)
EjIsFnArgs(o) == /\ o[1] = "jobj" /\ "fn" \in DOMAIN o[2] /\ EjIsStr(o[2]["fn"])
                 /\ ("arg" \in DOMAIN o[2] \/ ("args" \in DOMAIN o[2] /\ o[2]["args"][1] = "jarr"))
EjArgsOf(o) == IF "arg" \in DOMAIN o[2] THEN <<o[2]["arg"]>> ELSE o[2]["args"][2]
EjHasExpr(j) == j[1] = "jobj" /\ "__expr" \in DOMAIN j[2] /\ EjIsStr(j[2]["__expr"])

RECURSIVE EjDecNS(_)
EjCallNS(o) ==
  LET as == EjArgsOf(o)
      vs == [i \in 1..Len(as) |-> EjDecNS(as[i])]
  IN IF \E i \in 1..Len(vs) : EjIsErr(vs[i]) THEN EjErr("arg")
     ELSE IF ~EjKnown(o[2]["fn"][2]) THEN EjErr("fn") ELSE EjCallV(EjNm(o[2]["fn"][2]), vs)
EjDecNS(j) ==
  CASE j[1] = "jbool" -> <<"bool", j[2]>>
    [] j[1] = "jnum" -> <<"long", j[2]>>
    [] j[1] = "jstr" -> <<"str", j[2]>>
    [] j[1] = "jarr" ->
         LET xs == [i \in 1..Len(j[2]) |-> EjDecNS(j[2][i])]
         IN IF \E i \in 1..Len(xs) : EjIsErr(xs[i]) THEN EjErr("elem") ELSE <<"set", {xs[i] : i \in 1..Len(xs)}>>
    [] j[1] = "jobj" ->
         LET f == j[2]
             ks == DOMAIN f
         IN IF ks = {"__entity"} /\ EjIsTypeId(f["__entity"]) THEN EjUidOf(f["__entity"])
            ELSE IF ks = {"__extn"} /\ EjIsFnArgs(f["__extn"]) THEN EjCallNS(f["__extn"])
            ELSE IF ks = {"__expr"} /\ EjIsStr(f["__expr"]) THEN EjErr("exprTag")
            ELSE LET vs == [k \in ks |-> EjDecNS(f[k])]
                 IN IF \E k \in ks : EjIsErr(vs[k]) THEN EjErr("field") ELSE <<"rec", vs>>
    [] OTHER -> EjErr("json")

RECURSIVE EjDec(_, _)
EjCallTy(o) ==
  LET as == EjArgsOf(o)
      fn == IF EjKnown(o[2]["fn"][2]) THEN EjNm(o[2]["fn"][2]) ELSE "?"
      tys == EjArgTys(fn)
      vs == [i \in 1..Len(as) |-> IF i <= Len(tys) THEN EjDec(as[i], tys[i]) ELSE EjErr("arity")]
  IN IF fn = "?" THEN EjErr("fn")
     ELSE IF Len(as) # Len(tys) THEN EjErr("arity")
     ELSE IF \E i \in 1..Len(vs) : EjIsErr(vs[i]) THEN EjErr("arg") ELSE EjCallV(fn, vs)
EjDec(j, ty) ==
  CASE ty[1] = "Entity" ->
         IF EjHasExpr(j) THEN EjErr("exprTag")
         ELSE IF j[1] = "jobj" /\ "__entity" \in DOMAIN j[2] /\ EjIsTypeId(j[2]["__entity"]) THEN EjUidOf(j[2]["__entity"])
         ELSE IF EjIsTypeId(j) THEN EjUidOf(j)
         ELSE EjErr("expectedEntity")
    [] ty[1] = "Ext" ->
         IF EjHasExpr(j) THEN EjErr("exprTag")
         ELSE IF j[1] = "jobj" /\ "__extn" \in DOMAIN j[2] /\ EjIsFnArgs(j[2]["__extn"]) THEN EjCallTy(j[2]["__extn"])
         ELSE IF EjIsFnArgs(j) THEN EjCallTy(j)
         ELSE LET a == EjDecNS(j) IN IF EjIsErr(a) THEN a ELSE EjCallV(EjCtor(ty[2]), <<a>>)
    [] ty[1] = "Set" ->
         IF j[1] # "jarr" THEN EjErr("expectedSet")
         ELSE LET xs == [i \in 1..Len(j[2]) |-> EjDec(j[2][i], ty[2])]
              IN IF \E i \in 1..Len(xs) : EjIsErr(xs[i]) THEN EjErr("elem") ELSE <<"set", {xs[i] : i \in 1..Len(xs)}>>
    [] ty[1] = "Record" ->
         IF j[1] # "jobj" THEN EjErr("expectedRecord")
         ELSE LET f == j[2]
              IN IF ~(DOMAIN f \subseteq DOMAIN ty[2]) THEN EjErr("unexpectedAttr")
                 ELSE IF \E k \in DOMAIN ty[2] : ty[2][k][2] /\ k \notin DOMAIN f THEN EjErr("missingAttr")
                 ELSE LET vs == [k \in DOMAIN f |-> EjDec(f[k], ty[2][k][1])]
                      IN IF \E k \in DOMAIN f : EjIsErr(vs[k]) THEN EjErr("field") ELSE <<"rec", vs>>
    [] OTHER -> EjDecNS(j)

\* ---------------------------------------------------------------- the schema family of C10 (extension-typed attributes, tags, enum)
TExt(n) == <<"Ext", n>>
LookTy == TRec([type |-> Req_(TStr), id |-> Req_(TStr)])
Sc10 == [
  ets |-> [
    User |-> [attrs |-> [n |-> Req_(TLong), b |-> Opt_(TBool), s |-> Opt_(TStr), mgr |-> Opt_(TEnt("User")), fav |-> Opt_(TEnt("Color")),
                         ip |-> Opt_(TExt("ipaddr")), dec |-> Opt_(TExt("decimal")), dt |-> Opt_(TExt("datetime")), dur |-> Opt_(TExt("duration")),
                         nums |-> Opt_(TSet(TLong)), strs |-> Opt_(TSet(TStr)), friends |-> Opt_(TSet(TEnt("User"))), ips |-> Opt_(TSet(TExt("ipaddr"))),
                         grid |-> Opt_(TSet(TSet(TExt("decimal")))),
                         rec |-> Opt_(TRec([who |-> Opt_(TEnt("User")), at |-> Opt_(TExt("datetime")),
                                            inner |-> Opt_(TRec([c |-> Req_(TEnt("Color")), d |-> Opt_(TExt("duration"))]))])),
                         recs |-> Opt_(TSet(TRec([c |-> Req_(TEnt("Color"))]))),
                         look |-> Opt_(LookTy), call |-> Opt_(TRec([fn |-> Req_(TStr), arg |-> Req_(TStr)])),
                         nsref |-> Opt_(TEnt("NS::Team")), nsrefs |-> Opt_(TSet(TEnt("NS::Sub::Unit")))],
             tags |-> TExt("decimal"), memberOf |-> {"Group"}, enum |-> {}],
    Group |-> [attrs |-> [owner |-> Opt_(TEnt("User"))], tags |-> TSet(TEnt("User")), memberOf |-> {"Group"}, enum |-> {}],
    Color |-> [attrs |-> <<>>, tags |-> NoTags, memberOf |-> {}, enum |-> {"red", "green"}]
  ] @@ ("NS::Team" :> [attrs |-> [lead |-> Opt_(TEnt("User")), unit |-> Opt_(TEnt("NS::Sub::Unit"))], tags |-> NoTags, memberOf |-> {"Group"}, enum |-> {}])
    @@ ("NS::Sub::Unit" :> [attrs |-> <<>>, tags |-> TEnt("NS::Team"), memberOf |-> {"NS::Team"}, enum |-> {}]),
  acts |-> [
    view |-> [applies |-> TRUE, principals |-> {"User"}, resources |-> {"User", "Group"},
              context |-> [flag |-> Req_(TBool), who |-> Opt_(TEnt("User")), at |-> Opt_(TExt("datetime")), ips |-> Opt_(TSet(TExt("ipaddr"))),
                          nest |-> Opt_(TRec([ip |-> Req_(TExt("ipaddr")), tint |-> Opt_(TEnt("Color"))])), look |-> Opt_(LookTy), txt |-> Opt_(TStr)],
              memberOf |-> {"all"}],
    edit |-> [applies |-> TRUE, principals |-> {"User"}, resources |-> {"Group"}, context |-> <<>>, memberOf |-> {"all"}],
    all |-> [applies |-> FALSE, principals |-> {}, resources |-> {}, context |-> <<>>, memberOf |-> {}]
  ]
]

\* ---------------------------------------------------------------- entities, stores, contexts
\* template entity: [uid, attrs (name -> template), tags (key name -> template), parents (set of uids)]
EjTagSet(f) == {<<EjCp(k), f[k]>> : k \in DOMAIN f}
EjEntityVal(e) == [uid |-> e.uid, attrs |-> [k \in DOMAIN e.attrs |-> EjVal(e.attrs[k])],
                   tags |-> EjTagSet([k \in DOMAIN e.tags |-> EjVal(e.tags[k])]), anc |-> e.parents]
EjTagsRecTy(tty, keys) == <<"Record", [k \in keys |-> <<tty, FALSE>>]>>
\* every JSON tree for a template entity under schema Sc: uid / parents written by uf, independent choices inside attrs and tags
EjEntityForms(e, Sc, uf(_)) ==
  LET isAct == IsActionUid(e.uid)
      aty == IF ~isAct /\ e.uid[2] \in DOMAIN Sc.ets THEN <<"Record", Sc.ets[e.uid[2]].attrs>> ELSE EjNoTy
      tty == IF ~isAct /\ e.uid[2] \in DOMAIN Sc.ets /\ Sc.ets[e.uid[2]].tags # <<"none">>
             THEN EjTagsRecTy(Sc.ets[e.uid[2]].tags, DOMAIN e.tags) ELSE EjNoTy
      ps == EjSeq(e.parents)
      base(a) == [uid |-> uf(e.uid), attrs |-> a, parents |-> JA([i \in 1..Len(ps) |-> uf(ps[i])])]
  IN {JO(IF DOMAIN e.tags = {} THEN base(a) ELSE base(a) @@ [tags |-> t])
      : a \in EjForms(<<"rec", e.attrs>>, aty), t \in EjForms(<<"rec", e.tags>>, tty)}

\* decode one entity JSON (useSc = FALSE: schema-less parsing) -> <<"okE", entity>> or <<"err", why>>; anc = the parents as written
EjDecUid(j) == EjDec(j, <<"Entity", "?">>)
EjDecEntity(j, Sc, useSc) ==
  IF ~(j[1] = "jobj" /\ {"uid", "attrs", "parents"} \subseteq DOMAIN j[2] /\ DOMAIN j[2] \subseteq {"uid", "attrs", "parents", "tags"}
       /\ j[2]["attrs"][1] = "jobj" /\ j[2]["parents"][1] = "jarr" /\ ("tags" \in DOMAIN j[2] => j[2]["tags"][1] = "jobj"))
  THEN EjErr("shape")
  ELSE
  LET f == j[2]
      uid == EjDecUid(f["uid"])
      withSc == useSc /\ ~EjIsErr(uid) /\ ~IsActionUid(uid)
      known == withSc => uid[2] \in DOMAIN Sc.ets
      et == Sc.ets[uid[2]]
      aj == f["attrs"][2]
      tj == IF "tags" \in DOMAIN f THEN f["tags"][2] ELSE <<>>
      attrs == [k \in DOMAIN aj |-> IF withSc THEN (IF k \in DOMAIN et.attrs THEN EjDec(aj[k], et.attrs[k][1]) ELSE EjErr("unexpectedAttr"))
                                    ELSE EjDecNS(aj[k])]
      tags == [k \in DOMAIN tj |-> IF withSc THEN (IF et.tags # <<"none">> THEN EjDec(tj[k], et.tags) ELSE EjErr("unexpectedTag"))
                                   ELSE EjDecNS(tj[k])]
      pj == f["parents"][2]
      ps == [i \in 1..Len(pj) |-> EjDecUid(pj[i])]
  IN IF EjIsErr(uid) THEN uid
     ELSE IF ~known THEN EjErr("unknownType")
     ELSE IF \E k \in DOMAIN attrs : EjIsErr(attrs[k]) THEN EjErr("attr")
     ELSE IF \E k \in DOMAIN tags : EjIsErr(tags[k]) THEN EjErr("tag")
     ELSE IF \E i \in 1..Len(ps) : EjIsErr(ps[i]) THEN EjErr("parent")
     ELSE IF \E k \in DOMAIN tags : ~EjKnown(EjCp(k)) THEN EjErr("name")
     ELSE <<"okE", [uid |-> uid, attrs |-> attrs, tags |-> EjTagSet(tags), anc |-> {ps[i] : i \in 1..Len(ps)}]>>

\* a store: set of decoded entities -> function uid -> [attrs, tags, anc] with anc closed over the store
EjStoreOf(es) ==
  LET uids == {e.uid : e \in es}
      one(u) == CHOOSE e \in es : e.uid = u
      step == [u \in uids |-> one(u).anc]
  IN [u \in uids |-> [attrs |-> one(u).attrs, tags |-> one(u).tags, anc |-> ScClose(step, one(u).anc, {})]]
EjActionEntities(Sc) == [u \in {ActUid(a) : a \in DOMAIN Sc.acts} |-> [attrs |-> <<>>, tags |-> {}, anc |-> ActionAncestors(Sc, u[3])]]
EjStoreConforms(Sc, st) ==
  \A u \in DOMAIN st : ConformsEntity(Sc, [uid |-> u, attrs |-> st[u].attrs, tags |-> st[u].tags, anc |-> st[u].anc])
==============================================================================
