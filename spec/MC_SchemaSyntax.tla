--------------------------- MODULE MC_SchemaSyntax ---------------------------
(***************************************************************************)
(* Case generator for C09 (family "schemasyn").  A schema is assembled     *)
(* from                                                                    *)
(*   a LAYOUT   : where the subject name X (A, String, Long, Bool, ipaddr) *)
(*                is declared (namespaces "", N, N::M) and as what (entity,*)
(*                enum entity, common type, both),                         *)
(*   a SCAFFOLD : in the reference namespace rns: entity P (attributes with*)
(*                nested records / sets / optional members, tags, parents),*)
(*                enum entity E, common type C, action group "g", action   *)
(*                "read" (parents, appliesTo, context as record or as a    *)
(*                common-type reference); in a second namespace ons: entity*)
(*                B (refers back across namespaces), action group "g2",    *)
(*   a PROBE    : one reference to X - raw-name form (bare, qualified by a *)
(*                declaring namespace, __cedar::X) x admitted kinds        *)
(*                (eoc / entity / common) x position (required / optional  *)
(*                attribute, set element, nested record member, tags,      *)
(*                common-type body used from another namespace, common-type*)
(*                alias, context member, context itself, memberOfTypes,    *)
(*                principalTypes, resourceTypes),                          *)
(*   plus variants of the action-parent references.                        *)
(* What each schema denotes is computed by SchemaSyntax!ScResolve, never   *)
(* by the generator.                                                       *)
(***************************************************************************)
EXTENDS SchemaSyntax, Json

CONSTANT Tier          \* "quick" | "thorough"
VARIABLES lay, rns, c

PR(n) == <<"Prim", n>>
RF(k, q, b) == <<"Ref", k, q, b>>
NoTg == <<"none">>
StdE(mo, attrs, tags) == [enum |-> <<>>, memberOf |-> mo, attrs |-> attrs, tags |-> tags]
EnumE(ids) == [enum |-> ids, memberOf |-> {}, attrs |-> <<>>, tags |-> NoTg]
ActD(mo, applies, ps, rs, ctx) == [memberOf |-> mo, applies |-> applies, principals |-> ps, resources |-> rs, context |-> ctx]
NoCtx == <<"Record", <<>>>>
GroupD(mo) == ActD(mo, FALSE, {}, {}, NoCtx)

\* ---- layouts: [x |-> subject name, defs |-> set of <<namespace, kind>>], kind in ent | enum | com
LA(defs) == [x |-> "A", defs |-> defs]
LayoutsA == { LA({<<"", "ent">>}), LA({<<"", "com">>}), LA({<<"", "ent">>, <<"", "com">>}),
              LA({<<"N", "ent">>}), LA({<<"N", "com">>}), LA({<<"N", "ent">>, <<"N", "com">>}),
              LA({<<"N::M", "ent">>}), LA({<<"N", "ent">>, <<"N::M", "com">>}), LA({<<"N", "com">>, <<"N::M", "ent">>}),
              LA({<<"", "ent">>, <<"N", "ent">>}) }                       \* RFC 70 violation
LP(x, defs) == [x |-> x, defs |-> defs]
LayoutsPrim == { LP("String", {}), LP("String", {<<"", "ent">>}), LP("String", {<<"N", "ent">>}), LP("String", {<<"N::M", "ent">>}),
                 LP("String", {<<"N", "enum">>}), LP("String", {<<"N", "com">>}),          \* reserved common-type name
                 LP("Long", {<<"N", "enum">>}), LP("Long", {<<"", "ent">>}), LP("Long", {<<"N::M", "ent">>}),
                 LP("Bool", {}), LP("Bool", {<<"", "ent">>}), LP("Bool", {<<"N", "ent">>}) }
LayoutsExt == { LP("ipaddr", {}), LP("ipaddr", {<<"", "ent">>}), LP("ipaddr", {<<"", "com">>}), LP("ipaddr", {<<"N", "ent">>}),
                LP("ipaddr", {<<"N", "com">>}), LP("ipaddr", {<<"N", "ent">>, <<"N", "com">>}), LP("ipaddr", {<<"N::M", "com">>}) }
Layouts == LayoutsA \cup LayoutsPrim \cup LayoutsExt

\* body of a common type declared by a layout: a record, different in every namespace
LayComBody(ns) == CASE ns = "" -> <<"Record", [g |-> <<PR("Long"), TRUE>>]>>
                    [] ns = "N" -> <<"Record", [f |-> <<PR("Bool"), TRUE>>]>>
                    [] OTHER -> <<"Record", [h |-> <<PR("String"), FALSE>>]>>

OtherNs(r) == CASE r = "" -> "N" [] r = "N" -> "N::M" [] OTHER -> ""

Positions == {"attrReq", "attrOpt", "setElem", "nested", "tags", "ctBody", "ctAlias", "ctxAttr", "ctxRef", "memberOf", "principal", "resource"}
TypePositions == {"attrReq", "attrOpt", "setElem", "nested", "tags", "ctBody", "ctAlias", "ctxAttr"}
KindsAt(pos) == CASE pos \in {"attrReq", "nested", "ctBody"} -> {"eoc", "entity", "common"}
                  [] pos = "ctxRef" -> {"common", "eoc"}
                  [] pos \in TypePositions -> {"eoc"}
                  [] OTHER -> {"entity"}

\* action-parent variants for "read" (and for the group "g")
ApVariants == 0..9

MkSchema(L, r, kind, q, pos, v, ap) ==
  LET X == L.x
      o == OtherNs(r)
      probe == RF(kind, q, X)
      praw == <<q, X>>
      nssUsed == {r, o} \cup {d[1] : d \in L.defs}
      xattr == CASE pos = "attrReq" -> <<probe, TRUE>>
                 [] pos = "attrOpt" -> <<probe, FALSE>>
                 [] pos = "setElem" -> <<<<"Set", probe>>, TRUE>>
                 [] pos = "nested" -> << <<"Record", [ab |-> << <<"Set", <<"Record", [y |-> <<probe, TRUE>>, in |-> <<PR("Long"), FALSE>>]>>>>, FALSE>>,
                                                       z |-> <<PR("Long"), TRUE>>]>>, TRUE>>
                 [] OTHER -> <<RF("eoc", "", "C"), pos \in {"ctBody", "ctAlias"}>>
      baseAttrs == IF v = 0 THEN [id |-> <<RF("eoc", "", "String"), TRUE>>, e |-> <<RF("eoc", "", "E"), FALSE>>]
                   ELSE ("a b" :> <<RF("eoc", "", "Long"), FALSE>>) @@ ("a\"b\\c" :> <<PR("Bool"), TRUE>>) @@ ("" :> <<<<"Ext", "decimal">>, FALSE>>)
                        @@ ("if" :> <<<<"Set", RF("eoc", "", "E")>>, TRUE>>) @@ ("type" :> <<RF("eoc", "__cedar", "String"), TRUE>>)
                        \* names that are identifiers only after trimming, after dropping a comment, or not at all
                        @@ ("nick " :> <<PR("Long"), TRUE>>) @@ (" lead" :> <<PR("Bool"), FALSE>>) @@ ("tab\tbed" :> <<PR("Long"), FALSE>>)
                        @@ ("c // d" :> <<PR("Long"), TRUE>>) @@ ("1a" :> <<PR("Long"), FALSE>>) @@ ("a-b" :> <<PR("Long"), FALSE>>) @@ ("A::B" :> <<PR("Long"), FALSE>>)
      pAttrs == ("x" :> xattr) @@ baseAttrs
      pTags == IF pos = "tags" THEN <<"Set", probe>> ELSE IF v = 1 THEN <<"Set", PR("String")>> ELSE NoTg
      cBody == CASE pos = "ctBody" -> <<"Record", [cc |-> <<probe, FALSE>>, n |-> <<PR("Long"), TRUE>>]>>
                 [] pos = "ctAlias" -> probe
                 [] OTHER -> <<"Record", [flag |-> <<PR("Bool"), TRUE>>]>>
      ctx == CASE pos = "ctxAttr" -> <<"Record", [k |-> <<probe, TRUE>>, opt |-> <<<<"Set", RF("eoc", "", "P")>>, FALSE>>]>>
               [] pos = "ctxRef" -> probe
               [] OTHER -> IF v = 1 /\ pos # "ctAlias" THEN RF("common", "", "C")
                           ELSE <<"Record", [who |-> <<RF("eoc", "", "P"), FALSE>>, in |-> <<<<"Record", [deep |-> <<<<"Ext", "ipaddr">>, TRUE>>]>>, TRUE>>]>>
      pPar == (IF pos = "memberOf" THEN {praw} ELSE {}) \cup (IF v = 1 THEN {<<o, "B">>} ELSE {})
      \* ap = 8 / 9: an appliesTo with an empty principal / resource list (JSON syntax only): the action applies to nothing
      princ == IF pos = "principal" THEN {praw} ELSE IF ap = 8 THEN {} ELSE {<<"", "P">>}
      res == IF pos = "resource" THEN {praw, <<"", "P">>} ELSE IF ap = 9 THEN {} ELSE {<<"", "P">>, <<"", "E">>}
      readPar == CASE ap = 0 -> {<<"dflt", "g">>}
                   [] ap = 1 -> {<<"typed", "", "Action", "g">>}
                   [] ap = 2 -> {<<"typed", r, "Action", "g">>}
                   [] ap = 3 -> {<<"dflt", "g2">>}                            \* declared in o only: found iff o = ""
                   [] ap = 4 -> {<<"typed", o, "Action", "g2">>}
                   [] ap = 5 -> {<<"dflt", "g">>, <<"typed", o, "Action", "g2">>}
                   [] ap = 6 -> {<<"dflt", "g">>}                             \* "g" also declared in o
                   [] ap \in {8, 9} -> {<<"dflt", "g">>}
                   [] OTHER -> {}
      gPar == IF ap = 5 THEN {<<"typed", o, "Action", "g2">>} ELSE IF ap = 7 THEN {<<"dflt", "read">>} ELSE {}   \* ap = 7: read is not a group, g in [read]
      layDefsIn(ns, kinds) == {d \in L.defs : d[1] = ns /\ d[2] \in kinds}
      nsDef(ns) ==
        [cts |-> (IF ns = r THEN [C |-> cBody] ELSE <<>>)
                 @@ (IF layDefsIn(ns, {"com"}) # {} THEN (X :> LayComBody(ns)) ELSE <<>>),
         ets |-> (IF ns = r THEN [P |-> StdE(pPar, pAttrs, pTags), E |-> EnumE(<<"x", "y\"z">>)] ELSE <<>>)
                 @@ (IF ns = o THEN [B |-> StdE(IF v = 1 THEN {<<"", "B">>} ELSE {}, [u |-> <<RF("eoc", r, "C"), FALSE>>, p |-> <<RF("eoc", r, "P"), TRUE>>], NoTg)] ELSE <<>>)
                 @@ (IF layDefsIn(ns, {"ent"}) # {} THEN (X :> StdE({}, <<>>, IF v = 1 THEN <<"Set", PR("Long")>> ELSE NoTg)) ELSE <<>>)   \* tags without attributes
                 @@ (IF layDefsIn(ns, {"enum"}) # {} THEN (X :> EnumE(<<"one">>)) ELSE <<>>),
         acts |-> (IF ns = r THEN [g |-> GroupD(gPar), read |-> ActD(readPar, TRUE, princ, res, ctx)] ELSE <<>>)
                  @@ (IF ns = o THEN [g2 |-> GroupD({})] ELSE <<>>)
                  @@ (IF ns = o /\ ap = 6 THEN [g |-> GroupD({})] ELSE <<>>)]
  IN [ns \in nssUsed |-> nsDef(ns)]

Forms(L) == {q \in {"", "N", "N::M", "__cedar"} : q \in {"", "N"} \/ (\E d \in L.defs : d[1] = q) \/ (q = "__cedar" /\ L.x \in ScuBuiltins)}

Coords(L, r) ==
  {<<kind, q, pos, v, ap>> : kind \in {"eoc", "entity", "common"}, q \in Forms(L), pos \in Positions, v \in {0, 1}, ap \in ApVariants}
Wanted(L, r, k) ==
  LET kind == k[1]  q == k[2]  pos == k[3]  v == k[4]  ap == k[5]
  IN /\ kind \in (IF Tier = "thorough" /\ pos \in TypePositions THEN {"eoc", "entity", "common"} ELSE KindsAt(pos))
     /\ (q = "N" /\ <<"N", "ent">> \notin L.defs /\ <<"N", "com">> \notin L.defs /\ <<"N", "enum">> \notin L.defs) => pos = "attrReq" /\ (v = 0 \/ Tier = "thorough")
     /\ (ap # 0) => (pos = "attrReq" /\ kind = "eoc" /\ q = "" /\ (v = 0 \/ Tier = "thorough"))
     /\ (v = 1) => (kind = "eoc" \/ Tier = "thorough")

Init == lay \in Layouts /\ rns \in {"", "N", "N::M"} /\ c = <<>>
Next == /\ c = <<>>
        /\ \E k \in Coords(lay, rns) :
             /\ Wanted(lay, rns, k) = TRUE
             /\ LET s == MkSchema(lay, rns, k[1], k[2], k[3], k[4], k[5])
                IN /\ ScJsonExpressible(s)
                   /\ ((ScOk(s) \/ k[3] = "attrReq" \/ Tier = "thorough") = TRUE)   \* (`= TRUE`: a bare disjunction would fork the action)
                   /\ c' = [s |-> s, coord |-> <<lay.x, rns, k[1], k[2], k[3], k[4], k[5]>>]
        /\ UNCHANGED <<lay, rns>>

Dump == PrintT("CASE " \o ToJson([s |-> c'.s, coord |-> c'.coord, cedar |-> ScCedarExpressible(c'.s), ok |-> ScOk(c'.s)]))

\* ---------------------------------------------------------------- binding M
\* the documented examples of raw_name.rs / RFC 24 / RFC 70, restated over ScResolve
ExNs(cts, ets) == [cts |-> cts, ets |-> ets, acts |-> <<>>]
ExUser(t) == [User |-> StdE({}, [a |-> <<t, TRUE>>], NoTg)]
ExAttr(s, fq) == ScResolve(s).ets[fq].attrs["a"][1]
Ex1 == ("NS" :> ExNs(<<>>, ExUser(RF("eoc", "", "Foo")) @@ [Foo |-> StdE({}, <<>>, NoTg)]))
Ex2 == ("NS" :> ExNs(<<>>, ExUser(RF("eoc", "", "String")) @@ [String |-> StdE({}, <<>>, NoTg)]))
Ex3 == ("NS" :> ExNs(<<>>, ExUser(RF("eoc", "__cedar", "String")) @@ [String |-> StdE({}, <<>>, NoTg)]))
Ex4(k) == ("NS" :> ExNs([Foo |-> PR("Long")], ExUser(RF(k, "", "Foo")) @@ [Foo |-> StdE({}, <<>>, NoTg)]))
Ex5 == ("NS" :> ExNs(<<>>, ExUser(RF("eoc", "", "Foo")))) @@ ("" :> ExNs([Foo |-> <<"Set", PR("Bool")>>], <<>>))
Ex6 == ("" :> ExNs(<<>>, ExUser(RF("eoc", "", "String")) @@ [String |-> StdE({}, <<>>, NoTg)]))
Ex7 == ("NS" :> ExNs(<<>>, ExUser(RF("eoc", "", "ipaddr")))) @@ ("" :> ExNs([ipaddr |-> PR("Long")], <<>>))
Ex8 == ("NS" :> ExNs(<<>>, [Foo |-> StdE({}, <<>>, NoTg)])) @@ ("" :> ExNs(<<>>, [Foo |-> StdE({}, <<>>, NoTg)]))
ASSUME ExAttr(Ex1, "NS::User") = <<"Entity", "NS::Foo">>
ASSUME ExAttr(Ex2, "NS::User") = <<"Entity", "NS::String">>
ASSUME ExAttr(Ex3, "NS::User") = <<"String">>
ASSUME ExAttr(Ex4("eoc"), "NS::User") = <<"Long">> /\ ExAttr(Ex4("common"), "NS::User") = <<"Long">>
ASSUME ExAttr(Ex4("entity"), "NS::User") = <<"Entity", "NS::Foo">>
ASSUME ExAttr(Ex5, "NS::User") = <<"Set", <<"Bool">>>>
ASSUME ExAttr(Ex6, "User") = <<"Entity", "String">>
ASSUME ExAttr(Ex7, "NS::User") = <<"Long">>
ASSUME ScOk(Ex1) /\ ScOk(Ex2) /\ ScOk(Ex5) /\ ScOk(Ex7) /\ ScProblems(Ex8) = {"shadow"}
==============================================================================
