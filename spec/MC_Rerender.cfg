INIT Init
NEXT Next
INVARIANT Sane
ACTION_CONSTRAINT Dump
CHECK_DEADLOCK FALSE
