//! family "validate" (C03): a schema, its conformant environments (setup case)
//! and one policy per case: strict / permissive verdicts, the impossible-policy
//! warning, and the outcome class of the policy on every environment with the
//! real evaluator.

use crate::abs::*;
use crate::fam_authz::add_policy;
use crate::schema::*;
use cedar_policy::{PolicySet, ValidationMode, Validator};
use cedar_policy_core::ast;
use cedar_policy_core::evaluator::Evaluator;
use cedar_policy_core::extensions::Extensions;
use serde_json::{json, Value as J};
use std::cell::RefCell;
use std::collections::BTreeSet;

pub struct Setup {
    pub schema_abs: J,
    pub schema: cedar_policy::Schema,
    pub envs: Vec<(ast::Request, cedar_policy_core::entities::Entities)>,
    pub envs_wire: Vec<J>,
}

thread_local! {
    pub static SETUP: RefCell<Option<Setup>> = const { RefCell::new(None) };
}

/// build every environment THROUGH the library's own schema-based validation
pub fn do_setup(s: &J) -> R<J> {
    let schema = schema_of(&s["schema"])?;
    let mut envs = vec![];
    let mut envs_wire = vec![];
    let mut rejected = vec![];
    for (i, e) in s["envs"].as_array().ok_or("envs")?.iter().enumerate() {
        // the store is built the way a host builds it with a schema; action entities come from the schema
        let non_actions: Vec<ast::Entity> = entities_from_wire(&e["store"])?
            .into_iter()
            .filter(|x| !x.uid().entity_type().is_action())
            .collect();
        let ents = cedar_policy::Entities::from_entities(non_actions.into_iter().map(cedar_policy::Entity::from), Some(&schema));
        let req = {
            let (p, a, r) = (
                cedar_policy::EntityUid::from(uid_from_wire(&e["req"]["principal"])?),
                cedar_policy::EntityUid::from(uid_from_wire(&e["req"]["action"])?),
                cedar_policy::EntityUid::from(uid_from_wire(&e["req"]["resource"])?),
            );
            let ctx: cedar_policy::Context = context_from_wire(&e["req"]["context"])?.into();
            cedar_policy::Request::new(p, a, r, ctx, Some(&schema))
        };
        match (ents, req) {
            (Ok(es), Ok(rq)) => {
                let core_e: &cedar_policy_core::entities::Entities = es.as_ref();
                let core_r: &ast::Request = rq.as_ref();
                envs.push((core_r.clone(), core_e.clone()));
                envs_wire.push(e.clone());
            }
            (a, b) => rejected.push(json!([i, a.err().map(|x| x.to_string()), b.err().map(|x| x.to_string())])),
        }
    }
    // the schema-built store must equal the spec's store (same action entities, same ancestors)
    let mut store_mismatch = 0;
    for (k, (_, es)) in envs.iter().enumerate() {
        let mut got: Vec<J> = es
            .iter()
            .map(|e| {
                let mut anc: Vec<J> = e.ancestors().map(uid_to_wire).collect();
                anc.sort_by_key(|x| x.to_string());
                json!([uid_to_wire(e.uid()), anc, e.attrs_len()])
            })
            .collect();
        got.sort_by_key(|x| x.to_string());
        let mut want: Vec<J> = envs_wire[k]["store"]
            .as_array()
            .ok_or("store")?
            .iter()
            .map(|e| {
                let mut anc: Vec<J> = e["anc"].as_array().cloned().unwrap_or_default();
                anc.sort_by_key(|x| x.to_string());
                json!([e["uid"], anc, as_obj(&e["attrs"]).map(|m| m.len()).unwrap_or(0)])
            })
            .collect();
        want.sort_by_key(|x| x.to_string());
        if got != want {
            store_mismatch += 1;
        }
    }
    let n = envs.len();
    SETUP.with(|c| *c.borrow_mut() = Some(Setup { schema_abs: s["schema"].clone(), schema, envs, envs_wire }));
    Ok(json!({"ev": "EnvCheck", "accepted": n, "rejected": rejected, "storeMismatch": store_mismatch}))
}

// ---------------------------------------------------------------- typed ASTs
use cedar_policy_core::validator::types::{BoolType, EntityKind, OpenTag, RequestEnv as VRequestEnv, Type as VType};

fn vtype_to_wire(t: &VType) -> J {
    match t {
        VType::Never => json!(["Never"]),
        VType::Bool(BoolType::AnyBool) => json!(["Bool"]),
        VType::Bool(BoolType::True) => json!(["True"]),
        VType::Bool(BoolType::False) => json!(["False"]),
        VType::Long => json!(["Long"]),
        VType::String => json!(["String"]),
        VType::Entity(EntityKind::AnyEntity) => json!(["AnyEntity"]),
        VType::Entity(EntityKind::Entity(lub)) => match lub.get_single_entity() {
            Some(et) => json!(["Entity", et.to_string()]),
            None => json!(["AnyEntity"]),
        },
        VType::Set { element_type: None } => json!(["AnySet"]),
        VType::Set { element_type: Some(e) } => json!(["Set", vtype_to_wire(e)]),
        VType::Record { attrs, open_attributes } => {
            let mut m = serde_json::Map::new();
            for (k, a) in attrs.iter() {
                m.insert(k.to_string(), json!([vtype_to_wire(&a.attr_type), a.is_required]));
            }
            json!(["Record", m, matches!(open_attributes, OpenTag::OpenAttributes)])
        }
        VType::ExtensionType { name } => json!(["Ext", name.to_string()]),
    }
}

/// typed expression -> ["t", type, node] where node is the wire expression whose children are typed again
fn typed_to_wire(e: &ast::Expr<Option<VType>>) -> J {
    use ast::ExprKind as K;
    let ty = match e.data() {
        Some(t) => vtype_to_wire(t),
        None => json!(["none"]),
    };
    let node = match e.expr_kind() {
        K::Lit(_) | K::Var(_) | K::Slot(_) | K::Unknown(_) => expr_to_wire(e),
        K::If { test_expr, then_expr, else_expr } => json!(["if", typed_to_wire(test_expr), typed_to_wire(then_expr), typed_to_wire(else_expr)]),
        K::And { left, right } => json!(["and", typed_to_wire(left), typed_to_wire(right)]),
        K::Or { left, right } => json!(["or", typed_to_wire(left), typed_to_wire(right)]),
        K::UnaryApp { op, arg } => {
            let t = match op {
                ast::UnaryOp::Not => "not",
                ast::UnaryOp::Neg => "neg",
                ast::UnaryOp::IsEmpty => "isEmpty",
            };
            json!([t, typed_to_wire(arg)])
        }
        K::BinaryApp { op, arg1, arg2 } => json!(["bin", binop_name(*op), typed_to_wire(arg1), typed_to_wire(arg2)]),
        K::ExtensionFunctionApp { fn_name, args } => json!(["call", fn_name.to_string(), args.iter().map(typed_to_wire).collect::<Vec<_>>()]),
        K::GetAttr { expr, attr } => json!(["get", typed_to_wire(expr), attr.to_string()]),
        K::HasAttr { expr, attr } => json!(["has", typed_to_wire(expr), attr.to_string()]),
        K::Like { expr, pattern } => json!(["like", typed_to_wire(expr), pattern_to_wire(pattern)]),
        K::Is { expr, entity_type } => json!(["is", typed_to_wire(expr), entity_type.to_string()]),
        K::Set(items) => json!(["set", items.iter().map(typed_to_wire).collect::<Vec<_>>()]),
        K::Record(m) => {
            let mut o = serde_json::Map::new();
            let mut keys = vec![];
            for (k, v) in m.iter() {
                o.insert(k.to_string(), typed_to_wire(v));
                keys.push(k.to_string());
            }
            json!(["record", o, keys])
        }
    };
    json!(["t", ty, node])
}

fn typed_trees(schema: &cedar_policy::Schema, pol: &ast::Policy) -> Vec<J> {
    use cedar_policy_core::validator::typecheck::{PolicyCheck, Typechecker};
    let tc = Typechecker::new(schema.as_ref(), cedar_policy_core::validator::ValidationMode::Strict);
    let mut out = vec![];
    for (renv, check) in tc.typecheck_by_request_env(pol.template()) {
        let (p, a, r) = match &renv {
            VRequestEnv::DeclaredAction { principal, action, resource, .. } => (principal.to_string(), uid_to_wire(action), resource.to_string()),
            VRequestEnv::UndeclaredAction => continue,
        };
        let (kind, typed) = match &check {
            PolicyCheck::Success(e) => ("success", typed_to_wire(e)),
            PolicyCheck::Irrelevant(_, e) => ("irrelevant", typed_to_wire(e)),
            PolicyCheck::Fail(_) => ("fail", json!(["none"])),
        };
        out.push(json!({"principal": p, "action": a, "resource": r, "kind": kind, "typed": typed}));
    }
    out
}

pub fn class_of(r: &Result<bool, cedar_policy_core::evaluator::EvaluationError>) -> &'static str {
    match r {
        Ok(true) => "true",
        Ok(false) => "false",
        Err(e) => err_class(e),
    }
}

pub fn run(case: &J) -> R<J> {
    if let Some(s) = case.get("setup") {
        return do_setup(s);
    }
    SETUP.with(|c| {
        let b = c.borrow();
        let setup = b.as_ref().ok_or("no setup case seen")?;
        let p = &case["policy"];
        let mut ps = PolicySet::new();
        add_policy(&mut ps, p, "p", 0)?;
        let validator = Validator::new(setup.schema.clone());
        let strict = validator.validate(&ps, ValidationMode::Strict);
        let permissive = validator.validate(&ps, ValidationMode::Permissive);
        let impossible = strict
            .validation_warnings()
            .any(|w| matches!(w, cedar_policy::ValidationWarning::ImpossiblePolicy(_)));
        // the policy as the authorizer will see it
        let core_ps: &ast::PolicySet = ps.as_ref();
        let pol = core_ps.policies().next().ok_or("no policy")?;
        let mut classes = BTreeSet::new();
        for (req, ents) in &setup.envs {
            let ev = Evaluator::new(req.clone(), ents, Extensions::all_available());
            classes.insert(class_of(&ev.evaluate(pol)));
        }
        let typed = if strict.validation_passed() { typed_trees(&setup.schema, pol) } else { vec![] };
        let mut out = json!({
            "ev": "Validate", "policy": with_record_keys(p), "must": case["must"], "typed": typed,
            "strict": strict.validation_passed(), "permissive": permissive.validation_passed(),
            "impossible": impossible, "classes": classes,
            "strictErrors": strict.validation_errors().map(|e| e.to_string()).take(2).collect::<Vec<_>>(),
        });
        if let Some(id) = case.get("id") {
            out["id"] = id.clone();
        }
        Ok(out)
    })
}

pub fn drive(_seed: u64, _n: usize) -> Vec<J> {
    vec![]
}
