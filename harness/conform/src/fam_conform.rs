//! family "conform" (C11): one datum (entity or request) and one schema,
//! pushed through every schema-taking entry point; each verdict is recorded.

use crate::abs::*;
use crate::schema::*;
use cedar_policy::{Context, Entities, Entity, Request};
use serde_json::{json, Map, Value as J};

fn entity_results(schema: &cedar_policy::Schema, datum: &J) -> R<J> {
    let mut res = Map::new();
    let core = entities_from_wire(&json!([datum]))?;
    let mk = || -> Vec<Entity> { core.iter().cloned().map(Entity::from).collect() };
    res.insert("from_entities".into(), json!(Entities::from_entities(mk(), Some(schema)).is_ok()));
    res.insert("add_entities".into(), json!(Entities::empty().add_entities(mk(), Some(schema)).is_ok()));
    res.insert("upsert_entities".into(), json!(Entities::empty().upsert_entities(mk(), Some(schema)).is_ok()));
    // adding to a store that was itself built with the schema (so it already holds the schema's actions)
    let base = Entities::from_entities([], Some(schema)).map_err(|e| e.to_string())?;
    res.insert("add_to_schema_store".into(), json!(base.clone().add_entities(mk(), Some(schema)).is_ok()));
    res.insert("upsert_to_schema_store".into(), json!(base.upsert_entities(mk(), Some(schema)).is_ok()));
    let ej = entity_cedar_json(datum)?;
    res.insert("from_json_value".into(), json!(Entities::from_json_value(json!([ej.clone()]), Some(schema)).is_ok()));
    res.insert("from_json_str".into(), json!(Entities::from_json_str(&json!([ej.clone()]).to_string(), Some(schema)).is_ok()));
    res.insert(
        "add_entities_from_json_value".into(),
        json!(Entities::empty().add_entities_from_json_value(json!([ej.clone()]), Some(schema)).is_ok()),
    );
    res.insert("entity_from_json_value".into(), json!(Entity::from_json_value(ej, Some(schema)).is_ok()));
    Ok(J::Object(res))
}

fn request_results(schema: &cedar_policy::Schema, datum: &J) -> R<J> {
    let mut res = Map::new();
    let (p, a, r) = (
        cedar_policy::EntityUid::from(uid_from_wire(&datum["principal"])?),
        cedar_policy::EntityUid::from(uid_from_wire(&datum["action"])?),
        cedar_policy::EntityUid::from(uid_from_wire(&datum["resource"])?),
    );
    let ctx: Context = context_from_wire(&datum["context"])?.into();
    res.insert("request_new".into(), json!(Request::new(p.clone(), a.clone(), r.clone(), ctx.clone(), Some(schema)).is_ok()));
    res.insert(
        "request_builder".into(),
        json!(Request::builder().principal(p.clone()).action(a.clone()).resource(r.clone()).context(ctx.clone()).schema(schema).build().is_ok()),
    );
    // context on its own: validate() and schema-directed JSON parsing judge only the context/action part
    res.insert("context_validate".into(), json!(ctx.validate(schema, &a).is_ok()));
    let cj = value_cedar_json(&datum["context"])?;
    let parsed = Context::from_json_value(cj, Some((schema, &a)));
    res.insert(
        "context_from_json_then_request".into(),
        json!(match parsed {
            Ok(c) => Request::new(p, a, r, c, Some(schema)).is_ok(),
            Err(_) => false,
        }),
    );
    Ok(J::Object(res))
}

pub fn run(case: &J) -> R<J> {
    let schema = schema_of(&case["schema"])?;
    let kind = case["kind"].as_str().ok_or("kind")?;
    let results = match kind {
        "entity" => entity_results(&schema, &case["datum"])?,
        "request" => request_results(&schema, &case["datum"])?,
        _ => return err("bad kind"),
    };
    let mut out = json!({"ev": "Conform", "kind": kind, "datum": case["datum"], "results": results});
    if let Some(id) = case.get("id") {
        out["id"] = id.clone();
    }
    Ok(out)
}

pub fn drive(_seed: u64, _n: usize) -> Vec<J> {
    vec![]
}
