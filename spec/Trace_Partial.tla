---------------------------- MODULE Trace_Partial ----------------------------
(* Trace specification for family "partial" (C13).  One event = a policy set, *)
(* a request/store with unknowns, the partial response, and for every         *)
(* completion the reauthorized response and the from-scratch response.        *)
EXTENDS Partial, TLC, Json, IOUtils

Rec == ndJsonDeserialize(IOEnv.TRACE)
VARIABLES l, bad

ToSet(s) == {s[i] : i \in 1..Len(s)}
NoDup(s) == \A i, j \in 1..Len(s) : i # j => s[i] # s[j]
PolSet(ev) == {ev.pols[i] : i \in 1..Len(ev.pols)}

\* wire -> spec for partial data (unknown leaves pass through FromWireV untouched)
PReqOf(w) == [principal |-> w.principal, action |-> w.action, resource |-> w.resource,
              context |-> IF w.context[1] = "unknown" THEN w.context ELSE FromWireV(w.context)]
ComplOf(w) == [k \in DOMAIN w |-> FromWireV(w[k])]
PartialResp(r) == [decision |-> r.decision, sat |-> ToSet(r.sat), errored |-> ToSet(r.errored), false |-> ToSet(r["false"]),
                   must |-> ToSet(r.must), may |-> ToSet(r.may)]

RespEq(r, exp) ==
  /\ r.decision = exp.decision
  /\ ToSet(r.reasons) = exp.reasons
  /\ NoDup(r.errors) /\ ToSet(r.errors) = exp.errors

\* a partial entity store: the missing entity is unknown; every option for it (a record, or absence) is a completion
PStoreOk(ev) ==
  /\ Len(ev.scratch) = Len(ev.options)
  /\ LET P == PolSet(ev)
         req == FromWireReq(ev.req)
         store == FromWireStore(ev.store)
         presp == PartialResp(ev.resp)
     IN \A i \in 1..Len(ev.options) :
          LET o == ev.options[i]
              st == IF "absent" \in DOMAIN o THEN store ELSE FromWireStore(ev.store \o <<o>>)
              exp == Authorize(P, req, st)
          IN SoundFor(presp, P, req, st) /\ RespEq(ev.scratch[i], exp)

Explained(ev) ==
  IF ev.ev = "PartialStore" THEN PStoreOk(ev) ELSE
  /\ ev.ev = "Partial"
  /\ Len(ev.reauth) = Len(ev.completions) /\ Len(ev.scratch) = Len(ev.completions)
  /\ LET P == PolSet(ev)
         preq == PReqOf(ev.req)
         pstore == FromWireStore(ev.store)
         presp == PartialResp(ev.resp)
     IN \A i \in 1..Len(ev.completions) :
          LET cm == ComplOf(ev.completions[i])
              req == CompleteReq(preq, cm)
              store == CompleteStore(pstore, cm)
              exp == Authorize(P, req, store)
          IN /\ SoundFor(presp, P, req, store)
             \* from scratch, the concrete authorizer gives the reference answer
             /\ RespEq(ev.scratch[i], exp)
             \* reauthorization with the substitution gives the same decision and determining policies
             /\ "resp" \in DOMAIN ev.reauth[i]
             /\ ev.reauth[i].resp.decision = exp.decision
             /\ ToSet(ev.reauth[i].resp.reasons) = exp.reasons

Init == l = 1 /\ bad = {}
Next == /\ l <= Len(Rec)
        /\ l' = l + 1
        /\ bad' = IF Explained(Rec[l]) THEN bad ELSE bad \cup {l}
Report == (l = Len(Rec) + 1) => PrintT(<<"TRACE-RESULT", Len(Rec), bad>>)
Accepted == TLCGet("stats").diameter = Len(Rec) + 1
==============================================================================
