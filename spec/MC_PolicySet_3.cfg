CONSTANTS Pool = {"a", "b", "c"}
  MaxIds = 3
INIT Init
NEXT Next
CONSTRAINT Bound
INVARIANT Inv
INVARIANT RenamingsGood
INVARIANT DumpAll
CHECK_DEADLOCK FALSE
