//! C09: unresolved abstract schema (spec/SchemaSyntax.tla wire form) -> the JSON schema
//! syntax and -> the Cedar schema syntax.  Independent renderers: nothing here resolves a
//! name or decides what a reference means; they only spell what the abstract schema says.

use crate::abs::*;
use serde_json::{json, Map, Value as J};

fn s_of(j: &J, what: &str) -> R<String> {
    j.as_str().map(String::from).ok_or_else(|| format!("{what}: expected string, got {j}"))
}

pub fn raw_name(q: &str, b: &str) -> String {
    if q.is_empty() {
        b.to_string()
    } else {
        format!("{q}::{b}")
    }
}

fn raw_of(r: &J) -> R<String> {
    Ok(raw_name(&s_of(&r[0], "raw q")?, &s_of(&r[1], "raw base")?))
}

fn arr<'a>(j: &'a J, what: &str) -> R<&'a Vec<J>> {
    j.as_array().ok_or_else(|| format!("{what}: expected array, got {j}"))
}

// ------------------------------------------------------------------ JSON syntax
pub fn utype_json(t: &J) -> R<J> {
    let a = arr(t, "utype")?;
    Ok(match a[0].as_str().ok_or("utype tag")? {
        "Prim" => match a[1].as_str().ok_or("prim")? {
            "Bool" => json!({"type": "Boolean"}),
            "Long" => json!({"type": "Long"}),
            "String" => json!({"type": "String"}),
            p => return err(format!("prim {p}")),
        },
        "Ext" => json!({"type": "Extension", "name": a[1]}),
        "Ref" => {
            let name = raw_name(&s_of(&a[2], "ref q")?, &s_of(&a[3], "ref base")?);
            match a[1].as_str().ok_or("ref kind")? {
                "eoc" => json!({"type": "EntityOrCommon", "name": name}),
                "entity" => json!({"type": "Entity", "name": name}),
                "common" => json!({"type": name}),
                k => return err(format!("ref kind {k}")),
            }
        }
        "Set" => json!({"type": "Set", "element": utype_json(&a[1])?}),
        "Record" => json!({"type": "Record", "attributes": uattrs_json(&a[1])?}),
        x => return err(format!("utype_json: {x}")),
    })
}

fn uattrs_json(attrs: &J) -> R<J> {
    let mut m = Map::new();
    for (k, v) in as_obj(attrs)?.iter() {
        let mut t = utype_json(&v[0])?;
        t["required"] = json!(v[1].as_bool().ok_or("required flag")?);
        m.insert(k.clone(), t);
    }
    Ok(J::Object(m))
}

fn action_ref_json(r: &J) -> R<J> {
    let a = arr(r, "action ref")?;
    Ok(match a[0].as_str().ok_or("action ref tag")? {
        "dflt" => json!({"id": a[1]}),
        "typed" => json!({"id": a[3], "type": raw_name(&s_of(&a[1], "q")?, &s_of(&a[2], "base")?)}),
        x => return err(format!("action ref {x}")),
    })
}

pub fn unresolved_json(s: &J, st: Style) -> R<J> {
    let mut out = Map::new();
    for (ns, def) in as_obj(s)?.iter() {
        let mut cts = Map::new();
        for (b, t) in as_obj(&def["cts"])?.iter() {
            let mut t = utype_json(t)?;
            ann_json(&mut t, b, st);
            cts.insert(b.clone(), t);
        }
        let mut ets = Map::new();
        for (b, e) in as_obj(&def["ets"])?.iter() {
            let en = arr(&e["enum"], "enum")?;
            if !en.is_empty() {
                let mut o = json!({"enum": en});
                ann_json(&mut o, b, st);
                ets.insert(b.clone(), o);
                continue;
            }
            let parents: Vec<J> = arr(&e["memberOf"], "memberOf")?.iter().map(|r| raw_of(r).map(J::String)).collect::<R<_>>()?;
            let mut o = json!({"memberOfTypes": parents, "shape": {"type": "Record", "attributes": uattrs_json(&e["attrs"])?}});
            if e["tags"] != json!(["none"]) {
                o["tags"] = utype_json(&e["tags"])?;
            }
            ann_json(&mut o, b, st);
            ets.insert(b.clone(), o);
        }
        let mut acts = Map::new();
        for (id, a) in as_obj(&def["acts"])?.iter() {
            let parents: Vec<J> = arr(&a["memberOf"], "act memberOf")?.iter().map(action_ref_json).collect::<R<_>>()?;
            let mut o = json!({});
            if !parents.is_empty() {
                o["memberOf"] = J::Array(parents);
            }
            if a["applies"].as_bool().ok_or("applies")? {
                let ps: Vec<J> = arr(&a["principals"], "principals")?.iter().map(|r| raw_of(r).map(J::String)).collect::<R<_>>()?;
                let rs: Vec<J> = arr(&a["resources"], "resources")?.iter().map(|r| raw_of(r).map(J::String)).collect::<R<_>>()?;
                o["appliesTo"] = json!({"principalTypes": ps, "resourceTypes": rs, "context": utype_json(&a["context"])?});
            }
            ann_json(&mut o, id, st);
            acts.insert(id.clone(), o);
        }
        let mut d = json!({"entityTypes": ets, "actions": acts});
        if !ns.is_empty() {
            ann_json(&mut d, ns, st);
        }
        if !cts.is_empty() {
            d["commonTypes"] = J::Object(cts);
        }
        out.insert(ns.clone(), d);
    }
    Ok(J::Object(out))
}

// ------------------------------------------------------------------ Cedar syntax
/// words the schema grammar accepts as tokens but `Ident` refuses (cedar reserved identifiers)
const RESERVED: &[&str] = &["true", "false", "if", "then", "else", "in", "like", "has", "is", "__cedar"];

fn plain_ident(s: &str) -> bool {
    let mut cs = s.chars();
    match cs.next() {
        Some(c) if c == '_' || c.is_ascii_alphabetic() => {}
        _ => return false,
    }
    cs.all(|c| c == '_' || c.is_ascii_alphanumeric()) && !RESERVED.contains(&s)
}

pub fn cedar_str(s: &str) -> String {
    let mut o = String::from("\"");
    for c in s.chars() {
        match c {
            '"' => o.push_str("\\\""),
            '\\' => o.push_str("\\\\"),
            '\n' => o.push_str("\\n"),
            '\r' => o.push_str("\\r"),
            '\t' => o.push_str("\\t"),
            '\0' => o.push_str("\\0"),
            c if (c as u32) < 0x20 || c as u32 == 0x7f => o.push_str(&format!("\\u{{{:x}}}", c as u32)),
            c => o.push(c),
        }
    }
    o.push('"');
    o
}

/// style bit 0: quote every name that may be quoted; bit 1: empty namespace last, `=` omitted
#[derive(Clone, Copy)]
pub struct Style(pub u64);
impl Style {
    fn quote_all(self) -> bool {
        self.0 & 1 == 1
    }
    fn alt_layout(self) -> bool {
        self.0 & 2 == 2
    }
    /// bit 2: every namespace / common type / entity type / action carries two annotations
    pub fn annotate(self) -> bool {
        self.0 & 4 == 4
    }
}

/// the annotation value written on the declaration called `name` (needs escapes in both syntaxes)
pub fn ann_doc(name: &str) -> String {
    format!("d \"q\" \\ {name}\n.")
}

fn ann_json(o: &mut J, name: &str, st: Style) {
    if st.annotate() {
        o["annotations"] = json!({"doc": ann_doc(name), "type": ""});
    }
}

fn ann_cedar(name: &str, st: Style, ind: &str) -> String {
    if !st.annotate() {
        return String::new();
    }
    let flag = if st.alt_layout() { "@type(\"\")" } else { "@type" };
    format!("{ind}@doc({})\n{ind}{flag}\n", cedar_str(&ann_doc(name)))
}

fn name_cedar(n: &str, st: Style) -> String {
    if !st.quote_all() && plain_ident(n) {
        n.to_string()
    } else {
        cedar_str(n)
    }
}

/// None = this type cannot be written in the Cedar syntax
fn utype_cedar(t: &J, st: Style) -> R<Option<String>> {
    let a = arr(t, "utype")?;
    Ok(match a[0].as_str().ok_or("utype tag")? {
        "Prim" => Some(format!("__cedar::{}", s_of(&a[1], "prim")?)),
        "Ext" => Some(format!("__cedar::{}", s_of(&a[1], "ext")?)),
        "Ref" => match a[1].as_str().ok_or("ref kind")? {
            "eoc" => Some(raw_name(&s_of(&a[2], "q")?, &s_of(&a[3], "base")?)),
            _ => None,
        },
        "Set" => utype_cedar(&a[1], st)?.map(|e| format!("Set<{e}>")),
        "Record" => uattrs_cedar(&a[1], st)?,
        x => return err(format!("utype_cedar: {x}")),
    })
}

fn uattrs_cedar(attrs: &J, st: Style) -> R<Option<String>> {
    let mut parts = vec![];
    for (k, v) in as_obj(attrs)?.iter() {
        let Some(t) = utype_cedar(&v[0], st)? else { return Ok(None) };
        let opt = if v[1].as_bool().ok_or("required")? { "" } else { "?" };
        parts.push(format!("{}{opt}: {t}", name_cedar(k, st)));
    }
    Ok(Some(if parts.is_empty() { "{}".to_string() } else { format!("{{ {} }}", parts.join(", ")) }))
}

fn action_ref_cedar(r: &J, st: Style) -> R<String> {
    let a = arr(r, "action ref")?;
    Ok(match a[0].as_str().ok_or("action ref tag")? {
        "dflt" => name_cedar(&s_of(&a[1], "id")?, st),
        "typed" => format!("{}::{}", raw_name(&s_of(&a[1], "q")?, &s_of(&a[2], "base")?), cedar_str(&s_of(&a[3], "id")?)),
        x => return err(format!("action ref {x}")),
    })
}

fn ns_decls_cedar(def: &J, st: Style, ind: &str) -> R<Option<String>> {
    let mut s = String::new();
    for (b, t) in as_obj(&def["cts"])?.iter() {
        let Some(t) = utype_cedar(t, st)? else { return Ok(None) };
        s.push_str(&ann_cedar(b, st, ind));
        s.push_str(&format!("{ind}type {b} = {t};\n"));
    }
    for (b, e) in as_obj(&def["ets"])?.iter() {
        let en = arr(&e["enum"], "enum")?;
        if !en.is_empty() {
            let ids: Vec<String> = en.iter().map(|x| cedar_str(x.as_str().unwrap_or(""))).collect();
            s.push_str(&ann_cedar(b, st, ind));
            s.push_str(&format!("{ind}entity {b} enum [{}];\n", ids.join(", ")));
            continue;
        }
        let parents: Vec<String> = arr(&e["memberOf"], "memberOf")?.iter().map(raw_of).collect::<R<_>>()?;
        let inp = match parents.len() {
            0 => String::new(),
            1 if st.alt_layout() => format!(" in {}", parents[0]),
            _ => format!(" in [{}]", parents.join(", ")),
        };
        let Some(shape) = uattrs_cedar(&e["attrs"], st)? else { return Ok(None) };
        let shape = if shape == "{}" && st.alt_layout() { String::new() } else if st.alt_layout() { format!(" {shape}") } else { format!(" = {shape}") };
        let tags = if e["tags"] != json!(["none"]) {
            let Some(t) = utype_cedar(&e["tags"], st)? else { return Ok(None) };
            format!(" tags {t}")
        } else {
            String::new()
        };
        s.push_str(&ann_cedar(b, st, ind));
        s.push_str(&format!("{ind}entity {b}{inp}{shape}{tags};\n"));
    }
    for (id, a) in as_obj(&def["acts"])?.iter() {
        let parents: Vec<String> = arr(&a["memberOf"], "act memberOf")?.iter().map(|r| action_ref_cedar(r, st)).collect::<R<_>>()?;
        let inp = if parents.is_empty() { String::new() } else { format!(" in [{}]", parents.join(", ")) };
        let mut line = format!("{ind}action {}{inp}", name_cedar(id, st));
        if a["applies"].as_bool().ok_or("applies")? {
            let ps: Vec<String> = arr(&a["principals"], "principals")?.iter().map(raw_of).collect::<R<_>>()?;
            let rs: Vec<String> = arr(&a["resources"], "resources")?.iter().map(raw_of).collect::<R<_>>()?;
            if ps.is_empty() || rs.is_empty() {
                return Ok(None);
            }
            let ca = arr(&a["context"], "context")?;
            let ctx = if ca[0] == "Ref" {
                if ca[1] != "common" {
                    return Ok(None);
                }
                raw_name(&s_of(&ca[2], "q")?, &s_of(&ca[3], "base")?)
            } else {
                let Some(c) = utype_cedar(&a["context"], st)? else { return Ok(None) };
                c
            };
            if st.alt_layout() {
                line.push_str(&format!(" appliesTo {{ context: {ctx}, resource: [{}], principal: [{}], }}", rs.join(", "), ps.join(", ")));
            } else {
                line.push_str(&format!(" appliesTo {{ principal: [{}], resource: [{}], context: {ctx} }}", ps.join(", "), rs.join(", ")));
            }
        }
        line.push_str(";\n");
        s.push_str(&ann_cedar(id, st, ind));
        s.push_str(&line);
    }
    Ok(Some(s))
}

/// unresolved abstract schema -> Cedar schema syntax; Ok(None) when some construct has no Cedar spelling
pub fn unresolved_cedar(s: &J, st: Style) -> R<Option<String>> {
    let m = as_obj(s)?;
    let mut named = String::new();
    let mut bare = String::new();
    for (ns, def) in m.iter() {
        if ns.is_empty() {
            let Some(d) = ns_decls_cedar(def, st, "")? else { return Ok(None) };
            bare.push_str(&d);
        } else {
            let Some(d) = ns_decls_cedar(def, st, "  ")? else { return Ok(None) };
            named.push_str(&ann_cedar(ns, st, ""));
            named.push_str(&format!("namespace {ns} {{\n{d}}}\n"));
        }
    }
    Ok(Some(if st.alt_layout() { format!("{named}{bare}") } else { format!("{bare}{named}") }))
}
