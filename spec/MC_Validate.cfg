INIT Init
NEXT Next
INVARIANT MustIsSound
ACTION_CONSTRAINT Dump
CHECK_DEADLOCK FALSE
