"""C12 - formatter: total, meaning- and comment-preserving, idempotent without comments (family "format")."""
import json
import os

import vlib
import props_c05

GRID = [(lw, iw) for iw in (0, 2, 4, 8) for lw in (1, 20, 40, 80, 200)]


def _case(world, c, i):
    c = dict(c)
    c["id"] = i
    return c


def _files(fam, tier, wd, seed):
    """binding T: the formatter's fixture files and every policy file of the tree, over the settings grid"""
    cases = []
    for k, p in enumerate(props_c05.policy_files()):
        fixture = "/cedar-policy-formatter/tests/" in p
        if tier == "thorough" or fixture:
            cfgs = GRID
        else:
            cfgs = [GRID[(k + 5 * j) % 20] for j in range(4)]
        cases.append(dict(kind="file", id="f%d" % k, path=p, cfgs=[list(c) for c in cfgs]))
    cpath = os.path.join(wd, "files.cases.ndjson")
    tpath = os.path.join(wd, "files.trace.ndjson")
    vlib.write_ndjson(cpath, cases)
    vlib.conform("replay", "format", cpath, tpath)
    return [(tpath, "T:files", "Trace_Format.tla")]


def _mutate(ev):
    """canary: a comment of the output is lost / two are swapped / the output's meaning changes"""
    if ev.get("ev") not in ("Format", "FormatFile") or ev.get("out", [""])[0] != "ok":
        return None
    ev = json.loads(json.dumps(ev))
    c = ev.get("cout") or []
    if len(c) >= 2 and c[0] != c[1]:
        c[0], c[1] = c[1], c[0]
    elif len(c) == 1:
        ev["cout"] = []
    else:
        v = ev["views"][0]
        if not v["p"]:
            return None
        p = json.loads(json.dumps(v["p"]))
        p[0]["effect"] = "forbid" if p[0]["effect"] == "permit" else "permit"
        if len(v["as"]) > 1:
            v["as"] = [r for r in v["as"] if r != "out"]
            ev["views"].append({"as": ["out"], "p": p})
        else:
            v["p"] = p
    return ev


def _case_of_event(ev):
    """--replay: the generated case is looked up by id in the last run's case file (one setting only)"""
    if ev.get("ev") in ("FormatFile", "FormatSkip"):
        return dict(kind="file", id="replay", path=ev["src"], cfgs=[ev.get("cfg", [80, 2])])
    path = os.path.join(vlib.workdir("C12"), "mc_format.cases.ndjson")
    if os.path.exists(path):
        for c in vlib.read_ndjson(path):
            if c.get("id") == ev.get("id"):
                return dict(c, cfgs=[ev["cfg"]])
    raise vlib.ToolError("case %s not found: run ./check C12 first" % ev.get("id"))


C12 = dict(
    family="format", trace_module="Trace_Format.tla", case_of_event=_case_of_event,
    models=[dict(name="mc_format", module="MC_Format.tla",
                 cfg=dict(quick="MC_Format_quick.cfg", thorough="MC_Format_thorough.cfg"), cases=_case)],
    extra_traces=_files,
    nontrivial=lambda ev: ev.get("ev") in ("Format", "FormatFile"),
    key=lambda ev: [ev.get("pols"), ev.get("places"), ev.get("cfg"), ev.get("src"), ev.get("style")],
    mutate=_mutate, chunk=2500,
    rule="G: MC_Format (TLC-enumerated): 24 policy sets from the C05 space (15 small ones covering every construct; 9 long ones - 12-operand && / || chains, "
         "10-term arithmetic, 9-deep attribute paths, nested if, 12-element set, nested records, a 3-policy set with annotations and templates - that force line "
         "breaks at every width), rendered by Syntax!SxToks in 4 styles (minimal, full, redundant, redundant with trailing commas), with comment placements: "
         "none; one comment at every token boundary (own line / trailing); comments at all boundaries at once (3 layouts incl. blank lines); pairs of boundaries "
         "(all pairs for small texts, adjacent/far pairs for long ones); 10 special comment texts (empty, nested //, quotes, keywords, a whole policy, brackets) "
         "at 4-7 boundaries; blank-line mixtures; end-of-file comments. Settings: line_width {1,20,40,80,200} x indent {0,2,4,8}: all 20 for the none/all "
         "placements, 2-4 per placement otherwise (rotating so the grid is covered). The harness assembles the text, calls policies_str_to_pretty twice, "
         "re-parses input / output / re-formatted output and scans comments with its own scanner; TLC requires: both calls succeed; all three texts project to "
         "Syntax!SxSetCore of the surface set in id order; the comments of all three texts equal Comments!CommentsOf(placement); output = re-formatted output "
         "when there are no comments. T: the formatter's 21 fixture files at the whole grid and every other *.cedar file of the tree at 4 settings, with the "
         "input's own projection / comments as reference. distinct by (surface set, style, placement, settings) / (file, settings).",
    exhaustive=dict(quick=False, thorough=False),
    assumptions=["a comment is identified by its text up to trailing white space (the formatter trims it); layout quality is out of scope",
                 "the harness's text assembly and comment scanner are faithful (the scanner is checked on every input against the placement)",
                 "the formatter's own soundness_check is code under test and not relied upon"],
)
