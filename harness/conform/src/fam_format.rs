//! family "format" (C12): the policy formatter.
//!
//! A case carries a surface policy set of spec/MC_Format.tla, its token
//! sequence, a comment placement (for token boundaries: comment lines and blank
//! lines, trailing or on their own lines) and a list of (line_width,
//! indent_width) settings.  The harness assembles the text, formats it,
//! formats the output again, re-parses and projects every text and extracts
//! comments with its own scanner.  All judging happens in spec/Trace_Format.tla.
//!
//! Case kind "file" (binding T): a policy file of the tree at given settings.

use crate::abs::*;
use crate::fam_syntax::{case_seed, set_in_order, spell};
use cedar_policy::PolicySet;
use cedar_policy_formatter::{policies_str_to_pretty, Config};
use rand::rngs::StdRng;
use rand::SeedableRng;
use serde_json::{json, Value as J};
use std::str::FromStr;

/// comments of a policy text: `//` outside a string literal up to the end of
/// the line, trailing whitespace removed
pub fn scan_comments(text: &str) -> Vec<String> {
    let cs: Vec<char> = text.chars().collect();
    let mut out = vec![];
    let mut i = 0;
    while i < cs.len() {
        let c = cs[i];
        if c == '"' {
            // string literal: up to the next unescaped quote
            i += 1;
            while i < cs.len() && cs[i] != '"' {
                if cs[i] == '\\' {
                    i += 1;
                }
                i += 1;
            }
            i += 1;
        } else if c == '/' && i + 1 < cs.len() && cs[i + 1] == '/' {
            let mut j = i;
            while j < cs.len() && cs[j] != '\n' && cs[j] != '\r' {
                j += 1;
            }
            let s: String = cs[i..j].iter().collect();
            out.push(s.trim_end().to_string());
            i = j;
        } else {
            i += 1;
        }
    }
    out
}

/// tokens + placement -> text.  Tokens are separated by one space; a boundary
/// with items gets its comment / blank lines, the first comment on the line of
/// the preceding token when the mode is "trail".
fn assemble(rng: &mut StdRng, toks: &[J], places: &[J]) -> R<String> {
    let n = toks.len();
    let mut at: Vec<Option<&J>> = vec![None; n + 1];
    for p in places {
        let i = p[0].as_u64().ok_or("place index")? as usize;
        if i > n {
            return err(format!("placement at boundary {i} of {n} tokens"));
        }
        at[i] = Some(p);
    }
    let mut o = String::new();
    for i in 0..=n {
        match at[i] {
            Some(p) => {
                let trail = p[1].as_str() == Some("trail") && i > 0;
                let items = p[2].as_array().ok_or("place items")?;
                let mut first = true;
                for it in items {
                    let is_comment = it[0].as_str() == Some("c");
                    if first {
                        if trail && is_comment {
                            o.push(' ');
                        } else if i > 0 {
                            o.push('\n');
                        }
                    }
                    if is_comment {
                        o.push_str("//");
                        o.push_str(it[1].as_str().ok_or("comment text")?);
                    }
                    o.push('\n');
                    first = false;
                }
            }
            None => {
                if i > 0 && i < n {
                    o.push(' ');
                }
            }
        }
        if i < n {
            o.push_str(&spell(rng, &toks[i..i + 1], true)?);
        }
    }
    if !o.ends_with('\n') {
        o.push('\n');
    }
    Ok(o)
}

struct Shared {
    views: Vec<J>,
}

impl Shared {
    fn add(&mut self, role: &str, p: Vec<J>) {
        let p = J::Array(p);
        for v in self.views.iter_mut() {
            if v["p"] == p {
                v["as"].as_array_mut().expect("as").push(json!(role));
                return;
            }
        }
        self.views.push(json!({"as": [role], "p": p}));
    }
}

fn project(text: &str) -> Result<Vec<J>, String> {
    let ps = PolicySet::from_str(text).map_err(|e| e.to_string())?;
    set_in_order(&ps)
}

fn fmt_once(text: &str, cfg: &Config) -> J {
    match policies_str_to_pretty(text, cfg) {
        Ok(s) => json!(["ok", s]),
        Err(e) => json!(["err", format!("{e:?}").chars().take(600).collect::<String>()]),
    }
}

/// format, re-format, project and scan; fills the fields shared by both event kinds
fn observe(text: &str, lw: usize, iw: isize, ev: &mut J) {
    let cfg = Config { line_width: lw, indent_width: iw };
    let mut sh = Shared { views: vec![] };
    match project(text) {
        Ok(p) => sh.add("in", p),
        Err(e) => ev["in_err"] = json!(e),
    }
    ev["cin"] = json!(scan_comments(text));
    let out = fmt_once(text, &cfg);
    if out[0] == "ok" {
        let t1 = out[1].as_str().unwrap_or_default().to_string();
        match project(&t1) {
            Ok(p) => sh.add("out", p),
            Err(e) => ev["out_err"] = json!(e),
        }
        ev["cout"] = json!(scan_comments(&t1));
        let out2 = fmt_once(&t1, &cfg);
        if out2[0] == "ok" {
            let t2 = out2[1].as_str().unwrap_or_default().to_string();
            match project(&t2) {
                Ok(p) => sh.add("out2", p),
                Err(e) => ev["out2_err"] = json!(e),
            }
            ev["cout2"] = json!(scan_comments(&t2));
            // the re-formatted text itself is only needed for comment-free inputs (idempotence)
            ev["out2"] = if ev["cin"].as_array().map(|a| a.is_empty()).unwrap_or(true) { out2 } else { json!(["ok"]) };
        } else {
            ev["out2"] = out2;
        }
    }
    ev["out"] = out;
    ev["views"] = J::Array(sh.views);
}

fn cfgs_of(case: &J) -> R<Vec<(usize, isize)>> {
    let mut out = vec![];
    for c in case["cfgs"].as_array().ok_or("cfgs")? {
        out.push((c[0].as_u64().ok_or("line_width")? as usize, c[1].as_i64().ok_or("indent_width")? as isize));
    }
    Ok(out)
}

fn run_gen(case: &J) -> R<J> {
    let toks = case["toks"].as_array().ok_or("toks")?;
    let places = case["places"].as_array().ok_or("places")?;
    let mut rng = StdRng::seed_from_u64(case_seed(case, 11));
    let text = assemble(&mut rng, toks, places)?;
    let mut events = vec![];
    for (lw, iw) in cfgs_of(case)? {
        let mut ev = json!({"ev": "Format", "id": case["id"], "cfg": [lw, iw], "coord": case["coord"], "style": case["style"],
                            "tc": case["tc"], "pols": case["pols"], "places": case["places"], "text": text});
        observe(&text, lw, iw, &mut ev);
        events.push(ev);
    }
    Ok(json!({"ev": "Multi", "events": events}))
}

fn run_file(case: &J) -> R<J> {
    let path = case["path"].as_str().ok_or("path")?;
    let text = std::fs::read_to_string(path).map_err(|e| format!("{path}: {e}"))?;
    if let Err(e) = PolicySet::from_str(&text) {
        return Ok(json!({"ev": "FormatSkip", "src": path, "why": e.to_string().chars().take(200).collect::<String>()}));
    }
    let mut events = vec![];
    for (lw, iw) in cfgs_of(case)? {
        let mut ev = json!({"ev": "FormatFile", "src": path, "cfg": [lw, iw]});
        observe(&text, lw, iw, &mut ev);
        events.push(ev);
    }
    Ok(json!({"ev": "Multi", "events": events}))
}

pub fn run(case: &J) -> R<J> {
    match case["kind"].as_str().unwrap_or("fmt") {
        "fmt" => run_gen(case),
        "file" => run_file(case),
        k => err(format!("format: unknown case kind {k}")),
    }
}

pub fn drive(_seed: u64, _n: usize) -> Vec<J> {
    vec![]
}
