INIT Init
NEXT Next
ACTION_CONSTRAINT Dump
CHECK_DEADLOCK FALSE
