---------------------------- MODULE SchemaSyntax ----------------------------
(***************************************************************************)
(* C09.  The UNRESOLVED abstract schema (what either concrete syntax can   *)
(* write down) and ScResolve, the schema it denotes after name resolution  *)
(* and common-type inlining.                                               *)
(*                                                                         *)
(* Unresolved schema  s : [namespace name |-> NsDef], namespace names are  *)
(* the strings "" (the empty namespace), "N", "N::M", ...                  *)
(*   NsDef == [cts  |-> [base |-> utype],                                  *)
(*             ets  |-> [base |-> [enum, memberOf, attrs, tags]],          *)
(*             acts |-> [id |-> [memberOf, applies, principals, resources, *)
(*                               context]]]                                *)
(*   enum      : tuple of ids (<<>> = a standard entity type)              *)
(*   memberOf  : set of raw names (entity types) / set of action refs      *)
(*   attrs     : [attr |-> <<utype, required>>]                            *)
(*   tags      : <<"none">> or a utype                                     *)
(*   principals/resources : sets of raw names; context : a utype           *)
(* Raw name  <<q, base>> : q = "" when written without a namespace,        *)
(*   otherwise the explicit prefix ("N", "N::M", "__cedar").               *)
(* Action reference  <<"dflt", id>> (no type written) or                   *)
(*   <<"typed", q, base, id>>.                                             *)
(* utype: <<"Prim", "Bool"|"Long"|"String">>   the built-in, unshadowable  *)
(*        <<"Ext", name>>                      the built-in extension type *)
(*        <<"Ref", kind, q, base>>  kind in eoc | entity | common : which  *)
(*              kinds of declaration the position admits                   *)
(*        <<"Set", utype>>   <<"Record", attrs>>                           *)
(*                                                                         *)
(* Name resolution (cedar-policy-core/src/validator/schema/raw_name.rs,    *)
(* RFC 24 / RFC 70): a reference written with an explicit namespace names  *)
(* only itself; a reference X written without one inside namespace NS      *)
(* tries NS::X and then X (empty namespace), in that order, and at each    *)
(* candidate a common type wins over an entity type when the position      *)
(* admits both.  Primitive and extension type names are common types of    *)
(* the empty namespace unless that name is declared there (as anything);   *)
(* __cedar::X always names the built-in.  A common type's body is resolved *)
(* in the namespace that declares it, then inlined at its uses.            *)
(***************************************************************************)
EXTENDS Integers, Sequences, FiniteSets, TLC

UFq(q, b) == IF q = "" THEN b ELSE q \o "::" \o b
ScuBuiltins == {"Bool", "Long", "String", "ipaddr", "decimal", "datetime", "duration"}
ScuPrims == {"Bool", "Long", "String"}
ScuCedarName(b) == "__cedar::" \o b
\* names that cannot be the base name of a common-type declaration (json_schema.rs CommonTypeId)
ScuReservedCommon == {"Bool", "Boolean", "Entity", "Extension", "Long", "Record", "Set", "String"}
ScuActionBase == "Action"
ScuFuel == 6

ScuEntPairs(s) == UNION {{<<ns, b>> : b \in DOMAIN s[ns].ets} : ns \in DOMAIN s}
ScuComPairs(s) == UNION {{<<ns, b>> : b \in DOMAIN s[ns].cts} : ns \in DOMAIN s}
ScuActPairs(s) == UNION {{<<ns, id>> : id \in DOMAIN s[ns].acts} : ns \in DOMAIN s}
ScuEntDeclared(s) == {UFq(p[1], p[2]) : p \in ScuEntPairs(s)}
ScuComUser(s) == {UFq(p[1], p[2]) : p \in ScuComPairs(s)}
ScuActKeys(s) == {<<UFq(p[1], ScuActionBase), p[2]>> : p \in ScuActPairs(s)}
\* every namespace that declares an action also has the entity type NS::Action
ScuEntDefs(s) == ScuEntDeclared(s) \cup {UFq(ns, ScuActionBase) : ns \in {n \in DOMAIN s : DOMAIN s[n].acts # {}}}
ScuComDefs(s) == ScuComUser(s) \cup {ScuCedarName(b) : b \in ScuBuiltins}
                 \cup {b \in ScuBuiltins : b \notin ScuEntDeclared(s) \cup ScuComUser(s)}
ScuEntHome(s, fq) == CHOOSE p \in ScuEntPairs(s) : UFq(p[1], p[2]) = fq
ScuComHome(s, fq) == CHOOSE p \in ScuComPairs(s) : UFq(p[1], p[2]) = fq
ScuActHome(s, k) == CHOOSE p \in ScuActPairs(s) : <<UFq(p[1], ScuActionBase), p[2]>> = k
ScuBuiltinTy(fq) == LET b == CHOOSE x \in ScuBuiltins : fq = x \/ fq = ScuCedarName(x)
                    IN IF b \in ScuPrims THEN <<b>> ELSE <<"Ext", b>>

\* the fully-qualified names a raw name may denote, in priority order
ScuCands(ns, q, b) == IF q # "" THEN <<UFq(q, b)>> ELSE IF ns = "" THEN <<b>> ELSE <<UFq(ns, b), b>>
ScuHit(s, kind, c) ==
  IF kind \in {"common", "eoc"} /\ c \in ScuComDefs(s) THEN <<"common", c>>
  ELSE IF kind \in {"entity", "eoc"} /\ c \in ScuEntDefs(s) THEN <<"entity", c>>
  ELSE <<"undef", c>>
ScuPick(s, kind, cands) ==
  LET h1 == ScuHit(s, kind, cands[1])
  IN IF h1[1] # "undef" THEN h1 ELSE IF Len(cands) = 2 THEN ScuHit(s, kind, cands[2]) ELSE h1

\* an entity-only position (memberOfTypes, principalTypes, resourceTypes)
ScuUndef == "?undef"
ScuEntRef(s, ns, r) == LET h == ScuPick(s, "entity", ScuCands(ns, r[1], r[2]))
                       IN IF h[1] = "entity" THEN h[2] ELSE ScuUndef
\* an action reference: the type is a raw name (default `Action`), resolved like an entity-only
\* reference except that a candidate counts only if that action is declared
ScuActRef(s, ns, r) ==
  LET q == IF r[1] = "dflt" THEN "" ELSE r[2]
      b == IF r[1] = "dflt" THEN ScuActionBase ELSE r[3]
      id == IF r[1] = "dflt" THEN r[2] ELSE r[4]
      cands == ScuCands(ns, q, b)
      k1 == <<cands[1], id>>
  IN IF k1 \in ScuActKeys(s) THEN k1
     ELSE IF Len(cands) = 2 /\ <<cands[2], id>> \in ScuActKeys(s) THEN <<cands[2], id>>
     ELSE <<ScuUndef, id>>

RECURSIVE ScuRT(_, _, _, _)
ScuRT(s, ns, t, fuel) ==
  CASE t[1] = "Prim" -> <<t[2]>>
    [] t[1] = "Ext" -> <<"Ext", t[2]>>
    [] t[1] = "Set" -> <<"Set", ScuRT(s, ns, t[2], fuel)>>
    [] t[1] = "Record" -> <<"Record", [k \in DOMAIN t[2] |-> <<ScuRT(s, ns, t[2][k][1], fuel), t[2][k][2]>>]>>
    [] t[1] = "Ref" ->
         LET r == ScuPick(s, t[2], ScuCands(ns, t[3], t[4]))
         IN CASE r[1] = "undef" -> <<"err", "undef">>
              [] r[1] = "entity" -> <<"Entity", r[2]>>
              [] r[1] = "common" ->
                   IF r[2] \in ScuComUser(s)
                   THEN IF fuel = 0 THEN <<"err", "cycle">>
                        ELSE LET h == ScuComHome(s, r[2]) IN ScuRT(s, h[1], s[h[1]].cts[h[2]], fuel - 1)
                   ELSE ScuBuiltinTy(r[2])

RECURSIVE ScuTyErrs(_)
ScuTyErrs(t) ==
  CASE t[1] = "err" -> {t[2]}
    [] t[1] = "Set" -> ScuTyErrs(t[2])
    [] t[1] = "Record" -> UNION {ScuTyErrs(t[2][k][1]) : k \in DOMAIN t[2]}
    [] OTHER -> {}

RECURSIVE ScuClose(_, _, _)
ScuClose(step, frontier, seen) ==
  IF frontier \subseteq seen THEN seen
  ELSE ScuClose(step, UNION {step[x] : x \in (frontier \ seen) \cap DOMAIN step}, seen \cup frontier)

\* ---- the resolved schema
\*   ets : [fq |-> [attrs, tags, memberOf (set of fq, direct), enum (tuple)]]
\*   acts: [<<fq type, id>> |-> [principals, resources, context (resolved type), memberOf (set of keys, direct)]]
ScResolve(s) ==
  [ets |-> [fq \in ScuEntDeclared(s) |->
              LET h == ScuEntHome(s, fq)
                  d == s[h[1]].ets[h[2]]
              IN [attrs |-> [k \in DOMAIN d.attrs |-> <<ScuRT(s, h[1], d.attrs[k][1], ScuFuel), d.attrs[k][2]>>],
                  tags |-> IF d.tags = <<"none">> THEN <<"none">> ELSE ScuRT(s, h[1], d.tags, ScuFuel),
                  memberOf |-> {ScuEntRef(s, h[1], r) : r \in d.memberOf},
                  enum |-> d.enum]],
   acts |-> [k \in ScuActKeys(s) |->
              LET h == ScuActHome(s, k)
                  d == s[h[1]].acts[h[2]]
              IN [principals |-> IF d.applies THEN {ScuEntRef(s, h[1], r) : r \in d.principals} ELSE {},
                  resources |-> IF d.applies THEN {ScuEntRef(s, h[1], r) : r \in d.resources} ELSE {},
                  context |-> IF d.applies THEN ScuRT(s, h[1], d.context, ScuFuel) ELSE <<"Record", <<>>>>,
                  memberOf |-> {ScuActRef(s, h[1], r) : r \in d.memberOf}]]]

\* ---- reasons for which a schema denotes nothing (the loaders must refuse it)
ScProblems(s) ==
  LET R == ScResolve(s)
      etMap == [fq \in DOMAIN R.ets |-> R.ets[fq].memberOf]
      actMap == [k \in DOMAIN R.acts |-> R.acts[k].memberOf]
      \* RFC 70: a declaration in a non-empty namespace may not have the base name of a declaration of the empty namespace
      shadow == "" \in DOMAIN s /\
                ( \/ \E ns \in DOMAIN s \ {""} : (DOMAIN s[ns].ets \cup DOMAIN s[ns].cts) \cap (DOMAIN s[""].ets \cup DOMAIN s[""].cts) # {}
                  \/ \E ns \in DOMAIN s \ {""} : DOMAIN s[ns].acts \cap DOMAIN s[""].acts # {} )
      tyErrs == UNION {UNION {ScuTyErrs(R.ets[fq].attrs[k][1]) : k \in DOMAIN R.ets[fq].attrs}
                        \cup (IF R.ets[fq].tags = <<"none">> THEN {} ELSE ScuTyErrs(R.ets[fq].tags)) : fq \in DOMAIN R.ets}
                \cup UNION {ScuTyErrs(R.acts[k].context) : k \in DOMAIN R.acts}
                \* a common type is checked even when nothing uses it
                \cup UNION {ScuTyErrs(ScuRT(s, p[1], s[p[1]].cts[p[2]], ScuFuel)) : p \in ScuComPairs(s)}
  IN (IF shadow THEN {"shadow"} ELSE {})
     \cup tyErrs
     \cup (IF \E fq \in DOMAIN R.ets : ScuUndef \in R.ets[fq].memberOf THEN {"undef"} ELSE {})
     \cup (IF \E k \in DOMAIN R.acts : ScuUndef \in R.acts[k].principals \cup R.acts[k].resources THEN {"undef"} ELSE {})
     \cup (IF \E k \in DOMAIN R.acts : \E m \in R.acts[k].memberOf : m[1] = ScuUndef THEN {"undefAction"} ELSE {})
     \cup (IF \E p \in ScuComPairs(s) : p[2] \in ScuReservedCommon THEN {"reservedCommon"} ELSE {})
     \cup (IF \E k \in DOMAIN R.acts : R.acts[k].context[1] \notin {"Record", "err"} THEN {"contextNotRecord"} ELSE {})
     \cup (IF \E k \in DOMAIN R.acts : k \in ScuClose(actMap, R.acts[k].memberOf, {}) THEN {"actionCycle"} ELSE {})
ScOk(s) == ScProblems(s) = {}

\* ---- canonical comparison form: membership as the descendant relation (what ValidatorSchema keeps)
ScCanon(R) ==
  LET etMap == [fq \in DOMAIN R.ets |-> R.ets[fq].memberOf]
      actMap == [k \in DOMAIN R.acts |-> R.acts[k].memberOf]
  IN [ets |-> {<<fq, R.ets[fq].attrs, R.ets[fq].tags,
                 {u \in DOMAIN R.ets : fq \in ScuClose(etMap, R.ets[u].memberOf, {})}, R.ets[fq].enum>> : fq \in DOMAIN R.ets},
      acts |-> {<<k[1], k[2], R.acts[k].principals, R.acts[k].resources, R.acts[k].context,
                  {u \in DOMAIN R.acts : k \in ScuClose(actMap, R.acts[u].memberOf, {})}>> : k \in DOMAIN R.acts}]

\* ---- which concrete syntax can write the schema down
RECURSIVE ScuLeaves(_)
ScuLeaves(t) ==
  CASE t[1] = "Set" -> ScuLeaves(t[2])
    [] t[1] = "Record" -> UNION {ScuLeaves(t[2][k][1]) : k \in DOMAIN t[2]}
    [] OTHER -> {t}
\* leaf types in ordinary type positions / contexts written as a bare reference
ScuTypeLeaves(s) ==
  UNION {ScuLeaves(s[p[1]].cts[p[2]]) : p \in ScuComPairs(s)}
  \cup UNION {LET d == s[p[1]].ets[p[2]]
              IN UNION {ScuLeaves(d.attrs[k][1]) : k \in DOMAIN d.attrs} \cup (IF d.tags = <<"none">> THEN {} ELSE ScuLeaves(d.tags))
              : p \in ScuEntPairs(s)}
  \cup UNION {LET d == s[p[1]].acts[p[2]]
              IN IF d.applies /\ d.context[1] # "Ref" THEN ScuLeaves(d.context) ELSE {} : p \in ScuActPairs(s)}
ScuContextRefs(s) ==
  UNION {LET d == s[p[1]].acts[p[2]] IN IF d.applies /\ d.context[1] = "Ref" THEN {d.context} ELSE {} : p \in ScuActPairs(s)}
\* the Cedar syntax writes every type reference as a bare path (admits both kinds), except the
\* `context: Path` position (common types only); appliesTo needs non-empty principal and resource lists
ScCedarExpressible(s) ==
  /\ \A t \in ScuTypeLeaves(s) : t[1] = "Ref" => t[2] = "eoc"
  /\ \A t \in ScuContextRefs(s) : t[2] = "common"
  /\ \A p \in ScuActPairs(s) : LET d == s[p[1]].acts[p[2]] IN d.applies => d.principals # {} /\ d.resources # {}
\* the JSON syntax writes a common-type-only reference as {"type": name}: impossible for its own keywords
ScuJsonKeywords == {"String", "Long", "Boolean", "Set", "Record", "Entity", "Extension", "EntityOrCommon"}
ScuJsonRefOk(t) == (t[1] = "Ref" /\ t[2] = "common") => ~(t[3] = "" /\ t[4] \in ScuJsonKeywords)
ScJsonExpressible(s) == \A t \in ScuTypeLeaves(s) \cup ScuContextRefs(s) : ScuJsonRefOk(t)
==============================================================================
