--------------------------- MODULE Trace_EntityJson ---------------------------
(***************************************************************************)
(* Trace specification for family "entityjson" (C10).                      *)
(*  - parsing a JSON tree with the schema gives EjDec of it (accepted iff  *)
(*    it decodes and conforms), without the schema EjDecNS of it;          *)
(*  - for the generated templates: whatever per-node choice was written,   *)
(*    the schema-directed result is the template's value, and the explicit *)
(*    form gives the same value without the schema;                        *)
(*  - serialising any parsed / constructed datum gives a document that the *)
(*    SPECIFICATION's schema-less decoder maps back to the datum (and with *)
(*    the schema too whenever the datum conforms); the library's reparses  *)
(*    agree, and its deep_eq says so;                                      *)
(*  - schema-based loading of a store adds exactly the schema's action     *)
(*    entities; a datum with a reserved record key is refused by the       *)
(*    serialiser, every other datum is accepted.                           *)
(***************************************************************************)
EXTENDS EntityJson, Json, IOUtils

Rec == ndJsonDeserialize(IOEnv.TRACE)
VARIABLES l, bad

RECURSIVE FromWireJ(_)
FromWireJ(j) ==
  CASE j[1] = "jobj" -> <<"jobj", [k \in DOMAIN j[2] |-> FromWireJ(j[2][k])]>>
    [] j[1] = "jarr" -> <<"jarr", [i \in 1..Len(j[2]) |-> FromWireJ(j[2][i])]>>
    [] OTHER -> j
RECURSIVE FromWireT(_)
FromWireT(t) ==
  CASE t[1] = "set" -> <<"set", {FromWireT(t[2][i]) : i \in 1..Len(t[2])}>>
    [] t[1] = "rec" -> <<"rec", [k \in DOMAIN t[2] |-> FromWireT(t[2][k])]>>
    [] t[1] = "extap" -> <<"extap", t[2], FromWireT(t[3])>>
    [] OTHER -> t
FromWireTmpl(w) ==
  LET tagIdx == 1..Len(w.tags)
  IN [uid |-> w.uid, attrs |-> [k \in DOMAIN w.attrs |-> FromWireT(w.attrs[k])],
      tags |-> [k \in {w.tags[i][1] : i \in tagIdx} |-> FromWireT(w.tags[CHOOSE i \in tagIdx : w.tags[i][1] = k][2])],
      parents |-> {w.parents[i] : i \in 1..Len(w.parents)}]
FromWireEnt(w) == [uid |-> w.uid,
                   attrs |-> [k \in DOMAIN w.attrs |-> FromWireV(w.attrs[k])],
                   tags |-> {<<w.tags[j][1], FromWireV(w.tags[j][2])>> : j \in 1..Len(w.tags)},
                   anc |-> {w.anc[j] : j \in 1..Len(w.anc)}]

Sc == Sc10
NoE == <<"err", "x">>
EntSerializable(v) == (\A k \in DOMAIN v.attrs : EjSerializable(v.attrs[k])) /\ (\A t \in v.tags : EjSerializable(t[2]))

\* ---- what the specification says a document denotes
SpecEnt(jt, useSc) ==
  LET d == EjDecEntity(jt, Sc, useSc)
  IN IF d[1] = "okE" /\ (useSc => ConformsEntity(Sc, d[2])) THEN d ELSE NoE
SpecStore(jt, useSc) ==
  IF jt[1] # "jarr" THEN NoE
  ELSE LET ds == [i \in 1..Len(jt[2]) |-> EjDecEntity(jt[2][i], Sc, useSc)]
       IN IF \E i \in 1..Len(ds) : ds[i][1] # "okE" THEN NoE
          ELSE LET es == {ds[i][2] : i \in 1..Len(ds)}
                   st == EjStoreOf(es)
               IN IF Cardinality({e.uid : e \in es}) # Len(ds) THEN NoE                 \* duplicate uid
                  ELSE IF \E u \in DOMAIN st : u \in st[u].anc THEN NoE                   \* cycle
                  ELSE IF useSc /\ ~EjStoreConforms(Sc, st) THEN NoE
                  ELSE <<"okS", IF useSc THEN EjActionEntities(Sc) @@ st ELSE st>>
SpecCtx(jt, useSc, action) ==
  LET d == IF useSc THEN EjDec(jt, <<"Record", Sc.acts[action[3]].context>>) ELSE EjDecNS(jt)
  IN IF d[1] = "rec" THEN <<"okC", d>> ELSE NoE

MatchE(r, d) == IF d[1] = "okE" THEN r[1] = "ok" /\ FromWireEnt(r[2]) = d[2] ELSE r[1] = "err"
MatchS(r, d) == IF d[1] = "okS" THEN r[1] = "ok" /\ FromWireStore(r[2]) = d[2] ELSE r[1] = "err"
MatchC(r, d) == IF d[1] = "okC" THEN r[1] = "ok" /\ FromWireV(r[2]) = d[2] ELSE r[1] = "err"

\* ---- round trips of a datum the library holds (v = what the specification says it holds)
RtEnt(rt, v) ==
  IF ~EntSerializable(v) THEN rt.ser[1] = "err"
  ELSE /\ rt.ser[1] = "ok" /\ rt.ser_same
       /\ LET st == FromWireJ(rt.ser[2])
              sNS == SpecEnt(st, FALSE)
              sWS == SpecEnt(st, TRUE)
          IN /\ sNS = <<"okE", v>>
             /\ ConformsEntity(Sc, v) => sWS = <<"okE", v>>
             /\ MatchE(rt.re_ns, sNS) /\ rt.deq_ns
             /\ MatchE(rt.re_ws, sWS) /\ (rt.deq_ws <=> sWS = <<"okE", v>>)
StoreSerializable(s) == \A u \in DOMAIN s : EntSerializable(s[u])
RtStore(rt, s) ==
  IF ~StoreSerializable(s) THEN rt.ser[1] = "err"
  ELSE /\ rt.ser[1] = "ok" /\ rt.ser_same
       /\ LET st == FromWireJ(rt.ser[2])
              sNS == SpecStore(st, FALSE)
              sWS == SpecStore(st, TRUE)
          IN /\ sNS = <<"okS", s>>
             /\ MatchS(rt.re_ns, sNS) /\ rt.deq_ns
             /\ MatchS(rt.re_ws, sWS) /\ (rt.deq_ws <=> sWS = <<"okS", s>>)
RtCtx(rt, v, action) ==
  IF ~EjSerializable(v) THEN rt.ser[1] = "err"
  ELSE /\ rt.ser[1] = "ok"
       /\ LET st == FromWireJ(rt.ser[2])
              sNS == SpecCtx(st, FALSE, action)
              sWS == SpecCtx(st, TRUE, action)
          IN /\ sNS = <<"okC", v>>
             /\ ScInhabits(v, <<"Record", Sc.acts[action[3]].context>>) => sWS = <<"okC", v>>
             /\ MatchC(rt.re_ns, sNS) /\ rt.deq_ns
             /\ MatchC(rt.re_ws, sWS) /\ (rt.deq_ws <=> sWS = <<"okC", v>>)

HasF(ev, k) == k \in DOMAIN ev
MembersOk(ms, store) ==
  /\ {ms[i].uid : i \in 1..Len(ms)} = DOMAIN store
  /\ \A i \in 1..Len(ms) : LET u == ms[i].uid
                             IN RtEnt(ms[i].rt, [uid |-> u, attrs |-> store[u].attrs, tags |-> store[u].tags, anc |-> store[u].anc])
Explained(ev) ==
  /\ ev.ev = "EntityJson"
  /\ CASE ev.kind = "entity" ->
            LET j == FromWireJ(ev.json)
                dws == SpecEnt(j, TRUE)
                dns == SpecEnt(j, FALSE)
            IN /\ MatchE(ev.ws, dws) /\ MatchE(ev.ws_str, dws) /\ MatchE(ev.ns, dns)
               /\ HasF(ev, "tmpl") => dws = <<"okE", EjEntityVal(FromWireTmpl(ev.tmpl))>>     \* any choice, with the schema
               /\ (HasF(ev, "tmpl") /\ ev.expl) => dns = dws                                   \* explicit escapes, without it
               /\ HasF(ev, "rt_ws") <=> dws[1] = "okE"
               /\ HasF(ev, "rt_ns") <=> dns[1] = "okE"
               /\ dws[1] = "okE" => RtEnt(ev.rt_ws, dws[2])
               /\ dns[1] = "okE" => RtEnt(ev.rt_ns, dns[2])
       [] ev.kind = "store" ->
            LET j == FromWireJ(ev.json)
                dws == SpecStore(j, TRUE)
                dns == SpecStore(j, FALSE)
                tm == {FromWireTmpl(ev.tmpl[i]) : i \in 1..Len(ev.tmpl)}
                hasAct == \E e \in tm : IsActionUid(e.uid)
            IN /\ MatchS(ev.ws, dws) /\ MatchS(ev.ws_str, dws) /\ MatchS(ev.ns, dns)
               /\ ~hasAct => MatchS(ev.ws_add, dws)
               /\ dws = <<"okS", EjActionEntities(Sc) @@ EjStoreOf({EjEntityVal(e) : e \in tm})>>   \* any choice; exactly the schema's action entities are added
               /\ ev.expl => dns = <<"okS", EjStoreOf({EjEntityVal(e) : e \in tm})>>
               /\ HasF(ev, "rt_ws") /\ HasF(ev, "rt_ns")
               /\ RtStore(ev.rt_ws, dws[2]) /\ RtStore(ev.rt_ns, dns[2])
               \* each entity of a loaded store, serialised on its own, keeps ALL its ancestors (the store has closed them)
               /\ HasF(ev, "members_ws") /\ HasF(ev, "members_ns")
               /\ MembersOk(ev.members_ws, dws[2]) /\ MembersOk(ev.members_ns, dns[2])
       [] ev.kind = "context" ->
            LET j == FromWireJ(ev.json)
                dws == SpecCtx(j, TRUE, ev.action)
                dns == SpecCtx(j, FALSE, ev.action)
            IN /\ MatchC(ev.ws, dws) /\ MatchC(ev.ws_str, dws) /\ MatchC(ev.ns, dns)
               /\ HasF(ev, "tmpl") => dws = <<"okC", EjVal(<<"rec", [k \in DOMAIN ev.tmpl |-> FromWireT(ev.tmpl[k])]>>)>>
               /\ (HasF(ev, "tmpl") /\ ev.expl) => dns = dws
               /\ HasF(ev, "rt_ws") <=> dws[1] = "okC"
               /\ HasF(ev, "rt_ns") <=> dns[1] = "okC"
               /\ dws[1] = "okC" => RtCtx(ev.rt_ws, dws[2], ev.action)
               /\ dns[1] = "okC" => RtCtx(ev.rt_ns, dns[2], ev.action)
       [] ev.kind = "api" ->
            LET v == FromWireEnt(ev.ent)
            IN /\ FromWireEnt(ev.built) = v
               /\ RtEnt(ev.rt, v)
               /\ RtStore(ev.rt_store, EjStoreOf({v}))
       [] ev.kind = "apictx" ->
            LET v == FromWireV(ev.ctx)
            IN /\ FromWireV(ev.built) = v
               /\ RtCtx(ev.rt, v, ev.action)

Init == l = 1 /\ bad = {}
Next == /\ l <= Len(Rec)
        /\ l' = l + 1
        /\ bad' = IF Explained(Rec[l]) THEN bad ELSE bad \cup {l}
Report == (l = Len(Rec) + 1) => PrintT(<<"TRACE-RESULT", Len(Rec), bad>>)
Accepted == TLCGet("stats").diameter = Len(Rec) + 1
==============================================================================
