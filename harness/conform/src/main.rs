//! conform: drives the real cedar code from abstract (wire) cases and records
//! what it did as NDJSON trace events, to be validated by TLC against the
//! TLA+ specification in /verif/spec.
//!
//!   conform replay <family> <cases.ndjson> <out.ndjson>
//!   conform drive  <family> <seed> <n> <out.ndjson>

mod abs;
mod fam_authz;
mod fam_batched;
mod fam_conform;
mod schema;
mod fam_eval;
mod fam_ext;
mod fam_ffi;
mod fam_format;
mod fam_formats;
mod fam_front;
mod fam_partial;
mod fam_pset;
mod fam_robust;
mod fam_schemasyn;
mod fam_entityjson;
mod schema_syntax;
mod fam_slice;
mod fam_store;
mod fam_symcc;
mod fam_syntax;
mod fam_tpe;
mod fam_validate;
mod gen;
mod gen_typed;
mod render;

use serde_json::{json, Value as J};
use std::io::{BufRead, BufWriter, Write};
use std::panic::{catch_unwind, AssertUnwindSafe};

/// run one case; a panic in cedar is data (outcome "panic"), never a harness failure
pub fn guarded(case: &J, f: &dyn Fn(&J) -> Result<J, String>) -> J {
    match catch_unwind(AssertUnwindSafe(|| f(case))) {
        Ok(Ok(ev)) => ev,
        Ok(Err(e)) => json!({"ev": "HarnessError", "error": e, "case": case}),
        Err(p) => {
            let msg = if let Some(s) = p.downcast_ref::<&str>() {
                s.to_string()
            } else if let Some(s) = p.downcast_ref::<String>() {
                s.clone()
            } else {
                "panic".to_string()
            };
            json!({"ev": "Panic", "msg": msg, "case": case})
        }
    }
}

/// a family may answer one event or {"ev":"Multi","events":[..]} (one line each)
fn emit(w: &mut impl Write, ev: &J) {
    if ev["ev"] == "Multi" {
        for e in ev["events"].as_array().into_iter().flatten() {
            writeln!(w, "{}", e).expect("write");
        }
    } else {
        writeln!(w, "{}", ev).expect("write");
    }
}

type Runner = fn(&J) -> Result<J, String>;
type Driver = fn(u64, usize) -> Vec<J>;

fn family(name: &str) -> Option<(Runner, Driver)> {
    Some(match name {
        "eval" => (fam_eval::run as Runner, fam_eval::drive as Driver),
        "authz" => (fam_authz::run, fam_authz::drive),
        "store" => (fam_store::run, fam_store::drive),
        "pset" => (fam_pset::run, fam_pset::drive),
        "ext" => (fam_ext::run, fam_ext::drive),
        "conform" => (fam_conform::run, fam_conform::drive),
        "validate" => (fam_validate::run, fam_validate::drive),
        "partial" => (fam_partial::run, fam_partial::drive),
        "pstore" => (fam_partial::run_pstore, fam_partial::drive),
        "tpe" => (fam_tpe::run, fam_tpe::drive),
        "query" => (fam_tpe::run_query, fam_tpe::drive),
        "typedgen" => (gen_typed::run, gen_typed::drive),
        "batched" => (fam_batched::run, fam_batched::drive),
        "slice" => (fam_slice::run, fam_slice::drive),
        "syntax" => (fam_syntax::run, fam_syntax::drive),
        "format" => (fam_format::run, fam_format::drive),
        "ffi" => (fam_ffi::run, fam_ffi::drive),
        "symcc" => (fam_symcc::run, fam_symcc::drive),
        "robust" => (fam_robust::run, fam_robust::drive),
        "formats" => (fam_formats::run, fam_formats::drive),
        "front" => (fam_front::run, fam_front::drive),
        "schemasyn" => (fam_schemasyn::run, fam_schemasyn::drive),
        "entityjson" => (fam_entityjson::run, fam_entityjson::drive),
        _ => return None,
    })
}

fn main() {
    std::panic::set_hook(Box::new(|_| {})); // panics are recorded, not printed
    let args: Vec<String> = std::env::args().collect();
    if args.len() < 2 {
        eprintln!("usage: conform replay|drive ...");
        std::process::exit(2);
    }
    let code = match args[1].as_str() {
        "replay" if args.len() == 5 => replay(&args[2], &args[3], &args[4]),
        "drive" if args.len() == 6 => drive(&args[2], &args[3], &args[4], &args[5]),
        _ => {
            eprintln!("bad arguments");
            2
        }
    };
    std::process::exit(code);
}

fn replay(fam: &str, cases: &str, out: &str) -> i32 {
    let Some((runner, _)) = family(fam) else {
        eprintln!("unknown family {fam}");
        return 2;
    };
    let inp = match std::fs::File::open(cases) {
        Ok(f) => std::io::BufReader::new(f),
        Err(e) => {
            eprintln!("cannot open {cases}: {e}");
            return 2;
        }
    };
    let mut w = BufWriter::new(std::fs::File::create(out).expect("create out"));
    let mut n = 0usize;
    for line in inp.lines() {
        let line = line.expect("read");
        if line.trim().is_empty() {
            continue;
        }
        let case: J = match serde_json::from_str(&line) {
            Ok(c) => c,
            Err(e) => {
                eprintln!("bad case line: {e}");
                return 2;
            }
        };
        let ev = guarded(&case, &|c| runner(c));
        emit(&mut w, &ev);
        n += 1;
    }
    w.flush().expect("flush");
    eprintln!("replayed {n} cases");
    0
}

fn drive(fam: &str, seed: &str, n: &str, out: &str) -> i32 {
    let Some((runner, driver)) = family(fam) else {
        eprintln!("unknown family {fam}");
        return 2;
    };
    let seed: u64 = seed.parse().unwrap_or(0);
    let n: usize = n.parse().unwrap_or(100);
    let cases = driver(seed, n);
    let mut w = BufWriter::new(std::fs::File::create(out).expect("create out"));
    for case in &cases {
        let ev = guarded(case, &|c| runner(c));
        emit(&mut w, &ev);
    }
    w.flush().expect("flush");
    eprintln!("drove {} cases", cases.len());
    0
}
