------------------------------ MODULE MC_Syntax ------------------------------
(***************************************************************************)
(* Case generator and model-level checks for C05.  Init picks a coordinate;*)
(* Next produces, as its successors, surface policy sets; each is printed  *)
(* with the token sequences of the three styles (binding G) and checked    *)
(* for well-formed rendering (binding M).                                  *)
(***************************************************************************)
EXTENDS Syntax, Int64, TLC, Json

CONSTANT Tier            \* "quick" | "thorough"

VARIABLES coord, done, c
Quick == Tier = "quick"

\* ------------------------------------------------------------------ builders
YL(x) == <<"lit", <<"long", x>>>>
YN(n) == YL(OfInt(n))
YB(b) == <<"lit", <<"bool", b>>>>
YS(cps) == <<"lit", <<"str", cps>>>>
YEnt(ty, cps) == <<"ent", ty, cps>>
YE(ty, cps) == <<"lit", YEnt(ty, cps)>>
YV(n) == <<"var", n>>
YG(e, a) == <<"get", e, a>>
YBin(op, a, b) == <<"bin", op, a, b>>
YCall(f, args) == <<"call", f, args>>
YWild == 0 - 1

Ua == YEnt("User", <<97>>)
Gg == YEnt("NS::Group", <<103>>)
Dd == YEnt("A::B::Doc", <<100, 32, 49>>)
Av == YEnt("Action", <<118>>)
Ae == YEnt("NS::Action", <<101>>)
Pn == YG(YV("principal"), "n")
Cs == YG(YV("context"), "s")
Dec15 == YCall("decimal", <<YS(<<49, 46, 53>>)>>)
Ip1 == YCall("ip", <<YS(<<49, 46, 50, 46, 51, 46, 52>>)>>)

YPol(eff, anns, pr, ac, re, conds) ==
  [effect |-> eff, annotations |-> anns, principal |-> pr, action |-> ac, resource |-> re, conds |-> conds]
AnyS == <<"any">>
WhenPol(e) == YPol("permit", <<>>, AnyS, AnyS, AnyS, <<<<"when", e>>>>)
One(e) == <<WhenPol(e)>>

\* ------------------------------------------------------------------ operator shapes
Bin2 == <<"or", "and", "eq", "less", "lessEq", "in", "add", "sub", "mul", "contains", "containsAll",
          "containsAny", "getTag", "hasTag", "gt", "ge", "ne", "isIn", "lessThan", "isInRange", "offset",
          "set2", "rec2">>
Un1 == <<"not", "neg", "isEmpty", "getN", "getIf", "hasN", "hasQ", "hasChain", "like", "is", "isIpv4",
         "toDate", "decimal", "set1", "rec1">>
AllOps == Bin2 \o Un1 \o <<"if">>
SeqSet(s) == {s[i] : i \in 1..Len(s)}
Arity(k) == IF k \in SeqSet(Bin2) THEN 2 ELSE IF k = "if" THEN 3 ELSE 1
YMk(k, x) ==
  CASE k \in {"or", "and"} -> <<k, x[1], x[2]>>
    [] k \in {"eq", "less", "lessEq", "in", "add", "sub", "mul", "contains", "containsAll", "containsAny",
              "getTag", "hasTag"} -> YBin(k, x[1], x[2])
    [] k \in {"gt", "ge", "ne"} -> <<"rel", k, x[1], x[2]>>
    [] k = "isIn" -> <<"isIn", x[1], "User", x[2]>>
    [] k \in {"lessThan", "isInRange", "offset"} -> YCall(k, <<x[1], x[2]>>)
    [] k = "set2" -> <<"set", <<x[1], x[2]>>>>
    [] k = "rec2" -> <<"rec", << <<"b", x[1]>>, <<"a", x[2]>> >> >>
    [] k \in {"not", "neg", "isEmpty"} -> <<k, x[1]>>
    [] k = "getN" -> YG(x[1], "n")
    [] k = "getIf" -> YG(x[1], "if")
    [] k = "hasN" -> <<"has", x[1], "n">>
    [] k = "hasQ" -> <<"has", x[1], "a b">>
    [] k = "hasChain" -> <<"hasChain", x[1], <<"a", "b", "c">>>>
    [] k = "like" -> <<"like", x[1], <<97, YWild, 42>>>>
    [] k = "is" -> <<"is", x[1], "NS::User">>
    [] k \in {"isIpv4", "toDate", "decimal"} -> YCall(k, <<x[1]>>)
    [] k = "set1" -> <<"set", <<x[1]>>>>
    [] k = "rec1" -> <<"rec", << <<"if", x[1]>> >> >>
    [] k = "if" -> <<"if", x[1], x[2], x[3]>>

\* operand fillers: member expressions, negative literals (a unary expression), boolean literals (folding)
Atom(v, i) ==
  CASE v = "v" -> <<Pn, Cs, YV("resource")>>[i]
    [] v = "n" -> <<YN(0 - 1), YN(0 - 2), YN(0 - 3)>>[i]
    [] v = "b" -> <<YB(TRUE), YB(FALSE), YB(TRUE)>>[i]
Atoms(v, k) == [i \in 1..Arity(k) |-> Atom(v, i)]
Put(xs, i, e) == [xs EXCEPT ![i] = e]

Depth2(k) ==
  {YMk(k, Put(Atoms(v, k), i, YMk(j, Atoms(v, j)))) : i \in 1..Arity(k), j \in SeqSet(AllOps), v \in {"v", "n", "b"}}

Red3 == IF Quick THEN <<"or", "and", "eq", "sub", "mul", "neg", "not", "getN", "contains", "if">>
        ELSE <<"or", "and", "eq", "ne", "less", "in", "add", "sub", "mul", "neg", "not", "getN", "getIf", "hasN",
               "contains", "isEmpty", "like", "is", "isIn", "lessThan", "set1", "rec1", "if">>
Depth3Ok(k) ==
  UNION {{YMk(k, Put(Atoms(v, k), i, YMk(j, Put(Atoms(v, j), i2, YMk(m, Atoms(v, m)))))) :
            i \in 1..Arity(k), i2 \in 1..Arity(j), m \in SeqSet(Red3), v \in (IF Quick THEN {"n"} ELSE {"v", "n", "b"})} : j \in SeqSet(Red3)}

\* ------------------------------------------------------------------ chains
RECURSIVE ApplyUn(_, _)
ApplyUn(ops, e) == IF Len(ops) = 0 THEN e ELSE <<Head(ops), ApplyUn(Tail(ops), e)>>
UnSeqs(n) == UNION {[1..k -> {"not", "neg"}] : k \in 1..n}
UnBases == <<Pn, YN(1), YN(0), YN(0 - 1), YL(I64Min), YL(I64Max), YB(TRUE), YBin("add", Pn, YN(1)), YG(YN(0 - 1), "n")>>
UnChains(b) == {ApplyUn(s, UnBases[b]) : s \in UnSeqs(IF Quick THEN 5 ELSE 7)}

ChainOps == {"or", "and", "add", "sub", "mul", "eq"}
A1 == Pn
A2 == Cs
A3 == YN(2)
A4 == YV("resource")
Mk2(o, a, b) == IF o \in {"or", "and"} THEN <<o, a, b>> ELSE YBin(o, a, b)
BinChains(o1) ==
  {Mk2(o1, Mk2(o2, Mk2(o3, A1, A2), A3), A4) : o2 \in ChainOps, o3 \in ChainOps}
  \cup {Mk2(o1, A1, Mk2(o2, A2, Mk2(o3, A3, A4))) : o2 \in ChainOps, o3 \in ChainOps}
  \cup {Mk2(o1, Mk2(o2, A1, A2), Mk2(o3, A3, A4)) : o2 \in ChainOps, o3 \in ChainOps}
  \cup {Mk2(o1, A1, Mk2(o2, Mk2(o3, A2, A3), A4)) : o2 \in ChainOps, o3 \in ChainOps}

\* member accesses and calls applied in sequence to a receiver
Accs == <<"getN", "getIf", "contains", "isEmpty", "lessThan", "getTag", "hasTag", "isIpv4">>
ApplyAcc(a, e) ==
  CASE a = "getN" -> YG(e, "n")
    [] a = "getIf" -> YG(e, "if")
    [] a \in {"contains", "getTag", "hasTag"} -> YBin(a, e, YS(<<107>>))
    [] a = "isEmpty" -> <<"isEmpty", e>>
    [] a = "lessThan" -> YCall("lessThan", <<e, Dec15>>)
    [] a = "isIpv4" -> YCall("isIpv4", <<e>>)
RECURSIVE ApplyAccs(_, _, _)
ApplyAccs(as, i, e) == IF i > Len(as) THEN e ELSE ApplyAccs(as, i + 1, ApplyAcc(as[i], e))
Receivers == <<YV("principal"), YN(0 - 1), YN(1), YS(<<115>>), YE("User", <<97>>),
               <<"set", <<YN(1)>>>>, <<"rec", << <<"n", YN(1)>> >> >>,
               <<"if", YB(TRUE), Pn, Cs>>, YBin("add", Pn, YN(1)), Dec15, <<"neg", Pn>>, <<"not", Pn>>,
               <<"has", YV("principal"), "n">>, <<"and", Pn, Cs>>>>
AccSeqs(n) == UNION {[1..k -> SeqSet(Accs)] : k \in 1..n}
Members(r) == {ApplyAccs(s, 1, Receivers[r]) : s \in AccSeqs(IF Quick /\ r > 3 THEN 2 ELSE 3)}

\* i64 boundary literals in the positions where -N matters
I64Pred == Sub(I64Max, OfInt(1))[2]
I64Succ == Add(I64Min, OfInt(1))[2]
Longs == <<YN(0), YN(1), YL(I64Pred), YL(I64Max), YN(0 - 1), YL(I64Succ), YL(I64Min)>>
LongUses(x) ==
  {x, <<"neg", x>>, <<"neg", <<"neg", x>>>>, <<"not", x>>, YG(x, "n"), <<"isEmpty", x>>, YBin("sub", Pn, x), YBin("sub", x, Pn),
   YBin("sub", x, x), YBin("mul", x, x), YBin("less", x, Pn), <<"rel", "gt", Pn, x>>, <<"set", <<x, x>>>>,
   <<"if", x, x, x>>, YBin("add", <<"neg", x>>, <<"neg", x>>), <<"like", x, <<YWild>>>>}

\* ------------------------------------------------------------------ strings, ids, patterns
\* a " \ newline NUL * U+1F600 U+202E ' e-acute combining-acute space tab CR DEL { / $ U+FEFF
Cps == IF Quick THEN {97, 34, 92, 10, 0, 42, 128512, 8238, 39, 233, 769, 32, 9, 13, 127, 123, 47}
       ELSE {97, 34, 92, 10, 0, 42, 128512, 8238, 39, 233, 769, 32, 9, 13, 127, 123, 47, 36, 65279, 117, 120}
SeqsUpTo(Sy, n) == UNION {[1..k -> Sy] : k \in 0..n}
StrN == IF Quick THEN 2 ELSE 3
Strs == SeqsUpTo(Cps, StrN)
PatSyms == {97, YWild, 42, 92, 34}
Pats == SeqsUpTo(PatSyms, IF Quick THEN 3 ELSE 4)
StringCases(place) ==
  CASE place = "str" -> {One(YBin("eq", YS(s), Cs)) : s \in Strs}
    [] place = "eid" -> {<<YPol("forbid", <<>>, <<"eq", YEnt("User", s)>>, AnyS, <<"in", YEnt("NS::Group", s)>>,
                                <<<<"when", YBin("eq", YV("principal"), YE("User", s))>>>>)>> : s \in Strs}
    [] place = "ann" -> {<<YPol("permit", << <<"a", <<"s", s>>>> >>, AnyS, AnyS, AnyS, <<>>)>> : s \in Strs}
    [] place = "pat" -> {One(<<"like", Cs, s>>) : s \in Strs}
    [] place = "wild" -> {One(<<"like", Cs, p>>) : p \in Pats}

\* reserved words and odd strings as attribute names / record keys
AttrPool == <<"n", "if", "true", "then", "in", "has", "like", "is", "__cedar", "principal", "permit", "when",
              "_x", "", "a b", "a\"b", "a\\b", "0a", "s",
              \* identifier-like names with non-ASCII letters / digits: never identifiers, always quoted
              "naïve", "x٣", "é">>
AttrCases(a) ==
  {One(YG(YV("principal"), a)), One(<<"has", YV("context"), a>>), One(<<"rec", << <<a, YN(1)>> >> >>),
   One(YG(YG(YV("context"), a), a)), One(<<"rec", << <<"c", YN(1)>>, <<a, Pn>>, <<"b", YN(2)>> >> >>),
   One(YG(<<"rec", << <<a, YN(1)>> >> >>, a)), One(<<"has", <<"rec", << <<a, YN(1)>> >> >>, a>>)}
  \cup (IF a \in SxPlainIdents /\ a # "n"
        THEN {One(<<"hasChain", YV("principal"), <<a>>>>), One(<<"hasChain", YV("context"), <<a, "n", a>>>>),
              One(<<"hasChain", YV("context"), <<"n", a>>>>)}
        ELSE {})

\* ------------------------------------------------------------------ policies
PScopes(u, g) == << AnyS, <<"eq", u>>, <<"in", g>>, <<"is", "User">>, <<"is", "NS::User">>, <<"isin", "User", g>>,
                    <<"eqslot">>, <<"inslot">>, <<"isinslot", "NS::User">> >>
AScopes == << AnyS, <<"eq", Av>>, <<"eq", Ae>>, <<"in", Av>>, <<"inset", <<>>>>, <<"inset", <<Av>>>>,
              <<"inset", <<Av, Ae>>>>, <<"inset", <<Ae, Av, Av>>>> >>
ScopeCases(pi) ==
  {<<YPol(eff, <<>>, PScopes(Ua, Gg)[pi], AScopes[ai], PScopes(Dd, Gg)[ri],
          IF (Quick /\ (ai + ri) % 2 = 0) \/ (~Quick /\ cv = 0) THEN <<>> ELSE <<<<"unless", Pn>>>>)>> :
     eff \in {"permit", "forbid"}, ai \in 1..Len(AScopes), ri \in 1..9, cv \in (IF Quick THEN {0} ELSE {0, 1})}

AnnKeys == <<"id", "a", "if", "permit">>
AnnVals == << <<"none">>, <<"s", <<>>>>, <<"s", <<118>>>>, <<"s", <<34, 10, 128512>>>> >>
DistinctSeqs(n) == {s \in UNION {[1..k -> 1..Len(AnnKeys)] : k \in 0..n} : \A i, j \in 1..Len(s) : i # j => s[i] # s[j]}
AnnCases(shift) ==
  {<<YPol("permit", [i \in 1..Len(s) |-> <<AnnKeys[s[i]], AnnVals[((i + shift) % 4) + 1]>>], AnyS, <<"eq", Av>>, AnyS,
          <<<<"when", Pn>>>>)>> : s \in DistinctSeqs(3)}

CondBodies == <<YB(TRUE), YB(FALSE), Pn>>
CondOpts == {<<k, CondBodies[b]>> : k \in {"when", "unless"}, b \in 1..3}
CondCases(first) ==
  {<<YPol("forbid", <<>>, AnyS, AnyS, <<"is", "User">>, <<first>> \o rest)>> : rest \in SeqsUpTo(CondOpts, 2)}

PolPool == << YPol("permit", <<>>, AnyS, AnyS, AnyS, <<>>),
              YPol("forbid", << <<"id", <<"s", <<120>>>>>> >>, <<"eq", Ua>>, AnyS, AnyS, <<<<"when", Pn>>>>),
              YPol("permit", <<>>, <<"eqslot">>, <<"eq", Av>>, <<"inslot">>, <<<<"unless", Cs>>>>),
              YPol("permit", << <<"id", <<"s", <<120>>>>>> >>, AnyS, <<"in", Av>>, <<"is", "User">>, <<<<"when", <<"rel", "ne", Pn, YN(0 - 1)>>>>>>),
              YPol("forbid", <<>>, <<"isinslot", "User">>, AnyS, AnyS, <<>>),
              YPol("permit", <<>>, AnyS, AnyS, AnyS, <<>>) >>
SetCases(first) ==
  {[i \in 1..Len(s) |-> PolPool[s[i]]] :
     s \in {t \in UNION {[1..k -> 1..Len(PolPool)] : k \in 1..(IF Quick THEN 3 ELSE 4)} : t[1] = first}}
  \cup (IF Quick THEN {[i \in 1..4 |-> PolPool[((first + i * j) % 6) + 1]] : j \in 0..5} ELSE {})

\* ------------------------------------------------------------------ texts the grammar rejects
Num63 == <<"num", Mag63>>
N1 == <<"num", <<1>>>>
N2 == <<"num", <<2>>>>
N3 == <<"num", <<3>>>>
Rejects == <<
  <<Num63>>, <<"-", "(", Num63, ")">>, <<"(", Num63, ")">>,
  <<"-", "-", "-", "-", "-", N1>>, <<"!", "!", "!", "!", "!", "true">>,
  <<"!", "-", N1>>, <<"-", "!", "true">>,
  <<N1, "<", N2, "<", N3>>, <<N1, "==", N2, "==", N3>>, <<N1, "<", N2, "==", "true">>,
  <<"principal", ".", "if">>, <<"principal", ".", "__cedar">>, <<"{", "if", ":", N1, "}">>, <<"principal", "has", "if">>,
  <<"principal", "has", "true">>, <<"principal", "has", "a", ".", "if">>,
  <<"{", "a", ":", N1, ",", "a", ":", N2, "}">>, <<"{", <<"qstr", "a">>, ":", N1, ",", "a", ":", N2, "}">>,
  <<"lessThan", "(", "principal", ",", "context", ")">>, <<"principal", ".", "decimal", "(", ")">>,
  <<"contains", "(", "principal", ",", N1, ")">>, <<"principal", ".", "contains", "(", ")">>,
  <<"principal", ".", "isEmpty", "(", N1, ")">>,
  <<"?principal">>, <<"principal", "==", "?resource">>,
  <<N1, "/", N2>>, <<N1, "%", N2>>, <<"if", "true", "then", N1>>,
  <<"principal", "like", "(", <<"pat", <<97>>>>, ")">>, <<"principal", "is", "(", "User", ")">>,
  <<"principal", "[", "(", <<"qstr", "a">>, ")", "]">>, <<"principal", "[", N1, "]">>,
  <<"principal", "(", N1, ")">>, <<"(", "principal", ")", "(", N1, ")">>,
  <<"principal", "in", "resource", "is", "User">>
>>
RejectWrap(ts) == <<"permit", "(", "principal", ",", "action", ",", "resource", ")", "when", "{">> \o ts \o <<"}", ";">>
\* rejected policies (not expressions)
PolRejects == <<
  <<"permit", "(", "principal", ",", "action", ")", ";">>,
  <<"permit", "(", "principal", ",", "action", ",", "resource", ",", "context", ")", ";">>,
  <<"permit", "(", "action", ",", "principal", ",", "resource", ")", ";">>,
  <<"permit", "(", "principal", ",", "action", "is", "Action", ",", "resource", ")", ";">>,
  <<"permit", "(", "principal", "==", "?resource", ",", "action", ",", "resource", ")", ";">>,
  <<"permit", "(", "principal", ",", "action", "==", <<"name", "User">>, "::", <<"estr", <<97>>>>, ",", "resource", ")", ";">>,
  <<"@", "a", "(", <<"str", <<>>>>, ")", "@", "a", "(", <<"str", <<>>>>, ")", "permit", "(", "principal", ",", "action", ",", "resource", ")", ";">>,
  <<"allow", "(", "principal", ",", "action", ",", "resource", ")", ";">>,
  <<"permit", "(", "principal", ",", "action", ",", "resource", ")", "if", "{", "true", "}", ";">>,
  <<"permit", "(", "principal", ",", "action", ",", "resource", ")", "when", "{", "}", ";">>,
  <<"permit", "(", "principal", ",", "action", ",", "resource", ")">>
>>

\* ------------------------------------------------------------------ coordinates
Coords ==
  {<<"d2", AllOps[i]>> : i \in 1..Len(AllOps)}
  \cup {<<"d3", Red3[i]>> : i \in 1..Len(Red3)}
  \cup {<<"un", b>> : b \in 1..Len(UnBases)}
  \cup {<<"chain", o>> : o \in ChainOps}
  \cup {<<"member", r>> : r \in 1..Len(Receivers)}
  \cup {<<"long", i>> : i \in 1..Len(Longs)}
  \cup {<<"string", p>> : p \in {"str", "eid", "ann", "pat", "wild"}}
  \cup {<<"attr", AttrPool[i]>> : i \in 1..Len(AttrPool)}
  \cup {<<"scope", pi>> : pi \in 1..9}
  \cup {<<"ann", s>> : s \in 0..3}
  \cup {<<"cond", o>> : o \in CondOpts}
  \cup {<<"set", f>> : f \in 1..Len(PolPool)}
  \cup {<<"reject">>}

OkCase(pols) == [kind |-> "ok", pols |-> pols]
CasesOf(k) ==
  CASE k[1] = "d2" -> {OkCase(One(e)) : e \in Depth2(k[2])}
    [] k[1] = "d3" -> {OkCase(One(e)) : e \in Depth3Ok(k[2])}
    [] k[1] = "un" -> {OkCase(One(e)) : e \in UnChains(k[2])}
    [] k[1] = "chain" -> {OkCase(One(e)) : e \in BinChains(k[2])}
    [] k[1] = "member" -> {OkCase(One(e)) : e \in Members(k[2])}
    [] k[1] = "long" -> {OkCase(One(e)) : e \in LongUses(Longs[k[2]])}
    [] k[1] = "string" -> {OkCase(p) : p \in StringCases(k[2])}
    [] k[1] = "attr" -> {OkCase(p) : p \in AttrCases(k[2])}
    [] k[1] = "scope" -> {OkCase(p) : p \in ScopeCases(k[2])}
    [] k[1] = "ann" -> {OkCase(p) : p \in AnnCases(k[2])}
    [] k[1] = "cond" -> {OkCase(p) : p \in CondCases(k[2])}
    [] k[1] = "set" -> {OkCase(p) : p \in SetCases(k[2])}
    \* token lists mix strings and tuples and cannot live in a set: the case state carries the index
    [] k[1] = "reject" -> {[kind |-> "reject", idx |-> i] : i \in 1..(Len(Rejects) + Len(PolRejects))}

Init == coord \in Coords /\ done = FALSE /\ c = <<>>
Next == /\ ~done
        /\ done' = TRUE
        /\ c' \in CasesOf(coord)
        /\ UNCHANGED coord

\* ---------------------------------------------------------------- binding M
\* every generated policy set has a well-formed rendering in every style, the
\* minimal style is the shortest, and the desugaring is defined on it
Sane ==
  (done /\ c.kind = "ok") =>
     /\ \A i \in 1..Len(c.pols) : SxAnnOk(c.pols[i].annotations)
     /\ \A s \in 1..3 : SxDepthOk(SxSetToks(c.pols, SxStyles[s]), 1, 0)
     /\ Len(SxSetToks(c.pols, "min")) <= Len(SxSetToks(c.pols, "full"))
     /\ Len(SxSetToks(c.pols, "min")) <= Len(SxSetToks(c.pols, "red"))
     /\ Len(SxSetToks(c.pols, "red")) <= Len(SxSetToks(c.pols, "redc"))
     /\ Len(SxSetCore(c.pols)) = Len(c.pols)
     \* desugaring a core form is the identity on everything but boolean folding: core forms are a fixed point
     /\ \A i \in 1..Len(c.pols) : SxPolicyCore(c.pols[i])[1] \in {"permit", "forbid"}

\* ---------------------------------------------------------------- binding G
Dump ==
  IF c'.kind = "ok"
  THEN PrintT("CASE " \o ToJson([kind |-> "ok", pols |-> c'.pols, coord |-> coord, styles |-> SxStyles,
                                 toks |-> [s \in 1..3 |-> SxSetToks(c'.pols, SxStyles[s])]]))
  ELSE PrintT("CASE " \o ToJson([kind |-> "reject", coord |-> coord,
                                 toks |-> IF c'.idx <= Len(Rejects) THEN RejectWrap(Rejects[c'.idx])
                                          ELSE PolRejects[c'.idx - Len(Rejects)]]))
==============================================================================
