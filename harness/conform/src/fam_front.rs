//! family "front" (C19): the stateless FFI entry points (validate, check_parse_*,
//! conversions, format, is_authorized) and the `cedar` command line, each run
//! next to the plain Rust API on the same inputs.  Inputs are addressed by
//! index into the world shipped by MC_Front.tla ({"setup": world}); this file
//! renders them to text / JSON / files, calls cedar and projects the answers.
//! It never compares: Trace_Front.tla judges every event.
//!
//! CLI cases write their inputs into a fresh directory under
//! /verif/work/C19/cli/ and spawn the binary named by $CEDAR_CLI; a crash or
//! timeout of the CLI is recorded as data.

use crate::abs::*;
use crate::fam_schemasyn::project_schema;
use crate::fam_syntax::policy_to_wire;
use crate::render;
use crate::schema::*;
use cedar_policy::ffi;
use cedar_policy::{
    Authorizer, Context, Decision, Entities, EntityUid, Policy, PolicyId, PolicySet, Request, Schema, SchemaFragment, SlotId, Template,
    ValidationMode, Validator,
};
use cedar_policy_core::ast;
use cedar_policy_formatter::{policies_str_to_pretty, Config};
use serde_json::{json, Map, Value as J};
use std::cell::RefCell;
use std::collections::{BTreeSet, HashMap};
use std::io::Read;
use std::path::{Path, PathBuf};
use std::process::{Command, Stdio};
use std::str::FromStr;
use std::time::{Duration, Instant};

thread_local! {
    static FWORLD: RefCell<Option<J>> = const { RefCell::new(None) };
}
/// scratch directory of the family: the world file written by the setup hook, and cli/ for the CLI's input files
fn front_work() -> PathBuf {
    PathBuf::from(std::env::var("CEDAR_FRONT_WORK").unwrap_or_else(|_| "/verif/work/C19".to_string()))
}

// ---------------------------------------------------------------- small helpers
fn us(j: &J, what: &str) -> R<usize> {
    j.as_u64().map(|x| x as usize).ok_or_else(|| format!("{what}: not an index"))
}
fn st<'a>(j: &'a J, what: &str) -> R<&'a str> {
    j.as_str().ok_or_else(|| format!("{what}: not a string"))
}
fn bo(j: &J, what: &str) -> R<bool> {
    j.as_bool().ok_or_else(|| format!("{what}: not a boolean"))
}
fn fail() -> J {
    json!(["fail"])
}
/// canonical text of a JSON value (object keys sorted), so that TLC compares strings
fn canon(j: &J) -> String {
    fn go(j: &J) -> J {
        match j {
            J::Object(m) => {
                let mut keys: Vec<&String> = m.keys().collect();
                keys.sort();
                let mut o = Map::new();
                for k in keys {
                    o.insert(k.clone(), go(&m[k]));
                }
                J::Object(o)
            }
            J::Array(a) => J::Array(a.iter().map(go).collect()),
            x => x.clone(),
        }
    }
    go(j).to_string()
}
fn euid_json(u: &J) -> J {
    json!({"type": u[1], "id": u[2]})
}
fn euid_text(u: &J) -> R<String> {
    render::uid_text(u)
}

/// the JSON policy format with numbers and strings written the way Est.tla writes them
/// ({"__long": limbs}, {"__str": code points}); empty objects become []
fn mark_value(v: &J) -> J {
    match v {
        J::Number(n) => match n.as_i64() {
            Some(i) => json!({"__long": i64_to_wire(i)}),
            None => json!({"__num": n.to_string()}),
        },
        J::String(s) => json!({"__str": str_to_wire(s)}),
        J::Array(a) => J::Array(a.iter().map(mark_value).collect()),
        J::Object(m) => {
            if m.is_empty() {
                return json!([]);
            }
            if let Some(e) = m.get("__entity") {
                return json!({"__entity": e});
            }
            let mut o = Map::new();
            for (k, x) in m {
                o.insert(k.clone(), mark_value(x));
            }
            J::Object(o)
        }
        x => x.clone(),
    }
}
fn mark_est(j: &J) -> J {
    match j {
        J::Object(m) => {
            if m.is_empty() {
                return json!([]);
            }
            let mut o = Map::new();
            for (k, v) in m {
                let nv = match (k.as_str(), v) {
                    ("Value", _) => mark_value(v),
                    ("Literal", J::String(s)) => json!({"__str": str_to_wire(s)}),
                    ("annotations", J::Object(a)) => {
                        if a.is_empty() {
                            json!([])
                        } else {
                            let mut x = Map::new();
                            for (ak, av) in a {
                                x.insert(ak.clone(), match av { J::String(s) => json!({"__str": str_to_wire(s)}), other => mark_est(other) });
                            }
                            J::Object(x)
                        }
                    }
                    _ => mark_est(v),
                };
                o.insert(k.clone(), nv);
            }
            J::Object(o)
        }
        J::Array(a) => J::Array(a.iter().map(mark_est).collect()),
        J::Null => json!({"__null": true}),
        x => x.clone(),
    }
}

// ---------------------------------------------------------------- rendering of the abstract sources
/// the wire policy with the `annotations` field render.rs expects
fn for_render(p: &J) -> R<J> {
    let mut q = p.clone();
    let mut ann = vec![];
    if let Some(a) = p.get("ann").and_then(|x| x.as_array()) {
        if !a.is_empty() {
            ann.push(json!(["id", a[0]]));
        }
    }
    if let Some(a) = p.get("annotations").and_then(|x| x.as_array()) {
        for kv in a {
            ann.push(json!([kv[0], str_from_wire(&kv[1])?]));
        }
    }
    q["annotations"] = J::Array(ann);
    Ok(q)
}
fn pol_text(p: &J) -> R<String> {
    render::policy_text(&for_render(p)?)
}
fn pol_est(p: &J) -> R<J> {
    render::policy_est(&for_render(p)?)
}
fn pols_of(src: &J) -> R<&Vec<J>> {
    src["pols"].as_array().ok_or_else(|| "pols".to_string())
}
fn is_template(p: &J) -> bool {
    p["template"].as_bool().unwrap_or(false)
}
fn is_linked(p: &J) -> bool {
    is_template(p) && p["slots"].as_object().map(|m| !m.is_empty()).unwrap_or(false)
}
const BAD_TEXT: &str = "permit(principal, action, resource";
const BAD_TEXT2: &str = "permit(principal, action, resource) when { 1 + };";
fn bad_est() -> J {
    json!({"effect": "permit"})
}

/// the Cedar-text presentation of a source (all its policies and templates, @id annotations included)
fn src_text(src: &J, id_annotations: bool) -> R<String> {
    let pols = pols_of(src)?;
    if pols.is_empty() {
        return Ok(if src["shape"] == "map" { BAD_TEXT2.to_string() } else { BAD_TEXT.to_string() });
    }
    let links = src["shape"] == "links";
    let mut out = vec![];
    for p in pols {
        let mut t = pol_text(p)?;
        if id_annotations && p["ann"].as_array().map(|a| a.is_empty()).unwrap_or(true) {
            let id = if links { format!("T_{}", st(&p["id"], "id")?) } else { st(&p["id"], "id")?.to_string() };
            t = format!("@id({}) {t}", render::quote_str(&id));
        }
        out.push(t);
    }
    Ok(out.join("\n"))
}

/// what the bindings hand to the FFI
fn ffi_policy_set(src: &J) -> R<J> {
    let shape = st(&src["shape"], "shape")?;
    let pols = pols_of(src)?;
    if pols.is_empty() {
        return Ok(match shape {
            "map" => json!({"staticPolicies": {"x": BAD_TEXT2}}),
            "json" => json!({"staticPolicies": {"x": bad_est()}}),
            _ => json!({"staticPolicies": BAD_TEXT}),
        });
    }
    Ok(match shape {
        "concat" | "concatT" => json!({"staticPolicies": src_text(src, false)?}),
        "map" => {
            let mut m = Map::new();
            for p in pols {
                m.insert(st(&p["id"], "id")?.to_string(), json!(pol_text(p)?));
            }
            json!({"staticPolicies": m})
        }
        "json" => {
            let mut m = Map::new();
            for p in pols {
                m.insert(st(&p["id"], "id")?.to_string(), pol_est(p)?);
            }
            json!({"staticPolicies": m})
        }
        "links" => {
            let mut templates = Map::new();
            let mut links = vec![];
            for p in pols {
                let id = st(&p["id"], "id")?;
                let tid = format!("T_{id}");
                templates.insert(tid.clone(), json!(pol_text(p)?));
                let mut values = Map::new();
                for (k, v) in as_obj(&p["slots"])?.iter() {
                    values.insert(format!("?{k}"), euid_json(v));
                }
                links.push(json!({"templateId": tid, "newId": id, "values": values}));
            }
            json!({"templates": templates, "templateLinks": links})
        }
        s => return err(format!("bad shape {s}")),
    })
}

/// the same source through the plain Rust API
fn api_policy_set(src: &J) -> R<Result<PolicySet, String>> {
    let shape = st(&src["shape"], "shape")?;
    let pols = pols_of(src)?;
    let e = |x: &dyn std::fmt::Display| x.to_string();
    if pols.is_empty() {
        return Ok(match shape {
            "map" => Policy::parse(Some(PolicyId::new("x")), BAD_TEXT2).map(|_| PolicySet::new()).map_err(|x| e(&x)),
            "json" => Policy::from_json(Some(PolicyId::new("x")), bad_est()).map(|_| PolicySet::new()).map_err(|x| e(&x)),
            _ => PolicySet::from_str(BAD_TEXT).map_err(|x| e(&x)),
        });
    }
    let mut ps = PolicySet::new();
    match shape {
        "concat" | "concatT" => return Ok(PolicySet::from_str(&src_text(src, false)?).map_err(|x| e(&x))),
        "map" => {
            for p in pols {
                let q = match Policy::parse(Some(PolicyId::new(st(&p["id"], "id")?)), pol_text(p)?) {
                    Ok(q) => q,
                    Err(x) => return Ok(Err(e(&x))),
                };
                if let Err(x) = ps.add(q) {
                    return Ok(Err(e(&x)));
                }
            }
        }
        "json" => {
            for p in pols {
                let q = match Policy::from_json(Some(PolicyId::new(st(&p["id"], "id")?)), pol_est(p)?) {
                    Ok(q) => q,
                    Err(x) => return Ok(Err(e(&x))),
                };
                if let Err(x) = ps.add(q) {
                    return Ok(Err(e(&x)));
                }
            }
        }
        "links" => {
            for p in pols {
                let id = st(&p["id"], "id")?;
                let tid = PolicyId::new(format!("T_{id}"));
                let t = match Template::parse(Some(tid.clone()), pol_text(p)?) {
                    Ok(t) => t,
                    Err(x) => return Ok(Err(e(&x))),
                };
                if let Err(x) = ps.add_template(t) {
                    return Ok(Err(e(&x)));
                }
                let mut env = HashMap::new();
                for (k, v) in as_obj(&p["slots"])?.iter() {
                    let slot = if k == "principal" { SlotId::principal() } else { SlotId::resource() };
                    env.insert(slot, EntityUid::from(uid_from_wire(v)?));
                }
                if let Err(x) = ps.link(tid, PolicyId::new(id), env) {
                    return Ok(Err(e(&x)));
                }
            }
        }
        s => return err(format!("bad shape {s}")),
    }
    Ok(Ok(ps))
}

/// a schema source as a document: (is JSON syntax, text)
fn schema_doc(src: &J) -> R<(bool, String)> {
    let is_json = src["syntax"] == "json";
    if !bo(&src["good"], "good")? {
        return Ok(if is_json {
            (true, json!({"": {"entityTypes": {"User": {"shape": 5}}, "actions": {}}}).to_string())
        } else {
            (false, "entity User {".to_string())
        });
    }
    Ok(if is_json { (true, schema_json(&src["schema"])?.to_string()) } else { (false, schema_cedar_text(&src["schema"])?) })
}
fn ffi_schema(src: &J) -> R<J> {
    let (is_json, text) = schema_doc(src)?;
    Ok(if is_json { serde_json::from_str(&text).map_err(|e| e.to_string())? } else { json!(text) })
}
fn api_fragment(src: &J) -> R<Result<SchemaFragment, String>> {
    let (is_json, text) = schema_doc(src)?;
    Ok(if is_json {
        SchemaFragment::from_json_str(&text).map_err(|e| e.to_string())
    } else {
        SchemaFragment::from_cedarschema_str(&text).map(|x| x.0).map_err(|e| e.to_string())
    })
}
fn api_schema(src: &J) -> R<Result<Schema, String>> {
    let (is_json, text) = schema_doc(src)?;
    Ok(if is_json {
        Schema::from_json_str(&text).map_err(|e| e.to_string())
    } else {
        Schema::from_cedarschema_str(&text).map(|x| x.0).map_err(|e| e.to_string())
    })
}

fn entities_json(world: &J, doc: Option<&J>) -> R<J> {
    if let Some(d) = doc {
        if d["shape"] == "bad" {
            return Ok(json!([{"uid": {"type": "User"}, "attrs": {}, "parents": []}]));
        }
    }
    let mut out = vec![];
    for e in world["storeWithout"].as_array().ok_or("store")? {
        if e["uid"][1] == "Action" {
            continue;
        }
        out.push(entity_cedar_json(e)?);
    }
    if let Some(d) = doc {
        for e in d["extra"].as_array().ok_or("extra")? {
            out.push(entity_cedar_json(e)?);
        }
    }
    Ok(J::Array(out))
}
fn context_json(req: &J) -> R<J> {
    value_cedar_json(&req["context"])
}

// ---------------------------------------------------------------- projections
fn proj_policy(p: &Policy) -> String {
    let a: &ast::Policy = p.as_ref();
    canon(&policy_to_wire(a.template()))
}
fn proj_template(t: &Template) -> String {
    let a: &ast::Template = t.as_ref();
    canon(&policy_to_wire(a))
}
/// the policies and templates of a set as a sorted bag of projections
fn proj_set(ps: &PolicySet) -> J {
    let mut v: Vec<String> = ps.policies().filter(|p| p.template_id().is_none()).map(proj_policy).chain(ps.templates().map(proj_template)).collect();
    v.sort();
    json!(v)
}
fn proj_text(text: &str) -> J {
    match PolicySet::from_str(text) {
        Ok(ps) => json!(["ok", proj_set(&ps)]),
        Err(_) => fail(),
    }
}
fn authz_answer(resp: &cedar_policy::Response) -> J {
    let reasons: BTreeSet<String> = resp.diagnostics().reason().map(|x| x.to_string()).collect();
    let mut errors: Vec<String> = resp.diagnostics().errors().map(|e| match e { cedar_policy::AuthorizationError::PolicyEvaluationError(pe) => pe.policy_id().to_string() }).collect();
    errors.sort();
    json!(["ok", {"decision": if resp.decision() == Decision::Allow { "Allow" } else { "Deny" }, "reasons": reasons, "errors": errors}])
}
fn project_ffi_authz(ans: &J) -> J {
    if ans["type"] == "success" {
        let r = &ans["response"];
        let mut reasons: Vec<String> = r["diagnostics"]["reason"].as_array().map(|a| a.iter().filter_map(|x| x.as_str().map(String::from)).collect()).unwrap_or_default();
        reasons.sort();
        let mut errors: Vec<String> = r["diagnostics"]["errors"].as_array().map(|a| a.iter().filter_map(|x| x["policyId"].as_str().map(String::from)).collect()).unwrap_or_default();
        errors.sort();
        let d = match r["decision"].as_str() { Some("allow") => "Allow", Some("deny") => "Deny", _ => "?" };
        json!(["ok", {"decision": d, "reasons": reasons, "errors": errors}])
    } else {
        fail()
    }
}

// ---------------------------------------------------------------- FFI operations
fn api_authorize(world: &J, k: usize, j: usize, validate: bool, ri: usize) -> R<J> {
    let Ok(ps) = api_policy_set(&world["polSources"][k - 1])? else { return Ok(fail()) };
    let schema = if j == 0 {
        None
    } else {
        match api_schema(&world["schemaSources"][j - 1])? {
            Ok(s) => Some(s),
            Err(_) => return Ok(fail()),
        }
    };
    let req = &world["reqs"][ri - 1];
    let (p, a, r) = (
        EntityUid::from(uid_from_wire(&req["principal"])?),
        EntityUid::from(uid_from_wire(&req["action"])?),
        EntityUid::from(uid_from_wire(&req["resource"])?),
    );
    let Ok(ctx) = Context::from_json_value(context_json(req)?, schema.as_ref().map(|s| (s, &a))) else { return Ok(fail()) };
    let Ok(request) = Request::new(p, a, r, ctx, if validate { schema.as_ref() } else { None }) else { return Ok(fail()) };
    let Ok(ents) = Entities::from_json_value(entities_json(world, None)?, schema.as_ref()) else { return Ok(fail()) };
    Ok(authz_answer(&Authorizer::new().is_authorized(&request, &ps, &ents)))
}
fn op_authorize(world: &J, op: &J) -> R<J> {
    let (k, j, validate, ri) = (us(&op[1], "k")?, us(&op[2], "j")?, bo(&op[3], "validate")?, us(&op[4], "ri")?);
    let req = &world["reqs"][ri - 1];
    let mut call = json!({
        "principal": euid_json(&req["principal"]), "action": euid_json(&req["action"]), "resource": euid_json(&req["resource"]),
        "context": context_json(req)?, "validateRequest": validate,
        "policies": ffi_policy_set(&world["polSources"][k - 1])?,
        "entities": entities_json(world, None)?,
    });
    if j != 0 {
        call["schema"] = ffi_schema(&world["schemaSources"][j - 1])?;
    }
    let ans = ffi::is_authorized_json(call.clone()).map_err(|e| format!("is_authorized_json: {e}"))?;
    // the three entry points of one FFI call (JSON value, JSON string, typed) must present one answer;
    // a disagreement is recorded as ["split"], which no specification answer equals
    let via_str: J = ffi::is_authorized_json_str(&call.to_string()).ok().and_then(|s| serde_json::from_str(&s).ok()).unwrap_or(J::Null);
    // the partial-authorization entry point, given the same fully concrete call, must reach the same decision
    let partial: J = match ffi::is_authorized_partial_json(call.clone()) {
        Ok(a) if a["type"] == "residuals" => json!(["ok", match a["response"]["decision"].as_str() { Some("allow") => "Allow", Some("deny") => "Deny", _ => "none" }]),
        Ok(_) => fail(),
        Err(_) => json!(["reject"]),
    };
    let partial = {
        let ps: J = ffi::is_authorized_partial_json_str(&call.to_string()).ok().and_then(|t| serde_json::from_str(&t).ok()).unwrap_or(J::Null);
        let pj = ffi::is_authorized_partial_json(call.clone()).unwrap_or(J::Null);
        if ps["type"] == pj["type"] && ps["response"]["decision"] == pj["response"]["decision"] { partial } else { json!(["ok", "split"]) }
    };
    let via_typed: J = match serde_json::from_value::<ffi::AuthorizationCall>(call) { Ok(c) => serde_json::to_value(ffi::is_authorized(c)).unwrap_or(J::Null), Err(_) => J::Null };
    let f = if project_ffi_authz(&via_str) == project_ffi_authz(&ans) && project_ffi_authz(&via_typed) == project_ffi_authz(&ans) && via_str["type"] == ans["type"] && via_typed["type"] == ans["type"] { project_ffi_authz(&ans) } else { json!(["split"]) };
    Ok(json!({"ffi": f, "partial": partial, "api": api_authorize(world, k, j, validate, ri)?}))
}

fn mode_of(m: &str) -> R<ValidationMode> {
    Ok(match m {
        "strict" => ValidationMode::Strict,
        "permissive" => ValidationMode::Permissive,
        _ => return err(format!("mode {m}")),
    })
}
fn api_validate(world: &J, k: usize, j: usize, mode: &str) -> R<J> {
    let Ok(ps) = api_policy_set(&world["polSources"][k - 1])? else { return Ok(fail()) };
    let Ok(schema) = api_schema(&world["schemaSources"][j - 1])? else { return Ok(fail()) };
    let res = Validator::new(schema).validate(&ps, mode_of(mode)?);
    let ids: BTreeSet<String> = res.validation_errors().map(|e| e.policy_id().to_string()).collect();
    let warn: BTreeSet<String> = res.validation_warnings().map(|e| e.policy_id().to_string()).collect();
    Ok(json!(["ok", ids, warn, res.validation_passed()]))
}
fn op_validate(world: &J, op: &J) -> R<J> {
    let (k, j, mode) = (us(&op[1], "k")?, us(&op[2], "j")?, st(&op[3], "mode")?);
    let call = json!({
        "validationSettings": {"mode": mode},
        "schema": ffi_schema(&world["schemaSources"][j - 1])?,
        "policies": ffi_policy_set(&world["polSources"][k - 1])?,
    });
    let ans = ffi::validate_json(call.clone()).map_err(|e| format!("validate_json: {e}"))?;
    let via_str: J = ffi::validate_json_str(&call.to_string()).ok().and_then(|s| serde_json::from_str(&s).ok()).unwrap_or(J::Null);
    let via_typed: J = match serde_json::from_value::<ffi::ValidationCall>(call) { Ok(c) => serde_json::to_value(ffi::validate(c)).unwrap_or(J::Null), Err(_) => J::Null };
    let ids_of = |a: &J, k: &str| -> Vec<String> { let mut v: Vec<String> = a[k].as_array().into_iter().flatten().filter_map(|x| x["policyId"].as_str().map(String::from)).collect(); v.sort(); v };
    let same = |a: &J| a["type"] == ans["type"] && ids_of(a, "validationErrors") == ids_of(&ans, "validationErrors") && ids_of(a, "validationWarnings") == ids_of(&ans, "validationWarnings");
    let f = if !(same(&via_str) && same(&via_typed)) {
        json!(["split"])
    } else if ans["type"] == "success" {
        let ids: BTreeSet<String> = ans["validationErrors"].as_array().into_iter().flatten().filter_map(|x| x["policyId"].as_str().map(String::from)).collect();
        let warn: BTreeSet<String> = ans["validationWarnings"].as_array().into_iter().flatten().filter_map(|x| x["policyId"].as_str().map(String::from)).collect();
        let n = ans["validationErrors"].as_array().map(|a| a.len()).unwrap_or(0);
        json!(["ok", ids, warn, n == 0])
    } else {
        fail()
    };
    Ok(json!({"ffi": f, "api": api_validate(world, k, j, mode)?}))
}

fn cp_word(ans: &J) -> &'static str {
    match ans["type"].as_str() {
        Some("success") => "ok",
        Some("failure") => "fail",
        _ => "?",
    }
}
fn okfail<T, E>(r: &Result<T, E>) -> &'static str {
    if r.is_ok() { "ok" } else { "fail" }
}
/// the second FFI witness of a check-parse call: the typed answer and the JSON-string answer, which must be one word
fn cp_both(typed: &J, via_str: Result<String, serde_json::Error>) -> &'static str {
    let s: J = via_str.ok().and_then(|t| serde_json::from_str(&t).ok()).unwrap_or(J::Null);
    if cp_word(typed) == cp_word(&s) && typed["type"] == s["type"] { cp_word(typed) } else { "split" }
}
fn op_check_parse(world: &J, op: &J) -> R<J> {
    let kind = st(&op[1], "kind")?;
    let (a, b, c) = (us(&op[2], "a")?, us(&op[3], "b")?, bo(&op[4], "c")?);
    let ser = |x: &dyn erased::Ser| x.to_j();
    Ok(match kind {
        "policies" => {
            let src = &world["polSources"][a - 1];
            let j1 = ffi::check_parse_policy_set_json(ffi_policy_set(src)?).map_err(|e| e.to_string())?;
            let typed: ffi::PolicySet = serde_json::from_value(ffi_policy_set(src)?).map_err(|e| e.to_string())?;
            let j2 = ser(&ffi::check_parse_policy_set(typed));
            let w2 = cp_both(&j2, ffi::check_parse_policy_set_json_str(&ffi_policy_set(src)?.to_string()));
            json!({"ffi": cp_word(&j1), "ffi2": w2, "api": okfail(&api_policy_set(src)?)})
        }
        "schema" => {
            let src = &world["schemaSources"][a - 1];
            let j1 = ffi::check_parse_schema_json(ffi_schema(src)?).map_err(|e| e.to_string())?;
            let typed: ffi::Schema = serde_json::from_value(ffi_schema(src)?).map_err(|e| e.to_string())?;
            let j2 = ser(&ffi::check_parse_schema(typed));
            let w2 = cp_both(&j2, ffi::check_parse_schema_json_str(&ffi_schema(src)?.to_string()));
            json!({"ffi": cp_word(&j1), "ffi2": w2, "api": okfail(&api_schema(src)?)})
        }
        "entities" => {
            let doc = &world["entDocs"][a - 1];
            let ents = entities_json(world, Some(doc))?;
            let mut call = json!({"entities": ents});
            let mut api_schema_r = Ok(None);
            if b != 0 {
                let src = &world["schemaSources"][b - 1];
                call["schema"] = ffi_schema(src)?;
                api_schema_r = api_schema(src)?.map(Some);
            }
            let j1 = ffi::check_parse_entities_json(call.clone()).map_err(|e| e.to_string())?;
            let via_str = ffi::check_parse_entities_json_str(&call.to_string());
            let typed: ffi::EntitiesParsingCall = serde_json::from_value(call).map_err(|e| e.to_string())?;
            let j2 = ser(&ffi::check_parse_entities(typed));
            let w2 = cp_both(&j2, via_str);
            let api = match api_schema_r {
                Err(_) => "fail",
                Ok(s) => okfail(&Entities::from_json_value(ents, s.as_ref())),
            };
            json!({"ffi": cp_word(&j1), "ffi2": w2, "api": api})
        }
        "context" => {
            let req = &world["reqs"][a - 1];
            let ctx = context_json(req)?;
            let mut call = json!({"context": ctx});
            let mut api_schema_r = Ok(None);
            if b != 0 {
                let src = &world["schemaSources"][b - 1];
                call["schema"] = ffi_schema(src)?;
                api_schema_r = api_schema(src)?.map(Some);
            }
            if c {
                call["action"] = euid_json(&req["action"]);
            }
            let j1 = ffi::check_parse_context_json(call.clone()).map_err(|e| e.to_string())?;
            let via_str = ffi::check_parse_context_json_str(&call.to_string());
            let typed: ffi::ContextParsingCall = serde_json::from_value(call).map_err(|e| e.to_string())?;
            let j2 = ser(&ffi::check_parse_context(typed));
            let w2 = cp_both(&j2, via_str);
            let action = EntityUid::from(uid_from_wire(&req["action"])?);
            let api = match api_schema_r {
                Err(_) => "fail",
                Ok(s) => {
                    let pair = if c { s.as_ref().map(|s| (s, &action)) } else { None };
                    match Context::from_json_value(ctx, pair) {
                        Err(_) => "fail",
                        Ok(cx) => match pair {
                            Some((s, a)) => okfail(&cx.validate(s, a)),
                            None => "ok",
                        },
                    }
                }
            };
            json!({"ffi": cp_word(&j1), "ffi2": w2, "api": api})
        }
        k => return err(format!("checkParse kind {k}")),
    })
}
/// serialising FFI answers of different types to JSON
mod erased {
    use serde_json::Value as J;
    pub trait Ser {
        fn to_j(&self) -> J;
    }
    impl<T: serde::Serialize> Ser for T {
        fn to_j(&self) -> J {
            serde_json::to_value(self).unwrap_or(J::Null)
        }
    }
}
use erased::Ser;

fn op_conv_policy(world: &J, op: &J) -> R<J> {
    let (n, dir) = (us(&op[1], "n")?, st(&op[2], "dir")?);
    let p = &world["convPols"][n - 1];
    let templ = is_template(p);
    let text = pol_text(p)?;
    let id = PolicyId::new("p");
    // the policy as the parser reads its text: the reference projection
    let (p0, api_json, api_text_of_est) = if templ {
        let t = Template::parse(Some(id.clone()), &text).map_err(|x| format!("template parse: {x}\n{text}"))?;
        let est = &world["convEstPlain"][n - 1];
        let tt = Template::from_json(None, est.clone()).map(|t| t.to_string()).map_err(|e| e.to_string());
        (proj_template(&t), t.to_json().map_err(|e| e.to_string()), tt)
    } else {
        let q = Policy::parse(Some(id.clone()), &text).map_err(|x| format!("policy parse: {x}\n{text}"))?;
        let est = &world["convEstPlain"][n - 1];
        let tt = Policy::from_json(None, est.clone()).map(|t| t.to_string()).map_err(|e| e.to_string());
        (proj_policy(&q), q.to_json().map_err(|e| e.to_string()), tt)
    };
    let reparse_json = |j: &J| -> J {
        if templ {
            Template::from_json(Some(id.clone()), j.clone()).map(|t| json!(["ok", proj_template(&t)])).unwrap_or_else(|_| fail())
        } else {
            Policy::from_json(Some(id.clone()), j.clone()).map(|t| json!(["ok", proj_policy(&t)])).unwrap_or_else(|_| fail())
        }
    };
    let reparse_text = |s: &str| -> J {
        if templ {
            Template::parse(Some(id.clone()), s).map(|t| json!(["ok", proj_template(&t)])).unwrap_or_else(|_| fail())
        } else {
            Policy::parse(Some(id.clone()), s).map(|t| json!(["ok", proj_policy(&t)])).unwrap_or_else(|_| fail())
        }
    };
    match dir {
        "toJson" => {
            let ans = if templ {
                ffi::template_to_json(serde_json::from_value(json!(text)).map_err(|e| e.to_string())?).to_j()
            } else {
                ffi::policy_to_json(serde_json::from_value(json!(text)).map_err(|e| e.to_string())?).to_j()
            };
            let (f, doc, back) = if ans["type"] == "success" {
                (json!(["ok", canon(&ans["json"])]), mark_est(&ans["json"]), reparse_json(&ans["json"]))
            } else {
                (fail(), json!([]), fail())
            };
            let a = match &api_json {
                Ok(j) => json!(["ok", canon(j)]),
                Err(_) => fail(),
            };
            Ok(json!({"template": templ, "ffi": f, "api": a, "doc": doc, "back": back, "p0": p0}))
        }
        "toText" => {
            let est = world["convEstPlain"][n - 1].clone();
            let ans = if templ {
                ffi::template_to_text(serde_json::from_value(est).map_err(|e| e.to_string())?).to_j()
            } else {
                ffi::policy_to_text(serde_json::from_value(est).map_err(|e| e.to_string())?).to_j()
            };
            let (f, back) = if ans["type"] == "success" {
                let t = ans["text"].as_str().unwrap_or("");
                (json!(["ok", t]), reparse_text(t))
            } else {
                (fail(), fail())
            };
            let a = match &api_text_of_est {
                Ok(t) => json!(["ok", t]),
                Err(_) => fail(),
            };
            Ok(json!({"template": templ, "ffi": f, "api": a, "back": back, "p0": p0}))
        }
        d => err(format!("convPolicy dir {d}")),
    }
}

/// reload a converted schema document and project it
fn reload_schema(is_json: bool, doc: &str) -> J {
    let r = if is_json { Schema::from_json_str(doc).map_err(|e| e.to_string()) } else { Schema::from_cedarschema_str(doc).map(|x| x.0).map_err(|e| e.to_string()) };
    match r {
        Ok(s) => json!(["ok", canon(&project_schema(&s))]),
        Err(_) => fail(),
    }
}
fn op_conv_schema(world: &J, op: &J) -> R<J> {
    let (j, dir) = (us(&op[1], "j")?, st(&op[2], "dir")?);
    let src = &world["schemaSources"][j - 1];
    if dir == "toJsonResolved" {
        // the document text itself is handed over (the entry point reads the Cedar schema syntax only)
        let (_, text) = schema_doc(src)?;
        let ans = ffi::schema_to_json_with_resolved_types(&text).to_j();
        let (f, reloaded) = if ans["type"] == "success" { (json!(["ok", canon(&ans["json"])]), reload_schema(true, &ans["json"].to_string())) } else { (fail(), fail()) };
        let (a, api_reloaded) = match cedar_policy::schema_str_to_json_with_resolved_types(&text) {
            Ok((v, _)) => (json!(["ok", canon(&v)]), reload_schema(true, &v.to_string())),
            Err(_) => (fail(), fail()),
        };
        let source = match api_schema(src)? {
            Ok(s) => json!(["ok", canon(&project_schema(&s))]),
            Err(_) => fail(),
        };
        return Ok(json!({"ffi": f, "api": a, "reloaded": reloaded, "apiReloaded": api_reloaded, "source": source}));
    }
    let to_json = dir == "toJson";
    let typed: ffi::Schema = serde_json::from_value(ffi_schema(src)?).map_err(|e| e.to_string())?;
    let (f, reloaded) = if to_json {
        let ans = ffi::schema_to_json(typed).to_j();
        if ans["type"] == "success" {
            (json!(["ok", canon(&ans["json"])]), reload_schema(true, &ans["json"].to_string()))
        } else {
            (fail(), fail())
        }
    } else {
        let ans = ffi::schema_to_text(typed).to_j();
        if ans["type"] == "success" {
            let t = ans["text"].as_str().unwrap_or("").to_string();
            (json!(["ok", t.clone()]), reload_schema(false, &t))
        } else {
            (fail(), fail())
        }
    };
    // the API's conversion of the fragment (no well-formedness check), and the source loaded as a schema
    let (a, api_reloaded) = match api_fragment(src)? {
        Err(_) => (fail(), fail()),
        Ok(frag) => {
            if to_json {
                match frag.to_json_value() {
                    Ok(v) => (json!(["ok", canon(&v)]), reload_schema(true, &v.to_string())),
                    Err(_) => (fail(), fail()),
                }
            } else {
                match frag.to_cedarschema() {
                    Ok(t) => (json!(["ok", t.clone()]), reload_schema(false, &t)),
                    Err(_) => (fail(), fail()),
                }
            }
        }
    };
    let source = match api_schema(src)? {
        Ok(s) => json!(["ok", canon(&project_schema(&s))]),
        Err(_) => fail(),
    };
    Ok(json!({"ffi": f, "api": a, "reloaded": reloaded, "apiReloaded": api_reloaded, "source": source}))
}

fn op_format(world: &J, op: &J) -> R<J> {
    let (k, lw, iw) = (us(&op[1], "k")?, us(&op[2], "lw")?, op[3].as_i64().ok_or("iw")?);
    let text = src_text(&world["polSources"][k - 1], false)?;
    let call = json!({"policyText": text, "lineWidth": lw, "indentWidth": iw});
    let ans = ffi::format_json(call.clone()).map_err(|e| e.to_string())?;
    let via_str: J = ffi::format_json_str(&call.to_string()).ok().and_then(|t| serde_json::from_str(&t).ok()).unwrap_or(J::Null);
    let (f, back) = if via_str["type"] != ans["type"] || via_str["formatted_policy"] != ans["formatted_policy"] {
        (json!(["split"]), fail())
    } else if ans["type"] == "success" {
        let t = ans["formatted_policy"].as_str().unwrap_or("");
        (json!(["ok", t]), proj_text(t))
    } else {
        (fail(), fail())
    };
    let a = match policies_str_to_pretty(&text, &Config { line_width: lw, indent_width: iw as isize }) {
        Ok(t) => json!(["ok", t]),
        Err(_) => fail(),
    };
    Ok(json!({"ffi": f, "api": a, "back": back, "orig": proj_text(&text), "ansKeys": ans.as_object().map(|m| m.keys().cloned().collect::<Vec<_>>()).unwrap_or_default()}))
}

fn op_parts(world: &J, op: &J) -> R<J> {
    let k = us(&op[1], "k")?;
    let text = src_text(&world["polSources"][k - 1], false)?;
    let ans = ffi::policy_set_text_to_parts(&text).to_j();
    let (f, back) = if ans["type"] == "success" {
        let ps: Vec<String> = ans["policies"].as_array().into_iter().flatten().filter_map(|x| x.as_str().map(String::from)).collect();
        let ts: Vec<String> = ans["policy_templates"].as_array().into_iter().flatten().filter_map(|x| x.as_str().map(String::from)).collect();
        let mut bag = vec![];
        let mut all_ok = true;
        for s in &ps {
            match Policy::parse(None, s) {
                Ok(p) => bag.push(proj_policy(&p)),
                Err(_) => all_ok = false,
            }
        }
        for s in &ts {
            match Template::parse(None, s) {
                Ok(t) => bag.push(proj_template(&t)),
                Err(_) => all_ok = false,
            }
        }
        bag.sort();
        (json!(["ok", ps.len(), ts.len(), json!({"policies": ps, "templates": ts})]), if all_ok { json!(["ok", bag]) } else { fail() })
    } else {
        (fail(), fail())
    };
    // the API: the set's static policies and templates printed in id order
    let a = match PolicySet::from_str(&text) {
        Err(_) => fail(),
        Ok(set) => {
            let mut ps: Vec<(String, String)> = set.policies().map(|p| (p.id().to_string(), p.to_cedar().unwrap_or_default())).collect();
            ps.sort();
            let mut ts: Vec<(String, String)> = set.templates().map(|t| (t.id().to_string(), t.to_cedar())).collect();
            ts.sort();
            let ps: Vec<String> = ps.into_iter().map(|x| x.1).collect();
            let ts: Vec<String> = ts.into_iter().map(|x| x.1).collect();
            json!(["ok", ps.len(), ts.len(), json!({"policies": ps, "templates": ts})])
        }
    };
    Ok(json!({"ffi": f, "api": a, "back": back, "orig": proj_text(&text)}))
}

// ---------------------------------------------------------------- the command line
struct CliOut {
    exit: i64,
    stdout: String,
    stderr: String,
    note: &'static str,
}
fn cli_binary() -> R<String> {
    std::env::var("CEDAR_CLI").map_err(|_| "CEDAR_CLI is not set (path of the built `cedar` binary)".to_string())
}
fn fresh_dir(tag: &str) -> R<PathBuf> {
    let d = front_work().join("cli").join(format!("{}_{}", std::process::id(), tag));
    let _ = std::fs::remove_dir_all(&d);
    std::fs::create_dir_all(&d).map_err(|e| format!("mkdir {}: {e}", d.display()))?;
    Ok(d)
}
fn put(dir: &Path, name: &str, content: &str) -> R<String> {
    let p = dir.join(name);
    std::fs::write(&p, content).map_err(|e| format!("write {}: {e}", p.display()))?;
    Ok(p.to_string_lossy().to_string())
}
fn cli_run(args: &[String]) -> R<CliOut> {
    let bin = cli_binary()?;
    let mut child = Command::new(&bin)
        .args(args)
        .stdin(Stdio::null())
        .stdout(Stdio::piped())
        .stderr(Stdio::piped())
        .env("NO_COLOR", "1")
        .env_remove("CEDAR_ERROR_FORMAT")
        .spawn()
        .map_err(|e| format!("cannot spawn {bin}: {e}"))?;
    let mut so = child.stdout.take().ok_or("stdout")?;
    let mut se = child.stderr.take().ok_or("stderr")?;
    let t1 = std::thread::spawn(move || {
        let mut s = String::new();
        let _ = so.read_to_string(&mut s);
        s
    });
    let t2 = std::thread::spawn(move || {
        let mut s = String::new();
        let _ = se.read_to_string(&mut s);
        s
    });
    let start = Instant::now();
    let mut note = "exited";
    let status = loop {
        match child.try_wait() {
            Ok(Some(s)) => break Some(s),
            Ok(None) => {
                if start.elapsed() > Duration::from_secs(30) {
                    let _ = child.kill();
                    let _ = child.wait();
                    note = "timeout";
                    break None;
                }
                std::thread::sleep(Duration::from_millis(2));
            }
            Err(_) => {
                note = "wait-error";
                break None;
            }
        }
    };
    let stdout = t1.join().unwrap_or_default();
    let stderr = t2.join().unwrap_or_default();
    let exit = match status.and_then(|s| s.code()) {
        Some(c) => c as i64,
        None => {
            if note == "exited" {
                note = "signal";
            }
            -1
        }
    };
    if stderr.contains("panicked at") {
        note = "panic";
    }
    Ok(CliOut { exit, stdout, stderr, note })
}

/// files and arguments that present policy source `src` to the CLI
fn cli_policy_args(src: &J, dir: &Path) -> R<Vec<String>> {
    let shape = st(&src["shape"], "shape")?;
    let pols = pols_of(src)?;
    let mut args = vec![];
    if pols.is_empty() {
        if shape == "json" {
            let f = put(dir, "policies.json", &json!({"staticPolicies": {"x": bad_est()}, "templates": {}, "templateLinks": []}).to_string())?;
            args.extend(["--policies".to_string(), f, "--policy-format".to_string(), "json".to_string()]);
        } else {
            let f = put(dir, "policies.cedar", &src_text(src, false)?)?;
            args.extend(["--policies".to_string(), f]);
        }
        return Ok(args);
    }
    match shape {
        "concat" | "concatT" => {
            let f = put(dir, "policies.cedar", &src_text(src, false)?)?;
            args.extend(["--policies".to_string(), f]);
        }
        "map" => {
            let f = put(dir, "policies.cedar", &src_text(src, true)?)?;
            args.extend(["--policies".to_string(), f]);
        }
        "json" => {
            let mut m = Map::new();
            for p in pols {
                m.insert(st(&p["id"], "id")?.to_string(), pol_est(p)?);
            }
            let f = put(dir, "policies.json", &json!({"staticPolicies": m, "templates": {}, "templateLinks": []}).to_string())?;
            args.extend(["--policies".to_string(), f, "--policy-format".to_string(), "json".to_string()]);
        }
        "links" => {
            let f = put(dir, "policies.cedar", &src_text(src, true)?)?;
            let mut links = vec![];
            for p in pols {
                let id = st(&p["id"], "id")?;
                let mut a = Map::new();
                for (k, v) in as_obj(&p["slots"])?.iter() {
                    a.insert(format!("?{k}"), json!(euid_text(v)?));
                }
                links.push(json!({"template_id": format!("T_{id}"), "link_id": id, "args": a}));
            }
            let l = put(dir, "links.json", &J::Array(links).to_string())?;
            args.extend(["--policies".to_string(), f, "--template-linked".to_string(), l]);
        }
        s => return err(format!("bad shape {s}")),
    }
    Ok(args)
}
fn cli_schema_args(src: &J, dir: &Path) -> R<Vec<String>> {
    let (is_json, text) = schema_doc(src)?;
    let f = put(dir, if is_json { "schema.json" } else { "schema.cedarschema" }, &text)?;
    Ok(vec!["--schema".to_string(), f, "--schema-format".to_string(), if is_json { "json" } else { "cedar" }.to_string()])
}
fn tail(s: &str) -> String {
    let t: String = s.chars().take(400).collect();
    t
}
fn ids_in_backticks(s: &str, marker: &str) -> Vec<String> {
    let mut out = BTreeSet::new();
    let mut rest = s;
    while let Some(i) = rest.find(marker) {
        let after = &rest[i + marker.len()..];
        if let Some(j) = after.find('`') {
            out.insert(after[..j].to_string());
            rest = &after[j..];
        } else {
            break;
        }
    }
    out.into_iter().collect()
}

fn op_cli_authorize(world: &J, op: &J, tag: &str) -> R<J> {
    let (k, j, rv, ri, verbose, form) = (us(&op[1], "k")?, us(&op[2], "j")?, bo(&op[3], "rv")?, us(&op[4], "ri")?, bo(&op[5], "verbose")?, st(&op[6], "form")?);
    let dir = fresh_dir(tag)?;
    let req = &world["reqs"][ri - 1];
    let mut args = vec!["authorize".to_string()];
    args.extend(cli_policy_args(&world["polSources"][k - 1], &dir)?);
    if j != 0 {
        args.extend(cli_schema_args(&world["schemaSources"][j - 1], &dir)?);
    }
    let ents = put(&dir, "entities.json", &entities_json(world, None)?.to_string())?;
    args.extend(["--entities".to_string(), ents]);
    if form == "json" {
        let rj = json!({"principal": euid_text(&req["principal"])?, "action": euid_text(&req["action"])?, "resource": euid_text(&req["resource"])?, "context": context_json(req)?});
        let f = put(&dir, "request.json", &rj.to_string())?;
        args.extend(["--request-json".to_string(), f]);
    } else {
        let f = put(&dir, "context.json", &context_json(req)?.to_string())?;
        args.extend([
            "--principal".to_string(), euid_text(&req["principal"])?, "--action".to_string(), euid_text(&req["action"])?,
            "--resource".to_string(), euid_text(&req["resource"])?, "--context".to_string(), f,
        ]);
    }
    args.extend(["--request-validation".to_string(), rv.to_string()]);
    if verbose {
        args.push("--verbose".to_string());
    }
    let out = cli_run(&args)?;
    let _ = std::fs::remove_dir_all(&dir);
    // parse what was printed
    let lines: Vec<&str> = out.stdout.lines().collect();
    let words: Vec<&str> = lines.iter().copied().filter(|l| *l == "ALLOW" || *l == "DENY").collect();
    let word = if words.len() == 1 { words[0] } else if words.is_empty() { "none" } else { "many" };
    let errors = ids_in_backticks(&out.stdout, "error while evaluating policy `");
    let mut reasons = vec![];
    let mut note = "none";
    let mut in_list = false;
    for l in &lines {
        if *l == "note: no policies applied to this request" {
            note = "nopol";
        } else if *l == "note: this decision was due to the following policies:" {
            note = "list";
            in_list = true;
        } else if in_list {
            if let Some(id) = l.strip_prefix("  ") {
                reasons.push(id.to_string());
            } else {
                in_list = false;
            }
        }
    }
    reasons.sort();
    Ok(json!({
        "cli": {"exit": out.exit, "word": word, "note": note, "reasons": reasons, "errors": errors, "how": out.note},
        "api": api_authorize(world, k, j, rv, ri)?,
        "out": tail(&out.stdout), "err": tail(&out.stderr),
    }))
}

fn op_cli_validate(world: &J, op: &J, tag: &str) -> R<J> {
    let (k, j) = (us(&op[1], "k")?, us(&op[2], "j")?);
    let dir = fresh_dir(tag)?;
    let mut args = vec!["validate".to_string()];
    args.extend(cli_policy_args(&world["polSources"][k - 1], &dir)?);
    args.extend(cli_schema_args(&world["schemaSources"][j - 1], &dir)?);
    let out = cli_run(&args)?;
    let _ = std::fs::remove_dir_all(&dir);
    let verdict = if out.stdout.contains("policy set validation passed") {
        "passed"
    } else if out.stdout.contains("policy set validation failed") {
        "failed"
    } else {
        "none"
    };
    let ids = ids_in_backticks(&out.stdout, "for policy `");
    Ok(json!({
        "cli": {"exit": out.exit, "verdict": verdict, "ids": ids, "how": out.note},
        "api": api_validate(world, k, j, "strict")?,
        "out": tail(&out.stdout), "err": tail(&out.stderr),
    }))
}

fn op_cli_check_parse(world: &J, op: &J, tag: &str) -> R<J> {
    let (k, j, e) = (us(&op[1], "k")?, us(&op[2], "j")?, us(&op[3], "e")?);
    let dir = fresh_dir(tag)?;
    let mut args = vec!["check-parse".to_string()];
    if k != 0 {
        args.extend(cli_policy_args(&world["polSources"][k - 1], &dir)?);
    }
    if j != 0 {
        args.extend(cli_schema_args(&world["schemaSources"][j - 1], &dir)?);
    }
    if e != 0 {
        let f = put(&dir, "entities.json", &entities_json(world, Some(&world["entDocs"][e - 1]))?.to_string())?;
        args.extend(["--entities".to_string(), f]);
    }
    let out = cli_run(&args)?;
    let _ = std::fs::remove_dir_all(&dir);
    Ok(json!({"cli": {"exit": out.exit, "how": out.note}, "out": tail(&out.stdout), "err": tail(&out.stderr)}))
}

fn op_cli_format(world: &J, op: &J, tag: &str) -> R<J> {
    let (k, lw, iw, check) = (us(&op[1], "k")?, us(&op[2], "lw")?, op[3].as_i64().ok_or("iw")?, bo(&op[4], "check")?);
    let text = src_text(&world["polSources"][k - 1], false)?;
    let dir = fresh_dir(tag)?;
    let f = put(&dir, "policies.cedar", &text)?;
    let mut args = vec!["format".to_string(), "--policies".to_string(), f, "--line-width".to_string(), lw.to_string(), "--indent-width".to_string(), iw.to_string()];
    if check {
        args.push("--check".to_string());
    }
    let out = cli_run(&args)?;
    let _ = std::fs::remove_dir_all(&dir);
    let (a, same) = match policies_str_to_pretty(&text, &Config { line_width: lw, indent_width: iw as isize }) {
        Ok(t) => {
            let same = t == text;
            (json!(["ok", t]), same)
        }
        Err(_) => (fail(), false),
    };
    Ok(json!({"cli": {"exit": out.exit, "how": out.note, "stdout": out.stdout}, "api": a, "apiSame": same, "err": tail(&out.stderr)}))
}

fn op_cli_translate_policy(world: &J, op: &J, tag: &str) -> R<J> {
    let (k, dir_s) = (us(&op[1], "k")?, st(&op[2], "dir")?);
    let src = &world["polSources"][k - 1];
    let dir = fresh_dir(tag)?;
    let pols = pols_of(src)?;
    let shape = st(&src["shape"], "shape")?;
    let mut ev = json!({});
    let out;
    if dir_s == "cedar-to-json" {
        let text = src_text(src, false)?;
        let f = put(&dir, "policies.cedar", &text)?;
        out = cli_run(&["translate-policy".to_string(), "--direction".to_string(), dir_s.to_string(), "--policies".to_string(), f])?;
        // the printed policy set: each static policy / template in Est.tla's spelling
        let mut stat = Map::new();
        let mut templ = Map::new();
        let mut nlinks = 0;
        let mut parsed = false;
        if let Ok(j) = serde_json::from_str::<J>(out.stdout.trim()) {
            parsed = j.is_object();
            for (id, est) in j["staticPolicies"].as_object().into_iter().flatten() {
                stat.insert(id.clone(), mark_est(est));
            }
            for (id, est) in j["templates"].as_object().into_iter().flatten() {
                templ.insert(id.clone(), mark_est(est));
            }
            nlinks = j["templateLinks"].as_array().map(|a| a.len()).unwrap_or(0);
        }
        let mut sids: Vec<&String> = stat.keys().collect();
        sids.sort();
        let mut tids: Vec<&String> = templ.keys().collect();
        tids.sort();
        ev["staticIds"] = json!(sids);
        ev["templateIds"] = json!(tids);
        ev["static"] = if stat.is_empty() { json!([]) } else { J::Object(stat) };
        ev["templates"] = if templ.is_empty() { json!([]) } else { J::Object(templ) };
        ev["nlinks"] = json!(nlinks);
        ev["parsed"] = json!(parsed);
    } else {
        // the JSON presentation: a policy set document
        let doc = if pols.is_empty() {
            json!({"staticPolicies": {"x": bad_est()}, "templates": {}, "templateLinks": []})
        } else {
            let mut stat = Map::new();
            let mut templ = Map::new();
            let mut links = vec![];
            for p in pols {
                let id = st(&p["id"], "id")?;
                if is_template(p) {
                    let tid = if shape == "links" { format!("T_{id}") } else { id.to_string() };
                    templ.insert(tid.clone(), pol_est(p)?);
                    if is_linked(p) {
                        let mut values = Map::new();
                        for (sk, v) in as_obj(&p["slots"])?.iter() {
                            values.insert(format!("?{sk}"), euid_json(v));
                        }
                        links.push(json!({"templateId": tid, "newId": id, "values": values}));
                    }
                } else {
                    stat.insert(id.to_string(), pol_est(p)?);
                }
            }
            json!({"staticPolicies": stat, "templates": templ, "templateLinks": links})
        };
        let f = put(&dir, "policies.json", &doc.to_string())?;
        out = cli_run(&["translate-policy".to_string(), "--direction".to_string(), dir_s.to_string(), "--policies".to_string(), f])?;
        ev["back"] = proj_text(&out.stdout);
        ev["api"] = match PolicySet::from_json_value(doc) {
            Err(_) => fail(),
            Ok(ps) => match ps.to_cedar() {
                Some(t) => json!(["ok", t]),
                None => fail(),
            },
        };
        ev["stdout"] = json!(out.stdout.strip_suffix('\n').unwrap_or(&out.stdout));
    }
    let _ = std::fs::remove_dir_all(&dir);
    ev["orig"] = proj_text(&src_text(src, false)?);
    ev["cli"] = json!({"exit": out.exit, "how": out.note});
    ev["err"] = json!(tail(&out.stderr));
    Ok(ev)
}

fn op_cli_translate_schema(world: &J, op: &J, tag: &str) -> R<J> {
    let (j, dir_s) = (us(&op[1], "j")?, st(&op[2], "dir")?);
    let src = &world["schemaSources"][j - 1];
    let (_, text) = schema_doc(src)?;
    let dir = fresh_dir(tag)?;
    let f = put(&dir, "schema.in", &text)?;
    let out = cli_run(&["translate-schema".to_string(), "--direction".to_string(), dir_s.to_string(), "--schema".to_string(), f])?;
    let _ = std::fs::remove_dir_all(&dir);
    let resolved = dir_s == "cedar-to-json-with-resolved-types";
    let to_json = dir_s == "cedar-to-json" || resolved;
    let printed = out.stdout.strip_suffix('\n').unwrap_or(&out.stdout).to_string();
    // the API on the same text, read in the syntax the direction names
    let a = if resolved {
        match cedar_policy::schema_str_to_json_with_resolved_types(&text) {
            Ok((v, _)) => serde_json::to_string_pretty(&v).map(|s| json!(["ok", s])).unwrap_or_else(|_| fail()),
            Err(_) => fail(),
        }
    } else {
        let frag = if to_json { SchemaFragment::from_cedarschema_str(&text).map(|x| x.0).map_err(|e| e.to_string()) } else { SchemaFragment::from_json_str(&text).map_err(|e| e.to_string()) };
        match frag {
            Err(_) => fail(),
            Ok(fr) => {
                if to_json {
                    fr.to_json_string().map(|s| json!(["ok", s])).unwrap_or_else(|_| fail())
                } else {
                    fr.to_cedarschema().map(|s| json!(["ok", s])).unwrap_or_else(|_| fail())
                }
            }
        }
    };
    let source = match api_schema(src)? {
        Ok(s) => json!(["ok", canon(&project_schema(&s))]),
        Err(_) => fail(),
    };
    Ok(json!({"cli": {"exit": out.exit, "how": out.note, "stdout": printed.clone()}, "api": a,
              "reloaded": if out.exit == 0 { reload_schema(to_json, &printed) } else { fail() }, "source": source, "err": tail(&out.stderr)}))
}

fn op_cli_link(world: &J, op: &J, tag: &str) -> R<J> {
    let (k, tid, nid) = (us(&op[1], "k")?, st(&op[2], "tid")?, st(&op[3], "nid")?);
    let given: Vec<&str> = op[4].as_array().ok_or("given")?.iter().filter_map(|x| x.as_str()).collect();
    let dir = fresh_dir(tag)?;
    let mut args = vec!["link".to_string()];
    args.extend(cli_policy_args(&world["polSources"][k - 1], &dir)?);
    let mut a = Map::new();
    for s in &given {
        a.insert(format!("?{s}"), json!(if *s == "principal" { "User::\"u2\"" } else { "Doc::\"d\"" }));
    }
    args.extend(["--template-id".to_string(), tid.to_string(), "--new-id".to_string(), nid.to_string(), "--arguments".to_string(), J::Object(a).to_string()]);
    let read_links = |d: &Path| -> Vec<J> {
        std::fs::read_to_string(d.join("links.json")).ok().and_then(|s| serde_json::from_str::<J>(&s).ok()).and_then(|j| j.as_array().cloned()).unwrap_or_default()
    };
    let before = read_links(&dir);
    let out = cli_run(&args)?;
    let after = read_links(&dir);
    let _ = std::fs::remove_dir_all(&dir);
    // the links file keeps its entries and gains exactly the new link as its last entry
    let kept = after.len() >= before.len() && after[..before.len()] == before[..];
    let recorded = after.len() == before.len() + 1 && after.last().map(|x| x["link_id"] == nid && x["template_id"] == tid).unwrap_or(false);
    Ok(json!({"cli": {"exit": out.exit, "how": out.note, "added": out.stdout.contains("Template-linked policy added:"), "recorded": recorded, "kept": kept},
              "out": tail(&out.stdout), "err": tail(&out.stderr)}))
}

// ---------------------------------------------------------------- entry points
fn prepare_world(mut w: J) -> J {
    // the spec's JSON forms of the conversion policies with plain numbers / strings (for the *_to_text inputs)
    if w.get("convEstPlain").is_none() {
        w["convEstPlain"] = J::Array(vec![]);
    }
    w
}
fn with_world<T>(f: impl FnOnce(&J) -> R<T>) -> R<T> {
    FWORLD.with(|cell| {
        if cell.borrow().is_none() {
            let wf = front_work().join("front_world.json");
            let s = std::fs::read_to_string(&wf).map_err(|e| format!("no setup case and no {}: {e}", wf.display()))?;
            let w: J = serde_json::from_str(&s).map_err(|e| e.to_string())?;
            *cell.borrow_mut() = Some(prepare_world(w));
        }
        let b = cell.borrow();
        f(b.as_ref().ok_or("no world")?)
    })
}

pub fn run(case: &J) -> R<J> {
    if let Some(s) = case.get("setup") {
        FWORLD.with(|c| *c.borrow_mut() = Some(prepare_world(s.clone())));
        return Ok(json!({"ev": "FrontSetup"}));
    }
    with_world(|world| {
        let op = &case["op"];
        let kind = st(&op[0], "op kind")?;
        let tag = match &case["id"] {
            J::String(s) => s.clone(),
            other => other.to_string(),
        };
        let mut ev = match kind {
            "authorize" => op_authorize(world, op)?,
            "validate" => op_validate(world, op)?,
            "checkParse" => op_check_parse(world, op)?,
            "convPolicy" => op_conv_policy(world, op)?,
            "convSchema" => op_conv_schema(world, op)?,
            "format" => op_format(world, op)?,
            "parts" => op_parts(world, op)?,
            "cliAuthorize" => op_cli_authorize(world, op, &tag)?,
            "cliValidate" => op_cli_validate(world, op, &tag)?,
            "cliCheckParse" => op_cli_check_parse(world, op, &tag)?,
            "cliFormat" => op_cli_format(world, op, &tag)?,
            "cliTranslatePolicy" => op_cli_translate_policy(world, op, &tag)?,
            "cliTranslateSchema" => op_cli_translate_schema(world, op, &tag)?,
            "cliLink" => op_cli_link(world, op, &tag)?,
            k => return err(format!("front: unknown operation {k}")),
        };
        ev["ev"] = json!("Front");
        ev["id"] = case["id"].clone();
        ev["op"] = op.clone();
        Ok(ev)
    })
}

pub fn drive(_seed: u64, _n: usize) -> Vec<J> {
    vec![]
}
