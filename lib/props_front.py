"""Family "front" of property C19: the stateless FFI entry points (validate, check_parse_*, conversions,
format) and the `cedar` command line, each next to the plain Rust API.  Spec: spec/Front.tla; generator
MC_Front.tla; trace spec Trace_Front.tla; harness fam_front.rs.  Registered from props.py by
`C19["models"] += props_front.MODELS` and `C19["extra_traces"] = props_front.extra_traces(C19.get("extra_traces"))`."""
import hashlib
import json
import os
import subprocess
import time

import vlib
from vlib import ToolError, log

CLI_TARGET = os.path.join(vlib.HARNESS, "target-cli")
CLI_BIN = os.path.join(CLI_TARGET, "release", "cedar")
WORLD_FILE = os.path.join(vlib.WORK, "C19", "front_world.json")
CLI_KINDS = {"cliAuthorize": 120, "cliValidate": 30, "cliCheckParse": 45, "cliFormat": 16, "cliTranslatePolicy": 26,
             "cliTranslateSchema": 24, "cliLink": 60}            # quick-tier quota per CLI operation kind (about 320 runs)
FFI_QUOTA = {"authorize": 300}                                    # quick-tier quota for the FFI kinds that are large


def build_cli():
    """build the `cedar` binary from /repo's current working tree (own target dir; incremental after the first time)"""
    t0 = time.time()
    primary = os.path.join(vlib.VERIF, "harness", "target-cli")
    if CLI_TARGET != primary and not os.path.exists(CLI_TARGET) and os.path.exists(primary):
        # a scratch checkout (VERIF_ALT_REPO): start from the dependency artefacts already built for /repo
        subprocess.run(["cp", "-a", primary, CLI_TARGET], check=False)
    env = dict(os.environ, CARGO_TARGET_DIR=CLI_TARGET, CARGO_NET_OFFLINE="true")
    r = subprocess.run(["cargo", "build", "--release", "--offline", "-p", "cedar-policy-cli", "--manifest-path", os.path.join(vlib.REPO, "Cargo.toml")],
                       env=env, stdout=subprocess.PIPE, stderr=subprocess.STDOUT, text=True)
    if r.returncode != 0 or not os.path.exists(CLI_BIN):
        import sys
        sys.stderr.write(r.stdout[-6000:])
        raise ToolError("building the cedar CLI failed (does /repo still compile?)")
    os.environ["CEDAR_CLI"] = CLI_BIN          # inherited by the harness process
    os.environ["CEDAR_FRONT_WORK"] = os.path.join(vlib.WORK, "C19")
    os.makedirs(os.path.join(vlib.WORK, "C19", "cli"), exist_ok=True)
    log("cedar CLI built in %.1fs" % (time.time() - t0))


def _unmark(x):
    """Est.tla's {"__long": limbs} / {"__str": code points} markers -> JSON numbers / strings"""
    if isinstance(x, dict):
        if set(x) == {"__long"}:
            neg, limbs = x["__long"]
            n = 0
            for l in reversed(limbs):
                n = n * 10000 + l
            return -n if neg else n
        if set(x) == {"__str"}:
            return "".join(chr(c) for c in x["__str"])
        return {k: _unmark(v) for k, v in x.items()}
    if isinstance(x, list):
        return [_unmark(v) for v in x]
    return x


def _plain_est(est):
    e = _unmark(est)
    if e.get("annotations") == []:
        e["annotations"] = {}

    def fix(x):
        if isinstance(x, dict):
            return {k: ({} if k == "Record" and v == [] else fix(v)) for k, v in x.items()}
        if isinstance(x, list):
            return [fix(v) for v in x]
        return x
    return fix(e)


def _setup(world):
    build_cli()
    w = dict(world)
    w["convEstPlain"] = [_plain_est(e) for e in world["convEst"]]
    del w["convEst"]
    os.makedirs(os.path.dirname(WORLD_FILE), exist_ok=True)
    with open(WORLD_FILE, "w") as f:
        json.dump(w, f)
    return dict(setup=w)


def _keep(op, quota, total):
    """deterministic seeded sampling: keep about `quota` of the `total` cases of a kind"""
    if quota >= total:
        return True
    h = int(hashlib.sha1(("%d|%s" % (vlib.seed(), json.dumps(op))).encode()).hexdigest()[:8], 16)
    return (h % total) < quota


_TOTALS = {}
_CLI_CASES = []          # CLI cases are set aside by the case hook and run by extra_traces in parallel harness processes


def _case(world, c, i):
    op = c["op"]
    kind = op[0]
    if vlib.TRACE_ENV.get("TIER") == "quick":
        quota = CLI_KINDS.get(kind, FFI_QUOTA.get(kind))
        if quota is not None:
            total = _TOTALS.get(kind)
            if total is None:
                total = _TOTALS[kind] = _kind_total(world, kind)
            if not _keep(op, quota, total):
                return None
    case = dict(id=i, op=op)
    if kind.startswith("cli"):
        _CLI_CASES.append(case)
        return None
    return case


def _kind_total(world, kind):
    nP, nS, nE, nR = len(world["polSources"]), len(world["schemaSources"]), len(world["entDocs"]), len(world["reqs"])
    nlink = sum((sum(1 for p in world["polSources"][k - 1]["pols"] if p["template"]) + 2) * (len(world["polSources"][k - 1]["pols"])
                + (sum(1 for p in world["polSources"][k - 1]["pols"] if p["template"]) if world["polSources"][k - 1]["shape"] == "links" else 0) + 1) * 4
                for k in (1, 4, 11, 13))
    return {"cliAuthorize": nP * (nS + 1) * 2 * nR * 2 * 2, "cliValidate": nP * nS, "cliCheckParse": (nP + 1) * (nS + 1) * (nE + 1) - 1,
            "cliFormat": nP * 8, "cliTranslatePolicy": nP * 2, "cliTranslateSchema": nS * 3, "cliLink": nlink,
            "authorize": nP * (nS + 1) * 2 * nR}.get(kind, 1)


def _run_cli_cases(cases, wd, nproc=4):
    """replay the CLI cases in `nproc` concurrent harness processes (each loads the world from WORLD_FILE)"""
    tpath = os.path.join(wd, "mc_front_cli.trace.ndjson")
    parts = []
    for k in range(nproc):
        part = cases[k::nproc]
        if not part:
            continue
        cp = os.path.join(wd, "mc_front_cli.%d.cases.ndjson" % k)
        tp = os.path.join(wd, "mc_front_cli.%d.trace.ndjson" % k)
        vlib.write_ndjson(cp, part)
        parts.append((cp, tp, subprocess.Popen([vlib.CONFORM, "replay", "front", cp, tp], stdout=subprocess.DEVNULL, stderr=subprocess.PIPE, text=True)))
    with open(tpath, "w") as out:
        for cp, tp, proc in parts:
            _, err = proc.communicate(timeout=7200)
            if proc.returncode != 0:
                raise ToolError("harness failed on %s:\n%s" % (cp, err[-3000:]))
            with open(tp) as f:
                out.write(f.read())
            os.remove(cp)
            os.remove(tp)
    return tpath


# ----------------------------------------------------------------- canary for this family (run on every check)
def _corrupt(ev):
    """one recorded field of a Front event changed; None if this event offers nothing to corrupt"""
    ev = json.loads(json.dumps(ev))
    kind = ev.get("op", [""])[0]
    if kind == "cliAuthorize":
        c = ev["cli"]
        if c["reasons"]:
            c["reasons"] = c["reasons"][1:]                     # a determining policy is not printed
        elif c["exit"] in (0, 2):
            c["exit"] = 2 - c["exit"]                           # Allow <-> Deny exit status
        else:
            c["exit"] = 0
        return ev
    if kind == "validate" and ev["ffi"][0] == "ok":
        ev["ffi"][1] = ev["ffi"][1][1:] if ev["ffi"][1] else ["policy0"]      # a validation error id dropped / invented
        return ev
    if kind == "cliValidate":
        ev["cli"]["exit"] = {0: 3, 3: 0, 1: 0}.get(ev["cli"]["exit"], 1)
        return ev
    if kind == "checkParse":
        ev["ffi"] = "fail" if ev["ffi"] == "ok" else "ok"
        return ev
    if kind == "convPolicy" and ev["op"][2] == "toJson" and ev["ffi"][0] == "ok":
        ev["doc"]["effect"] = "forbid" if ev["doc"]["effect"] == "permit" else "permit"      # the converted document altered
        return ev
    if kind == "convSchema" and ev["ffi"][0] == "ok":
        ev["ffi"][1] = ev["ffi"][1] + " "
        return ev
    if kind == "format" and ev["ffi"][0] == "ok":
        ev["ffi"][1] = ev["ffi"][1] + "\n"
        return ev
    if kind == "cliCheckParse":
        ev["cli"]["exit"] = 1 - ev["cli"]["exit"] if ev["cli"]["exit"] in (0, 1) else 0
        return ev
    if kind == "authorize" and ev["ffi"][0] == "ok":
        ev["ffi"][1]["decision"] = "Deny" if ev["ffi"][1]["decision"] == "Allow" else "Allow"
        return ev
    return None


def _front_canary(traces, wd):
    """corrupt one event of (up to) ten kinds and require Trace_Front to reject exactly those lines"""
    lines = []
    for t in traces:
        with open(t) as f:
            lines += [l for l in f if l.strip()]
    picked, seen = [], set()
    for l in lines:
        ev = json.loads(l)
        kind = ev.get("op", [""])[0]
        if ev.get("ev") != "Front" or kind in seen:
            continue
        m = _corrupt(ev)
        if m is not None:
            seen.add(kind)
            picked.append((l, json.dumps(m) + "\n"))
    if len(picked) < 5:
        raise ToolError("front canary: only %d event kinds could be corrupted" % len(picked))
    p = os.path.join(wd, "front.canary.ndjson")
    planted = []
    with open(p, "w") as f:
        n = 0
        for good, corrupted in picked:            # the untouched event, then its corrupted copy
            f.write(good)
            f.write(corrupted)
            n += 2
            planted.append(n)
    n, bad, _ = vlib.validate_trace("Trace_Front.tla", p, wd, chunk=4000, parallel=1)
    os.remove(p)
    got = sorted(b[0] for b in bad)
    if got != planted:
        raise ToolError("front canary not rejected as expected: planted %s, rejected %s" % (planted, got))
    log("front canary: %d corrupted events (%s) rejected, their originals accepted" % (len(planted), ", ".join(sorted(seen))))
    return len(planted)


def case_of_event(ev):
    """./check C19 --replay: a Front event is re-run as its (id, op) case against the world of the last run"""
    if ev.get("ev") == "Front":
        build_cli()
        return dict(id=ev.get("id", 0), op=ev["op"])
    return ev.get("case", ev)


def family_of_event(ev):
    return "front" if ev.get("ev") == "Front" else "ffi"


def trace_module_of_event(ev):
    return "Trace_Front.tla" if ev.get("ev") == "Front" else "Trace_Ffi.tla"


_OTHER_WORLD = [None]


def remember_world(setup):
    """wrap the setup hook of the ffi model: the runner keeps only the last model's world in fam["_world"]"""
    def g(world):
        _OTHER_WORLD[0] = world
        return setup(world)
    return g


def extra_traces(prev):
    def f(fam, tier, wd, seed):
        front_world = fam.get("_world")
        if _OTHER_WORLD[0] is not None:
            fam["_world"] = _OTHER_WORLD[0]          # the history driver of the ffi family draws from its own world
        out = prev(fam, tier, wd, seed) if prev else []
        fam["_world"] = front_world
        cases = list(_CLI_CASES)
        del _CLI_CASES[:]
        front = os.path.join(wd, "mc_front.trace.ndjson")
        cov = fam.setdefault("extra_coverage", {})
        if cases and os.path.exists(front):
            t0 = time.time()
            tpath = _run_cli_cases(cases, wd)
            log("cedar CLI: %d runs in %.1fs" % (len(cases), time.time() - t0))
            # one trace for the family (the runner validates the file after this hook): FFI events, then the CLI runs
            with open(front, "a") as f, open(tpath) as g:
                f.write(g.read())
            os.remove(tpath)
            cov["front_cli_runs"] = len(cases)
        if os.path.exists(front):
            ops = {}
            with open(front) as f:
                for line in f:
                    if line.strip():
                        k = (json.loads(line).get("op") or ["-"])[0]
                        ops[k] = ops.get(k, 0) + 1
            cov["front_events_per_operation"] = ops
            cov["front_canaries_rejected"] = _front_canary([front], wd)
        return out
    return f


MODELS = [dict(name="mc_front", module="MC_Front.tla", cfg=dict(quick="MC_Front.cfg", thorough="MC_Front.cfg"),
               cases=_case, setup=_setup, family="front", trace_module="Trace_Front.tla", workers=4)]

RULE = (" Front family (Front.tla): G: the product operation x policy source (13: text, id->text, id->JSON, templates+links, @id annotations, a duplicated "
        "@id, a template inside a text, validation faults of five kinds, three unparsable) x schema source (8: both syntaxes of Sc2 / Sc3 / a fragment with an "
        "undeclared type, two unparsable) x request (5) x flags: FFI is_authorized_json, validate_json (strict, permissive), check_parse_{policy_set,schema,entities,"
        "context} (typed and _json), policy/template_to_json and _to_text over 83 policies (the returned JSON must be Est!EstOf of the policy), schema_to_json/_to_text, "
        "format_json (4 widths x 3 indents), policy_set_text_to_parts; and the built `cedar` binary: authorize (exit status, ALLOW/DENY, determining policies with "
        "--verbose, erroring policies; ids after @id renaming; both request forms), validate, check-parse, format (--check), translate-policy, translate-schema, link. "
        "Every answer is compared with Front.tla's function and with the plain Rust API's recorded answer.")
ASSUMPTIONS = ["front family: validation ground truth is by construction (each world policy carries the fault kinds it was written to contain); error messages are "
               "not compared, only success/failure, ids, exit status, printed decision and documents",
               "front family: schema conversions are judged by reloading (projection of the reloaded schema = projection of the source) and by equality with the API's "
               "conversion, not against an independent rendering of the abstract schema (that is C09's subject)",
               "front family: `cedar validate` is driven in strict mode only (the binary is built without experimental features); partial-evaluation entry points are not driven"]
