------------------------------ MODULE CedarExpr ------------------------------
(***************************************************************************)
(* Reference semantics of Cedar expressions.                               *)
(*                                                                         *)
(* Values (tagged tuples, tag first - see DESIGN.md section 4):            *)
(*   <<"bool", b>>  <<"long", i64>>  <<"str", codepoints>>                 *)
(*   <<"ent", type, id>>  <<"set", S>>  <<"rec", f>>  <<"ext", ty, ...>>   *)
(* Expressions:                                                            *)
(*   <<"lit", v>> <<"var", name>> <<"slot", name>>                         *)
(*   <<"if", c, t, e>> <<"and", a, b>> <<"or", a, b>>                      *)
(*   <<"not", a>> <<"neg", a>> <<"isEmpty", a>>                            *)
(*   <<"bin", op, a, b>>  op in eq less lessEq add sub mul in contains     *)
(*                              containsAll containsAny getTag hasTag      *)
(*   <<"call", fn, <<args>>>> <<"get", e, attr>> <<"has", e, attr>>        *)
(*   <<"like", e, pattern>> <<"is", e, type>>                              *)
(*   <<"set", <<e1,..>>>> <<"record", [k |-> e]>>                          *)
(* Results: <<"ok", v>> or <<"err", class>>, class in                      *)
(*   type noEntity noAttr overflow ext unlinkedSlot                        *)
(* Environment: req = [principal, action, resource |-> entity value,       *)
(*   context |-> record value]; store = function uid -> [attrs, tags, anc] *)
(***************************************************************************)
EXTENDS Integers, Sequences, FiniteSets, CedarStrings, CedarExt

Ok(v) == <<"ok", v>>
Err(c) == <<"err", c>>
IsOk(r) == r[1] = "ok"
BoolV(b) == <<"bool", b>>
TrueV == BoolV(TRUE)
FalseV == BoolV(FALSE)
LongV(x) == <<"long", x>>

Tag(v) == v[1]
IsBool(v) == v[1] = "bool"
IsLong(v) == v[1] = "long"
IsStr(v) == v[1] = "str"
IsEnt(v) == v[1] = "ent"
IsSet(v) == v[1] = "set"
IsRec(v) == v[1] = "rec"
IsExt(v) == v[1] = "ext"

Present(store, uid) == uid \in DOMAIN store
AncOf(store, uid) == IF Present(store, uid) THEN store[uid].anc ELSE {}

\* e in a : reflexive, otherwise by the stored ancestor closure of e
InOne(store, e, a) == e = a \/ a \in AncOf(store, e)

\* sequential evaluation of a tuple of expressions: first error wins
RECURSIVE Eval(_, _, _, _)
RECURSIVE EvalSeq(_, _, _, _, _)
EvalSeq(es, i, req, store, slots) ==
  IF i > Len(es) THEN Ok(<<>>)
  ELSE LET r == Eval(es[i], req, store, slots)
       IN IF ~IsOk(r) THEN r
          ELSE LET rest == EvalSeq(es, i + 1, req, store, slots)
               IN IF ~IsOk(rest) THEN rest ELSE Ok(<<r[2]>> \o rest[2])

\* attribute names of a record expression in ascending order.  TLC strings
\* cannot be compared with <, so the order is supplied by the case generator
\* / harness as the tuple e[3] (the key order of the AST's BTreeMap).
RecKeys(e) == e[3]

BinApply(op, a, b, store) ==
  CASE op = "eq" -> Ok(BoolV(a = b))
    [] op \in {"less", "lessEq"} ->
         IF IsLong(a) /\ IsLong(b)
         THEN Ok(BoolV(IF op = "less" THEN Lt(a[2], b[2]) ELSE Le(a[2], b[2])))
         ELSE IF IsExt(a) /\ IsExt(b) /\ ExtComparable(a) /\ ExtComparable(b) /\ a[2] = b[2]
         THEN Ok(BoolV(IF op = "less" THEN ExtLt(a, b) ELSE ExtLe(a, b)))
         ELSE Err("type")
    [] op \in {"add", "sub", "mul"} ->
         IF ~(IsLong(a) /\ IsLong(b)) THEN Err("type")
         ELSE LET r == CASE op = "add" -> Add(a[2], b[2])
                         [] op = "sub" -> Sub(a[2], b[2])
                         [] op = "mul" -> Mul(a[2], b[2])
              IN IF r[1] = "ok" THEN Ok(LongV(r[2])) ELSE Err("overflow")
    [] op = "in" ->
         IF ~IsEnt(a) THEN Err("type")
         ELSE IF IsEnt(b) THEN Ok(BoolV(InOne(store, a, b)))
         ELSE IF IsSet(b)
              THEN IF \A x \in b[2] : IsEnt(x)
                   THEN Ok(BoolV(\E x \in b[2] : InOne(store, a, x)))
                   ELSE Err("type")
         ELSE Err("type")
    [] op = "contains" ->
         IF IsSet(a) THEN Ok(BoolV(b \in a[2])) ELSE Err("type")
    [] op = "containsAll" ->
         IF IsSet(a) /\ IsSet(b) THEN Ok(BoolV(b[2] \subseteq a[2])) ELSE Err("type")
    [] op = "containsAny" ->
         IF IsSet(a) /\ IsSet(b) THEN Ok(BoolV(a[2] \cap b[2] # {})) ELSE Err("type")
    [] op = "getTag" ->
         IF ~IsEnt(a) \/ ~IsStr(b) THEN Err("type")
         ELSE IF ~Present(store, a) THEN Err("noEntity")
         ELSE LET hit == {t \in store[a].tags : t[1] = b[2]}
              IN IF hit = {} THEN Err("noAttr") ELSE Ok((CHOOSE t \in hit : TRUE)[2])
    [] op = "hasTag" ->
         IF ~IsEnt(a) \/ ~IsStr(b) THEN Err("type")
         ELSE IF ~Present(store, a) THEN Ok(FalseV)
         ELSE Ok(BoolV(\E t \in store[a].tags : t[1] = b[2]))

Eval(e, req, store, slots) ==
  CASE e[1] = "lit" -> Ok(e[2])
    [] e[1] = "var" ->
         Ok(CASE e[2] = "principal" -> req.principal
              [] e[2] = "action" -> req.action
              [] e[2] = "resource" -> req.resource
              [] e[2] = "context" -> req.context)
    [] e[1] = "slot" ->
         IF e[2] \in DOMAIN slots THEN Ok(slots[e[2]]) ELSE Err("unlinkedSlot")
    [] e[1] = "if" ->
         LET c == Eval(e[2], req, store, slots)
         IN IF ~IsOk(c) THEN c
            ELSE IF ~IsBool(c[2]) THEN Err("type")
            ELSE IF c[2][2] THEN Eval(e[3], req, store, slots)
            ELSE Eval(e[4], req, store, slots)
    [] e[1] = "and" ->
         LET l == Eval(e[2], req, store, slots)
         IN IF ~IsOk(l) THEN l
            ELSE IF ~IsBool(l[2]) THEN Err("type")
            ELSE IF ~l[2][2] THEN Ok(FalseV)
            ELSE LET r == Eval(e[3], req, store, slots)
                 IN IF ~IsOk(r) THEN r
                    ELSE IF ~IsBool(r[2]) THEN Err("type") ELSE r
    [] e[1] = "or" ->
         LET l == Eval(e[2], req, store, slots)
         IN IF ~IsOk(l) THEN l
            ELSE IF ~IsBool(l[2]) THEN Err("type")
            ELSE IF l[2][2] THEN Ok(TrueV)
            ELSE LET r == Eval(e[3], req, store, slots)
                 IN IF ~IsOk(r) THEN r
                    ELSE IF ~IsBool(r[2]) THEN Err("type") ELSE r
    [] e[1] = "not" ->
         LET a == Eval(e[2], req, store, slots)
         IN IF ~IsOk(a) THEN a
            ELSE IF ~IsBool(a[2]) THEN Err("type") ELSE Ok(BoolV(~a[2][2]))
    [] e[1] = "neg" ->
         LET a == Eval(e[2], req, store, slots)
         IN IF ~IsOk(a) THEN a
            ELSE IF ~IsLong(a[2]) THEN Err("type")
            ELSE LET r == Neg(a[2][2])
                 IN IF r[1] = "ok" THEN Ok(LongV(r[2])) ELSE Err("overflow")
    [] e[1] = "isEmpty" ->
         LET a == Eval(e[2], req, store, slots)
         IN IF ~IsOk(a) THEN a
            ELSE IF ~IsSet(a[2]) THEN Err("type") ELSE Ok(BoolV(a[2][2] = {}))
    [] e[1] = "bin" ->
         LET a == Eval(e[3], req, store, slots)
         IN IF ~IsOk(a) THEN a
            ELSE LET b == Eval(e[4], req, store, slots)
                 IN IF ~IsOk(b) THEN b ELSE BinApply(e[2], a[2], b[2], store)
    [] e[1] = "call" ->
         LET args == EvalSeq(e[3], 1, req, store, slots)
         IN IF ~IsOk(args) THEN args ELSE ExtCall(e[2], args[2])
    [] e[1] = "get" ->
         LET a == Eval(e[2], req, store, slots)
         IN IF ~IsOk(a) THEN a
            ELSE IF IsRec(a[2])
                 THEN IF e[3] \in DOMAIN a[2][2] THEN Ok(a[2][2][e[3]]) ELSE Err("noAttr")
            ELSE IF IsEnt(a[2])
                 THEN IF ~Present(store, a[2]) THEN Err("noEntity")
                      ELSE IF e[3] \in DOMAIN store[a[2]].attrs
                           THEN Ok(store[a[2]].attrs[e[3]]) ELSE Err("noAttr")
            ELSE Err("type")
    [] e[1] = "has" ->
         LET a == Eval(e[2], req, store, slots)
         IN IF ~IsOk(a) THEN a
            ELSE IF IsRec(a[2]) THEN Ok(BoolV(e[3] \in DOMAIN a[2][2]))
            ELSE IF IsEnt(a[2])
                 THEN Ok(BoolV(Present(store, a[2]) /\ e[3] \in DOMAIN store[a[2]].attrs))
            ELSE Err("type")
    [] e[1] = "like" ->
         LET a == Eval(e[2], req, store, slots)
         IN IF ~IsOk(a) THEN a
            ELSE IF ~IsStr(a[2]) THEN Err("type") ELSE Ok(BoolV(Like(a[2][2], e[3])))
    [] e[1] = "is" ->
         LET a == Eval(e[2], req, store, slots)
         IN IF ~IsOk(a) THEN a
            ELSE IF ~IsEnt(a[2]) THEN Err("type") ELSE Ok(BoolV(a[2][2] = e[3]))
    [] e[1] = "set" ->
         LET items == EvalSeq(e[2], 1, req, store, slots)
         IN IF ~IsOk(items) THEN items
            ELSE Ok(<<"set", {items[2][i] : i \in 1..Len(items[2])}>>)
    [] e[1] = "record" ->
         \* e[2] : [key |-> expr], e[3] : the keys in ascending order
         LET keys == RecKeys(e)
             vals == EvalSeq([i \in 1..Len(keys) |-> e[2][keys[i]]], 1, req, store, slots)
         IN IF ~IsOk(vals) THEN vals
            ELSE Ok(<<"rec", [k \in {keys[i] : i \in 1..Len(keys)} |->
                               vals[2][CHOOSE i \in 1..Len(keys) : keys[i] = k]]>>)

\* Tags are kept as a set of <<key codepoints, value>> pairs because tag keys
\* are computed strings (code point sequences), unlike attribute names.

-----------------------------------------------------------------------------
\* Wire form -> specification form.  JSON arrays arrive as tuples: sets must
\* become TLA+ sets and records functions.  (Expressions need no conversion.)
RECURSIVE FromWireV(_)
FromWireV(v) ==
  CASE v[1] = "set" -> <<"set", {FromWireV(v[2][i]) : i \in 1..Len(v[2])}>>
    [] v[1] = "rec" -> <<"rec", [k \in DOMAIN v[2] |-> FromWireV(v[2][k])]>>
    [] v[1] = "extcall" ->
         \* cedar keeps an extension value as a constructor-call tree; the spec evaluates it
         LET r == ExtCall(v[2], [i \in 1..Len(v[3]) |-> FromWireV(v[3][i])])
         IN IF r[1] = "ok" THEN r[2] ELSE <<"badext", v>>
    [] OTHER -> v

FromWireR(r) == IF r[1] = "ok" THEN Ok(FromWireV(r[2])) ELSE r

\* store on the wire: tuple of [uid, attrs, tags, anc]; tags: tuple of <<key cps, value>>
FromWireStore(ws) ==
  LET idx == 1..Len(ws)
      uids == {ws[i].uid : i \in idx}
  IN [u \in uids |->
        LET w == ws[CHOOSE i \in idx : ws[i].uid = u]
        IN [attrs |-> [k \in DOMAIN w.attrs |-> FromWireV(w.attrs[k])],
            tags  |-> {<<w.tags[j][1], FromWireV(w.tags[j][2])>> : j \in 1..Len(w.tags)},
            anc   |-> {w.anc[j] : j \in 1..Len(w.anc)}]]

FromWireReq(wr) ==
  [principal |-> wr.principal, action |-> wr.action, resource |-> wr.resource,
   context |-> FromWireV(wr.context)]
=============================================================================
