//! family "entityjson" (C10): abstract JSON trees (spec/EntityJson.tla) are rendered to real
//! JSON and pushed through the entity / entities / context JSON parsers with and without the
//! schema, serialised, reparsed; every result is projected to wire values and every
//! serialised document is handed back as an abstract JSON tree.  All judging happens in TLC.

use crate::abs::*;
use crate::fam_slice::store_to_wire;
use crate::schema::schema_of;
use cedar_policy::{Context, Entities, Entity, EntityUid, Schema};
use cedar_policy_core::ast;
use serde_json::{json, Map, Value as J};

// ---------------------------------------------------------------- JSON trees
pub fn tree_to_json(t: &J) -> R<J> {
    let a = t.as_array().ok_or_else(|| format!("tree: not array {t}"))?;
    Ok(match a[0].as_str().ok_or("tree tag")? {
        "jbool" => json!(a[1].as_bool().ok_or("jbool")?),
        "jnum" => json!(i64_from_wire(&a[1])?),
        "jstr" => json!(str_from_wire(&a[1])?),
        "jarr" => J::Array(a[1].as_array().ok_or("jarr")?.iter().map(tree_to_json).collect::<R<Vec<_>>>()?),
        "jobj" => {
            let mut m = Map::new();
            for (k, v) in as_obj(&a[1])?.iter() {
                m.insert(k.clone(), tree_to_json(v)?);
            }
            J::Object(m)
        }
        x => return err(format!("tree: unknown tag {x}")),
    })
}

pub fn json_to_tree(v: &J) -> J {
    match v {
        J::Null => json!(["jnull"]),
        J::Bool(b) => json!(["jbool", b]),
        J::Number(n) => match n.as_i64() {
            Some(i) => json!(["jnum", i64_to_wire(i)]),
            None => json!(["jfloat", n.to_string()]),
        },
        J::String(s) => json!(["jstr", str_to_wire(s)]),
        J::Array(a) => json!(["jarr", a.iter().map(json_to_tree).collect::<Vec<_>>()]),
        J::Object(m) => {
            let mut o = Map::new();
            for (k, x) in m.iter() {
                o.insert(k.clone(), json_to_tree(x));
            }
            json!(["jobj", o])
        }
    }
}

// ---------------------------------------------------------------- projections
fn short(e: impl std::fmt::Display) -> String {
    e.to_string().chars().take(140).collect()
}

fn entity_to_wire(e: &Entity) -> J {
    let e: &ast::Entity = e.as_ref();
    let mut attrs = Map::new();
    for (k, v) in e.attrs() {
        match v {
            ast::PartialValue::Value(v) => attrs.insert(k.to_string(), value_to_wire(v)),
            ast::PartialValue::Residual(_) => attrs.insert(k.to_string(), json!(["residual"])),
        };
    }
    let mut tags = vec![];
    for (k, v) in e.tags() {
        match v {
            ast::PartialValue::Value(v) => tags.push(json!([str_to_wire(k), value_to_wire(v)])),
            ast::PartialValue::Residual(_) => tags.push(json!([str_to_wire(k), ["residual"]])),
        }
    }
    tags.sort_by_key(|x| x.to_string());
    let mut anc: Vec<J> = e.ancestors().map(uid_to_wire).collect();
    anc.sort_by_key(|x| x.to_string());
    json!({"uid": uid_to_wire(e.uid()), "attrs": attrs, "tags": tags, "anc": anc})
}

fn context_to_wire(c: &Context) -> J {
    let c: &ast::Context = c.as_ref();
    match c {
        ast::Context::Value(m) => {
            let mut o = Map::new();
            for (k, v) in m.iter() {
                o.insert(k.to_string(), value_to_wire(v));
            }
            json!(["rec", o])
        }
        ast::Context::RestrictedResidual(_) => json!(["residual"]),
    }
}

fn res<T>(r: Result<T, String>, proj: impl Fn(&T) -> J) -> (J, Option<T>) {
    match r {
        Ok(x) => (json!(["ok", proj(&x)]), Some(x)),
        Err(e) => (json!(["err", e]), None),
    }
}

// ---------------------------------------------------------------- round trips
fn rt_entity(x: &Entity, schema: &Schema) -> J {
    let mut o = Map::new();
    match x.to_json_value() {
        Err(e) => {
            o.insert("ser".into(), json!(["err", short(e)]));
        }
        Ok(v) => {
            o.insert("ser".into(), json!(["ok", json_to_tree(&v)]));
            // the other two serialisers must write the same document
            let s_same = x.to_json_string().ok().and_then(|s| serde_json::from_str::<J>(&s).ok()).map(|w| w == v).unwrap_or(false);
            let mut buf = vec![];
            let w_same = x.write_to_json(&mut buf).is_ok() && serde_json::from_slice::<J>(&buf).map(|w| w == v).unwrap_or(false);
            o.insert("ser_same".into(), json!(s_same && w_same));
            let (r, y) = res(Entity::from_json_value(v.clone(), Some(schema)).map_err(short), entity_to_wire);
            o.insert("re_ws".into(), r);
            o.insert("deq_ws".into(), json!(y.map(|y| x.deep_eq(&y)).unwrap_or(false)));
            let (r, y) = res(Entity::from_json_value(v, None).map_err(short), entity_to_wire);
            o.insert("re_ns".into(), r);
            o.insert("deq_ns".into(), json!(y.map(|y| x.deep_eq(&y)).unwrap_or(false)));
        }
    }
    J::Object(o)
}

fn ents_wire(es: &Entities) -> J {
    store_to_wire(es.as_ref())
}

fn rt_store(x: &Entities, schema: &Schema) -> J {
    let mut o = Map::new();
    match x.to_json_value() {
        Err(e) => {
            o.insert("ser".into(), json!(["err", short(e)]));
        }
        Ok(v) => {
            o.insert("ser".into(), json!(["ok", json_to_tree(&v)]));
            let mut buf = vec![];
            let w_same = x.write_to_json(&mut buf).is_ok()
                && serde_json::from_slice::<J>(&buf).map(|w| Entities::from_json_value(w, None).map(|y| y.deep_eq(x)).unwrap_or(false)).unwrap_or(false);
            o.insert("ser_same".into(), json!(w_same));
            let (r, y) = res(Entities::from_json_value(v.clone(), Some(schema)).map_err(short), ents_wire);
            o.insert("re_ws".into(), r);
            o.insert("deq_ws".into(), json!(y.map(|y| x.deep_eq(&y)).unwrap_or(false)));
            let (r, y) = res(Entities::from_json_value(v, None).map_err(short), ents_wire);
            o.insert("re_ns".into(), r);
            o.insert("deq_ns".into(), json!(y.map(|y| x.deep_eq(&y)).unwrap_or(false)));
        }
    }
    J::Object(o)
}

fn rt_context(x: &Context, schema: &Schema, action: &EntityUid) -> J {
    let mut o = Map::new();
    match x.to_json_value() {
        Err(e) => {
            o.insert("ser".into(), json!(["err", short(e)]));
        }
        Ok(v) => {
            o.insert("ser".into(), json!(["ok", json_to_tree(&v)]));
            o.insert("ser_same".into(), json!(true));
            let (r, y) = res(Context::from_json_value(v.clone(), Some((schema, action))).map_err(short), context_to_wire);
            o.insert("re_ws".into(), r);
            o.insert("deq_ws".into(), json!(y.map(|y| *x == y).unwrap_or(false)));
            let (r, y) = res(Context::from_json_value(v, None).map_err(short), context_to_wire);
            o.insert("re_ns".into(), r);
            o.insert("deq_ns".into(), json!(y.map(|y| *x == y).unwrap_or(false)));
        }
    }
    J::Object(o)
}

pub fn run(case: &J) -> R<J> {
    let schema = schema_of(&case["schema"])?;
    let kind = case["kind"].as_str().ok_or("kind")?;
    let mut out = Map::new();
    out.insert("ev".into(), json!("EntityJson"));
    for k in ["id", "kind", "json", "tmpl", "expl", "action", "ent", "ctx"] {
        if let Some(v) = case.get(k) {
            out.insert(k.into(), v.clone());
        }
    }
    match kind {
        "entity" => {
            let doc = tree_to_json(&case["json"])?;
            let (r, ws) = res(Entity::from_json_value(doc.clone(), Some(&schema)).map_err(short), entity_to_wire);
            out.insert("ws".into(), r);
            let (r, _) = res(Entity::from_json_str(doc.to_string(), Some(&schema)).map_err(short), entity_to_wire);
            out.insert("ws_str".into(), r);
            let (r, ns) = res(Entity::from_json_value(doc.clone(), None).map_err(short), entity_to_wire);
            out.insert("ns".into(), r);
            if let Some(x) = ws {
                out.insert("rt_ws".into(), rt_entity(&x, &schema));
            }
            if let Some(x) = ns {
                out.insert("rt_ns".into(), rt_entity(&x, &schema));
            }
        }
        "store" => {
            let doc = tree_to_json(&case["json"])?;
            let (r, ws) = res(Entities::from_json_value(doc.clone(), Some(&schema)).map_err(short), ents_wire);
            out.insert("ws".into(), r);
            let (r, _) = res(Entities::from_json_str(&doc.to_string(), Some(&schema)).map_err(short), ents_wire);
            out.insert("ws_str".into(), r);
            let (r, ns) = res(Entities::from_json_value(doc.clone(), None).map_err(short), ents_wire);
            out.insert("ns".into(), r);
            // incremental loading into an existing store must give the same store
            let (r, _) = res(
                Entities::from_json_value(json!([]), Some(&schema)).and_then(|e| e.add_entities_from_json_value(doc.clone(), Some(&schema))).map_err(short),
                ents_wire,
            );
            out.insert("ws_add".into(), r);
            // every entity taken out of a loaded store (it carries its transitive ancestors) round-trips on its own
            let members = |x: &Entities| -> J {
                let mut v: Vec<J> = x.iter().map(|e| json!({"uid": uid_to_wire(e.uid().as_ref()), "rt": rt_entity(e, &schema)})).collect();
                v.sort_by_key(|m| m["uid"].to_string());
                J::Array(v)
            };
            if let Some(x) = ws {
                out.insert("members_ws".into(), members(&x));
                out.insert("rt_ws".into(), rt_store(&x, &schema));
            }
            if let Some(x) = ns {
                out.insert("members_ns".into(), members(&x));
                out.insert("rt_ns".into(), rt_store(&x, &schema));
            }
        }
        "context" => {
            let doc = tree_to_json(&case["json"])?;
            let action: EntityUid = uid_from_wire(&case["action"])?.into();
            let (r, ws) = res(Context::from_json_value(doc.clone(), Some((&schema, &action))).map_err(short), context_to_wire);
            out.insert("ws".into(), r);
            let (r, _) = res(Context::from_json_str(&doc.to_string(), Some((&schema, &action))).map_err(short), context_to_wire);
            out.insert("ws_str".into(), r);
            let (r, ns) = res(Context::from_json_value(doc, None).map_err(short), context_to_wire);
            out.insert("ns".into(), r);
            if let Some(x) = ws {
                out.insert("rt_ws".into(), rt_context(&x, &schema, &action));
            }
            if let Some(x) = ns {
                out.insert("rt_ns".into(), rt_context(&x, &schema, &action));
            }
        }
        "api" => {
            // the datum never was JSON: built through the constructors
            let core = entities_from_wire(&json!([case["ent"]]))?;
            let x: Entity = core.into_iter().next().ok_or("api: no entity")?.into();
            out.insert("built".into(), entity_to_wire(&x));
            out.insert("rt".into(), rt_entity(&x, &schema));
            let es = Entities::from_entities([x], None).map_err(short)?;
            out.insert("rt_store".into(), rt_store(&es, &schema));
        }
        "apictx" => {
            let x: Context = context_from_wire(&case["ctx"])?.into();
            let action: EntityUid = uid("Action", "view")?.into();
            out.insert("built".into(), context_to_wire(&x));
            out.insert("action".into(), json!(["ent", "Action", "view"]));
            out.insert("rt".into(), rt_context(&x, &schema, &action));
        }
        _ => return err("bad kind"),
    }
    Ok(J::Object(out))
}

pub fn drive(_seed: u64, _n: usize) -> Vec<J> {
    vec![]
}
