------------------------------ MODULE MC_Front ------------------------------
(* Case generator for the front family (C19): the product operation kind x     *)
(* policy source x schema source x request x flags, one case per transition.   *)
(* The ASSUMEs are the M binding: the world is what Front.tla says it is       *)
(* (faults present, stores conformant, the CLI's renaming injective exactly    *)
(* where the source loads) and the CLI functions are the FFI functions modulo  *)
(* the renaming.                                                               *)
EXTENDS Front, Json

VARIABLES coord, c
NR == Len(FReqs)
LWs == {20, 40, 80, 120}
IWs == {0, 2, 4}
Slots2 == SUBSET {"principal", "resource"}
\* cedar link: per source its own template ids (plus an unknown id and a static policy's id) x the ids in use (plus a fresh one)
\* x every subset of the slots
TemplateIds(k) == {FrTid(p, FrPolSources[k].shape, TRUE) : p \in {q \in FrPolsOf(k) : FrIsTemplate(q)}}
LinkCases(k) == {<<"cliLink", k, t, n, g>> : t \in TemplateIds(k) \cup {"nope", "policy0"}, n \in FrCliIdsInUse(k) \cup {"fresh"}, g \in Slots2}
Kinds == {"authorize", "validate", "checkParse", "convPolicy", "convSchema", "format", "parts",
          "cliAuthorize", "cliValidate", "cliCheckParse", "cliFormat", "cliTranslatePolicy", "cliTranslateSchema", "cliLink"}
CasesOf(kind) ==
  CASE kind = "authorize" -> {<<"authorize", k, j, v, r>> : k \in 1..FrNP, j \in 0..FrNS, v \in BOOLEAN, r \in 1..NR}
    [] kind = "validate" -> {<<"validate", k, j, m>> : k \in 1..FrNP, j \in 1..FrNS, m \in {"strict", "permissive"}}
    [] kind = "checkParse" -> {<<"checkParse", "policies", k, 0, FALSE>> : k \in 1..FrNP}
                              \cup {<<"checkParse", "schema", j, 0, FALSE>> : j \in 1..FrNS}
                              \cup {<<"checkParse", "entities", e, j, FALSE>> : e \in 1..FrNE, j \in 0..FrNS}
                              \cup {<<"checkParse", "context", r, j, a>> : r \in 1..NR, j \in 0..FrNS, a \in BOOLEAN}
    [] kind = "convPolicy" -> {<<"convPolicy", n, d>> : n \in 1..FrNConv, d \in {"toJson", "toText"}}
    [] kind = "convSchema" -> {<<"convSchema", j, d>> : j \in 1..FrNS, d \in {"toJson", "toText", "toJsonResolved"}}
    [] kind = "format" -> {<<"format", k, lw, iw>> : k \in 1..FrNP, lw \in LWs, iw \in IWs}
    [] kind = "parts" -> {<<"parts", k>> : k \in 1..FrNP}
    [] kind = "cliAuthorize" -> {<<"cliAuthorize", k, j, v, r, vb, f>> : k \in 1..FrNP, j \in 0..FrNS, v \in BOOLEAN, r \in 1..NR,
                                                                       vb \in BOOLEAN, f \in {"args", "json"}}
    [] kind = "cliValidate" -> {<<"cliValidate", k, j>> : k \in 1..FrNP, j \in 1..FrNS}
    [] kind = "cliCheckParse" -> {<<"cliCheckParse", k, j, e>> : k \in 0..FrNP, j \in 0..FrNS, e \in 0..FrNE} \ {<<"cliCheckParse", 0, 0, 0>>}
    [] kind = "cliFormat" -> {<<"cliFormat", k, lw, iw, ch>> : k \in 1..FrNP, lw \in {40, 80}, iw \in {2, 4}, ch \in BOOLEAN}
    [] kind = "cliTranslatePolicy" -> {<<"cliTranslatePolicy", k, d>> : k \in 1..FrNP, d \in {"cedar-to-json", "json-to-cedar"}}
    [] kind = "cliTranslateSchema" -> {<<"cliTranslateSchema", j, d>> : j \in 1..FrNS, d \in {"cedar-to-json", "json-to-cedar", "cedar-to-json-with-resolved-types"}}
    [] kind = "cliLink" -> UNION {LinkCases(k) : k \in {1, 4, 11, 13}}
Init == coord \in Kinds /\ c = <<>>
Next == c = <<>> /\ c' \in CasesOf(coord) /\ UNCHANGED coord
Dump == PrintT("CASE " \o ToJson([op |-> c']))

\* ---------------------------------------------------------------- M: the world and the functions are consistent
AllPols == UNION {FrPolsOf(k) : k \in 1..FrNP}
Strip(p) == [id |-> p.id, effect |-> p.effect, principal |-> p.principal, action |-> p.action, resource |-> p.resource,
             conds |-> p.conds, slots |-> p.slots, template |-> p.template]
\* the first six sources are FfiWorld's
ASSUME \A k \in 1..Len(FPolSources) :
         /\ FrPolSources[k].shape = FPolSources[k].shape /\ FrPolSources[k].good = FPolSources[k].good
         /\ Len(FrPolSources[k].pols) = Len(FPolSources[k].pols)
         /\ \A i \in 1..Len(FPolSources[k].pols) : Strip(FrPolSources[k].pols[i]) = FPolSources[k].pols[i]
ASSUME \A j \in 1..Len(FSchemaSources) : FrSchemaSources[j].syntax = FSchemaSources[j].syntax /\ FrSchemaSources[j].schema = FSchemaSources[j].schema
                                         /\ FrSchemaOk(j) = FSchemaSources[j].good
\* every fault kind occurs, and an action that Sc3 lacks is named
ASSUME UNION {p.faults : p \in AllPols} = {"attr", "optional", "typeErr", "strictEq", "slotType"}
ASSUME \E p \in AllPols : FrBodyInvalid(p, Sc3, "permissive") /\ ~FrBodyInvalid(p, Sc2, "strict")
ASSUME \E p \in AllPols : FrBodyInvalid(p, Sc2, "strict") /\ ~FrBodyInvalid(p, Sc2, "permissive")
\* the stores conform where the world says so
ASSUME FrEntOk(1, 0) /\ FrEntOk(1, 1) /\ FrEntOk(1, 3) /\ ~FrEntOk(1, 7) /\ ~FrEntOk(2, 0) /\ FrEntOk(3, 0) /\ ~FrEntOk(3, 1) /\ FrEntOk(4, 0) /\ ~FrEntOk(4, 2)
       /\ FrEntOk(5, 1) /\ FrEntOk(5, 5)
\* the CLI's renaming is injective exactly on the sources it can load (among those whose text parses)
ASSUME \A k \in 1..FrNP : FrPolSources[k].text =>
         (FrPolSources[k].cli = (Cardinality({FrCliId(p) : p \in FrPolsOf(k)}) = Len(FrPolSources[k].pols)))
\* ids are distinct inside a source
ASSUME \A k \in 1..FrNP : Cardinality({p.id : p \in FrPolsOf(k)}) = Len(FrPolSources[k].pols)
\* the CLI reflects the response: exit 0 / 2 / 1 = Allow / Deny / failure, and modulo renaming it is the FFI's answer
Rename(k, ids) == {FrCliId(p) : p \in {q \in FrActive(k) : q.id \in ids}}
ASSUME \A k \in 1..FrNP, j \in 0..FrNS, v \in BOOLEAN, r \in 1..NR :
         LET f == FrontAuthorize(k, j, v, r)
             a == FrontAuthorizeCli(k, j, v, r, TRUE)
             q == FrontAuthorizeCli(k, j, v, r, FALSE)
         IN /\ a.exit = q.exit /\ a.word = q.word /\ a.errors = q.errors /\ q.reasons = {} /\ q.note = "none"
            /\ (a.exit = 0) = (a.word = "ALLOW") /\ (a.exit = 2) = (a.word = "DENY") /\ (a.exit = 1) = (a.word = "none")
            /\ (FrPolSources[k].good /\ FrPolSources[k].cli) =>
                 IF f[1] = "fail" THEN a.exit = 1
                 ELSE /\ a.exit = (IF f[2].decision = "Allow" THEN 0 ELSE 2)
                      /\ a.reasons = Rename(k, f[2].reasons) /\ a.errors = Rename(k, f[2].errors)
                      /\ (a.note = "list") = (f[2].reasons # {})
ASSUME \A k \in 1..FrNP, j \in 1..FrNS :
         (FrPolSources[k].good /\ FrPolSources[k].cli) =>
           LET f == FrontValidate(k, j, "strict")
           IN FrontValidateCli(k, j) = (IF f[1] = "fail" THEN 1 ELSE IF f[2] = {} THEN 0 ELSE 3)
\* permissive validation never reports more than strict
ASSUME \A k \in 1..FrNP, j \in 1..FrNS :
         FrontValidate(k, j, "strict")[1] = "ok" => FrontValidate(k, j, "permissive")[2] \subseteq FrontValidate(k, j, "strict")[2]
\* both decisions, both notes and an erroring policy occur
ASSUME {FrontAuthorizeCli(k, j, v, r, TRUE).exit : k \in 1..FrNP, j \in 0..FrNS, v \in BOOLEAN, r \in 1..NR} = {0, 1, 2}
ASSUME \E k \in 1..FrNP, r \in 1..NR : FrontAuthorizeCli(k, 0, FALSE, r, TRUE).errors # {}
ASSUME \E k \in 1..FrNP, r \in 1..NR : FrontAuthorizeCli(k, 0, FALSE, r, TRUE).note = "nopol"
\* conversion policies are pairwise different
ASSUME \A m, n \in 1..FrNConv : m # n => FrConvPol(m) # FrConvPol(n)

ASSUME PrintT("WORLD " \o ToJson([polSources |-> FrPolSources, schemaSources |-> FrSchemaSources, reqs |-> FReqs,
                                  storeWithout |-> WireStoreOf(FStoreWithout), entDocs |-> FrEntDocs,
                                  convPols |-> [n \in 1..FrNConv |-> FrConvPol(n)],
                                  convEst |-> [n \in 1..FrNConv |-> FrontPolicyToJson(n)]]))
==============================================================================
