----------------------------- MODULE Trace_Symcc -----------------------------
(* Trace specification for family "symcc" (C18).  For a literal symbolic       *)
(* environment the verification conditions must be constants, and "asserts     *)
(* unsatisfiable" (some assert is false) must hold exactly when the property   *)
(* holds on that single concrete environment according to the reference        *)
(* semantics.                                                                  *)
EXTENDS TypedWorld, Json, IOUtils

Rec == ndJsonDeserialize(IOEnv.TRACE)
VARIABLES l, bad

PolSetOf(ps) == {ps[i] : i \in 1..Len(ps)}
AllConst(a) == \A i \in 1..Len(a) : a[i] \in {"true", "false"}
Unsat(a) == \E i \in 1..Len(a) : a[i] = "false"
\* holds(property) <=> asserts unsatisfiable
Agrees(a, holds) == AllConst(a) /\ (Unsat(a) <=> holds)

EnvOk(ev, e) ==
  /\ "symbolizeError" \notin DOMAIN e /\ "setCompileError" \notin DOMAIN e
  /\ LET env == EnvP(e.params)
         P1 == PolSetOf(ev.pols)
         P2 == PolSetOf(ev.pols2)
         d1 == Authorize(P1, env.req, env.store).decision
         d2 == Authorize(P2, env.req, env.store).decision
     IN /\ \A p \in P1 :
             LET o == Outcome(p, env.req, env.store)
                 r == e.policies[p.id]
             IN /\ "compileError" \notin DOMAIN r
                /\ Agrees(r.neverErrors, o # "err")
                /\ Agrees(r.alwaysMatches, o = "sat")
                /\ Agrees(r.neverMatches, o # "sat")
        /\ Agrees(e.sets.alwaysAllows, d1 = "Allow")
        /\ Agrees(e.sets.alwaysDenies, d1 = "Deny")
        /\ Agrees(e.sets.implies, (d1 = "Allow") => (d2 = "Allow"))
        /\ Agrees(e.sets.equivalent, d1 = d2)
        /\ Agrees(e.sets.disjoint, ~(d1 = "Allow" /\ d2 = "Allow"))

\* Known finding C18-dangling-reference: SymCC's literal environment gives an entity WITHOUT a record default data, so a
\* policy that dereferences such an entity does not error symbolically although the evaluator reports a missing entity.
\* DerefsMissing over-approximates "the policy dereferences a record-less entity on this environment".
RECURSIVE DerefsMissing(_, _)
DerefsMissing(e, env) ==
  LET miss(b) == LET r == Eval(b, env.req, env.store, <<>>) IN IsOk(r) /\ IsEnt(r[2]) /\ r[2] \notin DOMAIN env.store
  IN IF e[1] \in {"lit", "var", "slot"} THEN FALSE
     ELSE IF e[1] \in {"get", "has"} THEN miss(e[2]) \/ DerefsMissing(e[2], env)
     ELSE IF e[1] = "bin" THEN (e[2] \in {"getTag", "hasTag", "in"} /\ miss(e[3])) \/ DerefsMissing(e[3], env) \/ DerefsMissing(e[4], env)
     ELSE IF e[1] \in {"and", "or"} THEN DerefsMissing(e[2], env) \/ DerefsMissing(e[3], env)
     ELSE IF e[1] \in {"not", "neg", "isEmpty", "like", "is"} THEN DerefsMissing(e[2], env)
     ELSE IF e[1] = "if" THEN DerefsMissing(e[2], env) \/ DerefsMissing(e[3], env) \/ DerefsMissing(e[4], env)
     ELSE IF e[1] = "set" THEN \E i \in 1..Len(e[2]) : DerefsMissing(e[2][i], env)
     ELSE IF e[1] = "record" THEN \E k \in DOMAIN e[2] : DerefsMissing(e[2][k], env)
     ELSE IF e[1] = "call" THEN \E i \in 1..Len(e[3]) : DerefsMissing(e[3][i], env)
     ELSE FALSE
Dangling(ev, e) == LET env == EnvP(e.params) IN \E p \in PolSetOf(ev.pols) \cup PolSetOf(ev.pols2) : DerefsMissing(Condition(p), env)

BadEnvs(ev) == {i \in 1..Len(ev.envs) : ~EnvOk(ev, ev.envs[i])}
Explained(ev) ==
  IF ev.ev = "TpeSetup" THEN TRUE
  ELSE ev.ev = "Symcc" /\ \A i \in BadEnvs(ev) : Dangling(ev, ev.envs[i])
IsKnownFinding(ev) == ev.ev = "Symcc" /\ BadEnvs(ev) # {} /\ \A i \in BadEnvs(ev) : Dangling(ev, ev.envs[i])

VARIABLE kf
Init == l = 1 /\ bad = {} /\ kf = {}
Next == /\ l <= Len(Rec)
        /\ l' = l + 1
        /\ bad' = IF Explained(Rec[l]) THEN bad ELSE bad \cup {l}
        /\ kf' = IF IsKnownFinding(Rec[l]) THEN kf \cup {l} ELSE kf
Report == (l = Len(Rec) + 1) => (PrintT(<<"TRACE-RESULT", Len(Rec), bad>>) /\ PrintT(<<"TRACE-KF", kf>>))
Accepted == TLCGet("stats").diameter = Len(Rec) + 1
==============================================================================
