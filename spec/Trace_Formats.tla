----------------------------- MODULE Trace_Formats -----------------------------
(* Trace specification for family "formats" (C06): every structured-format hop *)
(* yields an object whose projection equals that of the policy parsed from      *)
(* text: the specification's own JSON rendering EstOf(policy), to_json /        *)
(* from_json, text -> CST -> EST -> AST, PST, protobuf, and policy-set JSON /    *)
(* PST / protobuf including a template link (template id, new id, bindings).     *)
EXTENDS Integers, Sequences, TLC, Json, IOUtils

Rec == ndJsonDeserialize(IOEnv.TRACE)
VARIABLES l, bad
PolicyHops == {"spec_est", "to_json_from_json", "pst", "text_cst_est"}
Explained(ev) ==
  /\ ev.ev = "Formats"
  /\ \A h \in PolicyHops : h \in DOMAIN ev.hops /\ ev.hops[h] = ev.p0
  /\ {"est_from_json", "alt_from_json", "est_pst", "alt_pst", "alt_pst_json", "alt_json", "alt_text"} \subseteq DOMAIN ev.alts
  /\ \A h \in DOMAIN ev.alts : ev.alts[h] = ev.p0
  \* PolicySet::to_cedar: a set with a template link has no Cedar text (however the set was built); otherwise the text
  \* parses back to exactly the original policy (ids are not part of Cedar text)
  /\ "to_cedar" \in DOMAIN ev.hops /\ {"text", "json", "pst", "proto"} \subseteq DOMAIN ev.hops["to_cedar"]
  /\ LET noId == [k \in DOMAIN ev.p0 \ {"id"} |-> ev.p0[k]]
     IN \A h \in {"text", "json", "pst", "proto"} :
          LET r == ev.hops["to_cedar"][h]
          IN IF ev.template THEN r = <<"none">> ELSE (r[1] = "ok" /\ r[2] = <<noId>>)
  /\ ev.template => (ev.hops["to_cedar"]["text_link"] = FALSE /\ ev.hops["to_cedar"]["json_link"] = FALSE)
  \* the link taken on its own through the PST / JSON (from a text-built and from a PST-built set): same effect and condition
  /\ ev.template => /\ "link" \in DOMAIN ev.hops /\ {"orig", "pst", "json", "set_pst", "set_pst_json", "set_pst_pst"} \subseteq DOMAIN ev.hops["link"]
                    /\ \A h \in DOMAIN ev.hops["link"] : ev.hops["link"][h] = ev.hops["link"]["orig"]
  /\ IF ev.template
     THEN /\ ev.hops["proto"] = ev.p0
          /\ ev.hops["set_p0"].view.template = ev.p0
          /\ "absent" \notin DOMAIN ev.hops["set_p0"].view.link
          /\ \A h \in {"set_json", "set_pst", "set_proto"} : "view" \in DOMAIN ev.hops[h] /\ ev.hops[h].view = ev.hops["set_p0"].view
     ELSE \A h \in {"set_json", "set_pst", "set_proto"} : ev.hops[h] = ev.p0
Init == l = 1 /\ bad = {}
Next == /\ l <= Len(Rec)
        /\ l' = l + 1
        /\ bad' = IF Explained(Rec[l]) THEN bad ELSE bad \cup {l}
Report == (l = Len(Rec) + 1) => PrintT(<<"TRACE-RESULT", Len(Rec), bad>>)
Accepted == TLCGet("stats").diameter = Len(Rec) + 1
==============================================================================
