---------------------------- MODULE MC_EntityJson ----------------------------
(***************************************************************************)
(* Case generator and consistency check for C10 (family "entityjson").     *)
(* Binding M: for every generated template t, expected type ty and form    *)
(* j in EjForms(t, ty):  EjDec(j, ty) = EjVal(t) = EjDecNS(EjExplicit(t))  *)
(* (TemplatesDecode), and every template entity decodes to its denotation  *)
(* and conforms to Sc10.  Binding G: the JSON trees go through the real    *)
(* parsers with and without the schema, serialisation and reparsing.       *)
(***************************************************************************)
EXTENDS EntityJson, Json

CONSTANT Part          \* 1: contexts, API-built data; 2: single attributes, rich entities, stores, odd trees
VARIABLES kind, seed, c

LL(x) == <<"long", x>>
SS(cps) == <<"str", cps>>
BB(b) == <<"bool", b>>
EE(t, id) == <<"ent", t, id>>
RR(f) == <<"rec", f>>
ST(s) == <<"set", s>>
XS(fn, cps) == <<"extsp", fn, cps>>
XA(fn, t) == <<"extap", fn, t>>
U1 == EE("User", "u1")  U2 == EE("User", "u2")  U3 == EE("User", "u3")
G1 == EE("Group", "g1")  G2 == EE("Group", "g2")
Red == EE("Color", "red")  Green == EE("Color", "green")
Tm == EE("NS::Team", "t 1")  Un == EE("NS::Sub::Unit", "u::x")

Ip1 == XS("ip", <<49,50,55,46,48,46,48,46,49>>)        Ip2 == XS("ip", <<49,48,46,48,46,48,46,48,47,56>>)       Ip3 == XS("ip", <<58,58,49>>)    Ip4 == XS("ip", <<102,102,101,101,58,58,49,49,47,49,54>>)
D1 == XS("decimal", <<49,46,53>>)          D2 == XS("decimal", <<45,48,46,48,48,48,49>>)      D3 == XS("decimal", <<57,50,50,51,51,55,50,48,51,54,56,53,52,55,55,46,53,56,48,55>>)
D4 == XS("decimal", <<45,57,50,50,51,51,55,50,48,51,54,56,53,52,55,55,46,53,56,48,56>>)                              D5 == XS("decimal", <<49,46,53,48>>)
T1 == XS("datetime", <<50,48,50,52,45,48,49,45,48,49>>)  T2 == XS("datetime", <<49,57,55,48,45,48,49,45,48,49,84,48,48,58,48,48,58,48,48,90>>)   T3 == XS("datetime", <<50,48,50,52,45,48,50,45,50,57,84,49,50,58,51,52,58,53,54,46,55,56,57,43,48,53,51,48>>)
T4 == XA("toDate", T3)               T5 == XS("datetime", <<49,57,54,57,45,49,50,45,51,49,84,50,51,58,53,57,58,53,57,46,57,57,57,90>>)
R1 == XS("duration", <<49,104>>)          R2 == XS("duration", <<45,49,100,50,104,51,109,52,115,53,109,115>>) R3 == XS("duration", <<48,109,115>>)    R4 == XA("toTime", T3)

StrPool == {SS(<<>>), SS(<<97>>), SS(<<128512>>), SS(<<34, 92, 10, 0, 9>>), SS(<<101, 769, 233>>), SS(<<49,46,53>>), SS(<<49,50,55,46,48,46,48,46,49>>), SS(<<95,95,101,110,116,105,116,121>>),
            SS(<<8238, 97>>), SS(<<123,34,116,121,112,101,34,58,34,85,115,101,114,34,44,34,105,100,34,58,34,117,49,34,125>>)}

\* ---- (attribute of User, template) pairs
AttrPool ==
  {<<"n", v>> : v \in {LL(OfInt(1)), LL(I64Min), LL(I64Max), LL(OfInt(0))}}
  \cup {<<"b", BB(FALSE)>>}
  \cup {<<"s", v>> : v \in StrPool}
  \cup {<<"mgr", v>> : v \in {U1, U2, U3}} \cup {<<"fav", v>> : v \in {Red, Green}}
  \cup {<<"nsref", Tm>>} \cup {<<"nsrefs", v>> : v \in {ST({}), ST({Un, EE("NS::Sub::Unit", "")})}}
  \cup {<<"ip", v>> : v \in {Ip1, Ip2, Ip3, Ip4}} \cup {<<"dec", v>> : v \in {D1, D2, D3, D4, D5}}
  \cup {<<"dt", v>> : v \in {T1, T2, T3, T4, T5}} \cup {<<"dur", v>> : v \in {R1, R2, R3, R4}}
  \cup {<<"nums", v>> : v \in {ST({}), ST({LL(OfInt(1)), LL(OfInt(2))}), ST({LL(I64Min), LL(I64Max)})}}
  \cup {<<"strs", v>> : v \in {ST({}), ST({SS(<<49,46,53>>), SS(<<128512>>)})}}
  \cup {<<"friends", v>> : v \in {ST({}), ST({U2}), ST({U1, U2, U3})}}
  \cup {<<"ips", v>> : v \in {ST({}), ST({Ip1}), ST({Ip1, Ip3})}}
  \cup {<<"grid", v>> : v \in {ST({}), ST({ST({})}), ST({ST({D1}), ST({D1, D2})}), ST({ST({D1, D5})})}}
  \cup {<<"rec", v>> : v \in {RR(<<>>), RR([who |-> U2]), RR([at |-> T1]), RR([who |-> U3, at |-> T4, inner |-> RR([c |-> Red, d |-> R2])]),
                             RR([inner |-> RR([c |-> Green])])}}
  \cup {<<"recs", v>> : v \in {ST({}), ST({RR([c |-> Red]), RR([c |-> Green])})}}
  \cup {<<"look", RR([type |-> SS(<<85,115,101,114>>), id |-> SS(<<117,49>>)])>>, <<"call", RR([fn |-> SS(<<105,112>>), arg |-> SS(<<49,50,55,46,48,46,48,46,49>>)])>>}

NoF == <<>>
TEnt_(uid, attrs, tags, parents) == [uid |-> uid, attrs |-> attrs, tags |-> tags, parents |-> parents]
UserWith(a, v) == TEnt_(U1, IF a = "n" THEN [n |-> v] ELSE (a :> v) @@ [n |-> LL(OfInt(7))], NoF, {})

\* ---- entities with tags / parents / several attributes at once
RichEntities ==
  { TEnt_(U1, [n |-> LL(OfInt(1))], [k1 |-> D1], {G1}),
    TEnt_(U1, [n |-> LL(OfInt(1))], [k1 |-> D2, k2 |-> D3], {G1, G2}),
    TEnt_(U2, [n |-> LL(OfInt(2)), mgr |-> U1, ip |-> Ip2, rec |-> RR([who |-> U1, at |-> T2])], NoF, {G2}),
    TEnt_(U2, [n |-> LL(I64Min), fav |-> Red, dt |-> T4, ips |-> ST({Ip1, Ip4}), s |-> SS(<<128512, 34>>)], [k2 |-> D4], {}),
    TEnt_(G1, [owner |-> U1], [k1 |-> ST({U1, U2})], {G2}),
    TEnt_(G1, NoF, [k1 |-> ST({}), k2 |-> ST({U3})], {}),
    TEnt_(G2, NoF, NoF, {}),
    \* namespaced entity types: as uid, attribute value, tag value and parent
    TEnt_(Tm, [lead |-> U1, unit |-> Un], NoF, {G1}),
    TEnt_(Un, NoF, [k1 |-> Tm], {Tm}),
    TEnt_(U2, [n |-> LL(OfInt(3)), nsref |-> Tm, nsrefs |-> ST({Un})], NoF, {G1}) }
RichOk == {e \in RichEntities : e.uid \notin e.parents}
EnumAndActionEntities ==
  { TEnt_(Red, NoF, NoF, {}), TEnt_(ActUid("view"), NoF, NoF, {ActUid("all")}), TEnt_(ActUid("all"), NoF, NoF, {}) }

\* ---- stores: U1 variant x U2 variant x group hierarchy
StU1 == { TEnt_(U1, [n |-> LL(OfInt(1))], NoF, {G1}),
          TEnt_(U1, [n |-> LL(OfInt(1)), mgr |-> U2, dec |-> D1, friends |-> ST({U2, U3})], [k1 |-> D2], {G1}),
          TEnt_(U1, [n |-> LL(I64Max), dt |-> T3, rec |-> RR([who |-> U2, at |-> T1, inner |-> RR([c |-> Red])])], NoF, {G1, G2}) }
StU2 == { {}, {TEnt_(U2, [n |-> LL(OfInt(2)), ip |-> Ip3, dur |-> R4], [k1 |-> D1], {})},
          {TEnt_(U2, [n |-> LL(OfInt(2)), fav |-> Green, grid |-> ST({ST({D1})})], NoF, {G2})} }
StGroups == { {TEnt_(G1, NoF, NoF, {})}, {TEnt_(G1, NoF, NoF, {G2})},
              {TEnt_(G1, [owner |-> U1], [k1 |-> ST({U1})], {G2}), TEnt_(G2, NoF, NoF, {})},
              {TEnt_(G1, NoF, NoF, {G2}), TEnt_(G2, NoF, NoF, {}), TEnt_(Red, NoF, NoF, {})},
              {TEnt_(G1, NoF, NoF, {G2}), TEnt_(G2, NoF, NoF, {}), TEnt_(ActUid("view"), NoF, NoF, {ActUid("all")})},
              {TEnt_(G1, NoF, NoF, {G2}), TEnt_(G2, NoF, NoF, {}), TEnt_(Tm, [unit |-> Un], NoF, {G1}), TEnt_(Un, NoF, [k1 |-> Tm], {Tm})} }
Stores == {{u1} \cup u2 \cup gs : u1 \in StU1, u2 \in StU2, gs \in StGroups}

\* ---- contexts for action view
CtxPool == { [flag |-> BB(TRUE)], [flag |-> BB(FALSE), who |-> U1], [flag |-> BB(TRUE), at |-> T3], [flag |-> BB(TRUE), at |-> T4],
             [flag |-> BB(TRUE), ips |-> ST({Ip1, Ip2})], [flag |-> BB(TRUE), nest |-> RR([ip |-> Ip3])],
             [flag |-> BB(TRUE), nest |-> RR([ip |-> Ip1, tint |-> Red]), who |-> U3, at |-> T1],
             [flag |-> BB(TRUE), look |-> RR([type |-> SS(<<85,115,101,114>>), id |-> SS(<<117,49>>)])], [flag |-> BB(TRUE), txt |-> SS(<<50,48,50,52,45,48,49,45,48,49>>)],
             [flag |-> BB(TRUE), txt |-> SS(<<128512, 0, 34>>)] }

\* ---- uniform renderings for the stores: one mode for every node
RECURSIVE EjRender(_, _, _)
EjRender(t, ty, mode) ==
  CASE t[1] = "bool" -> JB(t[2]) [] t[1] = "long" -> JN(t[2]) [] t[1] = "str" -> JS(t[2])
    [] t[1] = "ent" -> IF ty[1] = "Entity" /\ mode # "explicit" THEN EjTypeId(t) ELSE EjUidExplicit(t)
    [] t[1] = "extsp" -> LET fa == JO([fn |-> JNm(t[2]), arg |-> JS(t[3])])
                         IN IF ty[1] = "Ext" /\ mode = "bare" THEN JS(t[3]) ELSE IF ty[1] = "Ext" /\ mode = "fnarg" THEN fa ELSE JO("__extn" :> fa)
    [] t[1] = "extap" -> LET fa == JO([fn |-> JNm(t[2]), arg |-> EjRender(t[3], IF ty[1] = "Ext" THEN EjArgTys(t[2])[1] ELSE EjNoTy, mode)])
                         IN IF ty[1] = "Ext" /\ mode # "explicit" THEN fa ELSE JO("__extn" :> fa)
    [] t[1] = "set" -> LET els == EjSeq(t[2]) IN JA([i \in 1..Len(els) |-> EjRender(els[i], IF ty[1] = "Set" THEN ty[2] ELSE EjNoTy, mode)])
    [] t[1] = "rec" -> JO([k \in DOMAIN t[2] |-> EjRender(t[2][k], IF ty[1] = "Record" /\ k \in DOMAIN ty[2] THEN ty[2][k][1] ELSE EjNoTy, mode)])
UidForm(mode, u) == IF mode = "explicit" THEN EjUidExplicit(u) ELSE EjTypeId(u)
EntityRender(e, mode) ==
  LET isAct == IsActionUid(e.uid)
      et == Sc10.ets[e.uid[2]]
      aty == IF isAct THEN EjNoTy ELSE <<"Record", et.attrs>>
      tty == IF isAct \/ et.tags = <<"none">> THEN EjNoTy ELSE EjTagsRecTy(et.tags, DOMAIN e.tags)
      ps == EjSeq(e.parents)
      base == [uid |-> UidForm(mode, e.uid), attrs |-> EjRender(<<"rec", e.attrs>>, aty, mode),
               parents |-> JA([i \in 1..Len(ps) |-> UidForm(mode, ps[i])])]
  IN JO(IF DOMAIN e.tags = {} THEN base ELSE base @@ [tags |-> EjRender(<<"rec", e.tags>>, tty, mode)])
Modes == {"explicit", "bare", "fnarg"}

\* ---- odd trees written directly (escape look-alikes); placed as attribute `s` / `look` / `mgr` / `ip` of User u1
OddTrees ==
  { JO("__entity" :> JN(OfInt(5))), JO("__entity" :> JO([type |-> JNm("User")])), JO("__extn" :> JO([fn |-> JNm("ip")])),
    JO("__expr" :> JS(<<49,32,43,32,49>>)), JO(("__entity" :> EjTypeId(U1)) @@ ("x" :> JN(OfInt(1)))),
    JO("__entity" :> JO([type |-> JNm("User"), id |-> JNm("u1"), x |-> JB(TRUE)])),
    JO("__extn" :> JO([fn |-> JNm("ip"), arg |-> JS(<<49,50,55,46,48,46,48,46,49>>), x |-> JB(TRUE)])),
    JO("__extn" :> JO([fn |-> JNm("offset"), args |-> JA(<<EjExplicit(T1), EjExplicit(R1)>>)])),
    JO([fn |-> JNm("offset"), args |-> JA(<<JS(<<50,48,50,52,45,48,49,45,48,49>>), JS(<<49,104>>)>>)]),
    JO([type |-> JNm("User"), id |-> JNm("u1")]), JO([fn |-> JNm("ip"), arg |-> JS(<<49,50,55,46,48,46,48,46,49>>)]), JS(<<49,50,55,46,48,46,48,46,49>>), JS(<<49,46,53>>),
    JO("_entity" :> EjTypeId(U1)), JO("__entity " :> EjTypeId(U1)), JA(<<EjTypeId(U1)>>), JO(<<>>), JA(<<>>),
    JO([type |-> JNm("User"), id |-> JN(OfInt(1))]), JO("__entity" :> JO([type |-> JNm("User"), id |-> JN(OfInt(1))])) }
OddAttrs == {"s", "look", "mgr", "ip", "dt", "friends", "rec"}
OddEntity(a, j) == JO([uid |-> EjTypeId(U1), attrs |-> JO((a :> j) @@ [n |-> JN(OfInt(7))]), parents |-> JA(<<>>)])

\* ---- values that must be refused by the serialiser (built through the API, never through JSON)
ApiValues == { RR("__entity" :> LL(OfInt(1))), RR("__extn" :> SS(<<120>>)), RR("__expr" :> SS(<<49>>)), RR(("__entity" :> U1) @@ ("y" :> BB(TRUE))),
               ST({RR("__entity" :> LL(OfInt(1)))}), RR([ok |-> RR("__extn" :> LL(OfInt(2)))]),
               RR("_entity" :> U1), RR("__entity2" :> U1), RR([type |-> SS(<<85,115,101,114>>), id |-> SS(<<117,49>>)]), RR([fn |-> SS(<<105,112>>), arg |-> SS(<<49,46,49,46,49,46,49>>)]),
               RR("" :> LL(OfInt(0))), ST({}), RR(<<>>) }

WireEntT(e) == [uid |-> e.uid, attrs |-> e.attrs, tags |-> {<<k, e.tags[k]>> : k \in DOMAIN e.tags}, parents |-> e.parents]
WireEntV(v) == [uid |-> v.uid, attrs |-> v.attrs, tags |-> v.tags, anc |-> v.anc]

Init == /\ c = <<>>
        /\ kind \in (IF Part = 1 THEN {"context", "api"} ELSE {"attr", "rich", "store", "odd"})
        /\ \/ kind = "attr" /\ seed \in AttrPool
           \/ kind = "rich" /\ seed \in RichOk \cup EnumAndActionEntities
           \/ kind = "store" /\ seed \in Stores
           \/ kind = "context" /\ seed \in CtxPool
           \/ kind = "odd" /\ seed \in OddTrees
           \/ kind = "api" /\ seed \in ApiValues
Case(k, json, extra) == [kind |-> k, json |-> json] @@ extra
\* the document uses the explicit escapes everywhere inside attribute / tag values (uid and parents may still be bare)
ExplEnt(e, j) == /\ j[2]["attrs"] = EjExplicit(<<"rec", e.attrs>>)
                 /\ (DOMAIN e.tags # {} => j[2]["tags"] = EjExplicit(<<"rec", e.tags>>))
Next ==
  /\ c = <<>>
  /\ c' \in
       CASE kind = "attr" ->
              {Case("entity", j, [tmpl |-> WireEntT(UserWith(seed[1], seed[2])), expl |-> ExplEnt(UserWith(seed[1], seed[2]), j)])
               : j \in UNION {EjEntityForms(UserWith(seed[1], seed[2]), Sc10, LAMBDA u : UidForm(m, u)) : m \in {"explicit", "bare"}}}
         [] kind = "rich" ->
              {Case("entity", j, [tmpl |-> WireEntT(seed), expl |-> ExplEnt(seed, j)]) : j \in EjEntityForms(seed, Sc10, LAMBDA u : UidForm("bare", u)) \cup {EntityRender(seed, "explicit")}}
         [] kind = "store" ->
              {Case("store", JA([i \in 1..Len(EjSeq(seed)) |-> EntityRender(EjSeq(seed)[i], m)]), [tmpl |-> {WireEntT(e) : e \in seed}, expl |-> m = "explicit"]) : m \in Modes}
         [] kind = "context" ->
              {Case("context", j, [tmpl |-> seed, action |-> ActUid("view"), expl |-> j = EjExplicit(<<"rec", seed>>)]) : j \in EjForms(<<"rec", seed>>, <<"Record", Sc10.acts["view"].context>>)}
         [] kind = "odd" ->
              {Case("entity", OddEntity(a, seed), <<>>) : a \in OddAttrs} \cup {Case("context", JO(("txt" :> seed) @@ [flag |-> JB(TRUE)]), [action |-> ActUid("view")])}
         [] kind = "api" ->
              { [kind |-> "api", ent |-> WireEntV([uid |-> U1, attrs |-> [n |-> LL(OfInt(1)), x |-> seed], tags |-> {}, anc |-> {}])],
                [kind |-> "api", ent |-> WireEntV([uid |-> G1, attrs |-> <<>>, tags |-> {<<EjCp("k1"), seed>>}, anc |-> {G2}])],
                [kind |-> "apictx", ctx |-> <<"rec", [flag |-> BB(TRUE), x |-> seed]>>] }
  /\ UNCHANGED <<kind, seed>>

\* ---------------------------------------------------------------- binding M
AllTemplateTypes == {<<p[2], Sc10.ets["User"].attrs[p[1]][1]>> : p \in AttrPool}
TemplatesDecode ==
  \A tt \in AllTemplateTypes :
    /\ ~EjIsErr(EjVal(tt[1]))
    /\ ScInhabits(EjVal(tt[1]), tt[2])
    /\ EjDecNS(EjExplicit(tt[1])) = EjVal(tt[1])
    /\ \A j \in EjForms(tt[1], tt[2]) : EjDec(j, tt[2]) = EjVal(tt[1])
    /\ \A m \in Modes : EjRender(tt[1], tt[2], m) \in EjForms(tt[1], tt[2])
EntitiesDecode ==
  \A e \in RichOk \cup UNION Stores :
    /\ ConformsEntity(Sc10, EjEntityVal(e)) \/ IsActionUid(e.uid)
    /\ \A m \in Modes : EjDecEntity(EntityRender(e, m), Sc10, TRUE) = <<"okE", EjEntityVal(e)>>
    /\ EjDecEntity(EntityRender(e, "explicit"), Sc10, FALSE) = <<"okE", EjEntityVal(e)>>
ContextsDecode ==
  \A x \in CtxPool : \A j \in EjForms(<<"rec", x>>, <<"Record", Sc10.acts["view"].context>>) :
    EjDec(j, <<"Record", Sc10.acts["view"].context>>) = EjVal(<<"rec", x>>)
ASSUME TemplatesDecode
ASSUME EntitiesDecode
ASSUME ContextsDecode
ASSUME \A v \in ApiValues : EjSerializable(v) <=> v \in {RR("_entity" :> U1), RR("__entity2" :> U1), RR([type |-> SS(<<85,115,101,114>>), id |-> SS(<<117,49>>)]),
                                                        RR([fn |-> SS(<<105,112>>), arg |-> SS(<<49,46,49,46,49,46,49>>)]), RR("" :> LL(OfInt(0))), ST({}), RR(<<>>)}

\* ---------------------------------------------------------------- binding G
Dump == PrintT("CASE " \o ToJson(c'))
ASSUME PrintT("WORLD " \o ToJson([schema |-> WireSchema(Sc10)]))
==============================================================================
