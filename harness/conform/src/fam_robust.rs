//! family "robust" (C20): arbitrary inputs through every text / JSON / bytes
//! entry point and, on success, the downstream pipelines; each entry point runs
//! under its own catch_unwind.  Outcome alphabet: ok | err | panic:<msg>.

use cedar_policy::proto::traits::Protobuf;
use cedar_policy::*;
use serde_json::{json, Map, Value as J};
use std::collections::HashMap;
use std::panic::{catch_unwind, AssertUnwindSafe};
use std::str::FromStr;

const SCHEMA: &str = r#"
entity User in [Group] { n: Long, opt?: Long, mgr?: User, rec: { inner?: Long } } tags Long;
entity Group;
entity Doc { owner: User, pub: Bool };
action view appliesTo { principal: [User], resource: [Doc], context: { flag: Bool, lim?: Long } };
action edit appliesTo { principal: [User], resource: [Doc], context: {} };
"#;
const ENTITIES: &str = r#"[
 {"uid":{"type":"User","id":"u1"},"attrs":{"n":1,"rec":{}},"parents":[{"type":"Group","id":"g"}],"tags":{"k":1}},
 {"uid":{"type":"Group","id":"g"},"attrs":{},"parents":[]},
 {"uid":{"type":"Doc","id":"d"},"attrs":{"owner":{"__entity":{"type":"User","id":"u1"}},"pub":true},"parents":[]}]"#;

fn render_err<E: std::error::Error + miette::Diagnostic + Send + Sync + 'static>(e: E) {
    let _ = e.to_string();
    let _ = format!("{:?}", miette::Report::new(e));
}

fn guard(out: &mut Map<String, J>, name: &str, f: impl FnOnce() -> bool) {
    let r = catch_unwind(AssertUnwindSafe(f));
    out.insert(
        name.to_string(),
        match r {
            Ok(true) => json!("ok"),
            Ok(false) => json!("err"),
            Err(p) => {
                let msg = p.downcast_ref::<&str>().map(|s| s.to_string()).or_else(|| p.downcast_ref::<String>().cloned()).unwrap_or_else(|| "panic".into());
                json!(format!("panic:{msg:.200}"))
            }
        },
    );
}

fn fixtures() -> (Schema, Entities, Request) {
    let schema = Schema::from_cedarschema_str(SCHEMA).expect("fixture schema").0;
    let ents = Entities::from_json_str(ENTITIES, Some(&schema)).expect("fixture entities");
    let req = Request::new(
        EntityUid::from_str(r#"User::"u1""#).expect("uid"),
        EntityUid::from_str(r#"Action::"view""#).expect("uid"),
        EntityUid::from_str(r#"Doc::"d""#).expect("uid"),
        Context::from_json_str(r#"{"flag": true}"#, None).expect("ctx"),
        None,
    )
    .expect("request");
    (schema, ents, req)
}

/// everything that can be done with a successfully parsed policy set
fn downstream(ps: &PolicySet) {
    let (schema, ents, req) = fixtures();
    let _ = ps.to_string();
    let _ = ps.to_cedar();
    let _ = ps.clone().to_json().map(|j| PolicySet::from_json_value(j));
    let v = Validator::new(schema.clone());
    let r = v.validate(ps, ValidationMode::Strict);
    for e in r.validation_errors() {
        let _ = e.to_string();
        let _ = format!("{:?}", miette::Report::new(e.clone()));
    }
    for w in r.validation_warnings() {
        let _ = w.to_string();
    }
    let _ = v.validate(ps, ValidationMode::Permissive);
    let _ = v.validate_with_level(ps, ValidationMode::Strict, 2);
    let resp = Authorizer::new().is_authorized(&req, ps, &ents);
    for e in resp.diagnostics().errors() {
        let _ = e.to_string();
    }
    let _ = Authorizer::new().is_authorized_partial(&req, ps, &ents);
    // link every template with a fixed environment
    let mut ps2 = ps.clone();
    let tids: Vec<PolicyId> = ps.templates().map(|t| t.id().clone()).collect();
    for (i, tid) in tids.iter().enumerate() {
        let mut vals = HashMap::new();
        vals.insert(SlotId::principal(), EntityUid::from_str(r#"User::"u1""#).expect("uid"));
        let _ = ps2.link(tid.clone(), PolicyId::new(format!("link{i}")), vals.clone());
        vals.insert(SlotId::resource(), EntityUid::from_str(r#"Doc::"d""#).expect("uid"));
        let _ = ps2.link(tid.clone(), PolicyId::new(format!("link2_{i}")), vals);
    }
    let _ = Authorizer::new().is_authorized(&req, &ps2, &ents);
    if let Ok(bytes) = ps2.encode() {
        let _ = PolicySet::decode(&bytes[..]);
    }
    let _ = ps.to_pst().map(PolicySet::from_pst);
    let _ = ps.tpe(
        &PartialRequest::new(
            PartialEntityUid::new(EntityTypeName::from_str("User").expect("ty"), None),
            EntityUid::from_str(r#"Action::"view""#).expect("uid"),
            PartialEntityUid::from_concrete(EntityUid::from_str(r#"Doc::"d""#).expect("uid")),
            None,
            &schema,
        )
        .expect("partial request"),
        &PartialEntities::empty(),
        &schema,
    );
}

fn policy_text(s: &str, out: &mut Map<String, J>) {
    guard(out, "PolicySet::from_str", || match PolicySet::from_str(s) {
        Ok(ps) => {
            downstream(&ps);
            true
        }
        Err(e) => {
            render_err(e);
            false
        }
    });
    guard(out, "Policy::parse", || match Policy::parse(None, s) {
        Ok(p) => {
            let _ = p.to_string();
            let _ = p.to_json();
            let _ = p.to_pst();
            true
        }
        Err(e) => {
            render_err(e);
            false
        }
    });
    guard(out, "Template::parse", || match Template::parse(None, s) {
        Ok(t) => {
            let _ = t.to_string();
            let _ = t.to_json();
            if let Ok(b) = t.encode() {
                let _ = Template::decode(&b[..]);
            }
            true
        }
        Err(e) => {
            render_err(e);
            false
        }
    });
    guard(out, "Expression::from_str", || match Expression::from_str(s) {
        Ok(e) => {
            let (_, ents, req) = fixtures();
            let _ = eval_expression(&req, &ents, &e);
            let _ = e.to_string();
            if let Ok(b) = e.encode() {
                let _ = Expression::decode(&b[..]);
            }
            true
        }
        Err(e) => {
            render_err(e);
            false
        }
    });
    guard(out, "RestrictedExpression::from_str", || match RestrictedExpression::from_str(s) {
        Ok(_) => true,
        Err(e) => {
            render_err(e);
            false
        }
    });
    guard(out, "EntityUid::from_str", || EntityUid::from_str(s).map_err(render_err).is_ok());
    guard(out, "formatter", || {
        let cfg = cedar_policy_formatter::Config { line_width: 40, indent_width: 2 };
        match cedar_policy_formatter::policies_str_to_pretty(s, &cfg) {
            Ok(o) => {
                let _ = cedar_policy_formatter::policies_str_to_pretty(&o, &cfg);
                true
            }
            Err(e) => {
                let _ = format!("{e:?}");
                false
            }
        }
    });
    guard(out, "ffi::check_parse_policy_set", || {
        ffi::check_parse_policy_set_json_str(&json!({"staticPolicies": s}).to_string()).map(|r| r.contains("success")).unwrap_or(false)
    });
    guard(out, "ffi::format", || {
        ffi::format_json_str(&json!({"policyText": s, "lineWidth": 30, "indentWidth": 2}).to_string()).map(|r| r.contains("success")).unwrap_or(false)
    });
    guard(out, "ffi::is_authorized(policies text)", || {
        let call = json!({"principal": {"type":"User","id":"u1"}, "action": {"type":"Action","id":"view"}, "resource": {"type":"Doc","id":"d"},
                          "context": {"flag": true}, "policies": {"staticPolicies": s}, "entities": []});
        ffi::is_authorized_json_str(&call.to_string()).map(|r| r.contains("success")).unwrap_or(false)
    });
}

fn schema_text(s: &str, out: &mut Map<String, J>) {
    guard(out, "Schema::from_cedarschema_str", || match Schema::from_cedarschema_str(s) {
        Ok((sc, warnings)) => {
            for w in warnings {
                let _ = w.to_string();
            }
            if let Ok(b) = sc.encode() {
                let _ = Schema::decode(&b[..]);
            }
            let _ = Entities::from_json_str(ENTITIES, Some(&sc));
            let _ = Validator::new(sc).validate(&PolicySet::from_str("permit(principal, action, resource) when { principal has n };").expect("p"), ValidationMode::Strict);
            true
        }
        Err(e) => {
            render_err(e);
            false
        }
    });
    guard(out, "SchemaFragment::from_cedarschema_str", || match SchemaFragment::from_cedarschema_str(s) {
        Ok((f, _)) => {
            let _ = f.to_cedarschema();
            let _ = f.to_json_value();
            true
        }
        Err(e) => {
            render_err(e);
            false
        }
    });
    guard(out, "ffi::check_parse_schema", || ffi::check_parse_schema_json_str(&json!(s).to_string()).map(|r| r.contains("success")).unwrap_or(false));
    guard(out, "ffi::validate(schema text)", || {
        let call = json!({"schema": s, "policies": {"staticPolicies": "permit(principal, action, resource);"}});
        ffi::validate_json_str(&call.to_string()).map(|r| r.contains("success")).unwrap_or(false)
    });
}

fn json_text(s: &str, out: &mut Map<String, J>) {
    let (schema, _, _) = fixtures();
    guard(out, "Policy::from_json", || match serde_json::from_str::<J>(s) {
        Ok(j) => match Policy::from_json(None, j) {
            Ok(p) => {
                let _ = p.to_string();
                let _ = p.to_cedar();
                let mut ps = PolicySet::new();
                if ps.add(p).is_ok() {
                    downstream(&ps);
                }
                true
            }
            Err(e) => {
                render_err(e);
                false
            }
        },
        Err(_) => false,
    });
    guard(out, "Template::from_json", || match serde_json::from_str::<J>(s) {
        Ok(j) => Template::from_json(None, j).map(|t| t.to_string()).map_err(render_err).is_ok(),
        Err(_) => false,
    });
    guard(out, "PolicySet::from_json_str", || match PolicySet::from_json_str(s) {
        Ok(ps) => {
            downstream(&ps);
            true
        }
        Err(e) => {
            render_err(e);
            false
        }
    });
    guard(out, "Entities::from_json_str", || match Entities::from_json_str(s, None) {
        Ok(es) => {
            let _ = es.to_json_value();
            let mut d = String::new();
            let _ = es.as_ref().to_dot_str(&mut d);
            if let Ok(b) = es.encode() {
                let _ = Entities::decode(&b[..]);
            }
            true
        }
        Err(e) => {
            render_err(e);
            false
        }
    });
    guard(out, "Entities::from_json_str(schema)", || Entities::from_json_str(s, Some(&schema)).map_err(render_err).is_ok());
    guard(out, "Entity::from_json_str", || Entity::from_json_str(s, Some(&schema)).map_err(render_err).is_ok());
    guard(out, "Context::from_json_str", || Context::from_json_str(s, None).map_err(render_err).is_ok());
    guard(out, "Context::from_json_str(schema)", || {
        let a = EntityUid::from_str(r#"Action::"view""#).expect("uid");
        Context::from_json_str(s, Some((&schema, &a))).map_err(render_err).is_ok()
    });
    guard(out, "Schema::from_json_str", || match Schema::from_json_str(s) {
        Ok(sc) => {
            let _ = sc.action_groups().count();
            let _ = SchemaFragment::from_json_str(s).map(|f| f.to_cedarschema());
            true
        }
        Err(e) => {
            render_err(e);
            false
        }
    });
    guard(out, "EntityUid::from_json", || serde_json::from_str::<J>(s).ok().map(|j| EntityUid::from_json(j).is_ok()).unwrap_or(false));
    guard(out, "ffi::is_authorized_json_str", || ffi::is_authorized_json_str(s).map(|r| r.contains("success")).unwrap_or(false));
    guard(out, "ffi::validate_json_str", || ffi::validate_json_str(s).map(|r| r.contains("success")).unwrap_or(false));
    guard(out, "ffi::check_parse_entities", || ffi::check_parse_entities_json_str(s).map(|r| r.contains("success")).unwrap_or(false));
    guard(out, "ffi::check_parse_context", || ffi::check_parse_context_json_str(s).map(|r| r.contains("success")).unwrap_or(false));
    guard(out, "ffi::is_authorized_partial_json_str", || ffi::is_authorized_partial_json_str(s).map(|r| r.contains("residuals")).unwrap_or(false));
}

fn bytes_input(b: &[u8], out: &mut Map<String, J>) {
    guard(out, "proto PolicySet", || PolicySet::decode(b).map(|ps| downstream(&ps)).is_ok());
    guard(out, "proto Template", || Template::decode(b).map(|t| t.to_string()).is_ok());
    guard(out, "proto Expression", || Expression::decode(b).map(|e| e.to_string()).is_ok());
    guard(out, "proto Entities", || Entities::decode(b).map(|e| e.to_json_value().is_ok()).is_ok());
    guard(out, "proto Entity", || Entity::decode(b).is_ok());
    guard(out, "proto Schema", || Schema::decode(b).map(|s| s.entity_types().count()).is_ok());
    guard(out, "proto Request", || Request::decode(b).is_ok());
}

pub fn run(case: &J) -> crate::abs::R<J> {
    let kind = case["kind"].as_str().ok_or("kind")?;
    // input: either a string, or tokens to be joined with single spaces, or bytes
    let text = if let Some(t) = case.get("tokens").and_then(|t| t.as_array()) {
        t.iter().filter_map(|x| x.as_str()).collect::<Vec<_>>().join(case.get("sep").and_then(|x| x.as_str()).unwrap_or(" "))
    } else {
        case.get("text").and_then(|x| x.as_str()).unwrap_or("").to_string()
    };
    let mut out = Map::new();
    match kind {
        "policy" => policy_text(&text, &mut out),
        "schema" => schema_text(&text, &mut out),
        "json" => json_text(&text, &mut out),
        "bytes" => {
            let b: Vec<u8> = case["bytes"].as_array().map(|a| a.iter().filter_map(|x| x.as_u64().map(|n| n as u8)).collect()).unwrap_or_default();
            bytes_input(&b, &mut out)
        }
        "protomut" => {
            // wire-level corruption of valid protobuf encodings (seeded)
            use rand::{Rng, SeedableRng};
            let mut rng = rand::rngs::StdRng::seed_from_u64(case["seed"].as_u64().unwrap_or(0));
            let ps = PolicySet::from_str("@a(\"b\") permit(principal == User::\"u1\", action, resource) when { principal.n + 1 < 3 && [1, \"a\"].contains(context.flag) };\nforbid(principal, action in [Action::\"view\"], resource is Doc) unless { resource.owner has mgr };").expect("fixture policies");
            let (schema, ents, req) = fixtures();
            let mut blobs: Vec<Vec<u8>> = vec![];
            if let Ok(b) = ps.encode() { blobs.push(b); }
            if let Ok(b) = ents.encode() { blobs.push(b); }
            if let Ok(b) = schema.encode() { blobs.push(b); }
            if let Ok(b) = req.encode() { blobs.push(b); }
            let mut b = blobs[rng.gen_range(0..blobs.len())].clone();
            for _ in 0..rng.gen_range(1..4) {
                if b.is_empty() { break; }
                let i = rng.gen_range(0..b.len());
                match rng.gen_range(0..4) {
                    0 => b[i] ^= 1 << rng.gen_range(0..8),
                    1 => b.truncate(i),
                    2 => b.insert(i, rng.gen()),
                    _ => { b.remove(i); }
                }
            }
            bytes_input(&b, &mut out)
        }
        "any" => {
            policy_text(&text, &mut out);
            schema_text(&text, &mut out);
            json_text(&text, &mut out);
            bytes_input(text.as_bytes(), &mut out);
        }
        _ => return Err("bad kind".into()),
    }
    let outcomes: Vec<J> = out.iter().map(|(k, v)| json!([k, v])).collect();
    let mut text_short: String = text.chars().take(300).collect();
    if text.chars().count() > 300 {
        text_short.push_str("...");
    }
    Ok(json!({"ev": "Robust", "kind": kind, "id": case.get("id").cloned().unwrap_or(json!(0)), "input": text_short, "outcomes": outcomes}))
}

pub fn drive(_seed: u64, _n: usize) -> Vec<J> {
    vec![]
}
