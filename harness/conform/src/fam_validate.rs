//! family "validate" (C03): a schema, its conformant environments (setup case)
//! and one policy per case: strict / permissive verdicts, the impossible-policy
//! warning, and the outcome class of the policy on every environment with the
//! real evaluator.

use crate::abs::*;
use crate::fam_authz::add_policy;
use crate::schema::*;
use cedar_policy::{PolicySet, ValidationMode, Validator};
use cedar_policy_core::ast;
use cedar_policy_core::evaluator::Evaluator;
use cedar_policy_core::extensions::Extensions;
use serde_json::{json, Value as J};
use std::cell::RefCell;
use std::collections::BTreeSet;

pub struct Setup {
    pub schema_abs: J,
    pub schema: cedar_policy::Schema,
    pub envs: Vec<(ast::Request, cedar_policy_core::entities::Entities)>,
    pub envs_wire: Vec<J>,
}

thread_local! {
    pub static SETUP: RefCell<Option<Setup>> = const { RefCell::new(None) };
}

/// build every environment THROUGH the library's own schema-based validation
pub fn do_setup(s: &J) -> R<J> {
    let schema = schema_of(&s["schema"])?;
    let mut envs = vec![];
    let mut envs_wire = vec![];
    let mut rejected = vec![];
    for (i, e) in s["envs"].as_array().ok_or("envs")?.iter().enumerate() {
        // the store is built the way a host builds it with a schema; action entities come from the schema
        let non_actions: Vec<ast::Entity> = entities_from_wire(&e["store"])?
            .into_iter()
            .filter(|x| !x.uid().entity_type().is_action())
            .collect();
        let ents = cedar_policy::Entities::from_entities(non_actions.into_iter().map(cedar_policy::Entity::from), Some(&schema));
        let req = {
            let (p, a, r) = (
                cedar_policy::EntityUid::from(uid_from_wire(&e["req"]["principal"])?),
                cedar_policy::EntityUid::from(uid_from_wire(&e["req"]["action"])?),
                cedar_policy::EntityUid::from(uid_from_wire(&e["req"]["resource"])?),
            );
            let ctx: cedar_policy::Context = context_from_wire(&e["req"]["context"])?.into();
            cedar_policy::Request::new(p, a, r, ctx, Some(&schema))
        };
        match (ents, req) {
            (Ok(es), Ok(rq)) => {
                let core_e: &cedar_policy_core::entities::Entities = es.as_ref();
                let core_r: &ast::Request = rq.as_ref();
                envs.push((core_r.clone(), core_e.clone()));
                envs_wire.push(e.clone());
            }
            (a, b) => rejected.push(json!([i, a.err().map(|x| x.to_string()), b.err().map(|x| x.to_string())])),
        }
    }
    // the schema-built store must equal the spec's store (same action entities, same ancestors)
    let mut store_mismatch = 0;
    for (k, (_, es)) in envs.iter().enumerate() {
        let mut got: Vec<J> = es
            .iter()
            .map(|e| {
                let mut anc: Vec<J> = e.ancestors().map(uid_to_wire).collect();
                anc.sort_by_key(|x| x.to_string());
                json!([uid_to_wire(e.uid()), anc, e.attrs_len()])
            })
            .collect();
        got.sort_by_key(|x| x.to_string());
        let mut want: Vec<J> = envs_wire[k]["store"]
            .as_array()
            .ok_or("store")?
            .iter()
            .map(|e| {
                let mut anc: Vec<J> = e["anc"].as_array().cloned().unwrap_or_default();
                anc.sort_by_key(|x| x.to_string());
                json!([e["uid"], anc, as_obj(&e["attrs"]).map(|m| m.len()).unwrap_or(0)])
            })
            .collect();
        want.sort_by_key(|x| x.to_string());
        if got != want {
            store_mismatch += 1;
        }
    }
    let n = envs.len();
    SETUP.with(|c| *c.borrow_mut() = Some(Setup { schema_abs: s["schema"].clone(), schema, envs, envs_wire }));
    Ok(json!({"ev": "EnvCheck", "accepted": n, "rejected": rejected, "storeMismatch": store_mismatch}))
}

pub fn class_of(r: &Result<bool, cedar_policy_core::evaluator::EvaluationError>) -> &'static str {
    match r {
        Ok(true) => "true",
        Ok(false) => "false",
        Err(e) => err_class(e),
    }
}

pub fn run(case: &J) -> R<J> {
    if let Some(s) = case.get("setup") {
        return do_setup(s);
    }
    SETUP.with(|c| {
        let b = c.borrow();
        let setup = b.as_ref().ok_or("no setup case seen")?;
        let p = &case["policy"];
        let mut ps = PolicySet::new();
        add_policy(&mut ps, p, "p", 0)?;
        let validator = Validator::new(setup.schema.clone());
        let strict = validator.validate(&ps, ValidationMode::Strict);
        let permissive = validator.validate(&ps, ValidationMode::Permissive);
        let impossible = strict
            .validation_warnings()
            .any(|w| matches!(w, cedar_policy::ValidationWarning::ImpossiblePolicy(_)));
        // the policy as the authorizer will see it
        let core_ps: &ast::PolicySet = ps.as_ref();
        let pol = core_ps.policies().next().ok_or("no policy")?;
        let mut classes = BTreeSet::new();
        for (req, ents) in &setup.envs {
            let ev = Evaluator::new(req.clone(), ents, Extensions::all_available());
            classes.insert(class_of(&ev.evaluate(pol)));
        }
        let mut out = json!({
            "ev": "Validate", "policy": with_record_keys(p), "must": case["must"],
            "strict": strict.validation_passed(), "permissive": permissive.validation_passed(),
            "impossible": impossible, "classes": classes,
            "strictErrors": strict.validation_errors().map(|e| e.to_string()).take(2).collect::<Vec<_>>(),
        });
        if let Some(id) = case.get("id") {
            out["id"] = id.clone();
        }
        Ok(out)
    })
}

pub fn drive(_seed: u64, _n: usize) -> Vec<J> {
    vec![]
}
