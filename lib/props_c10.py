"""C10 - entity / context JSON round trip; schema-directed parsing agrees with the explicit escapes."""
import json

STATS = dict(documents=0, accepted_with_schema=0, accepted_without_schema=0, serialisations=0, serialisations_refused=0)


def _case(world, c, i):
    """CASE line of MC_EntityJson -> harness case (the schema of the family travels with every case)"""
    case = dict(c)
    case["id"] = i
    case["schema"] = world["schema"]
    return case


def _case_of_event(ev):
    """replay: the event echoes the case except for the schema, which is taken from the last generated case file"""
    import os
    import vlib
    case = {k: v for k, v in ev.items() if k in ("id", "kind", "json", "tmpl", "expl", "action", "ent", "ctx")}
    with open(os.path.join(vlib.WORK, "C10", "mc_entityjson_1.cases.ndjson")) as f:
        case["schema"] = json.loads(f.readline())["schema"]
    return case


def _ok(r):
    return isinstance(r, list) and r and r[0] == "ok"


def _nontrivial(ev):
    if ev.get("ev") != "EntityJson":
        return False
    STATS["documents"] += 1
    STATS["accepted_with_schema"] += _ok(ev.get("ws"))
    STATS["accepted_without_schema"] += _ok(ev.get("ns"))
    for k in ("rt_ws", "rt_ns", "rt", "rt_store"):
        rt = ev.get(k)
        if rt:
            STATS["serialisations"] += _ok(rt["ser"])
            STATS["serialisations_refused"] += not _ok(rt["ser"])
    return True


def _flip_bools(x):
    """change the first leaf of a wire value / projection"""
    if isinstance(x, list) and x and x[0] == "bool":
        x[1] = not x[1]
        return True
    if isinstance(x, list) and x and x[0] == "long":
        x[1][0] = not x[1][0] if x[1][1] != [0, 0, 0, 0, 0] else x[1][0]
        if x[1][1] == [0, 0, 0, 0, 0]:
            x[1][1] = [1, 0, 0, 0, 0]
        return True
    if isinstance(x, list):
        return any(_flip_bools(y) for y in x)
    if isinstance(x, dict):
        return any(_flip_bools(y) for y in x.values())
    return False


def _mutate(ev):
    if ev.get("ev") != "EntityJson":
        return None
    ev = json.loads(json.dumps(ev))
    for k in ("ws", "ns"):
        r = ev.get(k)
        if _ok(r) and _flip_bools(r[1]):
            return ev
    for k in ("rt", "rt_ws", "rt_ns"):
        rt = ev.get(k)
        if rt:
            rt["ser"] = ["err", "canary"] if _ok(rt["ser"]) else ["ok", ["jobj", {}]]
            return ev
    return None


C10 = dict(
    family="entityjson", trace_module="Trace_EntityJson.tla",
    # two parts so that the canary (which revalidates the FIRST trace single-threaded) stays cheap
    models=[dict(name="mc_entityjson_1", module="MC_EntityJson.tla", cfg=dict(quick="MC_EntityJson.cfg", thorough="MC_EntityJson.cfg"),
                 cases=_case),
            dict(name="mc_entityjson_2", module="MC_EntityJson.tla", cfg=dict(quick="MC_EntityJson_2.cfg", thorough="MC_EntityJson_2.cfg"),
                 cases=_case)],
    nontrivial=_nontrivial, key=lambda ev: [ev.get("kind"), ev.get("json"), ev.get("ent"), ev.get("ctx")],
    mutate=_mutate, chunk=110, case_of_event=_case_of_event,
    extra_coverage=dict(acceptance=STATS),
    rule="G: MC_EntityJson (TLC-enumerated, complete for its pools): 69 (attribute, value template) pairs of schema Sc10 (bool, i64 extremes, strings "
         "incl. empty / non-BMP / quote-backslash-NUL / bidi / look-alikes of constructor strings and of JSON, entity references to present, absent and "
         "enum entities, the four extension types by constructor string and by nested call, empty and nested sets, nested records with optional members, "
         "records whose keys are type/id and fn/arg) x EVERY per-node choice of explicit ({__entity}, {__extn}) versus implicit ({type,id}, {fn,arg}, bare "
         "string) form the expected type admits x 2 uid spellings; 11 entities with tags / parents / several attributes x all choices; 45 stores "
         "(3 x 3 x 5 entity variants, dangling and transitive parents, an enum and an action entity) x 3 uniform renderings; 10 contexts x all choices; "
         "20 odd trees (escape look-alikes: wrong arity, extra keys, near-miss keys, Multi-argument calls) x 7 attribute positions + context; 13 values "
         "built through the API incl. every reserved-key shape. Each document is parsed with and without the schema (from_json_value, from_json_str, "
         "add_entities_from_json_value), serialised (to_json_value, to_json_string, write_to_json), reparsed with and without the schema; every result "
         "is projected to wire values, every serialised document comes back as an abstract JSON tree and is decoded by EntityJson!EjDecNS / EjDec in TLC. "
         "M: TLC proves on the spec alone that every choice decodes to the template's value. distinct by (kind, document).",
    exhaustive=dict(quick=False, thorough=False),
    assumptions=["the JSON-tree renderer / reader and the projections of Entity, Entities and Context (fam_entityjson.rs) are dumb structural walks",
                 "names that occur both as identifiers and as JSON string contents are tabulated in EntityJson!EjTable (TLC cannot index strings)",
                 "extension values are compared by evaluating cedar's stored constructor-call tree with CedarExt!ExtCall",
                 "one schema family (Sc10); unknown-valued (`unknown(..)`) data and open records are not generated"],
)
