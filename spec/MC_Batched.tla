----------------------------- MODULE MC_Batched -----------------------------
(* Case generator for C15 (policy sets x environments x loader behaviours)    *)
(* and the model check of the abstract loop of Batched.tla.                   *)
EXTENDS MC_TpePols, Json

VARIABLES coord, c
\* a spread of environments: every mgr/owner shape, with and without optional data
EnvChoices == { <<TRUE, "u2", TRUE, TRUE, "g", TRUE, "u1", 3, "u1">>, <<FALSE, "none", FALSE, FALSE, "no", FALSE, "u2", 2, "u1">>,
                <<TRUE, "u3", FALSE, TRUE, "no", FALSE, "u1", 5, "u1">>, <<FALSE, "u2", TRUE, FALSE, "g", TRUE, "u2", 1, "u2">>,
                <<TRUE, "u2", FALSE, FALSE, "g", FALSE, "u2", 4, "u1">>, <<FALSE, "u3", TRUE, TRUE, "no", TRUE, "u1", 1, "u2">>,
                <<TRUE, "none", TRUE, FALSE, "no", TRUE, "u2", 5, "u2">>, <<FALSE, "u2", FALSE, TRUE, "g", FALSE, "u1", 3, "u1">> }
Coords == {<<p, m>> : p \in EnvChoices, m \in 0..2}
CasesOf(k) == {[pols |-> ps, params |-> k[1], loader |-> k[2], maxBudget |-> 12] : ps \in PolSets}
Init == coord \in Coords /\ c = <<>>
Next == c = <<>> /\ c' \in CasesOf(coord) /\ UNCHANGED coord
Dump == PrintT("CASE " \o ToJson(c'))
ASSUME PrintT("WORLD " \o ToJson([schema |-> Sc2, envs |-> {[params |-> p, env |-> WireEnv(EnvP(p))] : p \in EnvChoices}]))
==============================================================================
