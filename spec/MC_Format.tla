------------------------------ MODULE MC_Format ------------------------------
(***************************************************************************)
(* Case generator for C12 (formatter).  A case = a policy set from the C05 *)
(* space (small ones and long ones that force line breaking), the token    *)
(* sequence of one style, a comment placement and formatter settings.      *)
(*                                                                         *)
(* Comment model: a policy-set text is a token sequence t1..tn plus, at    *)
(* each boundary 0..n (0 = before t1, n = after tn), a list of items:      *)
(* <<"c", text>> (the line `//text`) or <<"b">> (a blank line), and a mode:*)
(* "trail" (the first comment stands on the line of the preceding token)   *)
(* or "own".  A placement lists the non-empty boundaries in ascending      *)
(* order as <<i, mode, items>>.                                            *)
(***************************************************************************)
EXTENDS MC_Syntax, Comments

\* ------------------------------------------------------------------ texts
RECURSIVE FoldOp(_, _, _)
FoldOp(o, xs, i) == IF i = 1 THEN xs[1] ELSE Mk2(o, FoldOp(o, xs, i - 1), xs[i])
LongAtoms == <<Pn, Cs, YG(YV("resource"), "owner"), YBin("eq", YG(YV("context"), "n"), YN(0 - 42)),
               <<"has", YV("principal"), "tags">>, YBin("contains", YG(YV("principal"), "tags"), YS(<<47, 47, 32, 120>>)),
               <<"like", Cs, <<97, YWild, 47, 47>>>>, <<"is", YV("resource"), "NS::User">>,
               YBin("in", YV("principal"), YE("NS::Group", <<103, 34>>)), <<"rel", "ne", Pn, YL(I64Min)>>,
               <<"not", Cs>>, YCall("lessThan", <<Dec15, YCall("decimal", <<YS(<<50, 46, 48>>)>>)>>)>>
LongChain(o) == FoldOp(o, LongAtoms, Len(LongAtoms))
LongArith == FoldOp("add", [i \in 1..10 |-> IF i % 3 = 0 THEN YBin("mul", Pn, YN(i)) ELSE IF i % 3 = 1 THEN <<"neg", Pn>> ELSE YN(100000 + i)], 10)
RECURSIVE DeepGet(_, _)
DeepGet(e, k) == IF k = 0 THEN e ELSE DeepGet(YG(e, IF k % 2 = 0 THEN "owner" ELSE "a b"), k - 1)
RECURSIVE NestIf(_)
NestIf(k) == IF k = 0 THEN YN(0) ELSE <<"if", YBin("less", Pn, YN(k)), YS(<<105, 102, 32, 47, 47>>), NestIf(k - 1)>>
BigSet == <<"set", [i \in 1..12 |-> IF i % 4 = 0 THEN YE("User", <<97, 32, 47, 47, 32, 98>>) ELSE YN(1000 * i)]>>
BigRec == <<"rec", << <<"s", YS(<<34, 47, 47, 34>>)>>, <<"a b", BigSet>>, <<"if", <<"rec", << <<"n", YN(1)>>, <<"b", <<"set", <<>>>>>> >> >>>>,
                      <<"owner", YBin("add", Pn, YN(1))>>, <<"c", <<"rec", <<>>>>>> >> >>

ChainA == One(FoldOp("mul", <<Pn, YN(2), Pn, YN(0 - 3)>>, 4))
ChainB == One(YBin("less", FoldOp("sub", <<Pn, YN(1), Pn>>, 3), FoldOp("mul", <<YN(2), Pn, YG(YV("context"), "n")>>, 3)))
ChainC == One(FoldOp("mul", [i \in 1..9 |-> IF i % 2 = 0 THEN YN(100000 + i) ELSE DeepGet(YV("context"), i % 4)], 9))
ZeroArgs == One(<<"and", <<"isEmpty", <<"set", <<YN(1), Pn>>>>>>,
                      <<"or", YCall("isLoopback", <<Ip1>>), YBin("eq", YCall("toDate", <<YCall("datetime", <<YS(<<50, 48, 50, 52, 45, 48, 49, 45, 48, 49>>)>>)>>),
                                                                  YCall("datetime", <<YS(<<50, 48, 50, 52, 45, 48, 49, 45, 48, 49>>)>>))>>>>)
FmtTexts == <<
  \* ---- small
  <<YPol("permit", <<>>, AnyS, AnyS, AnyS, <<>>)>>,
  <<YPol("forbid", <<>>, <<"eq", Ua>>, <<"eq", Av>>, <<"in", Gg>>, <<>>)>>,
  <<YPol("permit", <<>>, <<"isin", "NS::User", Gg>>, <<"inset", <<Av, Ae>>>>, <<"is", "A::B::Doc">>, <<<<"when", Pn>>>>)>>,
  <<YPol("permit", <<>>, <<"eqslot">>, <<"in", Av>>, <<"isinslot", "User">>, <<<<"unless", YBin("eq", Pn, YN(0 - 1))>>>>)>>,
  <<YPol("permit", << <<"id", <<"s", <<112, 49>>>>>>, <<"a", <<"none">>>>, <<"if", <<"s", <<47, 47, 32, 110, 111>>>>>> >>, AnyS, AnyS, AnyS,
         <<<<"when", YB(TRUE)>>, <<"unless", YB(FALSE)>>, <<"when", <<"and", Pn, Cs>>>>>>)>>,
  One(<<"if", Pn, Cs, YN(1)>>),
  One(YBin("sub", YBin("sub", Pn, YN(0 - 1)), <<"neg", <<"neg", YN(2)>>>>)),
  One(<<"not", <<"not", <<"hasChain", YV("principal"), <<"a", "b", "c">>>>>>>>),
  One(<<"isIn", YV("principal"), "User", YE("NS::Group", <<103>>)>>),
  One(YBin("contains", <<"set", <<YN(1), YS(<<47, 47>>)>>>>, YG(YN(0 - 1), "if"))),
  One(<<"rec", << <<"if", YN(1)>>, <<"a b", <<"rec", <<>>>>>>, <<"n", <<"set", <<>>>>>> >> >>),
  One(YCall("isInRange", <<Ip1, YCall("ip", <<YS(<<49, 46, 48, 46, 48, 46, 48, 47, 56>>)>>)>>)),
  One(<<"like", YS(<<47, 47, 32, 10, 34>>), <<47, 47, YWild, 42, 92>>>>),
  \* chains of three and more operands of one multiplicative / additive operator (a comment may stand at every operator)
  ChainA,
  ChainB,
  \* method calls without arguments: `(` and `)` are adjacent tokens that may both carry comments
  ZeroArgs,
  One(<<"or", <<"and", Pn, <<"or", Cs, Pn>>>>, <<"rel", "gt", YBin("mul", YBin("add", Pn, YN(1)), YN(2)), YN(3)>>>>),
  \* blank and white-space-only lines inside string literals, entity ids and annotation values must survive
  <<YPol("permit", << <<"note", <<"s", <<120, 10, 10, 121>>>>>> >>, <<"eq", YEnt("User", <<10, 10, 97>>)>>, AnyS, AnyS,
         <<<<"when", YBin("eq", YS(<<97, 10, 10, 98, 10, 32, 9, 10, 47, 47, 32, 99, 10>>), YE("NS::Group", <<10, 32, 10>>))>>,
           <<"unless", <<"like", Cs, <<10, 10, YWild, 10>>>>>>>>)>>,
  <<YPol("permit", <<>>, AnyS, AnyS, AnyS, <<>>), YPol("forbid", << <<"id", <<"s", <<120>>>>>> >>, <<"is", "User">>, AnyS, AnyS, <<<<"when", Pn>>>>)>>,
  \* ---- long: line breaking is forced at every width of the grid
  One(LongChain("and")),
  One(LongChain("or")),
  One(LongArith),
  ChainC,
  One(YBin("eq", DeepGet(YV("context"), 9), DeepGet(YV("principal"), 4))),
  One(NestIf(4)),
  One(BigSet),
  One(BigRec),
  One(<<"and", <<"or", LongChain("and"), NestIf(2)>>, YBin("contains", BigSet, BigRec)>>),
  <<YPol("forbid", << <<"id", <<"s", <<108, 111, 110, 103>>>>>>, <<"reason", <<"s", <<47, 47, 32, 110, 111, 116, 32, 97, 32, 99, 111, 109, 109, 101, 110, 116>>>>>> >>,
         <<"isin", "NS::User", Gg>>, <<"inset", <<Av, Ae, Av, Ae, Av, Ae>>>>, <<"in", Dd>>,
         <<<<"when", LongChain("or")>>, <<"unless", LongArith>>>>),
    YPol("permit", <<>>, AnyS, AnyS, AnyS, <<<<"when", BigRec>>>>),
    YPol("permit", <<>>, <<"inslot">>, AnyS, <<"eqslot">>, <<>>)>>
>>
NT == Len(FmtTexts)
\* quick: each text in one style (rotating); thorough: every text in all four styles
StyleIdx(t) == (t % 4) + 1
\* operator chains exist as chains only without redundant parentheses: always also in style "min"
QuickStyles(t) == {StyleIdx(t)} \cup (IF FmtTexts[t] \in {ChainA, ChainB, ChainC, ZeroArgs} THEN {1} ELSE {})
ToksIn(t, si) == SxSetToks(FmtTexts[t], SxAllStyles[si])

\* ------------------------------------------------------------------ comments
CText(i) == " c" \o ToString(i)
Specials == <<"", " // nested // twice", " \"quoted\" 'single' \\", " permit(principal, action, resource);", " if then else when unless in has like is",
              "/ three slashes", " { [ (", " */ /* not block */", "//", " tab\there",
              \* an odd number of double quotes in a comment (an inch mark, an unbalanced quote)
              " a 5\" screen", "\"", " \"a\" and \"">>
Cm(x) == <<"c", x>>
Bl == <<"b">>
ModeOf(i) == IF i % 2 = 0 THEN "own" ELSE "trail"

\* ------------------------------------------------------------------ settings
Grid == [k \in 1..20 |-> << <<1, 20, 40, 80, 200>>[((k - 1) % 5) + 1], <<0, 2, 4, 8>>[((k - 1) \div 5) + 1] >>]
AllCfgs == Grid
TwoCfgs(k) == <<Grid[(k % 20) + 1], Grid[((7 * k + 11) % 20) + 1]>>
FourCfgs(k) == <<Grid[(k % 20) + 1], Grid[((k + 5) % 20) + 1], Grid[((k + 10) % 20) + 1], Grid[((k + 15) % 20) + 1]>>

\* ------------------------------------------------------------------ placements
\* a case state: <<text index, places, cfgs>> (places: tuple of <<boundary, mode, items>>)
Small(t, si) == Len(ToksIn(t, si)) <= (IF Quick THEN 20 ELSE 40)
PlacementsOf(fam, t, si) ==
  LET n == Len(ToksIn(t, si))
  IN CASE fam = "none" -> {<<t, <<>>, AllCfgs>>}
       [] fam = "one" -> {<<t, << <<i, m, <<Cm(CText(i))>>>> >>, IF Quick THEN TwoCfgs(i + t) ELSE AllCfgs>> : i \in 0..n, m \in {"own", "trail"}}
       [] fam = "all" -> {<<t, [k \in 1..(n + 1) |-> <<k - 1, m, <<Cm(CText(k - 1))>>>>], AllCfgs>> : m \in {"own", "trail"}}
                         \cup {<<t, [k \in 1..(n + 1) |-> <<k - 1, ModeOf(k), IF k % 3 = 0 THEN <<Cm(CText(k)), Bl, Cm(CText(k + 100))>>
                                                                             ELSE IF k % 3 = 1 THEN <<Bl, Cm(CText(k))>> ELSE <<Cm(CText(k)), Bl, Bl>>>>], AllCfgs>>}
       [] fam = "two" ->
            IF Small(t, si)
            THEN {<<t, << <<q[1], ModeOf(q[1]), <<Cm(CText(q[1]))>>>>, <<q[2], ModeOf(q[1] + q[2]), <<Cm(CText(q[2]))>>>> >>, TwoCfgs(q[1] * 31 + q[2])>> :
                    q \in {r \in (0..n) \X (0..n) : r[1] < r[2]}}
            ELSE {<<t, << <<q[1], ModeOf(q[1]), <<Cm(CText(q[1]))>>>>, <<q[2], "trail", <<Cm(CText(q[2]))>>>> >>, TwoCfgs(q[1] + q[2])>> :
                    q \in {r \in (0..(n - 1)) \X (0..n) : r[1] < r[2] /\ (r[2] = r[1] + 1 \/ r[2] = n - (r[1] % 7))}}
       [] fam = "special" ->
            {<<t, << <<i, m, <<Cm(Specials[s])>>>> >>, FourCfgs(i + s)>> : s \in 1..Len(Specials), m \in {"own", "trail"}, i \in (IF Quick THEN {0, n \div 3, n - 1, n} ELSE {0, 1, n \div 3, n \div 2, n - 2, n - 1, n})}
       [] fam = "blank" ->
            {<<t, << <<i, "own", its>> >>, FourCfgs(i)>> :
               i \in {0, 1, n \div 2, n - 1, n},
               its \in {<<Bl>>, <<Bl, Bl, Bl>>, <<Cm(" a"), Bl, Cm(" b")>>, <<Bl, Cm(" a"), Bl, Bl, Cm(" b"), Bl>>, <<Cm(" a"), Cm(" b"), Cm(" c")>>}}
            \cup {<<t, [k \in 1..(n + 1) |-> <<k - 1, "own", <<Bl>>>>], FourCfgs(t)>>}
       [] fam = "eof" ->
            {<<t, << <<n, m, its>> >>, FourCfgs(Len(its))>> :
               m \in {"own", "trail"},
               its \in {<<Cm(" end")>>, <<Cm(" end"), Cm(" of"), Cm(" file")>>, <<Bl, Cm(" end"), Bl, Cm("")>>, <<Cm(" x"), Bl, Bl>>}}

\* label: some comment stands next to a trailing comma (before it, between it and the closing bracket, or after
\* that bracket).  Only a label for reports; the requirement is the same everywhere.
IsPunct(ts, k, S) == k >= 1 /\ k <= Len(ts) /\ Len(ts[k]) = 1 /\ ts[k] \in S
TrailingCommaAt(ts, k) == IsPunct(ts, k, {","}) /\ IsPunct(ts, k + 1, {")", "]", "}"})
HasComment(p) == \E j \in 1..Len(p[3]) : p[3][j][1] = "c"
NearTrailingComma(ts, places) ==
  \E x \in 1..Len(places) : HasComment(places[x]) /\ \E k \in 1..Len(ts) : TrailingCommaAt(ts, k) /\ places[x][1] \in {k - 1, k, k + 1}

Fams == {"none", "one", "all", "two", "special", "blank", "eof"}
FInit == /\ coord \in {k \in Fams \X (1..NT) \X (1..4) : Quick => k[3] \in QuickStyles(k[2])}
         /\ done = FALSE /\ c = <<>>
FNext == /\ ~done
         /\ done' = TRUE
         /\ c' \in PlacementsOf(coord[1], coord[2], coord[3])
         /\ UNCHANGED coord

\* ---------------------------------------------------------------- binding M
FSane ==
  done => /\ PlacesOk(c[2], Len(ToksIn(c[1], coord[3])))
          /\ Len(CommentsOf(c[2])) <= 3 * (Len(ToksIn(c[1], coord[3])) + 1)
          /\ SxDepthOk(ToksIn(c[1], coord[3]), 1, 0)
          /\ Len(c[3]) >= 1

\* ---------------------------------------------------------------- binding G
FDump == PrintT("CASE " \o ToJson([kind |-> "fmt", coord |-> coord, pols |-> FmtTexts[c'[1]], toks |-> ToksIn(c'[1], coord[3]),
                                   style |-> SxAllStyles[coord[3]], tc |-> NearTrailingComma(ToksIn(c'[1], coord[3]), c'[2]),
                                   places |-> c'[2], cfgs |-> c'[3]]))
==============================================================================
