------------------------------- MODULE Partial -------------------------------
(***************************************************************************)
(* Unknowns and completions (C13).  A partial request / store is a         *)
(* concrete one in which some positions hold <<"unknown", name>> (or, for  *)
(* principal / resource / the whole context, <<"unknown">> possibly with a *)
(* type).  A completion maps names to values.  Partial authorization may   *)
(* answer anything that is sound for EVERY completion:                     *)
(*   decision in {None, Decision(c)},  must <= Reasons(c) <= may,          *)
(*   definitely satisfied / errored / false policies have that outcome,    *)
(*   and reauthorizing with c equals authorizing c from scratch.           *)
(* The shape of residuals is not specified - only their meaning.           *)
(***************************************************************************)
EXTENDS CedarAuthz

IsUnknown(v) == v[1] = "unknown"

RECURSIVE SubstV(_, _)
SubstV(v, c) ==
  CASE v[1] = "unknown" -> IF Len(v) >= 2 /\ v[2] \in DOMAIN c THEN c[v[2]] ELSE v
    [] v[1] = "set" -> <<"set", {SubstV(x, c) : x \in v[2]}>>
    [] v[1] = "rec" -> <<"rec", [k \in DOMAIN v[2] |-> SubstV(v[2][k], c)]>>
    [] OTHER -> v

CompleteReq(r, c) ==
  [principal |-> IF IsUnknown(r.principal) THEN c["principal"] ELSE r.principal,
   action |-> r.action,
   resource |-> IF IsUnknown(r.resource) THEN c["resource"] ELSE r.resource,
   context |-> IF IsUnknown(r.context) THEN c["context"] ELSE SubstV(r.context, c)]
CompleteStore(st, c) ==
  [u \in DOMAIN st |-> [attrs |-> [k \in DOMAIN st[u].attrs |-> SubstV(st[u].attrs[k], c)],
                        tags |-> {<<t[1], SubstV(t[2], c)>> : t \in st[u].tags},
                        anc |-> st[u].anc]]

\* resp: [decision, sat, errored, false, must, may] (sets of ids); P: set of policies
SoundFor(resp, P, req, store) ==
  LET T == Triples(P, req, store)
      exp == ResponseOf(T)
      out(id) == (CHOOSE t \in T : t[1] = id)[3]
  IN /\ resp.decision \in {"None", exp.decision}
     /\ resp.must \subseteq exp.reasons
     /\ exp.reasons \subseteq resp.may
     /\ \A id \in resp.sat : out(id) = "sat"
     /\ \A id \in resp.errored : out(id) = "err"
     /\ \A id \in resp.false : out(id) = "unsat"
==============================================================================
