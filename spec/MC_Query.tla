------------------------------ MODULE MC_Query ------------------------------
(* Case generator for the permission queries of C14: strictly valid policy    *)
(* sets over Sc2 x base environments; the harness asks query_resource,        *)
(* query_principal and query_action of the real code.                         *)
EXTENDS MC_TpePols, Json

VARIABLES coord, c

Bases == {p \in AllParams(0) : /\ p[1] = (p[7] = "u1") /\ p[3] = (p[2] # "none") /\ p[4] = (p[5] = "g")
                               /\ p[2] \in {"none", "u2"} /\ p[8] \in {1, 2, 3, 5}}
Init == coord \in Bases /\ c = <<>>
Next == c = <<>> /\ c' \in {[pols |-> ps, base |-> coord] : ps \in PolSetsL} /\ UNCHANGED coord
Dump == PrintT("CASE " \o ToJson(c'))
ASSUME PrintT("WORLD " \o ToJson([schema |-> Sc2, envs |-> {[params |-> p, env |-> WireEnv(EnvP(p))] : p \in AllParams(0)}]))
ASSUME PrintT(<<"bases", Cardinality(Bases)>>)
==============================================================================
