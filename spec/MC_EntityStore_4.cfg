CONSTANTS NU = 4
  Two = FALSE
INIT Init
NEXT Next
INVARIANT Inv
CHECK_DEADLOCK FALSE
INVARIANT DumpStates
