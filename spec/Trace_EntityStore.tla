------------------------- MODULE Trace_EntityStore -------------------------
(* Trace specification for family "store" (C04).  Each event is a Hoare     *)
(* triple recorded from the real `Entities` API: projected pre-state,       *)
(* operation, argument, result, projected post-state and the answers to all *)
(* pairwise hierarchy queries.  Explained iff it is a transition of         *)
(* EntityStore and every observable equals parent-reachability in the new   *)
(* abstract state.                                                          *)
EXTENDS EntityStore, TLC, Json, IOUtils

Rec == ndJsonDeserialize(IOEnv.TRACE)
VARIABLES l, bad

ToSet(s) == {s[i] : i \in 1..Len(s)}
\* rows: <<uid, parents, v, ancestors>>
Abs(rows) == [u \in {rows[i][1] : i \in 1..Len(rows)} |->
                LET r == rows[CHOOSE i \in 1..Len(rows) : rows[i][1] = u]
                IN [par |-> ToSet(r[2]), v |-> r[3]]]
AncOf(rows, u) == ToSet(rows[CHOOSE i \in 1..Len(rows) : rows[i][1] = u][4])
ClosureExact(rows) == LET E == Abs(rows) IN \A u \in DOMAIN E : AncOf(rows, u) = Reach(E, u)
NoDupRows(rows) == \A i, j \in 1..Len(rows) : i # j => rows[i][1] # rows[j][1]

Batch(arg) == [i \in 1..Len(arg) |-> <<arg[i][1], ToSet(arg[i][2]), arg[i][3]>>]
Arg(ev) == IF ev.op = "remove" THEN ToSet(ev.arg) ELSE Batch(ev.arg)

QueriesAgree(ev, E) ==
  /\ \A i \in 1..Len(ev.isAnc) :
       ev.isAnc[i][3] = IsAncestorOf(E, ev.isAnc[i][1], ev.isAnc[i][2])
  /\ \A i \in 1..Len(ev["in"]) :
       ev["in"][i][3] = <<"ok", <<"bool", IsAncestorOf(E, ev["in"][i][1], ev["in"][i][2])>>>>
  /\ \A i \in 1..Len(ev.scopeIn) :
       ev.scopeIn[i][3] = IsAncestorOf(E, ev.scopeIn[i][1], ev.scopeIn[i][2])

Explained(ev) ==
  /\ ev.ev = "EsOp"
  /\ NoDupRows(ev.pre) /\ NoDupRows(ev.post)
  /\ ClosureExact(ev.pre)
  /\ LET pre == Abs(ev.pre)
         post == Abs(ev.post)
         r == Apply(pre, ev.op, Arg(ev))
     IN IF ev.res[1] = "ok"
        THEN /\ r[1] = "ok"
             /\ post = r[2]
             /\ ClosureExact(ev.post)
             /\ QueriesAgree(ev, r[2])
        ELSE /\ r[1] = "err" /\ r[2] = ev.res[2]
             /\ post = pre                       \* a failed operation produces no store
             /\ QueriesAgree(ev, pre)

Init == l = 1 /\ bad = {}
Next == /\ l <= Len(Rec)
        /\ l' = l + 1
        /\ bad' = IF Explained(Rec[l]) THEN bad ELSE bad \cup {l}
Report == (l = Len(Rec) + 1) => PrintT(<<"TRACE-RESULT", Len(Rec), bad>>)
Accepted == TLCGet("stats").diameter = Len(Rec) + 1
==============================================================================
