-------------------------------- MODULE Front --------------------------------
(***************************************************************************)
(* The stateless front ends of C19 as FUNCTIONS of abstract inputs: the    *)
(* JSON/FFI entry points validate, check_parse_*, policy/template/schema   *)
(* conversions, format, and the command line (authorize, validate,         *)
(* check-parse, translate-policy, translate-schema, format, link): exit    *)
(* status and printed decision.  Inputs are addressed by index into the    *)
(* world below (policy sources, schema sources, requests, entity           *)
(* documents, conversion policies); the harness renders them to text /     *)
(* JSON / files.  Every answer is a function of the world:                 *)
(*   FrontAuthorize(k, j, v, ri)        FFI is_authorized on the extended  *)
(*                                      world (= Ffi!Stateless)            *)
(*   FrontValidate(k, j, mode)          <<"fail">> | <<"ok", invalid ids>> *)
(*   FrontCheckParse(kind, a, b, c)     "ok" | "fail"                      *)
(*   FrontAuthorizeCli(k, j, rv, ri, verbose)  [exit, word, note, reasons, *)
(*                                      errors] - ids as the CLI names     *)
(*                                      policies (@id annotation wins)     *)
(*   FrontValidateCli(k, j)             exit 0 | 3 | 1                     *)
(*   FrontCheckParseCli(k, j, e)        exit 0 | 1                         *)
(*   FrontPolicyToJson(n)               Est!EstOf(policy n)                *)
(*   FrontSchemaConv(j), FrontSchemaResolved(j), FrontFormat(k),           *)
(*   FrontParts(k), FrontTranslatePolicyCli(k, dir),                       *)
(*   FrontTranslateSchemaCli(j, dir), FrontLinkCli(k, tid, nid, slots)     *)
(* The Rust API's own answers are FrontAuthorizeApi / FrontValidateApi:    *)
(* they differ from the FFI's in one place only - a policy text holding a  *)
(* template is read by PolicySet::from_str but refused by the FFI's        *)
(* `staticPolicies` field, which is documented as static-only.             *)
(* Validation ground truth is by construction: each policy carries the     *)
(* set of fault kinds it was written to contain; an action the schema      *)
(* lacks is derived from the policy and the schema.                        *)
(***************************************************************************)
EXTENDS FfiWorld, Est

\* ---------------------------------------------------------------- world
\* ann: <<>> or <<id string, its code points>> (an @id("..") annotation)
\* faults: the validation faults the body / link was written to contain
\*   "attr"      reads an attribute the entity type does not declare        (strict and permissive)
\*   "optional"  reads an optional attribute without a `has` guard          (strict and permissive)
\*   "typeErr"   `<` between Long and String                                (strict and permissive)
\*   "strictEq"  `==` between Long and String                               (strict only)
\*   "slotType"  a link binds a slot to an entity of an undeclared type     (reported for the link id)
FrP(id, eff, pr, ac, re, conds, ann, faults) == FP(id, eff, pr, ac, re, conds) @@ [ann |-> ann, faults |-> faults]
FrT(id, eff, pr, ac, re, conds, slots, ann, faults) ==
  [FrP(id, eff, pr, ac, re, conds, ann, faults) EXCEPT !.slots = slots, !.template = TRUE]
FrNoAnn == <<>>
FrFail == <<"fail">>
FrWhen(e) == <<<<"when", e>>>>
FrTNope == <<"ent", "Nope", "x">>

\* good: the FFI presentation loads; cli: the CLI presentation loads; text: the Cedar-text presentation parses
\* shapes: concat (one text, ids by position), map (id -> text), json (id -> JSON), links (templates + links),
\*         concatT (one text holding a template: refused by the FFI's staticPolicies, fine for the API and the CLI)
FrPolSources == <<
  [shape |-> "concat", good |-> TRUE, cli |-> TRUE, text |-> TRUE,
   pols |-> <<FrP("policy0", "permit", <<"eq", TU1>>, FAny, FAny, <<>>, FrNoAnn, {}),
              FrP("policy1", "forbid", FAny, <<"eq", TEdit>>, FAny, FrWhen(B_("less", G_(Pv, "n"), LitL(5))), FrNoAnn, {})>>],
  [shape |-> "map", good |-> TRUE, cli |-> TRUE, text |-> TRUE,
   pols |-> <<FrP("a", "permit", FAny, FAny, FAny, FrWhen(B_("eq", G_(Pv, "n"), LitL(1))), FrNoAnn, {}),
              FrP("b", "forbid", FAny, FAny, FAny, FrWhen(B_("less", G_(G_(Pv, "mgr"), "n"), LitL(0))), FrNoAnn, {"optional"}),
              FrP("c", "permit", <<"eq", TU2>>, <<"in", TAll>>, FAny, <<>>, FrNoAnn, {})>>],
  [shape |-> "json", good |-> TRUE, cli |-> TRUE, text |-> TRUE,
   pols |-> <<FrP("j", "permit", <<"is", "User">>, <<"eq", TView>>, FAny, <<<<"unless", G_(Cv, "flag")>>>>, FrNoAnn, {})>>],
  [shape |-> "links", good |-> TRUE, cli |-> TRUE, text |-> TRUE,
   pols |-> <<FrT("l", "permit", <<"eqslot">>, FAny, <<"inslot">>, <<>>, [principal |-> TU1, resource |-> TD], FrNoAnn, {})>>],
  [shape |-> "concat", good |-> FALSE, cli |-> FALSE, text |-> FALSE, pols |-> <<>>],
  [shape |-> "map", good |-> FALSE, cli |-> FALSE, text |-> FALSE, pols |-> <<>>],
  \* 7: @id annotations: the CLI names policies after them, the FFI and the API keep the positional ids
  [shape |-> "concat", good |-> TRUE, cli |-> TRUE, text |-> TRUE,
   pols |-> <<FrP("policy0", "permit", FAny, <<"eq", TView>>, FAny, <<>>, <<"first", <<102, 105, 114, 115, 116>>>>, {}),
              FrP("policy1", "forbid", <<"eq", TU2>>, FAny, FAny, <<>>, FrNoAnn, {}),
              FrP("policy2", "permit", FAny, FAny, FAny, FrWhen(B_("eq", G_(Pv, "zzz"), LitL(1))), <<"third", <<116, 104, 105, 114, 100>>>>, {"attr"}),
              FrP("policy3", "forbid", FAny, FAny, FAny, FrWhen(B_("less", G_(G_(Pv, "mgr"), "n"), LitL(0))), <<"policy1x", <<112, 111, 108, 105, 99, 121, 49, 120>>>>, {"optional"})>>],
  \* 8: two policies annotated with the same id: the CLI cannot load the set, the FFI can
  [shape |-> "concat", good |-> TRUE, cli |-> FALSE, text |-> TRUE,
   pols |-> <<FrP("policy0", "permit", FAny, FAny, FAny, <<>>, <<"dup", <<100, 117, 112>>>>, {}),
              FrP("policy1", "forbid", <<"eq", TU2>>, FAny, FAny, <<>>, <<"dup", <<100, 117, 112>>>>, {})>>],
  \* 9: Long against String
  [shape |-> "map", good |-> TRUE, cli |-> TRUE, text |-> TRUE,
   pols |-> <<FrP("s", "permit", FAny, FAny, FAny, FrWhen(B_("eq", G_(Pv, "n"), LitS(<<97>>))), FrNoAnn, {"strictEq"}),
              FrP("t", "forbid", FAny, FAny, FAny, FrWhen(B_("less", G_(Pv, "n"), LitS(<<97>>))), FrNoAnn, {"typeErr"}),
              FrP("u", "permit", FAny, <<"eq", TView>>, FAny, FrWhen(G_(Rv, "pub")), FrNoAnn, {})>>],
  \* 10: JSON policies, one naming the action Sc3 lacks
  [shape |-> "json", good |-> TRUE, cli |-> TRUE, text |-> TRUE,
   pols |-> <<FrP("e", "permit", FAny, <<"eq", TEdit>>, FAny, <<>>, FrNoAnn, {}),
              FrP("z", "forbid", FAny, <<"in", TAll>>, FAny, <<<<"unless", G_(Rv, "pub")>>>>, FrNoAnn, {})>>],
  \* 11: a template whose body is ill-typed (reported for the template id) and a link to an undeclared type (for the link id)
  [shape |-> "links", good |-> TRUE, cli |-> TRUE, text |-> TRUE,
   pols |-> <<FrT("l5", "permit", <<"eqslot">>, FAny, FAny, FrWhen(B_("eq", G_(Pv, "zzz"), LitL(1))), [principal |-> TU1], FrNoAnn, {"attr"}),
              FrT("l6", "permit", FAny, <<"eq", TView>>, <<"inslot">>, <<>>, [resource |-> FrTNope], FrNoAnn, {"slotType"})>>],
  \* 12: an id -> JSON map whose JSON is not a policy
  [shape |-> "json", good |-> FALSE, cli |-> FALSE, text |-> FALSE, pols |-> <<>>],
  \* 13: a text with a static policy and an (unlinked) template
  [shape |-> "concatT", good |-> FALSE, cli |-> TRUE, text |-> TRUE,
   pols |-> <<FrP("policy0", "permit", <<"eq", TU1>>, FAny, FAny, <<>>, FrNoAnn, {}),
              FrT("policy1", "forbid", <<"eqslot">>, FAny, FAny, <<>>, <<>>, <<"tmpl", <<116, 109, 112, 108>>>>, {})>>]
>>
FrNP == Len(FrPolSources)

\* good: parses as a schema fragment; wf: the fragment is a schema (every type it mentions is declared)
FrScU == [Sc2 EXCEPT !.ets.Doc.attrs.owner = Req_(TEnt("Nope"))]
FrSchemaSources == <<
  [syntax |-> "json", good |-> TRUE, wf |-> TRUE, schema |-> Sc2],
  [syntax |-> "cedar", good |-> TRUE, wf |-> TRUE, schema |-> Sc2],
  [syntax |-> "json", good |-> TRUE, wf |-> TRUE, schema |-> Sc3],
  [syntax |-> "json", good |-> FALSE, wf |-> FALSE, schema |-> Sc2],
  [syntax |-> "cedar", good |-> TRUE, wf |-> TRUE, schema |-> Sc3],
  [syntax |-> "cedar", good |-> FALSE, wf |-> FALSE, schema |-> Sc2],
  [syntax |-> "json", good |-> TRUE, wf |-> FALSE, schema |-> FrScU],
  [syntax |-> "cedar", good |-> TRUE, wf |-> FALSE, schema |-> FrScU]
>>
FrNS == Len(FrSchemaSources)
FrSchemaOk(j) == FrSchemaSources[j].good /\ FrSchemaSources[j].wf
FrSc(j) == FrSchemaSources[j].schema

\* entity documents: the store of the world plus extra entities; shape "bad" is not an entities document at all
\* (the extra users are built from the shared world's second user, so they follow the schema when it grows)
FrUserAttrs == U2Of(FALSE).attrs
FrEntDocs == <<
  [shape |-> "ok", extra |-> {}],
  [shape |-> "bad", extra |-> {}],
  [shape |-> "ok", extra |-> {[uid |-> FrTNope, attrs |-> <<>>, tags |-> {}, anc |-> {}]}],
  [shape |-> "ok", extra |-> {[uid |-> <<"ent", "User", "u9">>, attrs |-> [FrUserAttrs EXCEPT !.n = <<"str", <<97>>>>], tags |-> {}, anc |-> {}]}],
  [shape |-> "ok", extra |-> {[uid |-> <<"ent", "User", "u8">>, attrs |-> [FrUserAttrs EXCEPT !.n = TL(7)], tags |-> {}, anc |-> {TG}]}]
>>
FrNE == Len(FrEntDocs)
FrStoreEnts == {x \in WireStoreOf(FStoreWithout) : TRUE}

\* ---------------------------------------------------------------- identifiers
FrCliId(p) == IF p.ann = <<>> THEN p.id ELSE p.ann[1]
FrIsLinked(p) == p.template /\ p.slots # <<>>
FrIsTemplate(p) == p.template
FrIsStatic(p) == ~p.template
\* template id: by the harness's convention "T_" \o link id in shape links; its own (CLI) id in a text
FrTid(p, shape, cli) == IF shape = "links" THEN "T_" \o p.id ELSE IF cli THEN FrCliId(p) ELSE p.id
FrPolsOf(k) == {FrPolSources[k].pols[i] : i \in 1..Len(FrPolSources[k].pols)}
\* the policies that take part in authorization: static ones and links
FrActive(k) == {p \in FrPolsOf(k) : FrIsStatic(p) \/ FrIsLinked(p)}
FrSeqOfActive(k, cli) ==
  LET ps == FrPolSources[k].pols
      keep == SelectSeq(ps, LAMBDA p : FrIsStatic(p) \/ FrIsLinked(p))
  IN [i \in 1..Len(keep) |-> IF cli THEN [keep[i] EXCEPT !.id = FrCliId(keep[i])] ELSE keep[i]]

\* ---------------------------------------------------------------- authorization through the FFI and the CLI
FrFfiSchemaSources == [j \in 1..FrNS |-> [good |-> FrSchemaOk(j), schema |-> FrSc(j)]]
FrFfiPolSources == [k \in 1..FrNP |-> [good |-> FrPolSources[k].good, pols |-> FrSeqOfActive(k, FALSE)]]
FrCliPolSources == [k \in 1..FrNP |-> [good |-> FrPolSources[k].cli, pols |-> FrSeqOfActive(k, TRUE)]]
FfiI == INSTANCE Ffi WITH PolSources <- FrFfiPolSources, SchemaSources <- FrFfiSchemaSources, Reqs <- FReqs,
                          StoreWith <- FStoreWith, StoreWithout <- FStoreWithout
CliI == INSTANCE Ffi WITH PolSources <- FrCliPolSources, SchemaSources <- FrFfiSchemaSources, Reqs <- FReqs,
                          StoreWith <- FStoreWith, StoreWithout <- FStoreWithout

\* the plain API reads a text with templates (PolicySet::from_str); the FFI's staticPolicies field refuses it
FrApiGood(k) == FrPolSources[k].good \/ FrPolSources[k].shape = "concatT"
FrApiPolSources == [k \in 1..FrNP |-> [good |-> FrApiGood(k), pols |-> FrSeqOfActive(k, FALSE)]]
ApiI == INSTANCE Ffi WITH PolSources <- FrApiPolSources, SchemaSources <- FrFfiSchemaSources, Reqs <- FReqs,
                          StoreWith <- FStoreWith, StoreWithout <- FStoreWithout

FrontAuthorize(k, j, v, ri) == FfiI!Stateless(k, j, v, ri)
FrontAuthorizeApi(k, j, v, ri) == ApiI!Stateless(k, j, v, ri)
\* exit 0 Allow, 2 Deny, 1 when an input does not load or the request is refused; the decision word is printed, the
\* erroring policies always, the determining policies with --verbose
FrontAuthorizeCli(k, j, rv, ri, verbose) ==
  LET r == CliI!Stateless(k, j, rv, ri)
  IN IF r[1] = "fail" THEN [exit |-> 1, word |-> "none", note |-> "none", reasons |-> {}, errors |-> {}]
     ELSE [exit |-> IF r[2].decision = "Allow" THEN 0 ELSE 2,
           word |-> IF r[2].decision = "Allow" THEN "ALLOW" ELSE "DENY",
           note |-> IF ~verbose THEN "none" ELSE IF r[2].reasons = {} THEN "nopol" ELSE "list",
           reasons |-> IF verbose THEN r[2].reasons ELSE {},
           errors |-> r[2].errors]

\* ---------------------------------------------------------------- validation
FrNamedActions(p) ==
  CASE p.action[1] \in {"eq", "in"} -> {p.action[2]}
    [] p.action[1] = "inset" -> {p.action[2][i] : i \in 1..Len(p.action[2])}
    [] OTHER -> {}
FrBodyInvalid(p, Sc, mode) ==
  \/ p.faults \cap {"attr", "optional", "typeErr"} # {}
  \/ (mode = "strict" /\ "strictEq" \in p.faults)
  \/ \E a \in FrNamedActions(p) : a[3] \notin DOMAIN Sc.acts
FrInvalidIds(k, Sc, mode, cli) ==
  LET sh == FrPolSources[k].shape
      idOf(p) == IF cli THEN FrCliId(p) ELSE p.id
  IN {idOf(p) : p \in {q \in FrPolsOf(k) : FrIsStatic(q) /\ FrBodyInvalid(q, Sc, mode)}}
     \cup {FrTid(p, sh, cli) : p \in {q \in FrPolsOf(k) : FrIsTemplate(q) /\ FrBodyInvalid(q, Sc, mode)}}
     \cup {idOf(p) : p \in {q \in FrPolsOf(k) : FrIsLinked(q) /\ "slotType" \in q.faults}}
FrontValidate(k, j, mode) ==
  IF ~FrPolSources[k].good \/ ~FrSchemaOk(j) THEN FrFail
  ELSE <<"ok", FrInvalidIds(k, FrSc(j), mode, FALSE)>>
FrontValidateApi(k, j, mode) ==
  IF ~FrApiGood(k) \/ ~FrSchemaOk(j) THEN FrFail
  ELSE <<"ok", FrInvalidIds(k, FrSc(j), mode, FALSE)>>
\* the CLI validates in strict mode: 0 passed, 3 validation failure, 1 an input does not load
FrontValidateCli(k, j) ==
  IF ~FrPolSources[k].cli \/ ~FrSchemaOk(j) THEN 1
  ELSE IF FrInvalidIds(k, FrSc(j), "strict", TRUE) # {} THEN 3 ELSE 0

\* ---------------------------------------------------------------- check_parse
FrEntOk(e, j) ==
  /\ FrEntDocs[e].shape = "ok"
  /\ j # 0 => /\ FrSchemaOk(j)
              /\ \A x \in FrStoreEnts \cup FrEntDocs[e].extra : ConformsEntity(FrSc(j), x)
\* the context of request ri, with or without its action, with schema j or none (0)
FrCtxOk(ri, j, withAction) ==
  j # 0 => /\ FrSchemaOk(j)
           /\ withAction => FfiI!ConformsCtx(FrSc(j), FReqs[ri].action, FReqs[ri].context)
FrontCheckParse(kind, a, b, c) ==
  LET ok == CASE kind = "policies" -> FrPolSources[a].good
              [] kind = "schema" -> FrSchemaOk(a)
              [] kind = "entities" -> FrEntOk(a, b)
              [] kind = "context" -> FrCtxOk(a, b, c)
  IN IF ok THEN "ok" ELSE "fail"
\* cedar check-parse with any of --policies k, --schema j, --entities e (0 = not given): everything given must parse;
\* entities are parsed against the schema when it loaded
FrontCheckParseCli(k, j, e) ==
  IF /\ (k # 0 => FrPolSources[k].cli)
     /\ (j # 0 => FrSchemaOk(j))
     /\ (e # 0 => FrEntOk(e, IF j # 0 /\ FrSchemaOk(j) THEN j ELSE 0))
  THEN 0 ELSE 1

\* ---------------------------------------------------------------- conversions
\* the policies whose text / JSON forms are converted: the world's own, and the shared pool's access atoms and probes
FrWorldPols == <<FrPolSources[1].pols[1], FrPolSources[1].pols[2], FrPolSources[2].pols[1], FrPolSources[2].pols[2],
                 FrPolSources[3].pols[1], FrPolSources[4].pols[1], FrPolSources[7].pols[1], FrPolSources[7].pols[3],
                 FrPolSources[9].pols[1], FrPolSources[10].pols[2], FrPolSources[11].pols[1], FrPolSources[11].pols[2],
                 FrPolSources[13].pols[2]>>
FrNPool == 5 * NA                           \* every access atom of the pool under every scope
FrNConv == FrNPool + Len(Probes) + Len(FrWorldPols)
FrAnnOf(p) == IF "ann" \in DOMAIN p /\ p.ann # <<>> THEN <<<<"id", p.ann[2]>>>> ELSE <<>>
FrConvShape(p) == [id |-> "p", effect |-> p.effect, principal |-> p.principal, action |-> p.action, resource |-> p.resource,
                   conds |-> p.conds, annotations |-> FrAnnOf(p), template |-> ("template" \in DOMAIN p /\ p.template)]
FrConvPol(n) ==
  IF n <= FrNPool THEN FrConvShape(Pol(((n - 1) \div NA) + 1, FrWhen(Use(((n - 1) % NA) + 1))))
  ELSE IF n <= FrNPool + Len(Probes)
       THEN FrConvShape(Pol(((n - 1) % 5) + 1, <<<<IF n % 2 = 0 THEN "when" ELSE "unless", Probes[n - FrNPool][1]>>>>))
       ELSE FrConvShape(FrWorldPols[n - FrNPool - Len(Probes)])
\* policy_to_json / template_to_json of the text of policy n: the documented JSON form
\* (an empty annotations object is not written)
FrEstDoc(p) == LET e == EstOf(p) IN IF p.annotations = <<>> THEN [k \in DOMAIN e \ {"annotations"} |-> e[k]] ELSE e
FrontPolicyToJson(n) == FrEstDoc(FrConvPol(n))

\* schema_to_text / schema_to_json (either input syntax): refused unless the source is a well-formed schema
FrontSchemaConv(j) == IF FrSchemaOk(j) THEN "ok" ELSE "fail"
\* schema_to_json_with_resolved_types reads the Cedar syntax only and needs every referenced type to be declared
FrontSchemaResolved(j) == IF FrSchemaSources[j].syntax = "cedar" /\ FrSchemaOk(j) THEN "ok" ELSE "fail"
\* cedar translate-schema converts fragments: it only needs the source to parse in the syntax the direction names
\* (with resolved types: a Cedar-syntax source that is a schema)
FrontTranslateSchemaCli(j, dir) ==
  IF dir = "cedar-to-json-with-resolved-types" THEN (IF FrontSchemaResolved(j) = "ok" THEN 0 ELSE 1)
  ELSE IF FrSchemaSources[j].good /\ ((dir = "json-to-cedar") = (FrSchemaSources[j].syntax = "json")) THEN 0 ELSE 1

\* format and policy_set_text_to_parts work on the text presentation
FrontFormat(k) == IF FrPolSources[k].text THEN "ok" ELSE "fail"
FrontParts(k) ==
  IF ~FrPolSources[k].text THEN FrFail
  ELSE <<"ok", Cardinality({p \in FrPolsOf(k) : FrIsStatic(p)}), Cardinality({p \in FrPolsOf(k) : FrIsTemplate(p)})>>
\* cedar translate-policy: cedar-to-json reads the text presentation (ids by position unless an @id annotation renames;
\* two equal @id annotations cannot be loaded); json-to-cedar reads the policy-set JSON presentation and cannot print links
FrTextCliId(k, i) == LET p == FrPolSources[k].pols[i] IN IF p.ann # <<>> THEN p.ann[1] ELSE "policy" \o ToString(i - 1)
FrTextLoads(k) == IF FrPolSources[k].shape \in {"concat", "concatT"} THEN FrPolSources[k].cli ELSE FrPolSources[k].text
FrontTranslatePolicyCli(k, dir) ==
  IF dir = "cedar-to-json" THEN (IF FrTextLoads(k) THEN 0 ELSE 1)
  ELSE IF FrPolSources[k].pols = <<>> THEN 1
  ELSE IF \A p \in FrPolsOf(k) : ~FrIsLinked(p) THEN 0
  ELSE 9   \* links: PolicySet::to_cedar is documented to refuse them but prints JSON-origin links in a non-Cedar form; C19 only
           \* asks that the CLI reflects that API answer, so the exit status is tied to the recorded API result (Trace_Front)
\* the JSON form of a policy of the world (its @id annotation included)
FrEstOfWorldPol(p) == FrEstDoc(FrConvShape(p))

\* cedar link --template-id tid --new-id nid --arguments {slots given}: over the text presentation plus its links
FrCliIdsInUse(k) ==
  LET sh == FrPolSources[k].shape
  IN {FrCliId(p) : p \in {q \in FrPolsOf(k) : FrIsStatic(q) \/ FrIsLinked(q)}}
     \cup {FrTid(p, sh, TRUE) : p \in {q \in FrPolsOf(k) : FrIsTemplate(q)}}
FrontLinkCli(k, tid, nid, given) ==
  LET sh == FrPolSources[k].shape
      ts == {p \in FrPolsOf(k) : FrIsTemplate(p) /\ FrTid(p, sh, TRUE) = tid}
  IN IF /\ FrPolSources[k].cli
        /\ ts # {}
        /\ nid \notin FrCliIdsInUse(k)
        /\ \A p \in ts : SlotsOf(p) = given
     THEN 0 ELSE 1
==============================================================================
