-------------------------- MODULE MC_PartialStore --------------------------
(* Case generator for C13, partial entity stores: the request is concrete,   *)
(* one entity is missing from a store marked partial (it is unknown, not     *)
(* absent), and the completions are the records the missing entity may turn  *)
(* out to have - or its absence.  Policies touch the missing entity through  *)
(* attributes, tags, membership, `has`, `is`, equality and through the       *)
(* entity that refers to it.                                                 *)
EXTENDS World, Partial, Json

VARIABLES coord, c

PV == V("principal")  RV == V("resource")
And2(a, b) == <<"and", a, b>>
Or2(a, b) == <<"or", a, b>>
TagKE == Lit(StrK)
Known == << Lit(TrueV), Lit(FalseV), TypeErrE, OverflowE >>
\* atoms about the principal (Ua) and about what the resource (Dd) says of its owner (Ua)
Ats == <<
  Bin("hasTag", PV, TagKE),
  Bin("eq", Bin("getTag", PV, TagKE), Lit(L(5))),
  And2(Bin("hasTag", PV, TagKE), Bin("less", Bin("getTag", PV, TagKE), Lit(L(9)))),
  <<"has", PV, "n">>,
  Bin("eq", Get(PV, "n"), Lit(L(1))),
  Bin("in", PV, Lit(Gg)),
  Bin("in", PV, Lit(Gh)),
  Bin("in", PV, SetE(<<Lit(Ub), Lit(Gh)>>)),
  Bin("eq", PV, Lit(Ua)),
  <<"is", PV, "User">>,
  Bin("hasTag", Get(RV, "owner"), TagKE),
  Bin("eq", Get(Get(RV, "owner"), "n"), Lit(L(1))),
  Bin("hasTag", Lit(Ua), Lit(S(<<122>>))),
  <<"has", Lit(Ua), "zz">>,
  <<"not", Bin("hasTag", PV, TagKE)>>,
  <<"if", Bin("hasTag", PV, TagKE), Lit(TrueV), Lit(FalseV)>>,
  Bin("contains", Get(PV, "tags"), Lit(L(1))),
  Bin("eq", Get(RV, "owner"), PV)
>>
ASet == {Ats[i] : i \in 1..Len(Ats)}
KSet == {Known[i] : i \in 1..Len(Known)}

\* which entity is missing, and what it may turn out to be
Missing == <<Ua, Dd, Gg>>
OptionsOf(u) ==
  CASE u = Ua -> { Store[Ua],
                   [Store[Ua] EXCEPT !.tags = {}],
                   [Store[Ua] EXCEPT !.anc = {}],
                   [attrs |-> [n |-> L(2)], tags |-> {<<<<107>>, StrA>>}, anc |-> {Gh}],
                   [attrs |-> <<>>, tags |-> {}, anc |-> {}] }
    [] u = Dd -> { Store[Dd], [Store[Dd] EXCEPT !.attrs = [owner |-> Ub, n |-> L(0)]], [attrs |-> <<>>, tags |-> {}, anc |-> {}] }
    [] u = Gg -> { Store[Gg], [attrs |-> <<>>, tags |-> {}, anc |-> {}] }

AnyS == <<"any">>
P1(id, eff, cond) == [id |-> id, effect |-> eff, principal |-> AnyS, action |-> AnyS, resource |-> AnyS,
                      conds |-> <<<<"when", cond>>>>, slots |-> <<>>, template |-> FALSE]
PScope(id, eff, pc) == [id |-> id, effect |-> eff, principal |-> pc, action |-> AnyS, resource |-> AnyS, conds |-> <<>>, slots |-> <<>>, template |-> FALSE]

Coords == {<<m, i>> : m \in 1..Len(Missing), i \in 1..Len(Ats)} \cup {<<m, 0>> : m \in 1..Len(Missing)}
CasesOf(k) ==
  LET m == k[1] IN
  IF k[2] = 0
  THEN {[missing |-> m, pols |-> <<PScope("p1", "permit", pc), P1("p2", "forbid", y)>>]
        : pc \in {<<"eq", Ua>>, <<"in", Gg>>, <<"in", Gh>>, <<"is", "User">>, <<"isin", "User", Gh>>}, y \in {Lit(FalseV), Ats[1], Ats[6], TypeErrE}}
  ELSE LET x == Ats[k[2]] IN
       {[missing |-> m, pols |-> <<P1("p1", "permit", x)>>]}
       \cup {[missing |-> m, pols |-> <<P1("p1", "permit", w)>>] : w \in UNION {{And2(x, y), And2(y, x), Or2(x, y), Or2(y, x)} : y \in KSet}}
       \cup {[missing |-> m, pols |-> <<P1("p1", "permit", Lit(TrueV)), P1("p2", "forbid", x)>>],
             [missing |-> m, pols |-> <<P1("p1", "permit", x), P1("p2", "forbid", Ats[5])>>],
             [missing |-> m, pols |-> <<P1("p1", "permit", x), P1("p2", "permit", Lit(TrueV)), P1("p3", "forbid", Ats[1])>>]}

Init == coord \in Coords /\ c = <<>>
Next == c = <<>> /\ c' \in CasesOf(coord) /\ UNCHANGED coord

WireEnt(u, r) == [uid |-> u, attrs |-> r.attrs, tags |-> r.tags, anc |-> r.anc]
Absent == [absent |-> TRUE]
Dump == PrintT("CASE " \o ToJson(c'))
ASSUME PrintT("WORLD " \o ToJson([req |-> Req,
                                  missing |-> [i \in 1..Len(Missing) |->
                                     [uid |-> Missing[i],
                                      store |-> {WireEnt(u, Store[u]) : u \in DOMAIN Store \ {Missing[i]}},
                                      options |-> {WireEnt(Missing[i], o) : o \in OptionsOf(Missing[i])} \cup {Absent}]]]))
==============================================================================
