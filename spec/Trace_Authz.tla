----------------------------- MODULE Trace_Authz -----------------------------
(* Trace specification for family "authz" (C01).  One event = one abstract  *)
(* (policy set, request, store) and every distinct response the real         *)
(* authorizer gave for it over all presentations (insertion orders, id       *)
(* spellings, syntaxes, entity orders, preceding calls).  Explained iff      *)
(* there is exactly one distinct response and it is CedarAuthz!Authorize.    *)
EXTENDS World, Json, IOUtils

Rec == ndJsonDeserialize(IOEnv.TRACE)
VARIABLES l, bad

SeqToSet(s) == {s[i] : i \in 1..Len(s)}
NoDup(s) == \A i, j \in 1..Len(s) : i # j => s[i] # s[j]

\* a wire policy is already a record of the right shape (slots: {} or {slot: uid})
PolSet(ev) == {ev.pols[i] : i \in 1..Len(ev.pols)}

RespOk(r, exp) ==
  /\ r.resp.decision = exp.decision
  /\ SeqToSet(r.resp.reasons) = exp.reasons
  /\ NoDup(r.resp.errors)                    \* each erroring policy reported once
  /\ SeqToSet(r.resp.errors) = exp.errors

Explained(ev) ==
  /\ ev.ev = "Authz"
  /\ LET req == IF "req" \in DOMAIN ev THEN FromWireReq(ev.req) ELSE Req
         store == IF "store" \in DOMAIN ev THEN FromWireStore(ev.store) ELSE Store
         exp == Authorize(PolSet(ev), req, store)
     IN \A i \in 1..Len(ev.responses) : RespOk(ev.responses[i], exp)

Init == l = 1 /\ bad = {}
Next == /\ l <= Len(Rec)
        /\ l' = l + 1
        /\ bad' = IF Explained(Rec[l]) THEN bad ELSE bad \cup {l}
Report == (l = Len(Rec) + 1) => PrintT(<<"TRACE-RESULT", Len(Rec), bad>>)
Accepted == TLCGet("stats").diameter = Len(Rec) + 1
==============================================================================
