---------------------------- MODULE MC_Sc2World ----------------------------
(* Prints schema Sc2 (the WORLD line) for the random typed-policy generator. *)
EXTENDS TypedWorld, Json
VARIABLE x
Init == x = 0
Next == FALSE /\ x' = x
ASSUME PrintT("WORLD " \o ToJson([schema |-> Sc2]))
==============================================================================
