------------------------------- MODULE MC_Tpe -------------------------------
(* Case generator for C14: strictly valid policy sets over Sc2, a base        *)
(* environment, an erasure (which components of request / entity data are     *)
(* unknown) and the complete set of consistent completions.                   *)
EXTENDS MC_TpePols, Json

VARIABLES coord, c

Bases == << <<TRUE, "u2", TRUE, TRUE, "g", TRUE, "u1", 3, "u1">>, <<FALSE, "none", FALSE, FALSE, "no", FALSE, "u2", 2, "u1">>,
            <<TRUE, "u3", FALSE, TRUE, "no", FALSE, "u1", 5, "u1">>, <<FALSE, "u2", TRUE, FALSE, "g", TRUE, "u2", 1, "u2">> >>
Comps == {"pid", "ctx", "u1attrs", "u1anc", "u1tags", "u2gone", "dattrs", "u1gone"}
FreeOf(comp) == CASE comp = "pid" -> {9} [] comp = "ctx" -> {8} [] comp = "u1attrs" -> {1, 2, 3} [] comp = "u1anc" -> {5}
                  [] comp = "u1tags" -> {4} [] comp = "u2gone" -> {6} [] comp = "dattrs" -> {7} [] comp = "u1gone" -> {1, 2, 3, 4, 5}
Erasures == {E \in SUBSET Comps : Cardinality(E) <= 2}
FreeSet(E) == UNION {FreeOf(x) : x \in E}

Coords == {<<b, E>> : b \in 1..Len(Bases), E \in Erasures}
CasesOf(k) == LET cm == Agree(Bases[k[1]], FreeSet(k[2]), TRUE)
              IN {[pols |-> ps, base |-> Bases[k[1]], erase |-> k[2], compl |-> cm] : ps \in PolSetsL}

Init == coord \in Coords /\ c = <<>>
Next == c = <<>> /\ c' \in CasesOf(coord) /\ UNCHANGED coord

Dump == PrintT("CASE " \o ToJson(c'))
ASSUME PrintT("WORLD " \o ToJson([schema |-> Sc2, envs |-> {[params |-> p, env |-> WireEnv(EnvP(p))] : p \in AllParams(0)}]))
==============================================================================
