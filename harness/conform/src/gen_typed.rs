//! Type-directed random policies over schema Sc2 of spec/TypedWorld.tla (wire form).
//! Family "typedgen": a setup case carries the schema, a gen case asks for n random
//! policy sets; each is validated with the real validator and reported with its
//! verdicts, so the TLC generators can combine the strictly valid ones with their
//! coordinates (RANDPOLS) and the validation family can judge all of them.

use crate::abs::*;
use crate::fam_authz::add_policy;
use crate::schema::schema_of;
use cedar_policy::{PolicySet, ValidationMode, Validator};
use rand::rngs::StdRng;
use rand::{Rng, SeedableRng};
use serde_json::{json, Value as J};
use std::cell::RefCell;

#[derive(Clone, Copy, PartialEq, Eq, Debug)]
enum T {
    Bool,
    Long,
    User,
    Doc,
    Group,
    SetLong,
    SetUser,
    RecInner,
}

struct G {
    rng: StdRng,
    /// guards the generated expression relies on (conjoined in front, most of the time)
    guards: Vec<J>,
    view_only: bool,
}

fn v(name: &str) -> J {
    json!(["var", name])
}
fn get(e: J, a: &str) -> J {
    json!(["get", e, a])
}
fn has(e: J, a: &str) -> J {
    json!(["has", e, a])
}
fn bin(op: &str, a: J, b: J) -> J {
    json!(["bin", op, a, b])
}
fn lit_long(n: i64) -> J {
    json!(["lit", ["long", i64_to_wire(n)]])
}
fn lit_bool(b: bool) -> J {
    json!(["lit", ["bool", b]])
}
fn lit_str(s: &str) -> J {
    json!(["lit", ["str", str_to_wire(s)]])
}
fn lit_ent(ty: &str, id: &str) -> J {
    json!(["lit", ["ent", ty, id]])
}

impl G {
    fn pick<'a, X>(&mut self, xs: &'a [X]) -> &'a X {
        &xs[self.rng.gen_range(0..xs.len())]
    }
    fn chance(&mut self, p: f64) -> bool {
        self.rng.gen_bool(p)
    }
    fn need(&mut self, g: J) {
        if !self.guards.contains(&g) {
            self.guards.push(g);
        }
    }

    /// an expression of entity type User (possibly through optional attributes: guards recorded)
    fn user(&mut self, d: u32) -> J {
        match self.rng.gen_range(0..if d == 0 { 4 } else { 8 }) {
            0 | 1 => v("principal"),
            2 => get(v("resource"), "owner"),
            3 => lit_ent("User", *self.pick(&["u1", "u2", "u3"])),
            4 | 5 => {
                let base = self.user(d - 1);
                self.need(has(base.clone(), "mgr"));
                get(base, "mgr")
            }
            6 => {
                let c = self.boolean(d - 1);
                let a = self.user(d - 1);
                let b = self.user(d - 1);
                json!(["if", c, a, b])
            }
            _ => get(v("resource"), "owner"),
        }
    }

    /// a String: the attribute `s` of some user, or a literal
    fn string(&mut self, d: u32) -> J {
        if self.chance(0.55) {
            let u = self.user(d.min(1));
            get(u, "s")
        } else {
            lit_str(*self.pick(&["k", "z", "kk", ""]))
        }
    }

    fn long(&mut self, d: u32) -> J {
        match self.rng.gen_range(0..if d == 0 { 5 } else { 14 }) {
            0 => lit_long(*self.pick(&[0, 1, 2, 5, 10, -1, i64::MAX, i64::MIN, 3])),
            1 | 2 => {
                let u = self.user(d.min(1));
                get(u, "n")
            }
            3 => lit_long(self.rng.gen_range(-3..12)),
            4 => get(get(v("resource"), "owner"), "n"),
            5 => {
                let u = self.user(d - 1);
                self.need(has(u.clone(), "opt"));
                get(u, "opt")
            }
            6 => {
                let u = self.user(d - 1);
                let r = get(u, "rec");
                self.need(has(r.clone(), "inner"));
                get(r, "inner")
            }
            7 => {
                let u = self.user(d - 1);
                let k = if self.chance(0.6) { lit_str(if self.chance(0.85) { "k" } else { "z" }) } else { self.string(d - 1) };
                self.need(bin("hasTag", u.clone(), k.clone()));
                bin("getTag", u, k)
            }
            8 => {
                self.view_only = true;
                self.need(has(v("context"), "lim"));
                get(v("context"), "lim")
            }
            9 | 10 => {
                let op = *self.pick(&["add", "sub", "mul"]);
                let a = self.long(d - 1);
                let b = if op == "mul" && self.chance(0.7) { lit_long(self.rng.gen_range(-2..4)) } else { self.long(d - 1) };
                bin(op, a, b)
            }
            11 => json!(["neg", self.long(d - 1)]),
            12 => {
                let c = self.boolean(d - 1);
                let a = self.long(d - 1);
                let b = self.long(d - 1);
                json!(["if", c, a, b])
            }
            _ => {
                let r = self.rec_inner(d - 1);
                self.need(has(r.clone(), "inner"));
                get(r, "inner")
            }
        }
    }

    fn rec_inner(&mut self, d: u32) -> J {
        if d > 0 && self.chance(0.3) {
            let x = self.long(d - 1);
            json!(["record", {"inner": x}, ["inner"]])
        } else {
            let u = self.user(d.min(1));
            get(u, "rec")
        }
    }

    fn group(&mut self) -> J {
        lit_ent("Group", *self.pick(&["g", "g2", "g3"]))
    }

    fn set_long(&mut self, d: u32) -> J {
        let n = self.rng.gen_range(if d == 0 { 1 } else { 0 }..4);
        // an empty set literal is rejected by strict validation: generated on purpose, rarely
        let es: Vec<J> = (0..n).map(|_| self.long(d.saturating_sub(1))).collect();
        json!(["set", es])
    }
    fn set_user(&mut self, d: u32) -> J {
        let n = self.rng.gen_range(1..4);
        let es: Vec<J> = (0..n).map(|_| self.user(d.saturating_sub(1))).collect();
        json!(["set", es])
    }

    fn boolean(&mut self, d: u32) -> J {
        match self.rng.gen_range(0..if d == 0 { 8 } else { 26 }) {
            24 | 6 if d == 0 || self.chance(0.5) => {
                // the request's action or an action literal, compared with / tested for membership in an action (group)
                let a = if self.chance(0.5) { v("action") } else { lit_ent("Action", *self.pick(&["view", "edit", "all"])) };
                let b = lit_ent("Action", *self.pick(&["view", "edit", "all", "all"]));
                if self.chance(0.7) { bin("in", a, b) } else { bin("eq", a, b) }
            }
            25 | 7 if d == 0 || self.chance(0.5) => {
                let a = if self.chance(0.5) { v("action") } else { lit_ent("Action", *self.pick(&["view", "edit"])) };
                let second = if d > 0 && self.chance(0.4) {
                    // a computed action next to the literals
                    let c = self.boolean(d - 1);
                    json!(["if", c, lit_ent("Action", *self.pick(&["view", "edit"])), lit_ent("Action", *self.pick(&["edit", "all"]))])
                } else {
                    lit_ent("Action", *self.pick(&["view", "edit"]))
                };
                bin("in", a, json!(["set", [lit_ent("Action", *self.pick(&["all", "edit"])), second]]))
            }
            0 => lit_bool(self.chance(0.5)),
            1 => get(v("resource"), "pub"),
            2 => {
                self.view_only = true;
                get(v("context"), "flag")
            }
            3 => {
                let u = self.user(0);
                has(u, *self.pick(&["opt", "mgr", "n", "zzz"]))
            }
            4 => {
                let u = self.user(0);
                let g = self.group();
                bin("in", u, g)
            }
            5 => bin("eq", v("principal"), get(v("resource"), "owner")),
            6 | 7 | 8 => {
                let op = *self.pick(&["less", "lessEq", "eq"]);
                let a = self.long(d - 1);
                let b = self.long(d - 1);
                bin(op, a, b)
            }
            9 | 10 => {
                let a = self.boolean(d - 1);
                let b = self.boolean(d - 1);
                json!(["and", a, b])
            }
            11 | 12 => {
                let a = self.boolean(d - 1);
                // sometimes a right operand that is statically true but still dereferences (`e is User`, `x || true`)
                let b = match self.rng.gen_range(0..6) {
                    0 => {
                        let u = self.user(d - 1);
                        json!(["is", u, "User"])
                    }
                    1 => {
                        let x = self.boolean(d - 1);
                        json!(["or", x, lit_bool(true)])
                    }
                    _ => self.boolean(d - 1),
                };
                json!(["or", a, b])
            }
            13 => json!(["not", self.boolean(d - 1)]),
            14 => {
                let c = self.boolean(d - 1);
                let a = self.boolean(d - 1);
                let b = self.boolean(d - 1);
                json!(["if", c, a, b])
            }
            15 => {
                let a = self.user(d - 1);
                let b = self.user(d - 1);
                bin("eq", a, b)
            }
            16 => {
                let u = self.user(d - 1);
                let s = if self.chance(0.5) { self.set_user(d - 1) } else { json!(["set", [self.group(), self.group()]]) };
                bin("in", u, s)
            }
            17 => {
                let s = self.set_long(d - 1);
                let x = self.long(d - 1);
                bin("contains", s, x)
            }
            18 => {
                let op = *self.pick(&["containsAll", "containsAny"]);
                let a = self.set_long(d - 1);
                let b = self.set_long(d - 1);
                bin(op, a, b)
            }
            19 => {
                let u = self.user(d - 1);
                json!(["is", u, *self.pick(&["User", "Doc", "Group"])])
            }
            20 if self.chance(0.5) => {
                let r = self.rec_inner(d - 1);
                has(r, "inner")
            }
            20 => {
                // whole records compared (every attribute of the record type matters, optional ones included)
                let a = self.rec_inner(d - 1);
                let b = self.rec_inner(d - 1);
                if self.chance(0.6) { bin("eq", a, b) } else { bin("contains", json!(["set", [b]]), a) }
            }
            21 => {
                let u = self.user(d - 1);
                let k = if self.chance(0.5) { lit_str(*self.pick(&["k", "z"])) } else { self.string(d - 1) };
                bin("hasTag", u, k)
            }
            22 if self.chance(0.4) => {
                let s = if self.chance(0.5) { self.set_long(d - 1) } else { self.set_user(d - 1) };
                json!(["isEmpty", s])
            }
            22 => {
                let a = self.string(d - 1);
                if self.chance(0.5) {
                    let b = self.string(d - 1);
                    bin("eq", a, b)
                } else {
                    let pat: Vec<J> = match self.rng.gen_range(0..4) {
                        0 => vec![json!(107), json!(-1)],
                        1 => vec![json!(-1)],
                        2 => vec![json!(-1), json!(122)],
                        _ => vec![json!(107)],
                    };
                    json!(["like", a, pat])
                }
            }
            _ => {
                let dd = d.max(1);
                let a = self.set_user(dd - 1);
                let u = self.user(dd - 1);
                bin("contains", a, u)
            }
        }
    }

    /// a clause body: the guards its pieces rely on, placed in one of several capability-carrying shapes
    fn body(&mut self, d: u32) -> J {
        self.guards.clear();
        let e = self.boolean(d);
        let guards = std::mem::take(&mut self.guards);
        let mut out = e;
        for g in guards.into_iter().rev() {
            out = match self.rng.gen_range(0..20) {
                0 => out,                                                        // guard dropped (usually invalid)
                1 => json!(["if", g, out, lit_bool(self.chance(0.5))]),
                2 => json!(["and", ["and", g, lit_bool(true)], out]),
                3 => json!(["and", out, g]),                                     // guard too late (invalid)
                4 => json!(["or", ["not", g], out]),                             // no capability through || (invalid)
                5 => json!(["and", ["or", g, lit_bool(false)], out]),
                6 => {
                    // the test of an `if` whose else-branch can be true teaches nothing outside the `if` (invalid)
                    let other = self.boolean(0);
                    json!(["and", ["if", g, lit_bool(true), other], out])
                }
                _ => json!(["and", g, out]),
            };
        }
        out
    }

    fn policy(&mut self, id: &str, d: u32) -> J {
        self.view_only = false;
        let nclauses = *self.pick(&[1, 1, 1, 2, 0]);
        let mut conds = vec![];
        for _ in 0..nclauses {
            let kind = if self.chance(0.8) { "when" } else { "unless" };
            conds.push(json!([kind, self.body(d)]));
        }
        let principal = match self.rng.gen_range(0..8) {
            0 => json!(["eq", ["ent", "User", *self.pick(&["u1", "u2"])]]),
            1 => json!(["in", ["ent", "Group", *self.pick(&["g", "g2"])]]),
            2 => json!(["is", "User"]),
            3 => json!(["isin", "User", ["ent", "Group", "g"]]),
            _ => json!(["any"]),
        };
        let action = if self.view_only && self.chance(0.9) {
            json!(["eq", ["ent", "Action", "view"]])
        } else {
            match self.rng.gen_range(0..7) {
                0 => json!(["eq", ["ent", "Action", "view"]]),
                1 => json!(["eq", ["ent", "Action", "edit"]]),
                2 => json!(["in", ["ent", "Action", "all"]]),
                3 => json!(["inset", [["ent", "Action", "view"], ["ent", "Action", "edit"]]]),
                _ => json!(["any"]),
            }
        };
        let resource = match self.rng.gen_range(0..6) {
            0 => json!(["eq", ["ent", "Doc", "d"]]),
            1 => json!(["is", "Doc"]),
            _ => json!(["any"]),
        };
        let effect = if self.chance(0.7) { "permit" } else { "forbid" };
        json!({"id": id, "effect": effect, "principal": principal, "action": action, "resource": resource, "conds": conds, "slots": []})
    }
}

thread_local! {
    static SCHEMA: RefCell<Option<cedar_policy::Schema>> = const { RefCell::new(None) };
}

fn verdict(schema: &cedar_policy::Schema, p: &J, mode: ValidationMode) -> R<bool> {
    let mut ps = PolicySet::new();
    add_policy(&mut ps, p, p["id"].as_str().ok_or("id")?, 0)?;
    Ok(Validator::new(schema.clone()).validate(&ps, mode).validation_passed())
}

pub fn run(case: &J) -> R<J> {
    if let Some(s) = case.get("setup") {
        let schema = schema_of(&s["schema"])?;
        SCHEMA.with(|c| *c.borrow_mut() = Some(schema));
        return Ok(json!({"ev": "TypedGenSetup"}));
    }
    let g = &case["gen"];
    let seed = g["seed"].as_u64().ok_or("seed")?;
    let n = g["n"].as_u64().ok_or("n")? as usize;
    let depth = g["depth"].as_u64().unwrap_or(3) as u32;
    SCHEMA.with(|c| {
        let b = c.borrow();
        let schema = b.as_ref().ok_or("no setup")?;
        let mut gen = G { rng: StdRng::seed_from_u64(seed), guards: vec![], view_only: false };
        let mut events = vec![];
        let mut tries = 0usize;
        while events.len() < n && tries < 200 * n + 1000 {
            tries += 1;
            let d = gen.rng.gen_range(1..=depth);
            let p = gen.policy("p1", d);
            let strict = verdict(schema, &p, ValidationMode::Strict)?;
            // keep every strictly valid policy and a quarter of the others
            if !strict && !gen.chance(0.25) {
                continue;
            }
            events.push(json!({"ev": "TypedGen", "policy": with_record_keys(&p), "strict": strict}));
        }
        Ok(json!({"ev": "Multi", "events": events}))
    })
}

pub fn drive(_seed: u64, _n: usize) -> Vec<J> {
    vec![]
}
