------------------------------- MODULE Schema -------------------------------
(***************************************************************************)
(* Abstract (resolved) schemas, the inhabitation relation between values   *)
(* and schema types, and schema conformance of entities and requests       *)
(* (C11); also the basis of the validator families (C03, C13-C18).         *)
(*                                                                         *)
(* Schema: [ets |-> [T |-> [attrs, tags, memberOf, enum]],                 *)
(*          acts |-> [id |-> [applies, principals, resources, context,     *)
(*                            memberOf]]]                                  *)
(*   attrs / context : [name |-> <<type, required>>]                       *)
(*   tags            : <<"none">> or a type                                *)
(*   memberOf        : set of entity type names (direct)                   *)
(*   enum            : set of ids ({} = not enumerated)                    *)
(*   action memberOf : set of action ids (direct); action type is "Action" *)
(* Types: <<"Bool">> <<"Long">> <<"String">> <<"Entity", T>> <<"Set", ty>> *)
(*        <<"Record", attrs>> <<"Ext", name>>                              *)
(***************************************************************************)
EXTENDS CedarAuthz

ActionType == "Action"
ActUid(id) == <<"ent", ActionType, id>>
IsActionUid(u) == u[2] = ActionType

RECURSIVE ScInhabits(_, _)
ScInhabits(v, ty) ==
  CASE ty[1] = "Bool" -> IsBool(v)
    [] ty[1] = "Long" -> IsLong(v)
    [] ty[1] = "String" -> IsStr(v)
    [] ty[1] = "Entity" -> IsEnt(v) /\ v[2] = ty[2]
    [] ty[1] = "Set" -> IsSet(v) /\ \A x \in v[2] : ScInhabits(x, ty[2])
    [] ty[1] = "Record" ->
         /\ IsRec(v)
         /\ DOMAIN v[2] \subseteq DOMAIN ty[2]
         /\ \A k \in DOMAIN ty[2] : ty[2][k][2] => k \in DOMAIN v[2]
         /\ \A k \in DOMAIN v[2] : ScInhabits(v[2][k], ty[2][k][1])
    [] ty[1] = "Ext" -> IsExt(v) /\ v[2] = ty[2]

\* transitive memberOf on entity types / on actions
RECURSIVE ScClose(_, _, _)
ScClose(step, frontier, seen) ==
  IF frontier \subseteq seen THEN seen
  ELSE ScClose(step, UNION {step[x] : x \in (frontier \ seen) \cap DOMAIN step}, seen \cup frontier)
AllowedAncTypes(Sc, T) == ScClose([t \in DOMAIN Sc.ets |-> Sc.ets[t].memberOf], Sc.ets[T].memberOf, {})
ActionAncestors(Sc, id) == {ActUid(a) : a \in ScClose([a \in DOMAIN Sc.acts |-> Sc.acts[a].memberOf], Sc.acts[id].memberOf, {})}

\* an entity reference, wherever it occurs, must name a declared choice of an
\* enumerated type and a declared action
EuidOk(Sc, u) ==
  /\ (u[2] \in DOMAIN Sc.ets /\ Sc.ets[u[2]].enum # {}) => u[3] \in Sc.ets[u[2]].enum
  /\ IsActionUid(u) => u[3] \in DOMAIN Sc.acts
RECURSIVE EuidsOk(_, _)
EuidsOk(Sc, v) ==
  CASE IsEnt(v) -> EuidOk(Sc, v)
    [] IsSet(v) -> \A x \in v[2] : EuidsOk(Sc, x)
    [] IsRec(v) -> \A k \in DOMAIN v[2] : EuidsOk(Sc, v[2][k])
    [] OTHER -> TRUE

\* e = [uid, attrs (name -> value), tags (set of <<key, value>>), anc (set of uids)]
ConformsEntity(Sc, e) ==
  IF IsActionUid(e.uid)
  THEN \* actions must be declared and identical to their schema definition
       /\ e.uid[3] \in DOMAIN Sc.acts
       /\ DOMAIN e.attrs = {} /\ e.tags = {}
       /\ e.anc = ActionAncestors(Sc, e.uid[3])
  ELSE /\ e.uid[2] \in DOMAIN Sc.ets
       /\ EuidOk(Sc, e.uid)
       /\ LET et == Sc.ets[e.uid[2]]
          IN /\ \A k \in DOMAIN et.attrs : et.attrs[k][2] => k \in DOMAIN e.attrs
             /\ \A k \in DOMAIN e.attrs :
                  /\ k \in DOMAIN et.attrs
                  /\ ScInhabits(e.attrs[k], et.attrs[k][1])
                  /\ EuidsOk(Sc, e.attrs[k])
             /\ \A a \in e.anc : EuidOk(Sc, a) /\ a[2] \in AllowedAncTypes(Sc, e.uid[2])
             /\ IF et.tags = <<"none">> THEN e.tags = {}
                ELSE \A t \in e.tags : ScInhabits(t[2], et.tags) /\ EuidsOk(Sc, t[2])

ConformsRequest(Sc, r) ==
  /\ r.principal[2] \in DOMAIN Sc.ets /\ EuidOk(Sc, r.principal)
  /\ r.resource[2] \in DOMAIN Sc.ets /\ EuidOk(Sc, r.resource)
  /\ IsActionUid(r.action) /\ r.action[3] \in DOMAIN Sc.acts
  /\ LET a == Sc.acts[r.action[3]]
     IN /\ a.applies
        /\ r.principal[2] \in a.principals
        /\ r.resource[2] \in a.resources
        /\ EuidsOk(Sc, r.context)
        /\ ScInhabits(r.context, <<"Record", a.context>>)
==============================================================================
