//! family "partial" (C13): a policy set, a request/store with unknowns and a
//! list of completions; records the partial response, the reauthorization of
//! every completion and the from-scratch authorization of every completion.

use crate::abs::*;
use crate::fam_authz::{add_policy, response_to_wire};
use cedar_policy::{Authorizer, Decision, PolicyId, PolicySet, Request, RestrictedExpression};
use serde_json::{json, Map, Value as J};
use std::collections::{BTreeSet, HashMap};
use std::str::FromStr;

fn is_unknown(j: &J) -> bool {
    j.as_array().and_then(|a| a.first()).and_then(|x| x.as_str()) == Some("unknown")
}

/// substitute completion values for ["unknown", name] leaves of a wire value
fn subst(v: &J, c: &Map<String, J>) -> J {
    match v {
        J::Array(a) => {
            if is_unknown(v) {
                if let Some(n) = a.get(1).and_then(|x| x.as_str()) {
                    if let Some(x) = c.get(n) {
                        return x.clone();
                    }
                }
                return v.clone();
            }
            J::Array(a.iter().map(|x| subst(x, c)).collect())
        }
        J::Object(m) => J::Object(m.iter().map(|(k, x)| (k.clone(), subst(x, c))).collect()),
        _ => v.clone(),
    }
}

fn build_request(req: &J) -> R<Request> {
    let mut b = Request::builder();
    let p = &req["principal"];
    if is_unknown(p) {
        if let Some(t) = p.get(1).and_then(|x| x.as_str()) {
            b = b.unknown_principal_with_type(cedar_policy::EntityTypeName::from_str(t).map_err(|e| e.to_string())?);
        }
    } else {
        b = b.principal(uid_from_wire(p)?.into());
    }
    b = b.action(uid_from_wire(&req["action"])?.into());
    let r = &req["resource"];
    if is_unknown(r) {
        if let Some(t) = r.get(1).and_then(|x| x.as_str()) {
            b = b.unknown_resource_with_type(cedar_policy::EntityTypeName::from_str(t).map_err(|e| e.to_string())?);
        }
    } else {
        b = b.resource(uid_from_wire(r)?.into());
    }
    if !is_unknown(&req["context"]) {
        b = b.context(context_from_wire(&req["context"])?.into());
    }
    Ok(b.build())
}

fn ids<'a>(it: impl Iterator<Item = &'a PolicyId>) -> BTreeSet<String> {
    it.map(|x| x.to_string()).collect()
}

fn partial_to_wire(r: &cedar_policy::PartialResponse, all: &BTreeSet<String>) -> J {
    let sat: BTreeSet<String> = r.definitely_satisfied().map(|p| p.id().to_string()).collect();
    let errored = ids(r.definitely_errored());
    let residual: BTreeSet<String> = r.nontrivial_residuals().map(|p| p.id().to_string()).collect();
    let must: BTreeSet<String> = r.must_be_determining().map(|p| p.id().to_string()).collect();
    let may: BTreeSet<String> = r.may_be_determining().map(|p| p.id().to_string()).collect();
    let falses: BTreeSet<String> = all.iter().filter(|i| !sat.contains(*i) && !errored.contains(*i) && !residual.contains(*i)).cloned().collect();
    json!({
        "decision": match r.decision() { Some(Decision::Allow) => "Allow", Some(Decision::Deny) => "Deny", None => "None" },
        "sat": sat, "errored": errored, "residual": residual, "false": falses, "must": must, "may": may,
    })
}

pub fn run(case: &J) -> R<J> {
    let pols = case["pols"].as_array().ok_or("pols")?;
    let mut ps = PolicySet::new();
    let mut back = HashMap::new();
    let mut all = BTreeSet::new();
    for p in pols {
        let id = p["id"].as_str().ok_or("id")?;
        add_policy(&mut ps, p, id, 0)?;
        back.insert(id.to_string(), id.to_string());
        all.insert(id.to_string());
    }
    let req = build_request(&case["req"])?;
    let ents: cedar_policy::Entities = core_entities_from_wire(&case["store"])?.into();
    let auth = Authorizer::new();
    let presp = auth.is_authorized_partial(&req, &ps, &ents);
    let resp = partial_to_wire(&presp, &all);

    let mut reauth = vec![];
    let mut scratch = vec![];
    let empty = Map::new();
    for c in case["completions"].as_array().ok_or("completions")? {
        let cm = c.as_object().unwrap_or(&empty);
        // (a) reauthorize the partial response with the bindings
        let mut bindings: Vec<(String, RestrictedExpression)> = vec![];
        for (k, v) in cm.iter() {
            bindings.push((k.clone(), rexpr_from_wire(v)?.into()));
        }
        let r = presp.reauthorize_with_bindings(bindings.iter().map(|(k, v)| (k.as_str(), v)), &auth, &ents);
        reauth.push(match r {
            Ok(pr) => {
                let w = partial_to_wire(&pr, &all);
                let conc = pr.concretize();
                json!({"partial": w, "resp": response_to_wire(&conc, &back)})
            }
            Err(e) => json!({"error": e.to_string()}),
        });
        // (b) the fully concrete request from scratch
        let mut creq_w = case["req"].clone();
        for k in ["principal", "resource", "context"] {
            if is_unknown(&creq_w[k]) {
                creq_w[k] = cm.get(k).cloned().ok_or_else(|| format!("completion lacks {k}"))?;
            }
        }
        let creq_w = subst(&creq_w, cm);
        let cstore_w = subst(&case["store"], cm);
        let creq: Request = core_request_from_wire(&creq_w)?.into();
        let cents: cedar_policy::Entities = core_entities_from_wire(&cstore_w)?.into();
        scratch.push(response_to_wire(&auth.is_authorized(&creq, &ps, &cents), &back));
    }
    let mut out = json!({
        "ev": "Partial", "pols": with_record_keys(&case["pols"]), "req": case["req"], "store": case["store"],
        "completions": case["completions"], "resp": resp, "reauth": reauth, "scratch": scratch,
    });
    if let Some(id) = case.get("id") {
        out["id"] = id.clone();
    }
    Ok(out)
}

pub fn drive(_seed: u64, _n: usize) -> Vec<J> {
    vec![]
}

// ---------------------------------------------------------------- partial entity stores
/// family "pstore" (C13): a concrete request, a store from which one entity is missing and which is marked
/// partial (`Entities::partial()`: an entity that is not there is unknown, not absent), and the options for
/// the missing entity (records, or absent for real).  Records the partial response and the from-scratch
/// response for every option.
pub fn run_pstore(case: &J) -> R<J> {
    let pols = case["pols"].as_array().ok_or("pols")?;
    let mut ps = PolicySet::new();
    let mut back = HashMap::new();
    let mut all = BTreeSet::new();
    for p in pols {
        let id = p["id"].as_str().ok_or("id")?;
        add_policy(&mut ps, p, id, 0)?;
        back.insert(id.to_string(), id.to_string());
        all.insert(id.to_string());
    }
    let req: Request = core_request_from_wire(&case["req"])?.into();
    let ents: cedar_policy::Entities = core_entities_from_wire(&case["store"])?.into();
    let ents = ents.partial();
    let auth = Authorizer::new();
    let presp = auth.is_authorized_partial(&req, &ps, &ents);
    let resp = partial_to_wire(&presp, &all);
    let mut scratch = vec![];
    for o in case["options"].as_array().ok_or("options")? {
        let mut rows = case["store"].as_array().ok_or("store")?.clone();
        if o.get("absent").is_none() {
            rows.push(o.clone());
        }
        let cents: cedar_policy::Entities = core_entities_from_wire(&J::Array(rows))?.into();
        scratch.push(response_to_wire(&auth.is_authorized(&req, &ps, &cents), &back));
    }
    let mut out = json!({
        "ev": "PartialStore", "pols": with_record_keys(&case["pols"]), "req": case["req"], "store": case["store"],
        "missing": case["missing"], "options": case["options"], "resp": resp, "scratch": scratch,
    });
    if let Some(id) = case.get("id") {
        out["id"] = id.clone();
    }
    Ok(out)
}
