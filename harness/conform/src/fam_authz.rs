//! family "authz" (C01): one policy set, one request, one store; the
//! authorizer is run under many presentations of the same abstract input
//! (insertion orders, id spellings, arrival syntaxes, entity orders, preceding
//! calls) and every distinct response is recorded.

use crate::abs::*;
use crate::gen::{self, Gen, Ty};
use crate::render;
use cedar_policy::{Authorizer, Decision, Policy, PolicyId, PolicySet, SlotId, Template};
use serde_json::{json, Value as J};
use std::collections::{BTreeMap, BTreeSet, HashMap};
use std::str::FromStr;

fn spell(scheme: usize, i: usize, n: usize) -> String {
    match scheme {
        0 => format!("p{i}"),
        // ids that sort in the opposite order of insertion, with spaces
        1 => format!("policy {}", n - i),
        // non-ASCII, quotes
        _ => format!("\u{1F600}\"{}\\", (b'z' - (i as u8 % 26)) as char),
    }
}

fn permutations(n: usize) -> Vec<Vec<usize>> {
    fn rec(cur: &mut Vec<usize>, used: &mut Vec<bool>, n: usize, out: &mut Vec<Vec<usize>>) {
        if cur.len() == n {
            out.push(cur.clone());
            return;
        }
        for i in 0..n {
            if !used[i] {
                used[i] = true;
                cur.push(i);
                rec(cur, used, n, out);
                cur.pop();
                used[i] = false;
            }
        }
    }
    if n <= 4 {
        let mut out = vec![];
        rec(&mut vec![], &mut vec![false; n], n, &mut out);
        out
    } else {
        let id: Vec<usize> = (0..n).collect();
        let mut out = vec![id.clone(), id.iter().rev().cloned().collect()];
        for r in 1..n.min(4) {
            let mut v = id.clone();
            v.rotate_left(r);
            out.push(v);
        }
        out
    }
}

/// add wire policy `p` under the spelled id `sid`, through syntax `syn`
/// (0 = Cedar text, 1 = JSON policy format)
pub fn add_policy(ps: &mut PolicySet, p: &J, sid: &str, syn: usize) -> R<()> {
    let is_template = p.get("template").and_then(|x| x.as_bool()).unwrap_or(false);
    if is_template {
        // template + link; the template gets a derived id, or the shared id `tid` when several links
        // of the case instantiate one template (the first of them adds it)
        let tid = p.get("tid").and_then(|x| x.as_str()).map(String::from).unwrap_or_else(|| format!("T/{sid}"));
        if ps.template(&PolicyId::new(&tid)).is_none() {
            let t = if syn == 0 {
                Template::parse(Some(PolicyId::new(&tid)), render::policy_text(p)?).map_err(|e| format!("template parse: {e}"))?
            } else {
                Template::from_json(Some(PolicyId::new(&tid)), render::policy_est(p)?).map_err(|e| format!("template json: {e}"))?
            };
            ps.add_template(t).map_err(|e| e.to_string())?;
        }
        let mut vals = HashMap::new();
        for (k, v) in as_obj(&p["slots"])?.iter() {
            let slot = if k == "principal" { SlotId::principal() } else { SlotId::resource() };
            vals.insert(slot, uid_from_wire(v)?.into());
        }
        ps.link(PolicyId::new(&tid), PolicyId::new(sid), vals).map_err(|e| e.to_string())?;
    } else {
        let pol = if syn == 0 {
            Policy::parse(Some(PolicyId::new(sid)), render::policy_text(p)?).map_err(|e| format!("policy parse: {e}"))?
        } else {
            Policy::from_json(Some(PolicyId::new(sid)), render::policy_est(p)?).map_err(|e| format!("policy json: {e}"))?
        };
        ps.add(pol).map_err(|e| e.to_string())?;
    }
    Ok(())
}

pub fn response_to_wire(resp: &cedar_policy::Response, back: &HashMap<String, String>) -> J {
    let map = |id: &PolicyId| -> String {
        back.get(id.as_ref() as &str).cloned().unwrap_or_else(|| format!("?{id}"))
    };
    let reasons: BTreeSet<String> = resp.diagnostics().reason().map(map).collect();
    // errors: a list on purpose (duplicates would be a violation)
    let mut errors: Vec<String> = resp.diagnostics().errors().map(|e| match e { cedar_policy::AuthorizationError::PolicyEvaluationError(pe) => map(pe.policy_id()) }).collect();
    errors.sort();
    json!({
        "decision": if resp.decision() == Decision::Allow { "Allow" } else { "Deny" },
        "reasons": reasons, "errors": errors,
    })
}

pub fn run(case: &J) -> R<J> {
    let pols = case["pols"].as_array().ok_or("pols")?;
    let n = pols.len();
    let store_fwd = case["store"].clone();
    let mut store_rev = case["store"].as_array().ok_or("store")?.clone();
    store_rev.reverse();
    let store_rev = J::Array(store_rev);
    let request: cedar_policy::Request = core_request_from_wire(&case["req"])?.into();
    let all_static = pols.iter().all(|p| !p.get("template").and_then(|x| x.as_bool()).unwrap_or(false));

    let mut distinct: BTreeMap<String, (J, usize, String)> = BTreeMap::new();
    let mut nvariants = 0usize;
    let mut record = |resp: J, desc: String| {
        let key = resp.to_string();
        nvariants += 1;
        distinct.entry(key).or_insert((resp, 0, desc)).1 += 1;
    };
    let authorizer = Authorizer::new();
    for (oi, order) in permutations(n).iter().enumerate() {
        for scheme in 0..3 {
            // vary the remaining dimensions with the variant index instead of taking the full product
            let syn = (oi + scheme) % 2;
            let mut ps = PolicySet::new();
            let mut back = HashMap::new();
            for &i in order {
                let sid = spell(scheme, i, n);
                back.insert(sid.clone(), pols[i]["id"].as_str().ok_or("policy id")?.to_string());
                add_policy(&mut ps, &pols[i], &sid, syn)?;
            }
            let store = if (oi + scheme) % 3 == 0 { &store_rev } else { &store_fwd };
            let ents: cedar_policy::Entities = core_entities_from_wire(store)?.into();
            // preceding unrelated calls on the same authorizer object
            for _ in 0..((oi + scheme) % 3) {
                let _ = authorizer.is_authorized(&request, &PolicySet::new(), &cedar_policy::Entities::empty());
            }
            let resp = authorizer.is_authorized(&request, &ps, &ents);
            record(response_to_wire(&resp, &back), format!("order={order:?} ids={scheme} syn={syn}"));
        }
        // one concatenated text: ids are derived from the order (policy0, policy1, ..)
        if all_static {
            let mut src = String::new();
            let mut back = HashMap::new();
            for (k, &i) in order.iter().enumerate() {
                src.push_str(&render::policy_text(&pols[i])?);
                src.push('\n');
                back.insert(format!("policy{k}"), pols[i]["id"].as_str().ok_or("policy id")?.to_string());
            }
            let ps = PolicySet::from_str(&src).map_err(|e| format!("policy set parse: {e}\n{src}"))?;
            let ents: cedar_policy::Entities = core_entities_from_wire(&store_fwd)?.into();
            let resp = Authorizer::new().is_authorized(&request, &ps, &ents);
            record(response_to_wire(&resp, &back), format!("order={order:?} set-text"));
        }
    }
    let responses: Vec<J> = distinct
        .into_values()
        .map(|(r, c, d)| json!({"resp": r, "count": c, "first": d}))
        .collect();
    let mut out = json!({
        "ev": "Authz", "pols": with_record_keys(&case["pols"]),
        "responses": responses, "nvariants": nvariants,
    });
    if let Some(w) = case.get("world") {
        out["world"] = w.clone();
    } else {
        out["req"] = case["req"].clone();
        out["store"] = case["store"].clone();
    }
    if let Some(id) = case.get("id") {
        out["id"] = id.clone();
    }
    Ok(out)
}

/// random scope constraint for `var`
fn scope(g: &mut Gen, var: &str, w: &gen::World, template_ok: bool) -> J {
    let (tys, range): (&[&str], std::ops::Range<usize>) = match var {
        "principal" => (&["User", "Group"], 0..6),
        "action" => (&["Action"], 6..8),
        _ => (&["Doc", "Group"], 0..6),
    };
    let e = g.pick(&w.uids[range.clone()]).clone();
    match g.rng.gen_range(0..10) {
        0..=3 => json!(["any"]),
        4 => json!(["eq", e]),
        5 => json!(["in", e]),
        6 if var != "action" => json!(["is", *g.pick(tys)]),
        7 if var != "action" => json!(["isin", *g.pick(tys), e]),
        6 | 7 => json!(["inset", [e, g.pick(&w.uids[range]).clone()]]),
        8 if template_ok && var != "action" => match g.rng.gen_range(0..3) {
            0 => json!(["eqslot"]),
            1 => json!(["inslot"]),
            _ => json!(["isinslot", *g.pick(tys)]),
        },
        _ => json!(["any"]),
    }
}

use rand::Rng;

pub fn policy(g: &mut Gen, w: &gen::World, id: &str) -> J {
    let template = g.chance(25);
    let principal = scope(g, "principal", w, template);
    let action = scope(g, "action", w, false);
    let resource = scope(g, "resource", w, template);
    let mut slots = serde_json::Map::new();
    for (v, c) in [("principal", &principal), ("resource", &resource)] {
        if c[0].as_str().map(|t| t.ends_with("slot")).unwrap_or(false) {
            slots.insert(v.to_string(), g.pick(&w.uids[0..6]).clone());
        }
    }
    let is_template = !slots.is_empty();
    let mut conds = vec![];
    for _ in 0..g.rng.gen_range(0..3) {
        let kind = if g.chance(70) { "when" } else { "unless" };
        let depth = g.rng.gen_range(0..3);
        conds.push(json!([kind, g.expr_ty(Ty::Bool, depth, w)]));
    }
    json!({
        "id": id, "effect": if g.chance(60) { "permit" } else { "forbid" },
        "principal": principal, "action": action, "resource": resource,
        "conds": conds, "slots": slots, "template": is_template,
    })
}

pub fn drive(seed: u64, n: usize) -> Vec<J> {
    let mut g = Gen::new(seed ^ 0xA117);
    (0..n)
        .map(|i| {
            let w = g.world();
            let k = g.rng.gen_range(0..5);
            let pols: Vec<J> = (0..k).map(|j| policy(&mut g, &w, &format!("q{j}"))).collect();
            json!({"id": i, "pols": pols, "req": w.req, "store": w.store})
        })
        .collect()
}
