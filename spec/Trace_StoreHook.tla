--------------------------- MODULE Trace_StoreHook ---------------------------
(* Trace specification for the entity-store events recorded by the            *)
(* `verif-trace` hooks while the repository's own tests (or any program) run. *)
(* Each event is a Hoare triple of Entities::{from,add,upsert,remove}_entities *)
(* with uids as strings, data identity as a hash, and the ancestors the caller *)
(* supplied.  Explained iff it is a transition of EntityStore (closure         *)
(* computed by the library) or of its enforce-mode acceptance rule.            *)
EXTENDS EntityStoreRepair, Json, IOUtils

Rec == ndJsonDeserialize(IOEnv.TRACE)
VARIABLES l, bad

ToSet(s) == {s[i] : i \in 1..Len(s)}
Abs(rows) == [u \in {rows[i][1] : i \in 1..Len(rows)} |->
                LET r == rows[CHOOSE i \in 1..Len(rows) : rows[i][1] = u]
                IN [par |-> ToSet(r[2]), v |-> r[3]]]
AncOf(rows, u) == ToSet(rows[CHOOSE i \in 1..Len(rows) : rows[i][1] = u][4])
ClosureExact(rows) == LET E == Abs(rows) IN \A u \in DOMAIN E : AncOf(rows, u) = Reach(E, u)
NoDupRows(rows) == \A i, j \in 1..Len(rows) : i # j => rows[i][1] # rows[j][1]
Batch(arg) == [i \in 1..Len(arg) |-> <<arg[i][1], ToSet(arg[i][2]), arg[i][3]>>]

\* post-state of the implementation vs the specification: same entities, same data, same hierarchy
SameStore(rows, E) ==
  /\ {rows[i][1] : i \in 1..Len(rows)} = DOMAIN E
  /\ \A u \in DOMAIN E : Abs(rows)[u].v = E[u].v /\ AncOf(rows, u) = Reach(E, u)

\* ---- one level down: the recorded stage between strip / install and repair is the stage of EntityStoreRepair
ImplOf(rows) == [u \in {rows[i][1] : i \in 1..Len(rows)} |->
                   LET r == rows[CHOOSE i \in 1..Len(rows) : rows[i][1] = u]
                   IN [par |-> ToSet(r[2]), v |-> r[3], ind |-> ToSet(r[4]) \ ToSet(r[2])]]
SameImpl(I, J) == DOMAIN I = DOMAIN J /\ \A u \in DOMAIN I : I[u].par = J[u].par /\ I[u].v = J[u].v /\ AncI(I, u) = AncI(J, u)
AnyOrder(I) == LET RECURSIVE Mk(_) Mk(S) == IF S = {} THEN <<>> ELSE LET x == CHOOSE y \in S : TRUE IN <<x>> \o Mk(S \ {x})
               IN Mk(UNION ({DOMAIN I} \cup {AncI(I, u) : u \in DOMAIN I}))
StageOk(ev) ==
  LET I0 == ImplOf(ev.pre)
      mid == ImplOf(ev.mid)
      t == ToSet(ev.touched)
  IN CASE ev.op = "remove" ->
            LET st == RemoveStage(I0, ev.arg) IN SameImpl(mid, st[1]) /\ t = st[2]
       [] ev.op = "upsert" ->
            LET st == UpsertStage(I0, Batch(ev.arg)) IN SameImpl(mid, st[1]) /\ GrowOk(st[1], st[2], t)
       [] ev.op = "add" ->
            LET st == AddStage(I0, Batch(ev.arg)) IN st[1] = "ok" /\ SameImpl(mid, st[2]) /\ GrowOk(st[2], st[3], t)
       [] OTHER -> FALSE
\* ... and the recorded result is what the model's repair of that stage gives (the model check shows it does not depend on the order)
RepairOk(ev) ==
  LET mid == ImplOf(ev.mid)
      r == RepairTC(mid, ToSet(ev.touched), AnyOrder(mid))
  IN IF ev.res[1] = "ok" THEN r[1] = "ok" /\ SameImpl(ImplOf(ev.post), r[2]) ELSE r[1] = "err"

Covered(ev) ==   \* what the specification speaks about
  /\ ~ev.schema                                        \* schema-based loading adds action entities / validates: other families
  /\ \/ ev.mode = "ComputeNow"
     \/ ev.mode = "EnforceAlreadyComputed" /\ ev.op = "from"

Explained(ev) ==
  /\ ev.ev = "EsOp"
  /\ NoDupRows(ev.pre) /\ NoDupRows(ev.post)
  /\ Covered(ev) =>
       /\ (ev.op # "from") => ClosureExact(ev.pre)
       /\ LET pre == Abs(ev.pre)
              op == IF ev.op = "from" /\ ev.mode = "EnforceAlreadyComputed" THEN "fromEnforce" ELSE ev.op
              r == Apply(pre, op, IF ev.op = "remove" THEN ToSet(ev.arg) ELSE Batch(ev.arg))
          IN IF ev.res[1] = "ok"
             THEN r[1] = "ok" /\ SameStore(ev.post, r[2]) /\ ClosureExact(ev.post)
             ELSE r[1] = "err"
       /\ ("staged" \in DOMAIN ev /\ ev.staged) => (StageOk(ev) /\ RepairOk(ev))

Init == l = 1 /\ bad = {}
Next == /\ l <= Len(Rec)
        /\ l' = l + 1
        /\ bad' = IF Explained(Rec[l]) THEN bad ELSE bad \cup {l}
Report == (l = Len(Rec) + 1) => PrintT(<<"TRACE-RESULT", Len(Rec), bad>>)
Accepted == TLCGet("stats").diameter = Len(Rec) + 1
==============================================================================
