----------------------------- MODULE Trace_Front -----------------------------
(* Trace specification for family "front" (C19).  One event = one operation of *)
(* a stateless front end on inputs addressed by index into Front.tla's world:   *)
(* an FFI entry point (is_authorized, validate, check_parse_*, conversions,     *)
(* format, policy_set_text_to_parts) or one run of the `cedar` binary.  Every   *)
(* FFI / CLI answer is judged twice: against the function Front.tla defines,    *)
(* and against the recorded answer of the plain Rust API on the same inputs.    *)
EXTENDS Front, Json, IOUtils

Rec == ndJsonDeserialize(IOEnv.TRACE)
VARIABLES l, bad

ToSet(s) == {s[i] : i \in 1..Len(s)}
NoDup(s) == \A i, j \in 1..Len(s) : i # j => s[i] # s[j]
\* an authorization answer <<"fail">> | <<"ok", [decision, reasons, errors]>> against the spec's
AnsEq(a, exp) ==
  IF exp[1] = "fail" THEN a[1] = "fail"
  ELSE /\ a[1] = "ok"
       /\ a[2].decision = exp[2].decision
       /\ NoDup(a[2].reasons) /\ ToSet(a[2].reasons) = exp[2].reasons
       /\ NoDup(a[2].errors) /\ ToSet(a[2].errors) = exp[2].errors
\* a validation answer <<"fail">> | <<"ok", error ids, warning ids, passed>> against <<"fail">> | <<"ok", ids>>
ValEq(a, exp) ==
  IF exp[1] = "fail" THEN a[1] = "fail"
  ELSE a[1] = "ok" /\ ToSet(a[2]) = exp[2] /\ a[4] = (exp[2] = {})
OkWord(a) == a[1]           \* "ok" / "fail" of a tagged answer

ExAuthorize(ev, op) ==
  /\ AnsEq(ev.ffi, FrontAuthorize(op[2], op[3], op[4], op[5]))
  /\ AnsEq(ev.api, FrontAuthorizeApi(op[2], op[3], op[4], op[5]))
  \* the partial-authorization entry point, given the same fully concrete call: whenever it answers and the
  \* specification has an answer, it is that decision (no unknowns => never undecided).  Its failure domain is
  \* observed, not demanded.
  /\ LET exp == FrontAuthorize(op[2], op[3], op[4], op[5])
     IN ("partial" \in DOMAIN ev /\ ev.partial[1] = "ok" /\ exp[1] = "ok") => ev.partial[2] = exp[2].decision
ExValidate(ev, op) ==
  /\ ValEq(ev.ffi, FrontValidate(op[2], op[3], op[4]))
  /\ ValEq(ev.api, FrontValidateApi(op[2], op[3], op[4]))
  /\ (ev.ffi[1] = "ok" /\ ev.api[1] = "ok") => ToSet(ev.ffi[3]) = ToSet(ev.api[3])      \* the same warnings
ExCheckParse(ev, op) ==
  LET exp == FrontCheckParse(op[2], op[3], op[4], op[5])
      apiExp == IF op[2] = "policies" THEN (IF FrApiGood(op[3]) THEN "ok" ELSE "fail") ELSE exp
  IN ev.ffi = exp /\ ev.ffi2 = exp /\ ev.api = apiExp
ExConvPolicy(ev, op) ==
  /\ ev.ffi[1] = "ok" /\ ev.api[1] = "ok"
  /\ ev.ffi[2] = ev.api[2]                                   \* the document the API returns
  /\ ev.back = <<"ok", ev.p0>>                               \* which reads back as the policy
  /\ op[3] = "toJson" => FrontPolicyToJson(op[2]) = ev.doc   \* and is the JSON form the specification defines
ExConvSchema(ev, op) ==
  LET res == op[3] = "toJsonResolved"
      exp == IF res THEN FrontSchemaResolved(op[2]) ELSE FrontSchemaConv(op[2]) IN
  /\ ev.ffi[1] = exp
  /\ ev.api[1] = (IF res THEN exp ELSE IF FrSchemaSources[op[2]].good THEN "ok" ELSE "fail")     \* the API converts fragments
  /\ exp = "ok" => /\ ev.ffi[2] = ev.api[2]
                   /\ ev.source[1] = "ok" /\ ev.reloaded = ev.source /\ ev.apiReloaded = ev.source
ExFormat(ev, op) ==
  LET exp == FrontFormat(op[2]) IN
  /\ ev.ffi[1] = exp /\ ev.api[1] = exp
  /\ exp = "ok" => ev.ffi[2] = ev.api[2] /\ ev.orig[1] = "ok" /\ ev.back = ev.orig
ExParts(ev, op) ==
  LET exp == FrontParts(op[2]) IN
  /\ ev.ffi[1] = exp[1] /\ ev.api[1] = exp[1]
  /\ exp[1] = "ok" => /\ ev.ffi[2] = exp[2] /\ ev.ffi[3] = exp[3]
                      /\ ev.api[2] = exp[2] /\ ev.api[3] = exp[3]
                      /\ ev.ffi[4].policies = ev.api[4].policies /\ ev.ffi[4].templates = ev.api[4].templates
                      /\ ev.orig[1] = "ok" /\ ev.back = ev.orig

ExCliAuthorize(ev, op) ==
  LET x == FrontAuthorizeCli(op[2], op[3], op[4], op[5], op[6]) IN
  /\ ev.cli.how = "exited"
  /\ ev.cli.exit = x.exit /\ ev.cli.word = x.word /\ ev.cli.note = x.note
  /\ NoDup(ev.cli.reasons) /\ ToSet(ev.cli.reasons) = x.reasons
  /\ ToSet(ev.cli.errors) = x.errors
  /\ AnsEq(ev.api, FrontAuthorizeApi(op[2], op[3], op[4], op[5]))
ExCliValidate(ev, op) ==
  LET x == FrontValidateCli(op[2], op[3])
      ids == IF x = 1 THEN {} ELSE FrInvalidIds(op[2], FrSc(op[3]), "strict", TRUE) IN
  /\ ev.cli.how = "exited"
  /\ ev.cli.exit = x
  /\ ev.cli.verdict = (CASE x = 0 -> "passed" [] x = 3 -> "failed" [] OTHER -> "none")
  /\ ids \subseteq ToSet(ev.cli.ids)                         \* every invalid policy is named (warnings are printed too)
  /\ ValEq(ev.api, FrontValidateApi(op[2], op[3], "strict"))
ExCliCheckParse(ev, op) ==
  ev.cli.how = "exited" /\ ev.cli.exit = FrontCheckParseCli(op[2], op[3], op[4])
ExCliFormat(ev, op) ==
  LET exp == FrontFormat(op[2]) IN
  /\ ev.cli.how = "exited"
  /\ ev.api[1] = exp
  /\ ev.cli.exit = (IF exp = "fail" THEN 1 ELSE IF op[5] /\ ~ev.apiSame THEN 1 ELSE 0)
  /\ exp = "ok" => ev.cli.stdout = ev.api[2]
ExCliTranslatePolicy(ev, op) ==
  LET k == op[2]
      x == FrontTranslatePolicyCli(k, op[3])
      ps == FrPolSources[k].pols
      sh == FrPolSources[k].shape IN
  /\ ev.cli.how = "exited"
  /\ x # 9 => ev.cli.exit = x
  /\ x = 0 =>
       IF op[3] = "cedar-to-json"
       THEN /\ ev.parsed /\ ev.nlinks = 0
            /\ NoDup(ev.staticIds) /\ ToSet(ev.staticIds) = {FrTextCliId(k, i) : i \in {n \in 1..Len(ps) : FrIsStatic(ps[n])}}
            /\ NoDup(ev.templateIds) /\ ToSet(ev.templateIds) = {FrTextCliId(k, i) : i \in {n \in 1..Len(ps) : FrIsTemplate(ps[n])}}
            /\ \A i \in 1..Len(ps) :
                 FrEstOfWorldPol(ps[i]) = (IF FrIsStatic(ps[i]) THEN ev.static[FrTextCliId(k, i)] ELSE ev.templates[FrTextCliId(k, i)])
       ELSE /\ ev.api[1] = "ok" /\ ev.stdout = ev.api[2]
            /\ ev.orig[1] = "ok" /\ ev.back = ev.orig
  \* a JSON policy set with links: the property only asks the CLI to reflect PolicySet::to_cedar (see FrontTranslatePolicyCli)
  \* (the text printed for a link lists its slots in hash order, so it is not compared)
  /\ x = 9 => ev.cli.exit = (IF ev.api[1] = "ok" THEN 0 ELSE 1)
ExCliTranslateSchema(ev, op) ==
  LET x == FrontTranslateSchemaCli(op[2], op[3]) IN
  /\ ev.cli.how = "exited"
  /\ ev.cli.exit = x
  /\ ev.api[1] = (IF x = 0 THEN "ok" ELSE "fail")
  /\ x = 0 => ev.cli.stdout = ev.api[2] /\ ev.reloaded = ev.source
ExCliLink(ev, op) ==
  LET x == FrontLinkCli(op[2], op[3], op[4], ToSet(op[5])) IN
  /\ ev.cli.how = "exited"
  /\ ev.cli.exit = x
  /\ ev.cli.added = (x = 0)
  /\ ev.cli.recorded = (x = 0 /\ FrPolSources[op[2]].shape = "links")
  /\ ev.cli.kept

Explained(ev) ==
  IF ev.ev = "FrontSetup" THEN TRUE
  ELSE /\ ev.ev = "Front"
       /\ LET op == ev.op kind == ev.op[1] IN
          CASE kind = "authorize" -> ExAuthorize(ev, op)
            [] kind = "validate" -> ExValidate(ev, op)
            [] kind = "checkParse" -> ExCheckParse(ev, op)
            [] kind = "convPolicy" -> ExConvPolicy(ev, op)
            [] kind = "convSchema" -> ExConvSchema(ev, op)
            [] kind = "format" -> ExFormat(ev, op)
            [] kind = "parts" -> ExParts(ev, op)
            [] kind = "cliAuthorize" -> ExCliAuthorize(ev, op)
            [] kind = "cliValidate" -> ExCliValidate(ev, op)
            [] kind = "cliCheckParse" -> ExCliCheckParse(ev, op)
            [] kind = "cliFormat" -> ExCliFormat(ev, op)
            [] kind = "cliTranslatePolicy" -> ExCliTranslatePolicy(ev, op)
            [] kind = "cliTranslateSchema" -> ExCliTranslateSchema(ev, op)
            [] kind = "cliLink" -> ExCliLink(ev, op)
            [] OTHER -> FALSE

Init == l = 1 /\ bad = {}
Next == /\ l <= Len(Rec)
        /\ l' = l + 1
        /\ bad' = IF Explained(Rec[l]) THEN bad ELSE bad \cup {l}
Report == (l = Len(Rec) + 1) => PrintT(<<"TRACE-RESULT", Len(Rec), bad>>)
Accepted == TLCGet("stats").diameter = Len(Rec) + 1
==============================================================================
