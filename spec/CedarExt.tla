------------------------------- MODULE CedarExt -------------------------------
(***************************************************************************)
(* Cedar extension types (property C07).  Values:                          *)
(*   <<"ext", "decimal", i64>>     value * 10^4                            *)
(*   <<"ext", "datetime", i64>>    milliseconds since the Unix epoch       *)
(*   <<"ext", "duration", i64>>    milliseconds                            *)
(*   <<"ext", "ipaddr", ver, addr, prefix>>  ver in {4, 6}; addr = 4 octets*)
(*                                  or 8 16-bit groups; prefix 0..32 / 128 *)
(*                                  (always explicit; default 32 / 128)    *)
(* ExtCall(fn, args) gives <<"ok", v>>, <<"err", "ext">> for a failing     *)
(* constructor or an operation whose exact result is not representable,    *)
(* <<"err", "type">> for wrongly typed arguments, <<"err", "arity">> for a *)
(* wrong number of arguments, <<"err", "unknownFn">> for an unknown name.  *)
(*                                                                         *)
(* The constructors are acceptors over code-point sequences written from   *)
(* the documented string forms; every operation is defined on the          *)
(* represented value (i64 arithmetic through Int64, TLC ints are 32-bit).  *)
(* Names local to this module carry the prefix X.                          *)
(***************************************************************************)
EXTENDS Integers, Sequences, Int64, CedarStrings

ExtOk(v) == <<"ok", v>>
ExtErr == <<"err", "ext">>
ExtTypeErr == <<"err", "type">>
ExtArityErr == <<"err", "arity">>

IsStrV(v) == v[1] = "str"
IsExtOf(v, ty) == v[1] = "ext" /\ v[2] = ty

\* <, <= are overloaded for datetime and duration only
ExtComparable(v) == v[2] \in {"datetime", "duration"}
ExtLt(a, b) == Lt(a[3], b[3])
ExtLe(a, b) == Le(a[3], b[3])

XDecV(x) == <<"ext", "decimal", x>>
XDtV(x) == <<"ext", "datetime", x>>
XDurV(x) == <<"ext", "duration", x>>
XIpV(ver, addr, pre) == <<"ext", "ipaddr", ver, addr, pre>>
XBoolV(b) == <<"bool", b>>
XLongV(x) == <<"long", x>>

----------------------------------------------------------------------------
\* numbers written in ASCII digits

XBad == 0 - 1

\* drop the leading zeros of a digit sequence (may leave the empty sequence = 0)
RECURSIVE XFirstNonZero(_, _)
XFirstNonZero(ds, i) == IF i > Len(ds) THEN i ELSE IF ds[i] = 0 THEN XFirstNonZero(ds, i + 1) ELSE i
XStripZ(ds) == Slice(ds, XFirstNonZero(ds, 1), Len(ds))

RECURSIVE XAccDigits(_, _, _, _, _)
XAccDigits(ds, i, hi, base, acc) == IF i > hi THEN acc ELSE XAccDigits(ds, i + 1, hi, base, acc * base + ds[i])

\* magnitude (little-endian base-10^4 limbs, any length) of a digit sequence
XLimbsOf(ds) ==
  LET n == Len(ds)
      nl == (n + 3) \div 4
  IN IF n = 0 THEN <<0>>
     ELSE [j \in 1..nl |->
             LET hi == n - 4 * (j - 1)
                 lo == IF hi - 3 < 1 THEN 1 ELSE hi - 3
             IN XAccDigits(ds, lo, hi, 10, 0)]

\* a natural number in ASCII digits: <<"ok", magnitude>>, or <<"big">> when it has more
\* than 20 significant digits (then it certainly exceeds 2^64)
XNat(cps) == LET ds == XStripZ(Digits(cps))
             IN IF Len(ds) > 20 THEN <<"big">> ELSE <<"ok", XLimbsOf(ds)>>

\* value of a short ASCII digit string (at most 9 digits) as a TLC integer
XSmallDec(cps) == XAccDigits(Digits(cps), 1, Len(cps), 10, 0)
XDig2(s, i) == (s[i] - 48) * 10 + (s[i + 1] - 48)
XDigitsAt(s, idxs) == \A i \in idxs : IsDigit(s[i])

\* canonical printing
RECURSIVE XDigitsOfNat(_)
XDigitsOfNat(n) == IF n < 10 THEN <<n>> ELSE XDigitsOfNat(n \div 10) \o <<n % 10>>
XPad4(n) == <<n \div 1000, (n \div 100) % 10, (n \div 10) % 10, n % 10>>
XPad(n, w) == LET ds == XDigitsOfNat(n) IN [i \in 1..(w - Len(ds)) |-> 0] \o ds
RECURSIVE XTopLimb(_, _)
XTopLimb(m, i) == IF i = 1 THEN 1 ELSE IF m[i] # 0 THEN i ELSE XTopLimb(m, i - 1)
RECURSIVE XLowLimbs(_, _)
XLowLimbs(m, i) == IF i = 0 THEN <<>> ELSE XPad4(m[i]) \o XLowLimbs(m, i - 1)
XDigitsOfM(m) == LET t == XTopLimb(m, Len(m)) IN XDigitsOfNat(m[t]) \o XLowLimbs(m, t - 1)
XCps(ds) == [i \in 1..Len(ds) |-> ds[i] + 48]
XPrintI64(x) == (IF x[1] THEN <<45>> ELSE <<>>) \o XCps(XDigitsOfM(x[2]))

----------------------------------------------------------------------------
\* decimal:  -?d+.d{1,4}   value*10^4 within i64
ParseDecimal(s) ==
  LET neg == Len(s) > 0 /\ s[1] = 45
      body == IF neg THEN Slice(s, 2, Len(s)) ELSE s
      dot == IndexOf(body, 46)
      ipart == Slice(body, 1, dot - 1)
      fpart == Slice(body, dot + 1, Len(body))
  IN IF dot = 0 \/ Len(ipart) = 0 \/ Len(fpart) = 0 \/ ~AllDigits(ipart) \/ ~AllDigits(fpart) THEN ExtErr
     ELSE IF Len(fpart) > 4 THEN ExtErr
     ELSE LET iz == XStripZ(Digits(ipart))
          IN IF Len(iz) > 15 THEN ExtErr            \* |value| >= 10^15 > 922337203685477.5808
             ELSE LET pad == [i \in 1..(4 - Len(fpart)) |-> 0]
                      r == Mk(neg, XLimbsOf(iz \o Digits(fpart) \o pad))
                  IN IF r[1] = "ok" THEN ExtOk(XDecV(r[2])) ELSE ExtErr

\* canonical spelling: optional -, integer part, ".", exactly four fraction digits
XPrintDecimal(x) ==
  LET ds == XDigitsOfM(x[2])
      pd == IF Len(ds) < 5 THEN [i \in 1..(5 - Len(ds)) |-> 0] \o ds ELSE ds
      n == Len(pd)
  IN (IF x[1] THEN <<45>> ELSE <<>>) \o XCps(Slice(pd, 1, n - 4)) \o <<46>> \o XCps(Slice(pd, n - 3, n))

DecimalCmp(fn, a, b) ==
  IF ~(IsExtOf(a, "decimal") /\ IsExtOf(b, "decimal")) THEN ExtTypeErr
  ELSE ExtOk(<<"bool", CASE fn = "lessThan" -> Lt(a[3], b[3])
                         [] fn = "lessThanOrEqual" -> Le(a[3], b[3])
                         [] fn = "greaterThan" -> Lt(b[3], a[3])
                         [] fn = "greaterThanOrEqual" -> Le(b[3], a[3])>>)

----------------------------------------------------------------------------
\* ipaddr.  IPv4: four decimal octets 0..255 without leading zeros, separated by ".".
\* IPv6: eight groups of 1..4 hex digits separated by ":", where one run of one or more zero
\* groups may be written "::"; no embedded dotted quad.  Optional "/p": decimal without leading
\* zeros, p <= 32 (IPv4) or 128 (IPv6).
XIsHex(ch) == IsDigit(ch) \/ (ch >= 97 /\ ch <= 102) \/ (ch >= 65 /\ ch <= 70)
XHexVal(ch) == IF IsDigit(ch) THEN ch - 48 ELSE IF ch >= 97 THEN ch - 87 ELSE ch - 55
XNoLeadingZero(t) == Len(t) = 1 \/ t[1] # 48

XDecOctet(t) ==
  IF Len(t) < 1 \/ Len(t) > 3 \/ ~AllDigits(t) \/ ~XNoLeadingZero(t) THEN XBad
  ELSE IF XSmallDec(t) > 255 THEN XBad ELSE XSmallDec(t)

XHexGroup(t) ==
  IF Len(t) < 1 \/ Len(t) > 4 \/ (\E i \in 1..Len(t) : ~XIsHex(t[i])) THEN XBad
  ELSE XAccDigits([i \in 1..Len(t) |-> XHexVal(t[i])], 1, Len(t), 16, 0)

XParseV4(t) ==
  LET ps == Split(t, 46)
  IN IF Len(ps) # 4 THEN <<"bad">>
     ELSE LET os == [i \in 1..4 |-> XDecOctet(ps[i])]
          IN IF \E i \in 1..4 : os[i] < 0 THEN <<"bad">> ELSE <<"ok", 4, os>>

XColonGroups(t) == IF Len(t) = 0 THEN <<>> ELSE Split(t, 58)
XParseV6(t) ==
  LET dcs == {i \in 1..(Len(t) - 1) : t[i] = 58 /\ t[i + 1] = 58}
      Chk(vs) == IF \E i \in 1..8 : vs[i] < 0 THEN <<"bad">> ELSE <<"ok", 6, vs>>
  IN IF \E i \in dcs, j \in dcs : i # j THEN <<"bad">>          \* "::" at most once (":::" counts twice)
     ELSE IF dcs = {}
          THEN LET gs == Split(t, 58)
               IN IF Len(gs) # 8 THEN <<"bad">> ELSE Chk([i \in 1..8 |-> XHexGroup(gs[i])])
     ELSE LET k == CHOOSE i \in dcs : TRUE
              hg == XColonGroups(Slice(t, 1, k - 1))
              tg == XColonGroups(Slice(t, k + 2, Len(t)))
          IN IF Len(hg) + Len(tg) > 7 THEN <<"bad">>            \* "::" stands for at least one group
             ELSE Chk([i \in 1..Len(hg) |-> XHexGroup(hg[i])]
                      \o [i \in 1..(8 - Len(hg) - Len(tg)) |-> 0]
                      \o [i \in 1..Len(tg) |-> XHexGroup(tg[i])])

XParseAddr(t) ==
  LET dots == IndexOf(t, 46) # 0
      colons == IndexOf(t, 58) # 0
  IN IF dots /\ ~colons THEN XParseV4(t)
     ELSE IF colons /\ ~dots THEN XParseV6(t)
     ELSE <<"bad">>                                            \* neither, or IPv4-in-IPv6

XParsePrefix(t, maxp) ==
  IF Len(t) < 1 \/ Len(t) > 3 \/ ~AllDigits(t) \/ ~XNoLeadingZero(t) THEN XBad
  ELSE IF XSmallDec(t) > maxp THEN XBad ELSE XSmallDec(t)

XMaxPrefix(ver) == IF ver = 4 THEN 32 ELSE 128

XParseIp(s) ==
  LET slash == IndexOf(s, 47)
      a == XParseAddr(IF slash = 0 THEN s ELSE Slice(s, 1, slash - 1))
  IN IF a[1] # "ok" THEN ExtErr
     ELSE IF slash = 0 THEN ExtOk(XIpV(a[2], a[3], XMaxPrefix(a[2])))
     ELSE LET pre == XParsePrefix(Slice(s, slash + 1, Len(s)), XMaxPrefix(a[2]))
          IN IF pre < 0 THEN ExtErr ELSE ExtOk(XIpV(a[2], a[3], pre))

\* canonical spelling: all octets / all eight groups in lower-case hex, explicit prefix
XHexDigitCp(d) == IF d < 10 THEN d + 48 ELSE d + 87
RECURSIVE XHexOf(_)
XHexOf(n) == IF n < 16 THEN <<XHexDigitCp(n)>> ELSE XHexOf(n \div 16) \o <<XHexDigitCp(n % 16)>>
RECURSIVE XJoin(_, _, _)
XJoin(parts, sep, i) == IF i > Len(parts) THEN <<>>
                        ELSE (IF i > 1 THEN <<sep>> ELSE <<>>) \o parts[i] \o XJoin(parts, sep, i + 1)
XPrintIp(v) ==
  (IF v[3] = 4 THEN XJoin([i \in 1..4 |-> XCps(XDigitsOfNat(v[4][i]))], 46, 1)
   ELSE XJoin([i \in 1..8 |-> XHexOf(v[4][i])], 58, 1))
  \o <<47>> \o XCps(XDigitsOfNat(v[5]))

\* An ipaddr value denotes the set of addresses sharing its first `prefix` bits.
\* x is in range y iff that set is contained in y's: same family, y's prefix is not longer,
\* and the two addresses agree on y's prefix bits.
RECURSIVE XPow2(_)
XPow2(k) == IF k = 0 THEN 1 ELSE 2 * XPow2(k - 1)
XGroupBits(ver) == IF ver = 4 THEN 8 ELSE 16
XSamePrefixBits(a, b, n, w) ==
  LET full == n \div w
      part == n % w
  IN /\ \A i \in 1..full : a[i] = b[i]
     /\ \/ part = 0
        \/ (a[full + 1] \div XPow2(w - part)) = (b[full + 1] \div XPow2(w - part))
XIpInRange(x, y) == /\ x[3] = y[3]
                    /\ y[5] <= x[5]
                    /\ XSamePrefixBits(x[4], y[4], y[5], XGroupBits(x[3]))

XLoopback4 == XIpV(4, <<127, 0, 0, 0>>, 8)                     \* 127.0.0.0/8
XLoopback6 == XIpV(6, <<0, 0, 0, 0, 0, 0, 0, 1>>, 128)         \* ::1/128
XMulticast4 == XIpV(4, <<224, 0, 0, 0>>, 4)                    \* 224.0.0.0/4
XMulticast6 == XIpV(6, <<65280, 0, 0, 0, 0, 0, 0, 0>>, 8)      \* ff00::/8
XIsLoopback(x) == XIpInRange(x, IF x[3] = 4 THEN XLoopback4 ELSE XLoopback6)
XIsMulticast(x) == XIpInRange(x, IF x[3] = 4 THEN XMulticast4 ELSE XMulticast6)

----------------------------------------------------------------------------
\* datetime:  YYYY-MM-DD | YYYY-MM-DDThh:mm:ss(.SSS)?(Z|(+|-)hhmm)
\* proleptic Gregorian calendar, years 0000..9999, hh < 24, mm < 60, ss < 60,
\* offset hh < 24 and mm < 60; the value is the UTC instant (offset subtracted).
XDayMs == 86400000
XIsLeap(y) == (y % 4 = 0 /\ y % 100 # 0) \/ y % 400 = 0
XDaysInMonth(y, mo) ==
  CASE mo \in {1, 3, 5, 7, 8, 10, 12} -> 31
    [] mo \in {4, 6, 9, 11} -> 30
    [] mo = 2 -> (IF XIsLeap(y) THEN 29 ELSE 28)
    [] OTHER -> 0
RECURSIVE XDaysBeforeMonth(_, _)
XDaysBeforeMonth(y, mo) == IF mo <= 1 THEN 0 ELSE XDaysInMonth(y, mo - 1) + XDaysBeforeMonth(y, mo - 1)
\* number of leap years among 0 .. y-1
XLeapsBefore(y) == IF y = 0 THEN 0 ELSE 1 + (y - 1) \div 4 - (y - 1) \div 100 + (y - 1) \div 400
\* days from 1970-01-01 to y-mo-d (719528 = days from 0000-01-01 to 1970-01-01)
XDayNumber(y, mo, d) == 365 * y + XLeapsBefore(y) + XDaysBeforeMonth(y, mo) + (d - 1) - 719528

\* days * 86400000 + ms (|days| < 4*10^6, |ms| < 2^31) as an i64
XInstant(days, ms) == Add(Mul(OfInt(days), OfInt(XDayMs))[2], OfInt(ms))[2]

XParseDatetime(s) ==
  IF Len(s) < 10 THEN ExtErr
  ELSE IF ~XDigitsAt(s, {1, 2, 3, 4, 6, 7, 9, 10}) \/ s[5] # 45 \/ s[8] # 45 THEN ExtErr
  ELSE
    LET y == XDig2(s, 1) * 100 + XDig2(s, 3)
        mo == XDig2(s, 6)
        d == XDig2(s, 9)
        dateOk == mo >= 1 /\ mo <= 12 /\ d >= 1 /\ d <= XDaysInMonth(y, mo)
        days == XDayNumber(y, mo, d)
    IN IF Len(s) = 10 THEN (IF dateOk THEN ExtOk(XDtV(XInstant(days, 0))) ELSE ExtErr)
       ELSE IF Len(s) < 20 THEN ExtErr
       ELSE IF s[11] # 84 \/ ~XDigitsAt(s, {12, 13, 15, 16, 18, 19}) \/ s[14] # 58 \/ s[17] # 58 THEN ExtErr
       ELSE
         LET h == XDig2(s, 12)
             mi == XDig2(s, 15)
             sec == XDig2(s, 18)
             hasMs == s[20] = 46
             msOk == ~hasMs \/ (Len(s) >= 23 /\ XDigitsAt(s, {21, 22, 23}))
             ms == IF hasMs THEN (s[21] - 48) * 100 + XDig2(s, 22) ELSE 0
             zone == Slice(s, IF hasMs THEN 24 ELSE 20, Len(s))
             isZ == zone = <<90>>
             zoneOk == isZ \/ (/\ Len(zone) = 5 /\ zone[1] \in {43, 45} /\ XDigitsAt(zone, {2, 3, 4, 5})
                               /\ XDig2(zone, 2) < 24 /\ XDig2(zone, 4) < 60)
             offMin == IF isZ THEN 0
                       ELSE (IF zone[1] = 43 THEN 1 ELSE 0 - 1) * (XDig2(zone, 2) * 60 + XDig2(zone, 4))
             tod == (h * 3600 + mi * 60 + sec) * 1000 + ms
         IN IF ~msOk THEN ExtErr
            ELSE IF ~zoneOk \/ ~dateOk \/ h >= 24 \/ mi >= 60 \/ sec >= 60 THEN ExtErr
            ELSE ExtOk(XDtV(XInstant(days, tod - offMin * 60000)))

\* floor(x / 86400000) as an i64, and the non-negative remainder as a TLC integer
XDayIndex(x) == DivFloor(DivFloor(x, 1000), 86400)
XTimeOfDay(x) == ModFloor(DivFloor(x, 1000), 86400) * 1000 + ModFloor(x, 1000)

\* canonical spelling of an instant whose UTC year is within 0000..9999 (else <<>>):
\* YYYY-MM-DDThh:mm:ss.SSSZ, by the civil-from-days algorithm (independent of XDayNumber)
XMinDay == 0 - 719528          \* 0000-01-01
XMaxDay == 2932896             \* 9999-12-31
XCivil(z0) ==
  LET z == z0 + 719468
      era == z \div 146097
      doe == z - era * 146097
      yoe == (doe - doe \div 1460 + doe \div 36524 - doe \div 146096) \div 365
      doy == doe - (365 * yoe + yoe \div 4 - yoe \div 100)
      mp == (5 * doy + 2) \div 153
      d == doy - (153 * mp + 2) \div 5 + 1
      mo == IF mp < 10 THEN mp + 3 ELSE mp - 9
      y == yoe + era * 400 + (IF mo <= 2 THEN 1 ELSE 0)
  IN <<y, mo, d>>
XDtPrintable(x) == LET di == XDayIndex(x)
                   IN IsSmall(di) /\ ToInt(di) >= XMinDay /\ ToInt(di) <= XMaxDay
XPrintDatetime(x) ==
  LET ymd == XCivil(ToInt(XDayIndex(x)))
      tod == XTimeOfDay(x)
  IN XCps(XPad(ymd[1], 4)) \o <<45>> \o XCps(XPad(ymd[2], 2)) \o <<45>> \o XCps(XPad(ymd[3], 2))
     \o <<84>> \o XCps(XPad(tod \div 3600000, 2)) \o <<58>> \o XCps(XPad((tod \div 60000) % 60, 2))
     \o <<58>> \o XCps(XPad((tod \div 1000) % 60, 2)) \o <<46>> \o XCps(XPad(tod % 1000, 3)) \o <<90>>

----------------------------------------------------------------------------
\* duration:  -?(Nd)?(Nh)?(Nm)?(Ns)?(Nms)?   at least one unit, units in this order, each
\* at most once, N a natural number in decimal digits; the value is the exact sum in
\* milliseconds and must fit an i64.
XUnitMs(rank) == CASE rank = 1 -> 86400000 [] rank = 2 -> 3600000 [] rank = 3 -> 60000
                   [] rank = 4 -> 1000 [] rank = 5 -> 1
RECURSIVE XFirstNonDigit(_, _)
XFirstNonDigit(t, i) == IF i > Len(t) THEN i ELSE IF IsDigit(t[i]) THEN XFirstNonDigit(t, i + 1) ELSE i

\* <<"ok", magnitude>> | <<"bad">> (not in the grammar) | <<"big">> (a quantity beyond 20 digits)
RECURSIVE XDurFrom(_, _, _, _)
XDurFrom(t, i, minRank, acc) ==
  IF i > Len(t) THEN <<"ok", acc>>
  ELSE LET j == XFirstNonDigit(t, i)
       IN IF j = i \/ j > Len(t) THEN <<"bad">>                 \* unit without quantity / quantity without unit
          ELSE LET isMs == t[j] = 109 /\ j < Len(t) /\ t[j + 1] = 115
                   rank == CASE t[j] = 100 -> 1
                             [] t[j] = 104 -> 2
                             [] t[j] = 109 -> (IF isMs THEN 5 ELSE 3)
                             [] t[j] = 115 -> 4
                             [] OTHER -> 0
               IN IF rank = 0 \/ rank < minRank THEN <<"bad">>
                  ELSE LET q == XNat(Slice(t, i, j - 1))
                           acc2 == IF q[1] = "ok" THEN AddM(acc, MulM(q[2], NatLimbs(XUnitMs(rank)))) ELSE acc
                           rest == XDurFrom(t, IF isMs THEN j + 2 ELSE j + 1, rank + 1, acc2)
                       IN IF rest[1] = "bad" THEN rest
                          ELSE IF q[1] = "big" THEN <<"big">> ELSE rest

XParseDuration(s) ==
  LET neg == Len(s) > 0 /\ s[1] = 45
      body == IF neg THEN Slice(s, 2, Len(s)) ELSE s
  IN IF Len(body) = 0 THEN ExtErr
     ELSE LET r == XDurFrom(body, 1, 1, <<0>>)
          IN IF r[1] # "ok" THEN ExtErr
             ELSE LET v == Mk(neg, r[2])
                  IN IF v[1] = "ok" THEN ExtOk(XDurV(v[2])) ELSE ExtErr

XPrintDuration(x) == XPrintI64(x) \o <<109, 115>>

\* conversions truncate toward zero
XDurTo(fn, x) ==
  CASE fn = "toMilliseconds" -> x
    [] fn = "toSeconds" -> DivTrunc(x, 1000)
    [] fn = "toMinutes" -> DivTrunc(DivTrunc(x, 1000), 60)
    [] fn = "toHours" -> DivTrunc(DivTrunc(x, 1000), 3600)
    [] fn = "toDays" -> DivTrunc(DivTrunc(x, 1000), 86400)

\* toDate: the instant of 00:00:00 UTC of the same day = floor to a multiple of a day
\* (an error when that instant is below the i64 range); toTime: the non-negative rest.
XToDate(x) == LET r == Mul(XDayIndex(x), OfInt(XDayMs))
              IN IF r[1] = "ok" THEN ExtOk(XDtV(r[2])) ELSE ExtErr
XToTime(x) == ExtOk(XDurV(OfInt(XTimeOfDay(x))))

----------------------------------------------------------------------------
XCtors == {"decimal", "ip", "datetime", "duration"}
XDecCmps == {"lessThan", "lessThanOrEqual", "greaterThan", "greaterThanOrEqual"}
XIpTests == {"isIpv4", "isIpv6", "isLoopback", "isMulticast"}
XDurConvs == {"toMilliseconds", "toSeconds", "toMinutes", "toHours", "toDays"}
XArity(fn) == IF fn \in XCtors \cup XIpTests \cup XDurConvs \cup {"toDate", "toTime"} THEN 1 ELSE 2
XKnownFns == XCtors \cup XDecCmps \cup XIpTests \cup XDurConvs
             \cup {"isInRange", "offset", "durationSince", "toDate", "toTime"}

XChecked(r, mk(_)) == IF r[1] = "ok" THEN ExtOk(mk(r[2])) ELSE ExtErr

ExtCall(fn, args) ==
  IF fn \notin XKnownFns THEN <<"err", "unknownFn">>
  ELSE IF Len(args) # XArity(fn) THEN ExtArityErr
  ELSE
    CASE fn \in XCtors ->
           IF ~IsStrV(args[1]) THEN ExtTypeErr
           ELSE (CASE fn = "decimal" -> ParseDecimal(args[1][2])
                   [] fn = "ip" -> XParseIp(args[1][2])
                   [] fn = "datetime" -> XParseDatetime(args[1][2])
                   [] fn = "duration" -> XParseDuration(args[1][2]))
      [] fn \in XDecCmps -> DecimalCmp(fn, args[1], args[2])
      [] fn \in XIpTests ->
           IF ~IsExtOf(args[1], "ipaddr") THEN ExtTypeErr
           ELSE ExtOk(XBoolV(CASE fn = "isIpv4" -> args[1][3] = 4
                               [] fn = "isIpv6" -> args[1][3] = 6
                               [] fn = "isLoopback" -> XIsLoopback(args[1])
                               [] fn = "isMulticast" -> XIsMulticast(args[1])))
      [] fn = "isInRange" ->
           IF ~(IsExtOf(args[1], "ipaddr") /\ IsExtOf(args[2], "ipaddr")) THEN ExtTypeErr
           ELSE ExtOk(XBoolV(XIpInRange(args[1], args[2])))
      [] fn = "offset" ->
           IF ~(IsExtOf(args[1], "datetime") /\ IsExtOf(args[2], "duration")) THEN ExtTypeErr
           ELSE XChecked(Add(args[1][3], args[2][3]), XDtV)
      [] fn = "durationSince" ->
           IF ~(IsExtOf(args[1], "datetime") /\ IsExtOf(args[2], "datetime")) THEN ExtTypeErr
           ELSE XChecked(Sub(args[1][3], args[2][3]), XDurV)
      [] fn = "toDate" -> IF ~IsExtOf(args[1], "datetime") THEN ExtTypeErr ELSE XToDate(args[1][3])
      [] fn = "toTime" -> IF ~IsExtOf(args[1], "datetime") THEN ExtTypeErr ELSE XToTime(args[1][3])
      [] fn \in XDurConvs ->
           IF ~IsExtOf(args[1], "duration") THEN ExtTypeErr ELSE ExtOk(XLongV(XDurTo(fn, args[1][3])))
=============================================================================
