//! family "symcc" (C18): symbolic compilation against the LITERAL symbolic
//! environment of a concrete request + store.  Records, for every policy and
//! policy set, the verification conditions (which must have reduced to
//! constants) of never-errors / always-matches / never-matches and of the
//! policy-set queries.

use crate::abs::*;
use crate::fam_authz::add_policy;
use crate::fam_tpe::{do_setup, TSETUP};
use cedar_policy::{PolicyId, PolicySet, RequestEnv};
use cedar_policy_symcc as sym;
use serde_json::{json, Map, Value as J};

fn asserts_wire(a: &sym::Asserts) -> J {
    J::Array(
        a.iter()
            .map(|t| match t {
                sym::term::Term::Prim(sym::term::TermPrim::Bool(b)) => json!(if *b { "true" } else { "false" }),
                other => json!(format!("nonconst:{:.120}", format!("{other:?}"))),
            })
            .collect(),
    )
}

fn pset_of(pols: &J) -> R<PolicySet> {
    let mut ps = PolicySet::new();
    for p in pols.as_array().ok_or("pols")? {
        add_policy(&mut ps, p, p["id"].as_str().ok_or("id")?, 0)?;
    }
    Ok(ps)
}

pub fn run(case: &J) -> R<J> {
    if let Some(s) = case.get("setup") {
        return do_setup(s);
    }
    TSETUP.with(|cell| {
        let b = cell.borrow();
        let setup = b.as_ref().ok_or("no setup")?;
        let schema = &setup.schema;
        let ps1 = pset_of(&case["pols"])?;
        let ps2 = pset_of(&case["pols2"])?;
        let mut envs = vec![];
        for params in case["envs"].as_array().ok_or("envs")? {
            let (w, req, ents) = setup.envs.get(&params.to_string()).ok_or("env not in universe")?;
            let pu = uid_from_wire(&w["req"]["principal"])?;
            let ru = uid_from_wire(&w["req"]["resource"])?;
            let req_env = RequestEnv::new(
                pu.entity_type().clone().into(),
                uid_from_wire(&w["req"]["action"])?.into(),
                ru.entity_type().clone().into(),
            );
            let cenv = sym::Env { request: req.clone(), entities: ents.clone() };
            let symenv = match sym::SymEnv::from_concrete_env(&req_env, schema, &cenv) {
                Ok(s) => s,
                Err(e) => {
                    envs.push(json!({"params": params, "symbolizeError": e.to_string()}));
                    continue;
                }
            };
            let mut per_policy = Map::new();
            let mut o = json!({"params": params});
            for p in ps1.policies() {
                match sym::CompiledPolicy::compile_with_custom_symenv(p, &req_env, schema, symenv.clone()) {
                    Ok(cp) => {
                        per_policy.insert(
                            p.id().to_string(),
                            json!({
                                "neverErrors": asserts_wire(sym::never_errors_asserts(&cp).asserts()),
                                "alwaysMatches": asserts_wire(sym::always_matches_asserts(&cp).asserts()),
                                "neverMatches": asserts_wire(sym::never_matches_asserts(&cp).asserts()),
                            }),
                        );
                    }
                    Err(e) => {
                        per_policy.insert(p.id().to_string(), json!({"compileError": e.to_string()}));
                    }
                }
            }
            o["policies"] = J::Object(per_policy);
            match (
                sym::CompiledPolicySet::compile_with_custom_symenv(&ps1, &req_env, schema, symenv.clone()),
                sym::CompiledPolicySet::compile_with_custom_symenv(&ps2, &req_env, schema, symenv.clone()),
            ) {
                (Ok(c1), Ok(c2)) => {
                    o["sets"] = json!({
                        "alwaysAllows": asserts_wire(sym::always_allows_asserts(&c1).asserts()),
                        "alwaysDenies": asserts_wire(sym::always_denies_asserts(&c1).asserts()),
                        "implies": asserts_wire(sym::implies_asserts(&c1, &c2).asserts()),
                        "equivalent": asserts_wire(sym::equivalent_asserts(&c1, &c2).asserts()),
                        "disjoint": asserts_wire(sym::disjoint_asserts(&c1, &c2).asserts()),
                    });
                }
                (a, b2) => {
                    o["setCompileError"] = json!([a.err().map(|e| e.to_string()), b2.err().map(|e| e.to_string())]);
                }
            }
            envs.push(o);
        }
        let _ = PolicyId::new("x");
        let mut out = json!({"ev": "Symcc", "pols": with_record_keys(&case["pols"]), "pols2": with_record_keys(&case["pols2"]), "envs": envs});
        if let Some(id) = case.get("id") {
            out["id"] = id.clone();
        }
        Ok(out)
    })
}

pub fn drive(_seed: u64, _n: usize) -> Vec<J> {
    vec![]
}
