"""Per-property family descriptions."""
import json
import os
import vlib


def _world_case(extra_keys):
    def f(world, c, i):
        case = dict(id=i, world="W", req=world["req"], store=world["store"])
        for k in extra_keys:
            case[k] = c[k]
        return case
    return f


def _flip_result(r):
    if r == ["ok", ["bool", True]]:
        return ["ok", ["bool", False]]
    return ["ok", ["bool", True]]


def _mutate_eval(ev):
    if ev.get("ev") != "Eval":
        return None
    ev = dict(ev)
    ev["ast"] = _flip_result(ev["ast"])
    return ev


def _mutate_authz(ev):
    if ev.get("ev") != "Authz" or not ev.get("responses"):
        return None
    ev = json.loads(json.dumps(ev))
    r = ev["responses"][0]["resp"]
    r["decision"] = "Deny" if r["decision"] == "Allow" else "Allow"
    return ev


def _eval_nontrivial(ev):
    e = ev.get("expr")
    return ev.get("ev") == "Eval" and isinstance(e, list) and e and e[0] not in ("lit", "var")


C02 = dict(
    family="eval", trace_module="Trace_Eval.tla",
    models=[dict(name="mc_eval", module="MC_Eval.tla", cfg=dict(quick="MC_Eval_quick.cfg", thorough="MC_Eval_thorough.cfg"),
                 cases=_world_case(["expr"]))],
    drive_n=dict(quick=6000, thorough=150000),
    nontrivial=_eval_nontrivial, key=lambda ev: [ev.get("expr"), ev.get("req"), ev.get("store")],
    mutate=_mutate_eval,
    rule="G: every expression of MC_Eval's operator families over World's leaf pools (TLC-enumerated, complete for the pools); "
         "T: seeded random expressions/worlds from the harness generator. Each case is evaluated through 5 arrival paths "
         "(builder AST, Cedar text, JSON policy format, when-clause, unless-clause) and every result is recomputed by "
         "CedarExpr!Eval in TLC. non-trivial = expression is not a bare literal/variable; distinct by (expr, request, store).",
    exhaustive=dict(quick=False, thorough=False),
    assumptions=["harness build/project walkers and text/EST renderers (harness/conform/src/{abs,render}.rs) are faithful",
                 "TLC evaluates the TLA+ reference semantics correctly",
                 "record-literal key order (byte order) is supplied by the harness/generator, not derived in TLA+"],
)

C01 = dict(
    family="authz", trace_module="Trace_Authz.tla",
    models=[dict(name="mc_authz", module="MC_Authz.tla", cfg=dict(quick="MC_Authz_3.cfg", thorough="MC_Authz_4.cfg"),
                 cases=_world_case(["pols"]))],
    drive_n=dict(quick=1500, thorough=30000),
    nontrivial=lambda ev: ev.get("ev") == "Authz" and len(ev.get("pols", [])) >= 1,
    key=lambda ev: [ev.get("pols"), ev.get("req"), ev.get("store")],
    mutate=_mutate_authz, chunk=2000,
    rule="G: every multiset of <= N policies over 16 bodies x 2 effects (sat/unsat/err realised by constants, scopes, "
         "request-dependent conditions of each error class, template links), complete for N; T: random policy sets/worlds. "
         "Each case is authorised under all insertion orders (n<=4), 3 id spellings, text/JSON arrival, concatenated text, "
         "reversed entity order and 0-2 preceding calls; every distinct response must equal CedarAuthz!Authorize. "
         "non-trivial = at least one policy; distinct by (policies, request, store).",
    exhaustive=dict(quick=False, thorough=False),
    assumptions=["harness renderers and projections are faithful", "TLC evaluates the TLA+ reference semantics correctly"],
)

FAMILIES = {"C01": C01, "C02": C02}


# ----------------------------------------------------------------- C04
def _store_case(world, c, i):
    pre = [[r[0], r[1], r[2]] for r in c["pre"]]
    return dict(id=i, nu=3, hist=[["from", pre], [c["op"], c["arg"]]])


def _mutate_store(ev):
    if ev.get("ev") != "EsOp" or ev["res"][0] != "ok" or not ev.get("post"):
        return None
    ev = json.loads(json.dumps(ev))
    row = ev["post"][0]
    # drop one ancestor, or invent one
    if row[3]:
        row[3] = row[3][1:]
    else:
        row[3] = [row[0] % 3 + 1]
    return ev


C04 = dict(
    family="store", trace_module="Trace_EntityStore.tla",
    models=[dict(name="mc_store", module="MC_EntityStore.tla", cfg=dict(quick="MC_EntityStore_3.cfg", thorough="MC_EntityStore_3.cfg"),
                 cases=_store_case, limit=dict(quick=9000, thorough=None)),
            # the implementation's incremental repair of the stored closure refines EntityStore (all hash iteration orders)
            dict(name="mc_repair", module="MC_EntityStoreRepair.tla", cfg=dict(quick="MC_EntityStoreRepair_4.cfg", thorough="MC_EntityStoreRepair_3.cfg"), workers=8),
            dict(name="mc_repair4", module="MC_EntityStoreRepair.tla", cfg=dict(quick=None, thorough="MC_EntityStoreRepair_4all.cfg"), workers=8)],
    drive_n=dict(quick=1200, thorough=40000),
    nontrivial=lambda ev: ev.get("ev") == "EsOp",
    key=lambda ev: [ev.get("pre"), ev.get("op"), ev.get("arg")],
    mutate=_mutate_store, chunk=1500,
    rule="G: every (reachable store over 3 uids, operation, argument) transition of EntityStore.tla with single-entry batches and all "
         "remove subsets (TLC-enumerated; quick replays a seeded sample of 9000, thorough all), pre-state built with from_entities; "
         "T: random histories of 2-9 from/add/upsert/remove/fromEnforce steps over 3-8 uids with batches of 1-4 (duplicates, dangling "
         "parents, cycles, diamonds). After every step: direct parents, ancestors() listing, is_ancestor_of for all pairs, `b in a` "
         "for all pairs through the evaluator and through a policy scope via the authorizer. distinct by (pre-state, op, argument).",
    assumptions=["harness projection of Entities (parents(), ancestors(), attribute v) is faithful",
                 "duplicate detection modelled as implemented (cedar's deep_eq on closed ancestor sets); the property does not constrain it"],
)
FAMILIES["C04"] = C04


def _store4_cases(per_state):
    import random

    def f(world, c, i):
        rnd = random.Random(1000003 * vseed() + i)
        pre = [[r[0], r[1], r[2]] for r in c["pre"]]
        out = []
        for k in range(per_state[0]):
            if rnd.random() < 0.5:
                arg = [u for u in range(1, 5) if rnd.random() < 0.4] or [rnd.randint(1, 4)]
                op = ["remove", arg]
            else:
                par = [u for u in range(1, 5) if rnd.random() < 0.3]
                op = [rnd.choice(["upsert", "upsert", "add"]), [[rnd.randint(1, 4), par, rnd.randint(0, 1)]]]
            out.append(dict(id="%d.%d" % (i, k), nu=4, hist=[["from", pre], op]))
        return out
    return f


def vseed():
    import vlib
    return vlib.seed()


_ps = [1]
C04["models"].append(dict(name="mc_store4", module="MC_EntityStore.tla",
                          cfg=dict(quick="MC_EntityStore_4.cfg", thorough="MC_EntityStore_4.cfg"),
                          cases=_store4_cases(_ps), limit=dict(quick=6000, thorough=None)))
C04["models"][0]["limit"] = dict(quick=6000, thorough=None)
C04["per_state"] = _ps
C04["rule"] += (" Second model: all 16305 reachable stores over 4 uids (TLC-enumerated); for each, seeded random remove-subset / single upsert / single add "
                "operations are applied by the harness (quick: 6000 sampled (state, op) pairs; thorough: 8 ops for every state).")


# ----------------------------------------------------------------- C08
# ids are opaque to the specification; a third of the cases run with ids that need escaping when printed
_PSET_SPELL = {"a": 'a"q', "b": "b\\s", "c": "c\nl", "d": "d'\t"}


def _rs_id(x):
    return _PSET_SPELL.get(x, x)


def _rs_state(s):
    out = {}
    for k in ("st", "tm"):
        out[k] = {_rs_id(i): v for i, v in s[k].items()} if isinstance(s.get(k), dict) else s.get(k, {})
    ln = s.get("ln")
    out["ln"] = {_rs_id(i): dict(v, tid=_rs_id(v["tid"])) for i, v in ln.items()} if isinstance(ln, dict) else (ln or {})
    return out


def _rs_op(op):
    name = op[0]
    if name == "merge":
        return [name, _rs_state(op[1])] + list(op[2:])
    if name == "link":
        return [name, _rs_id(op[1]), _rs_id(op[2])] + list(op[3:])
    return [name, _rs_id(op[1])] + list(op[2:])


def _pset_case(world, c, i):
    if i % 3 == 1:
        return dict(id=i, world=world, pre=_rs_state(c["pre"]), op=_rs_op(c["op"]))
    return dict(id=i, world=world, pre=c["pre"], op=c["op"])


def _pset_random_state(rnd, pool, world):
    """a small well-formed abstract state over `pool`"""
    st, tm, ln = {}, {}, {}
    ids = list(pool)
    rnd.shuffle(ids)
    for id_ in ids[:rnd.randint(0, len(ids))]:
        k = rnd.random()
        if k < 0.4:
            st[id_] = rnd.randint(1, 2)
        elif k < 0.75 or not tm:
            tm[id_] = rnd.randint(1, 3)
        else:
            t = rnd.choice(sorted(tm))
            ln[id_] = dict(tid=t, env=_pset_env(rnd, tm[t], exact=True))
    return dict(st=st, tm=tm, ln=ln)


_SLOTS = {1: ["principal"], 2: ["principal", "resource"], 3: ["resource"]}
_PV = [["ent", "User", "a"], ["ent", "Group", "g"]]
_RV = [["ent", "Doc", "d"], ["ent", "Group", "g"]]


def _pset_env(rnd, tbody, exact):
    slots = list(_SLOTS[tbody])
    if not exact and rnd.random() < 0.35:
        slots = rnd.choice([[], ["principal"], ["resource"], ["principal", "resource"]])
    env = {}
    for s in slots:
        env[s] = rnd.choice(_PV if s == "principal" else _RV)
    return env


def _pset_histories(fam, tier, wd, seed):
    import random, os, vlib
    world = fam.get("_world")
    if world is None:
        return []
    rnd = random.Random(seed * 7919 + 17)
    n = 700 if tier == "quick" else 20000
    pool = ["a", "b", "c", "d"]
    cases = []
    for i in range(n):
        hist = []
        tmpl = {}        # best-effort tracking only to bias towards enabled operations
        for _ in range(rnd.randint(3, 14)):
            k = rnd.random()
            if k < 0.18:
                hist.append(["add", rnd.choice(pool), rnd.randint(1, 2)])
            elif k < 0.38:
                id_, b = rnd.choice(pool), rnd.randint(1, 3)
                tmpl.setdefault(id_, b)
                hist.append(["addTemplate", id_, b])
            elif k < 0.62:
                t = rnd.choice(sorted(tmpl) if tmpl and rnd.random() < 0.8 else pool)
                hist.append(["link", t, rnd.choice(pool), _pset_env(rnd, tmpl.get(t, rnd.randint(1, 3)), exact=False)])
            elif k < 0.70:
                hist.append(["unlink", rnd.choice(pool)])
            elif k < 0.77:
                hist.append(["removeStatic", rnd.choice(pool)])
            elif k < 0.85:
                t = rnd.choice(pool)
                hist.append(["removeTemplate", t])
            else:
                hist.append(["merge", _pset_random_state(rnd, pool + ["policy0"], world), rnd.random() < 0.6])
        if i % 3 == 1:
            hist = [_rs_op(op) for op in hist]
        cases.append(dict(id="h%d" % i, world=world, hist=hist))
    cpath = os.path.join(wd, "hist.cases.ndjson")
    tpath = os.path.join(wd, "hist.trace.ndjson")
    vlib.write_ndjson(cpath, cases)
    vlib.conform("replay", "pset", cpath, tpath)
    return [(tpath, "T:histories", "Trace_PolicySet.tla")]


def _mutate_pset(ev):
    if ev.get("ev") != "PsOp":
        return None
    ev = json.loads(json.dumps(ev))
    r = ev["battery"][0]
    r["decision"] = "Deny" if r["decision"] == "Allow" else "Allow"
    return ev


C08 = dict(
    family="pset", trace_module="Trace_PolicySet.tla",
    models=[dict(name="mc_pset", module="MC_PolicySet.tla", cfg=dict(quick="MC_PolicySet_3.cfg", thorough="MC_PolicySet_3.cfg"),
                 cases=_pset_case, limit=dict(quick=7000, thorough=None))],
    extra_traces=_pset_histories,
    nontrivial=lambda ev: ev.get("ev") == "PsOp",
    key=lambda ev: [ev.get("pre", {}).get("st"), ev.get("pre", {}).get("tm"), ev.get("pre", {}).get("ln"), ev.get("op")],
    mutate=_mutate_pset, chunk=1500,
    rule="G: every (reachable policy-set state, operation) pair of PolicySetSM over ids {a,b,c} (<=3 ids bound), 2 static and 3 template bodies, "
         "9 slot environments (exact, missing, extra), merge against 6 fixed sets with and without renaming (161k pairs; quick replays a seeded "
         "sample of 7000, thorough all) with the pre-state built canonically; T: random histories of 3-14 operations over 4 ids incl. merges with "
         "random sets. After each step: public and core projections, get_linked_policies, lookups, counts, and the authorizer on 3 requests, all "
         "re-derived by TLC (links by substitution). distinct by (pre-state, operation).",
    assumptions=["bodies are identified through their @body annotation and effect; conditions are checked through the authorization battery",
                 "fresh ids chosen by merge are unconstrained beyond freshness and injectivity"],
)
FAMILIES["C08"] = C08


# ----------------------------------------------------------------- C11
def _conform_case(world, c, i):
    return dict(id=i, schema=world["schema"], kind=c["kind"], datum=c["datum"])


def _mutate_conform(ev):
    if ev.get("ev") != "Conform":
        return None
    ev = json.loads(json.dumps(ev))
    k = sorted(ev["results"])[0]
    ev["results"][k] = not ev["results"][k]
    return ev


C11 = dict(
    family="conform", trace_module="Trace_Conform.tla",
    models=[dict(name="mc_conform", module="MC_Conform.tla", cfg=dict(quick="MC_Conform.cfg", thorough="MC_Conform.cfg"),
                 cases=_conform_case, limit=dict(quick=None, thorough=None))],
    nontrivial=lambda ev: ev.get("ev") == "Conform",
    key=lambda ev: [ev.get("kind"), ev.get("datum")],
    mutate=_mutate_conform, chunk=3000,
    rule="G: all conformant entities of schema Sc1 over the optional-component product (users, docs, groups, folders, enum members, action entities) "
         "and every single-fault mutant of each (wrong-typed value at top level / in a nested record / in a set, dropped attribute, undeclared "
         "attribute, tag faults, ancestor of a non-permitted type, invalid enum id as uid / value / set element / ancestor, undeclared type, "
         "altered or undeclared action), plus the full product of 6 principals x 6 actions x 5 resources x 11 contexts; each datum goes through "
         "9 entity entry points or 4 request/context entry points and each verdict must equal Schema!Conforms*. distinct by (kind, datum).",
    assumptions=["one schema family (Sc1); JSON entry points are fed the explicit __entity/__extn forms",
                 "the harness's JSON-schema and entity-JSON renderers are faithful"],
)
FAMILIES["C11"] = C11

import props_c07; FAMILIES["C07"] = props_c07.C07


# ----------------------------------------------------------------- C03
def _validate_case(world, c, i):
    return dict(id=i, policy=c["policy"], must=c["must"])


def _validate_setup(world):
    return dict(setup=dict(schema=world["schema"], envs=world["envs"]))


def _mutate_validate(ev):
    if ev.get("ev") != "Validate":
        return None
    ev = json.loads(json.dumps(ev))
    if ev["strict"] and ev.get("typed") and ev["typed"][0]["kind"] != "fail" and len(ev["policy"]["conds"][0][1]) % 2 == 0:
        ev["typed"][0]["typed"][1] = ["Long"]          # a wrong static type at the root of the typed AST
    elif ev["strict"]:
        ev["classes"] = sorted(set(ev["classes"]) | {"noAttr"})
    else:
        ev["strict"] = True
        ev["permissive"] = True
        ev["classes"] = sorted(set(ev["classes"]) | {"type"})
    return ev


C03 = dict(
    family="validate", trace_module="Trace_Validate.tla", trace_env_by_tier=True,
    models=[dict(name="mc_validate", module="MC_Validate.tla", cfg=dict(quick="MC_Validate.cfg", thorough="MC_Validate.cfg"),
                 cases=_validate_case, setup=_validate_setup, limit=dict(quick=900, thorough=None))],
    nontrivial=lambda ev: ev.get("ev") == "Validate",
    key=lambda ev: ev.get("policy"),
    mutate=_mutate_validate, chunk=150,
    rule="G: policies over schema Sc2 = 10 access atoms (optional attrs, attr chains through entity refs with and without records, optional record "
         "fields, tags, context fields, overflow-capable arithmetic) x 4 guards (matching has/hasTag, mismatching, true, unrelated) x 13 connectives "
         "(&&, ||, !, if, nesting, both operand orders) x 5 scopes, plus 20 type probes x 5 scopes; each is validated strict and permissive and "
         "evaluated by the real evaluator on all 960 conformant environments (every optional component present/absent; environments are built through "
         "the library's own schema-based validation, which must accept all of them). TLC recomputes every outcome class and checks soundness, "
         "impossible => never satisfied, strict => permissive, acceptance of the must-accept fragment, and - from the typed AST the typechecker returns per request environment - that every "
         "subexpression that is actually evaluated yields a value inhabiting its static type (singleton True/False types included). quick replays a seeded sample of 900 policies.",
    assumptions=["one schema (Sc2) and its 960-environment universe; soundness is established for the generated programs, not all programs",
                 "typed ASTs are checked on a quarter of the universe in the quick tier, on all of it in the thorough tier"],
)


def _validate_rand(fam, tier, wd, seed):
    """R: random type-directed policies (strictly valid ones and a quarter of the rejected ones) through the same family and trace spec"""
    import randpols
    n = dict(quick=250, thorough=3000)[tier]
    cases = [_validate_setup(fam["_world"])]
    for i, s in enumerate(randpols.singles(wd, seed, n)):
        cases.append(dict(id=100000 + i, policy=dict(s["policy"], id="p"), must=False))
    cpath = os.path.join(wd, "rand.cases.ndjson")
    tpath = os.path.join(wd, "rand.trace.ndjson")
    vlib.write_ndjson(cpath, cases)
    vlib.conform("replay", "validate", cpath, tpath)
    return [(tpath, "R:typedgen", "Trace_Validate.tla")]


C03["extra_traces"] = _validate_rand
C03["rule"] += (" R: additionally 250 (quick) / 3000 (thorough) random policies from the type-directed generator gen_typed.rs (guards present, dropped, too late, behind ||; "
                "arithmetic near the i64 bounds; sets, records, membership, is, if-then-else, action literals), validated and evaluated on the same universe.")
FAMILIES["C03"] = C03


# ----------------------------------------------------------------- C13
def _partial_case(world, c, i):
    m = world["modes"][c["mode"] - 1]
    return dict(id=i, pols=c["pols"], req=m["req"], store=m["store"], completions=m["completions"], _keep=bool(c.get("keep")))


def _pstore_case(world, c, i):
    m = world["missing"][c["missing"] - 1]
    return dict(id=i, pols=c["pols"], req=world["req"], store=m["store"], missing=m["uid"], options=m["options"])


def _mutate_partial(ev):
    if ev.get("ev") != "Partial" or not ev.get("scratch"):
        return None
    ev = json.loads(json.dumps(ev))
    r = ev["scratch"][0]
    r["decision"] = "Deny" if r["decision"] == "Allow" else "Allow"
    return ev


C13 = dict(
    family="partial", trace_module="Trace_Partial.tla",
    models=[dict(name="mc_partial", module="MC_Partial.tla", cfg=dict(quick="MC_Partial_quick.cfg", thorough="MC_Partial_thorough.cfg"),
                 cases=_partial_case, limit=dict(quick=2000, thorough=None)),
            dict(name="mc_pstore", module="MC_PartialStore.tla", cfg=dict(quick="MC_PartialStore.cfg", thorough="MC_PartialStore.cfg"), family="pstore",
                 cases=_pstore_case)],
    nontrivial=lambda ev: ev.get("ev") in ("Partial", "PartialStore"),
    key=lambda ev: [ev.get("pols"), ev.get("req")],
    mutate=_mutate_partial, chunk=250,
    rule="G: policy sets (1-3 policies) whose conditions combine 5 known atoms (true/false and an atom of each error class) with 22 atoms that mention "
         "unknown data (comparisons, arithmetic, bare boolean use, set/record literals holding an unknown incl. records whose other field can error, "
         "attribute access on an unknown principal, in/is/has, like, if) through &&, ||, if and !, and scope constraints, in 6 unknown modes (principal "
         "untyped/typed unknown, resource unknown, a context attribute unknown, an entity attribute unknown, combinations); every completion of the "
         "mode's domains (up to 120, incl. wrong-typed values for untyped unknowns) is checked: decision/must/may/definitely-* soundness, "
         "reauthorization == from-scratch == reference. quick replays a seeded sample of 2500 of ~23500 cases.",
    assumptions=["partial entity stores (Entities::partial) and an unknown action are not generated yet",
                 "completions are restricted to the declared type for typed unknowns"],
)
FAMILIES["C13"] = C13


# ----------------------------------------------------------------- C14
def _tpe_case(world, c, i):
    return dict(id=i, pols=c["pols"], base=c["base"], erase=c["erase"], compl=c["compl"])


def _tpe_setup(world):
    return dict(setup=dict(schema=world["schema"], envs=world["envs"]))


def _mutate_tpe(ev):
    if ev.get("ev") != "Tpe" or not ev.get("reauth") or "decision" not in ev["reauth"][0]:
        return None
    ev = json.loads(json.dumps(ev))
    r = ev["reauth"][0]
    r["decision"] = "Deny" if r["decision"] == "Allow" else "Allow"
    return ev


C14 = dict(
    family="tpe", trace_module="Trace_Tpe.tla",
    models=[dict(name="mc_tpe", module="MC_Tpe.tla", cfg=dict(quick="MC_Tpe.cfg", thorough="MC_Tpe.cfg"),
                 cases=_tpe_case, setup=_tpe_setup, limit=dict(quick=1200, thorough=14000)),
            dict(name="mc_query", module="MC_Query.tla", cfg=dict(quick="MC_Query.cfg", thorough="MC_Query.cfg"), family="query",
                 cases=lambda world, c, i: dict(id=i, pols=c["pols"], base=c["base"]), setup=_tpe_setup,
                 limit=dict(quick=1500, thorough=14000))],
    nontrivial=lambda ev: ev.get("ev") in ("Tpe", "Query"),
    key=lambda ev: [ev.get("pols"), ev.get("base"), ev.get("erase")],
    mutate=_mutate_tpe, chunk=150,
    rule="G: 178 strictly valid policy sets over schema Sc2 (guarded optional attributes, chains through entity references, tags, context, membership, "
         "arithmetic) x 4 base environments x every erasure of <=2 of {principal id, context, u1 attrs, u1 ancestors, u1 tags, u2 absent, doc attrs, u1 absent}; "
         "completions = every environment of the 3840-element parameter universe consistent with the partial input (TLC-enumerated). For each case: definite "
         "decision and true/false/error classes hold on every completion, every view's residual evaluates (in TLC) like its original on every completion, the "
         "views (policies, policy_set, get_policy, residual_policies) present the same residuals, reauthorize == reference. quick samples 1200 of 26196 cases. "
         "Permission queries: 178 policy sets x 192 base environments; query_resource / query_principal must return exactly the candidates of the store the "
         "reference authorizer allows; query_action (action and context open) must list every action allowed under some context, never label Deny, and label "
         "Allow only when every context allows (quick samples 1500 of 34176).",
    assumptions=[                 "completions range over the model universe only (a subset of all consistent completions)"],
)
FAMILIES["C14"] = C14


# ----------------------------------------------------------------- C15
def _batched_case(world, c, i):
    return dict(id=i, pols=c["pols"], params=c["params"], loader=c["loader"], maxBudget=c["maxBudget"])


def _mutate_batched(ev):
    if ev.get("ev") != "Batched":
        return None
    ev = json.loads(json.dumps(ev))
    last = ev["outcomes"][-1]
    if last[0] == "decision":
        last[1] = "Deny" if last[1] == "Allow" else "Allow"
    else:
        ev["outcomes"][-1] = ["decision", "Allow"]
        ev["outcomes"][-2] = ["decision", "Deny"]
    return ev


C15 = dict(
    family="batched", trace_module="Trace_Batched.tla",
    models=[dict(name="mc_batched_loop", module="MC_BatchedLoop.tla", cfg=dict(quick="MC_BatchedLoop.cfg", thorough="MC_BatchedLoop.cfg")),
            dict(name="mc_batched", module="MC_Batched.tla", cfg=dict(quick="MC_Batched.cfg", thorough="MC_Batched.cfg"),
                 cases=_batched_case, setup=_tpe_setup, limit=dict(quick=None, thorough=None))],
    nontrivial=lambda ev: ev.get("ev") == "Batched",
    key=lambda ev: [ev.get("pols"), ev.get("params"), ev.get("loader")],
    mutate=_mutate_batched, chunk=300,
    rule="M: the abstract loop of Batched.tla model-checked over 3 uids. G: 178 strictly valid policy sets x 8 conformant environments (attribute chains "
         "through present / record-less entities, optional data present or absent) x 3 loader behaviours (exactly what is asked; everything on the first "
         "call; one extra entity per call), each run with every budget 0..12 (two more than the distinct uids of the largest environment) through is_authorized_batched with a recording loader. TLC checks: a reported "
         "decision is the ordinary decision, budgets too small answer 'insufficient', a decision persists for larger budgets, a budget above the number of "
         "distinct uids (store, request, policies) decides, and the recorded loader calls are a behaviour of the loop (<= budget calls, nothing asked twice).",
    assumptions=["loaders are deterministic and backed by the environment's store; a loader never returns the same entity twice"],
)
FAMILIES["C15"] = C15


# ----------------------------------------------------------------- C16 / C17
def _slice_case(world, c, i):
    return dict(id=i, pols=c["pols"])


def _slice_setup(world):
    return dict(setup=dict(schema=world["schema"], envs=world["envs"]))


def _mutate_level(ev):
    if ev.get("ev") != "Slice":
        return None
    ev = json.loads(json.dumps(ev))
    r = ev["envs"][0]["full"]
    r["decision"] = "Deny" if r["decision"] == "Allow" else "Allow"
    return ev


def _mutate_manifest(ev):
    if ev.get("ev") != "Slice" or not ev.get("strict") or "manifest" not in ev["envs"][0]:
        return None
    ev = json.loads(json.dumps(ev))
    r = ev["envs"][0]["manifest"]
    r["decision"] = "Deny" if r["decision"] == "Allow" else "Allow"
    return ev


_SLICE_RULE = ("G: 300 strictly valid policy sets over Sc2: dereference chains of depth 1-4 (through present and record-less entities) placed bare, through a record "
               "literal, as a set element, in if branches/guards, as operand of in / hasTag / getTag / has / ==, in if-then-else producing an entity, in sets of entities and in records "
               "containing entities, alone and combined with forbid policies, plus the 178 TPE policy sets; 10 conformant environments. ")
C16 = dict(
    family="slice", trace_module="Trace_Slice.tla", trace_env=dict(WHICH="level"),
    models=[dict(name="mc_slice", module="MC_Slice.tla", cfg=dict(quick="MC_Slice.cfg", thorough="MC_Slice.cfg"),
                 cases=_slice_case, setup=_slice_setup)],
    nontrivial=lambda ev: ev.get("ev") == "Slice",
    key=lambda ev: ev.get("pols"), mutate=_mutate_level, chunk=40,
    rule=_SLICE_RULE + "For n = 0..4: validate_with_level verdict; the level-n slice (computed by Slicing!LevelSlice in TLC and shipped to the harness as uid sets) is "
         "authorised by the real authorizer; TLC checks accepted(n) => slice adequate (decision, reasons, errors) on every environment, accepted(n) => accepted(n+1), and that "
         "the real responses on slices equal the reference.",
    assumptions=["the weaker, literal reading of 'within n hops' (entities at distance <= n kept with their data)"],
)
C17 = dict(
    family="slice", trace_module="Trace_Slice.tla", trace_env=dict(WHICH="manifest"),
    models=[dict(name="mc_slice", module="MC_Slice.tla", cfg=dict(quick="MC_Slice.cfg", thorough="MC_Slice.cfg"),
                 cases=_slice_case, setup=_slice_setup)],
    nontrivial=lambda ev: ev.get("ev") == "Slice" and ev.get("strict"),
    key=lambda ev: ev.get("pols"), mutate=_mutate_manifest, chunk=40,
    rule=_SLICE_RULE + "compute_entity_manifest + slice_entities are run by the harness; TLC checks that the manifest exists for strictly valid sets, that the sliced store is a "
         "sub-store of the full store, and that the reference authorization over the sliced store and the real response over it equal the full-store response.",
    assumptions=["the manifest itself is a black box; only the adequacy of the slice it produces is specified"],
)
FAMILIES["C16"] = C16
FAMILIES["C17"] = C17

# ---- random strictly valid policy sets (gen_typed.rs) through the same TLC generators and trace specifications
import randpols
_RAND_NOTE = (" R: additionally %s random strictly valid policy sets (1-3 policies; type-directed generator over Sc2: attribute / tag / record / "
              "entity-reference chains with and without guards in capability-carrying shapes, arithmetic near the i64 bounds, sets, membership, is, if-then-else, every scope "
              "form) drawn per run from the seed, combined by the same TLC generator with its coordinates and judged by the same trace specification.")
C14["models"] += [
    dict(name="mc_tpe_rand", module="MC_Tpe.tla", cfg=dict(quick="MC_Tpe.cfg", thorough="MC_Tpe.cfg"), pre=randpols.pre(dict(quick=60, thorough=400)),
         cases=_tpe_case, setup=_tpe_setup, limit=dict(quick=500, thorough=5000)),
    dict(name="mc_query_rand", module="MC_Query.tla", cfg=dict(quick="MC_Query.cfg", thorough="MC_Query.cfg"), family="query",
         pre=randpols.pre(dict(quick=60, thorough=400)),
         cases=lambda world, c, i: dict(id=i, pols=c["pols"], base=c["base"]), setup=_tpe_setup, limit=dict(quick=500, thorough=5000)),
]
C14["rule"] += _RAND_NOTE % "60 (quick) / 400 (thorough)"
C15["models"] += [dict(name="mc_batched_rand", module="MC_Batched.tla", cfg=dict(quick="MC_Batched.cfg", thorough="MC_Batched.cfg"),
                       pre=randpols.pre(dict(quick=80, thorough=600)), cases=_batched_case, setup=_tpe_setup, limit=dict(quick=900, thorough=None))]
C15["rule"] += _RAND_NOTE % "80 (quick) / 600 (thorough)"
for _fam in (C16, C17):
    _fam["models"] = _fam["models"] + [dict(name="mc_slice_rand", module="MC_Slice.tla", cfg=dict(quick="MC_Slice.cfg", thorough="MC_Slice.cfg"),
                                            pre=randpols.pre(dict(quick=150, thorough=1500)), cases=_slice_case, setup=_slice_setup)]
    _fam["rule"] += _RAND_NOTE % "150 (quick) / 1500 (thorough)"


# ----------------------------------------------------------------- C19
def _ffi_case(world, c, i):
    hist = [["preparsePs", n, k] for n, k in sorted(c["ps"].items())] if isinstance(c["ps"], dict) else []
    hist += [["preparseSchema", n, j] for n, j in sorted(c["sc"].items())] if isinstance(c["sc"], dict) else []
    op = c["op"]
    hist.append(op)
    if op[0] == "preparsePs":
        # observe the effect of (re-)registration: the name just used, with and without a schema
        hist.append(["stateful", op[1], "", False, 1])
        hist.append(["stateful", op[1], "", False, 5])
    if op[0] == "preparseSchema":
        hist.append(["preparsePs", "obs", 2])
        for r in (1, 2, 3):
            hist.append(["stateful", "obs", op[1], True, r])
    if op[0] == "stateful":
        ps = c["ps"] if isinstance(c["ps"], dict) else {}
        sc = c["sc"] if isinstance(c["sc"], dict) else {}
        if op[1] in ps and (op[2] == "" or op[2] in sc):
            hist.append(["stateless", ps[op[1]], sc[op[2]] if op[2] else 0, op[3], op[4]])
    return dict(id=i, hist=hist)


def _ffi_setup(world):
    return dict(setup=world)


def _ffi_histories(fam, tier, wd, seed):
    import random, os, vlib
    world = fam.get("_world")
    if world is None:
        return []
    rnd = random.Random(seed * 104729 + 5)
    n = 250 if tier == "quick" else 6000
    names = ["a", "b", "c", "d"]
    nps, nsc, nreq = len(world["polSources"]), len(world["schemaSources"]), len(world["reqs"])
    cases = [dict(setup=world)]
    for i in range(n):
        hist = []
        for _ in range(rnd.randint(6, 30)):
            k = rnd.random()
            if k < 0.25:
                hist.append(["preparsePs", rnd.choice(names), rnd.randint(1, nps)])
            elif k < 0.45:
                hist.append(["preparseSchema", rnd.choice(names), rnd.randint(1, nsc)])
            elif k < 0.9:
                hist.append(["stateful", rnd.choice(names), rnd.choice(names + ["", ""]), rnd.random() < 0.5, rnd.randint(1, nreq)])
            else:
                hist.append(["stateless", rnd.randint(1, nps), rnd.randint(0, nsc), rnd.random() < 0.5, rnd.randint(1, nreq)])
        cases.append(dict(id="h%d" % i, hist=hist))
    cpath = os.path.join(wd, "hist.cases.ndjson")
    tpath = os.path.join(wd, "hist.trace.ndjson")
    vlib.write_ndjson(cpath, cases)
    vlib.conform("replay", "ffi", cpath, tpath)
    return [(tpath, "T:histories", "Trace_Ffi.tla")]


def _mutate_ffi(ev):
    if ev.get("ev") != "FfiHist":
        return None
    ev = json.loads(json.dumps(ev))
    for s in ev["steps"]:
        if "answer" in s:
            s["answer"] = ["fail"] if s["answer"][0] == "ok" else ["ok", {"decision": "Allow", "reasons": [], "errors": []}]
            return ev
        if "ok" in s:
            s["ok"] = not s["ok"]
            return ev
    return None


C19 = dict(
    family="ffi", trace_module="Trace_Ffi.tla",
    models=[dict(name="mc_ffi", module="MC_Ffi.tla", cfg=dict(quick="MC_Ffi.cfg", thorough="MC_Ffi.cfg"),
                 cases=_ffi_case, setup=_ffi_setup, limit=dict(quick=6000, thorough=None))],
    extra_traces=_ffi_histories,
    nontrivial=lambda ev: ev.get("ev") == "FfiHist",
    key=lambda ev: [s.get("op") for s in ev.get("steps", [])],
    mutate=_mutate_ffi, chunk=1500,
    rule="G: every (cache state, operation) pair of Ffi.tla over 2 names, 6 policy-set sources (concatenated text, id->text map, id->JSON map, templates+links, two "
         "unparsable ones), 4 schema sources (JSON, Cedar syntax, a smaller schema, an unparsable one), 5 requests (conformant, wrong principal type, wrong context, ...), "
         "validateRequest on/off, schema named or not: 32000 pairs, each run as a short history with fresh names (quick: seeded sample of 6000); for stateful calls whose "
         "names resolve the equivalent stateless call and the Rust API are run too. T: random histories of 6-30 calls over 4 names with re-registration. TLC folds the "
         "cache machine over each history and re-derives every answer (decision, reasons, erroring ids, or failure).",
    assumptions=["validate_json / check_parse / convert / format entry points and the CLI are not driven yet",
                 "error messages are not compared, only success/failure and the response"],
)
FAMILIES["C19"] = C19
import props_front; C19["models"] += props_front.MODELS; C19["extra_traces"] = props_front.extra_traces(C19.get("extra_traces"))
C19["models"][0]["setup"] = props_front.remember_world(C19["models"][0]["setup"])
C19["case_of_event"] = props_front.case_of_event; C19["family_of_event"] = props_front.family_of_event; C19["trace_module_of_event"] = props_front.trace_module_of_event
C19["rule"] += props_front.RULE; C19["assumptions"] = C19["assumptions"][1:] + props_front.ASSUMPTIONS
C19["nontrivial"] = lambda ev: ev.get("ev") in ("FfiHist", "Front"); C19["key"] = lambda ev: ev.get("op") or [s.get("op") for s in ev.get("steps", [])]
import props_c05, props_c12; FAMILIES["C05"] = props_c05.C05; FAMILIES["C12"] = props_c12.C12


# ----------------------------------------------------------------- C18
def _symcc_case(world, c, i):
    return dict(id=i, pols=c["pols"], pols2=c["pols2"], envs=c["envs"])


def _mutate_symcc(ev):
    if ev.get("ev") != "Symcc" or not ev.get("envs") or "sets" not in ev["envs"][0]:
        return None
    ev = json.loads(json.dumps(ev))
    a = ev["envs"][0]["sets"]["alwaysAllows"]
    ev["envs"][0]["sets"]["alwaysAllows"] = ["true"] if "false" in a else ["false"]
    return ev


C18 = dict(
    family="symcc", trace_module="Trace_Symcc.tla",
    models=[dict(name="mc_symcc", module="MC_Symcc.tla", cfg=dict(quick="MC_Symcc.cfg", thorough="MC_Symcc.cfg"),
                 cases=_symcc_case, setup=_tpe_setup, limit=dict(quick=None, thorough=None))],
    nontrivial=lambda ev: ev.get("ev") == "Symcc",
    key=lambda ev: [ev.get("pols"), ev.get("pols2")],
    mutate=_mutate_symcc, chunk=60, known_finding_id="C18-dangling-reference",
    rule="G: 183 strictly valid policy sets x 5 second policy sets over Sc2, each compiled (compile_with_custom_symenv) against the literal SymEnv built by "
         "SymEnv::from_concrete_env from each of 10 conformant environments (optional attributes present/absent, record-less entity references, i64 extreme, tags, "
         "membership). For every policy: never_errors / always_matches / never_matches asserts; for the sets: always_allows / always_denies / implies / equivalent / "
         "disjoint asserts. TLC checks that every assert reduced to a constant and that unsatisfiability agrees with the reference outcome/decision on that environment. "
         "quick: seeded sample of 300 of 915 cases (x 10 environments).",
    assumptions=["no SMT solver is involved: only literal environments, for which the asserts must be ground",
                 "extension-typed attributes are not in schema Sc2"],
)
C18["models"] += [dict(name="mc_symcc_rand", module="MC_Symcc.tla", cfg=dict(quick="MC_Symcc.cfg", thorough="MC_Symcc.cfg"),
                       pre=randpols.pre(dict(quick=60, thorough=600)), cases=_symcc_case, setup=_tpe_setup, limit=dict(quick=150, thorough=None))]
C18["rule"] += _RAND_NOTE % "60 (quick) / 600 (thorough)"
FAMILIES["C18"] = C18


# ----------------------------------------------------------------- C20
_ROBUST_CORPUS = dict(
    policy=['@id("a") permit(principal == User::"u1", action in [Action::"view"], resource is Doc in Group::"g") when { principal.n + -1 < 3 && context.flag } unless { resource.owner has mgr.n || [1, "a\\u{1F600}"].contains(principal.getTag("k")) };',
            'forbid(principal, action, resource) when { if ip("10.0.0.1/8").isInRange(ip("10.0.0.0/8")) then decimal("1.5").lessThan(decimal("2.0")) else principal like "a\\*b*" };',
            'permit(principal == ?principal, action, resource in ?resource) when { {a: 1, "b c": [User::"u1"]}.a == 1 };',
            'permit(principal, action, resource) when { datetime("2024-02-29T10:20:30.123+0530") < datetime("2024-03-01") && duration("1d2h3m4s5ms") < duration("-2d") && datetime("1999-12-31T23:59:59Z").toDate() == datetime("1999-12-31") };',
            'permit(principal, action, resource) when { decimal("-12.3456").lessThan(decimal("0.0")) || ip("192.168.0.1/24").isInRange(ip("fe80::1/10")) || ip("::ffff:1.2.3.4").isIpv6() };'],
    schema=['entity User in [Group] { n: Long, opt?: Long, mgr?: User, rec: { inner?: Long } } tags Long;\nentity Group;\nentity Doc { owner: User, pub: Bool };\ntype T = Set<{a: Long}>;\nentity Color enum ["r", "g"];\naction view appliesTo { principal: [User], resource: [Doc], context: { flag: Bool, lim?: Long } };\nnamespace N { entity E; action "a b" in [Action::"view"]; }'],
    json=['{"effect":"permit","principal":{"op":"==","entity":{"type":"User","id":"u1"}},"action":{"op":"in","entities":[{"type":"Action","id":"view"}]},"resource":{"op":"is","entity_type":"Doc","in":{"entity":{"type":"Group","id":"g"}}},"conditions":[{"kind":"when","body":{"&&":{"left":{"<":{"left":{"+":{"left":{".":{"left":{"Var":"principal"},"attr":"n"}},"right":{"Value":1}}},"right":{"Value":3}}},"right":{"has":{"left":{"Var":"context"},"attr":"flag"}}}}},{"kind":"unless","body":{"like":{"left":{"Value":"s"},"pattern":["Wildcard",{"Literal":"a"}]}}}],"annotations":{"id":"x"}}',
          '[{"uid":{"type":"User","id":"u1"},"attrs":{"n":1,"rec":{"inner":2},"mgr":{"__entity":{"type":"User","id":"u2"}},"d":{"__extn":{"fn":"decimal","arg":"1.5"}}},"parents":[{"type":"Group","id":"g"}],"tags":{"k":1}},{"uid":{"type":"Group","id":"g"},"attrs":{},"parents":[]}]',
          '{"":{"entityTypes":{"User":{"memberOfTypes":["Group"],"shape":{"type":"Record","attributes":{"n":{"type":"Long"},"opt":{"type":"Long","required":false},"s":{"type":"Set","element":{"type":"Entity","name":"User"}}}},"tags":{"type":"Long"}},"Group":{},"Color":{"enum":["r","g"]}},"actions":{"view":{"appliesTo":{"principalTypes":["User"],"resourceTypes":["User"],"context":{"type":"Record","attributes":{"flag":{"type":"Boolean"}}}},"memberOf":[{"id":"all"}]},"all":{}},"commonTypes":{"T":{"type":"Long"}}}}',
          '{"principal":{"type":"User","id":"u1"},"action":{"type":"Action","id":"view"},"resource":{"type":"Doc","id":"d"},"context":{"flag":true},"policies":{"staticPolicies":{"a":"permit(principal, action, resource);"},"templates":{"t":"permit(principal == ?principal, action, resource);"},"templateLinks":[{"templateId":"t","newId":"l","values":{"?principal":{"type":"User","id":"u1"}}}]},"entities":[],"validateRequest":true}',
          '{"effect":"forbid","principal":{"op":"All"},"action":{"op":"All"},"resource":{"op":"All"},"conditions":[{"kind":"when","body":{"||":{"left":{"isInRange":[{"ip":[{"Value":"10.0.0.1"}]},{"ip":[{"Value":"10.0.0.0/8"}]}]},"right":{"&&":{"left":{"lessThan":[{"decimal":[{"Value":"1.5"}]},{"decimal":[{"Value":"2.0"}]}]},"right":{"isIpv4":[{"ip":[{"Value":"::1"}]}]}}}}}},{"kind":"unless","body":{"<":{"left":{"toDate":[{"datetime":[{"Value":"2024-01-01"}]}]},"right":{"offset":[{"datetime":[{"Value":"2024-01-01"}]},{"duration":[{"Value":"1h"}]}]}}}}],"annotations":{}}',
          '{"flag": true, "lim": 3, "x": {"__entity": {"type": "User", "id": "a"}}}',
          '{"t": {"__extn": {"fn": "datetime", "arg": "2024-02-29T10:20:30.123-0030"}}, "d": {"__extn": {"fn": "duration", "arg": "1d2h3m4s5ms"}}, "x": {"__extn": {"fn": "decimal", "arg": "-12.3456"}}, "i": {"__extn": {"fn": "ip", "arg": "10.1.2.3/8"}}}'],
)


_LOOKALIKE = {}
for _d in "0123456789":
    _LOOKALIKE[_d] = [chr(0xFF10 + int(_d)), chr(0x0660 + int(_d)), chr(0x0966 + int(_d)), chr(0x1D7CE + int(_d))]
for _c in "abcdefghijklmnopqrstuvwxyzTZPUDG":
    _LOOKALIKE[_c] = [chr(0xFF00 + ord(_c) - 0x20), _c + "\u0301", _c.upper() if _c.islower() else _c.lower()]
_LOOKALIKE[" "] = ["\u00a0", "\u2028", "\u3000", "\u200b", "\t", "\u0085"]
_LOOKALIKE["-"] = ["\u2212", "\u2010", "\uff0d", "+"]
_LOOKALIKE["+"] = ["\uff0b", "-"]
_LOOKALIKE[":"] = ["\uff1a", "\u2236"]
_LOOKALIKE["."] = ["\uff0e", "\u3002", ","]
_LOOKALIKE['"'] = ["\u201c", "\u201d", "\uff02", "'"]
_LOOKALIKE["/"] = ["\u2215", "\uff0f"]


def _json_mutants(doc, rnd, n):
    """structure-aware mutations of a JSON document: wrong-type leaf, missing key, extra key, duplicated/empty containers"""
    import copy
    out = []
    paths = []

    def walk(x, path):
        paths.append(path)
        if isinstance(x, dict):
            for k in x:
                walk(x[k], path + [k])
        elif isinstance(x, list):
            for i, v in enumerate(x):
                walk(v, path + [i])
    walk(doc, [])
    leaves = [1, -1, 1.5, True, None, "", "x", [], {}, [[]], {"__entity": 1}, {"__extn": {"fn": "ip", "arg": 1}}, 9223372036854775808, "퟿"]
    for _ in range(n):
        d = copy.deepcopy(doc)
        p = rnd.choice(paths)
        if not p:
            out.append(rnd.choice(leaves))
            continue
        parent = d
        for k in p[:-1]:
            parent = parent[k]
        k = p[-1]
        m = rnd.randint(0, 4)
        if m == 0:
            parent[k] = rnd.choice(leaves)
        elif m == 1:
            if isinstance(parent, dict):
                del parent[k]
            else:
                parent.pop(k)
        elif m == 2 and isinstance(parent, dict):
            parent[rnd.choice(["zzz", "__entity", "__extn", "__expr", "type", ""])] = rnd.choice(leaves)
        elif m == 3 and isinstance(parent, list):
            parent.insert(k, copy.deepcopy(parent[k]))
        else:
            parent[k] = {"Value": parent[k]} if rnd.random() < 0.5 else [parent[k]]
        out.append(d)
    return out


def _robust_extra(fam, tier, wd, seed):
    import random, os, vlib
    rnd = random.Random(seed * 31337 + 3)
    n = 1500 if tier == "quick" else 60000
    cases = []
    k = 0
    # structure-aware JSON mutants
    for src in _ROBUST_CORPUS["json"]:
        doc = json.loads(src)
        for m in _json_mutants(doc, rnd, n // 5):
            try:
                cases.append(dict(id="j%d" % k, kind="json", text=json.dumps(m)))
            except Exception:
                pass
            k += 1
    # every extension function of the JSON policy format with 0, 1, 2 and 3 arguments (arity is checked late: printing,
    # validating and evaluating such a policy must still not panic)
    _arg = {"Value": "1.5"}
    for fn in ("ip", "decimal", "datetime", "duration", "isIpv4", "isIpv6", "isLoopback", "isMulticast", "isInRange", "lessThan", "lessThanOrEqual",
               "greaterThan", "greaterThanOrEqual", "toDate", "toTime", "offset", "durationSince", "toMilliseconds", "toSeconds", "toMinutes",
               "toHours", "toDays"):
        for nargs in (0, 1, 2, 3):
            body = {fn: [_arg] * nargs}
            for wrap in (body, {"!": {"arg": body}}, {"Set": [body]}, {"if-then-else": {"if": body, "then": body, "else": {"Value": True}}}):
                pol = {"effect": "permit", "principal": {"op": "All"}, "action": {"op": "All"}, "resource": {"op": "All"},
                       "conditions": [{"kind": "when", "body": wrap}]}
                cases.append(dict(id="a%d" % k, kind="json", text=json.dumps(pol)))
                k += 1
    # character / byte-level mutants of valid texts, through every text entry point
    alphabet = ['"', "\\", "{", "}", "(", ")", "[", "]", "*", "\n", "\0", "‮", "\U0001F600", "@", ";", ":", "::", "?", "//", "/*", " ", "9223372036854775808", "\\u{", "\\x", "�", "é"]
    for kind in ("policy", "schema", "json"):
        for src in _ROBUST_CORPUS[kind]:
            for _ in range(n // 6):
                s = list(src)
                for _ in range(rnd.randint(1, 3)):
                    i = rnd.randrange(len(s) + 1)
                    m = rnd.randint(0, 3)
                    if m == 0 and s:
                        del s[min(i, len(s) - 1)]
                    elif m == 1:
                        s.insert(i, rnd.choice(alphabet))
                    elif m == 2 and s and rnd.random() < 0.5:
                        j = min(i, len(s) - 1)
                        s[j] = rnd.choice(alphabet)
                    elif m == 2 and s:
                        # a look-alike of the same Unicode class (other scripts' digits and letters, odd spaces, dashes, quotes)
                        cand = [j for j, ch in enumerate(s) if len(ch) == 1 and ch in _LOOKALIKE]
                        if cand:
                            j = rnd.choice(cand)
                            s[j] = rnd.choice(_LOOKALIKE[s[j]])
                    elif s:
                        j = min(i, len(s) - 1)
                        s[j:j + 1] = s[j:j + 1] * 2
                cases.append(dict(id="m%d" % k, kind="any" if rnd.random() < 0.2 else kind, text="".join(s)))
                k += 1
    for i in range(n // 3):
        cases.append(dict(id="p%d" % i, kind="protomut", seed=seed * 1000003 + i))
    cpath = os.path.join(wd, "mut.cases.ndjson")
    tpath = os.path.join(wd, "mut.trace.ndjson")
    vlib.write_ndjson(cpath, cases)
    vlib.conform("replay", "robust", cpath, tpath)
    return [(tpath, "T:mutants", "Trace_Robust.tla")]


def _mutate_robust(ev):
    if ev.get("ev") != "Robust" or not ev.get("outcomes"):
        return None
    ev = json.loads(json.dumps(ev))
    ev["outcomes"][0][1] = "panic:canary"
    return ev


C20 = dict(
    family="robust", trace_module="Trace_Robust.tla", level="exploration",
    models=[dict(name="mc_tokens", module="MC_Tokens.tla", cfg=dict(quick="MC_Tokens_quick.cfg", thorough="MC_Tokens_thorough.cfg"),
                 cases=lambda world, c, i: dict(id=i, kind=c["kind"], tokens=c["tokens"]))],
    extra_traces=_robust_extra,
    nontrivial=lambda ev: ev.get("ev") == "Robust" and any(o[1] == "ok" for o in ev.get("outcomes", [])),
    key=lambda ev: [ev.get("kind"), ev.get("input")],
    mutate=_mutate_robust, chunk=4000,
    rule="G (TLC-enumerated): every token sequence of length <= SeqLen over the policy-language (56 tokens), Cedar-schema (32) and JSON-structure (22) alphabets, every sequence of "
         "length <= HoleLen placed in 12 valid skeletons (condition, scope, annotation, entity shape, appliesTo, type alias, namespace, JSON policy body, entity attrs, context), and "
         "nesting towers of depth 1..48 of 18 bracketing constructs; T (seeded): structure-aware mutants of JSON policy / entities / schema / FFI-call / context documents "
         "(wrong-type leaf, missing key, extra or reserved key, duplicated element, wrapped value), character-level mutants of valid policy / schema / JSON texts incl. NUL, "
         "non-BMP, bidi and lone escapes, and bit-flip / truncation / insertion mutants of valid protobuf encodings. Every input goes through every text/JSON/bytes entry point of "
         "its kind (up to 37 entry points) each under its own catch_unwind, and on success through print, to_json, PST, protobuf, validate (3 modes), authorize, partial authorize, "
         "link, TPE, format; every error is rendered with Display and as a miette report. non-trivial = at least one entry point accepted the input.",
    assumptions=["exploration, not exhaustiveness: arbitrary byte strings beyond these generators are not covered", "nesting depth <= 48"],
)
FAMILIES["C20"] = C20

import props_c09, props_c10; FAMILIES["C09"] = props_c09.C09; FAMILIES["C10"] = props_c10.C10


# ----------------------------------------------------------------- repository tests with the verif-trace hooks (thorough tier)
def _hook_traces(kind, trace_module):
    def f(fam, tier, wd, seed):
        import glob, os, subprocess, vlib
        prev = fam.get("_prev_extra")
        out = prev(fam, tier, wd, seed) if prev else []
        if tier != "thorough":
            return out
        hd = os.path.join(vlib.WORK, "hooks_" + kind)
        os.makedirs(hd, exist_ok=True)
        for p in glob.glob(os.path.join(hd, "tr.*")):
            os.remove(p)
        env = dict(os.environ, CEDAR_VERIF_TRACE=os.path.join(hd, "tr"), CARGO_TARGET_DIR=os.path.join(vlib.WORK, "hooktarget"), CARGO_NET_OFFLINE="true")
        for pkg in ("cedar-policy-core", "cedar-policy"):
            r = subprocess.run(["cargo", "test", "--offline", "-p", pkg, "--lib", "--features", "verif-trace"], cwd=vlib.REPO, env=env,
                               stdout=subprocess.PIPE, stderr=subprocess.STDOUT, text=True)
            vlib.log("repo tests with hooks (%s): rc=%d %s" % (pkg, r.returncode, [l for l in r.stdout.splitlines() if l.startswith("test result")][-1:]))
        tpath = os.path.join(wd, "hooks.trace.ndjson")
        n = 0
        with open(tpath, "w") as w:
            for p in sorted(glob.glob(os.path.join(hd, "tr.*"))):
                for line in open(p):
                    if '"ev":"%s"' % kind in line:
                        w.write(line)
                        n += 1
        vlib.log("hook events of kind %s: %d" % (kind, n))
        if n:
            out.append((tpath, "T:repo-tests(hooks)", trace_module))
        return out
    return f


def _hooks_on_driver(prev, kind, family, trace_module, counts):
    """the harness links cedar-policy-core with the verif-trace hooks: a random-driver run of `family` with CEDAR_VERIF_TRACE set
    records what the library itself observed (store: the stage between strip / install and repair_tc and the touched set;
    authorizer: the outcome of every policy and the response); the family's hook trace spec judges the events (both tiers)"""
    def f(fam, tier, wd, seed):
        import glob, subprocess
        out = prev(fam, tier, wd, seed) if prev else []
        hd = os.path.join(wd, "hookdrv")
        os.makedirs(hd, exist_ok=True)
        for p in glob.glob(os.path.join(hd, "tr.*")):
            os.remove(p)
        env = dict(os.environ, CEDAR_VERIF_TRACE=os.path.join(hd, "tr"))
        r = subprocess.run([vlib.CONFORM, "drive", family, str(seed + 7), str(counts[tier]), os.path.join(hd, "drive.out.ndjson")], env=env,
                           stdout=subprocess.PIPE, stderr=subprocess.PIPE, text=True)
        if r.returncode != 0:
            raise vlib.ToolError("%s driver with hooks failed: %s" % (family, r.stderr[-2000:]))
        tpath = os.path.join(wd, "hookdrv.trace.ndjson")
        k = 0
        with open(tpath, "w") as w:
            for p in sorted(glob.glob(os.path.join(hd, "tr.*"))):
                for line in open(p):
                    if '"ev":"%s"' % kind in line:
                        w.write(line)
                        k += 1
        vlib.log("%s hook events from the %s driver: %d" % (kind, family, k))
        if k == 0:
            raise vlib.ToolError("no %s hook events recorded: is the verif-trace feature still wired into the harness?" % kind)
        out.append((tpath, "T:driver(hooks)", trace_module))
        return out
    return f


C04["_prev_extra"] = C04.get("extra_traces")
C04["extra_traces"] = _hooks_on_driver(_hook_traces("EsOp", "Trace_StoreHook.tla"), "EsOp", "store", "Trace_StoreHook.tla", dict(quick=400, thorough=8000))
C01["_prev_extra"] = C01.get("extra_traces")
C01["extra_traces"] = _hooks_on_driver(_hook_traces("AuthzHook", "Trace_AuthzHook.tla"), "AuthzHook", "authz", "Trace_AuthzHook.tla", dict(quick=300, thorough=5000))


# ----------------------------------------------------------------- C06
def _unmark(x):
    """replace the {"__long": i64} / {"__str": code points} markers of Est.tla by JSON numbers / strings; [] for empty objects"""
    if isinstance(x, dict):
        if set(x) == {"__long"}:
            neg, limbs = x["__long"]
            n = 0
            for l in reversed(limbs):
                n = n * 10000 + l
            return -n if neg else n
        if set(x) == {"__str"}:
            return "".join(chr(c) for c in x["__str"])
        return {k: _unmark(v) for k, v in x.items()}
    if isinstance(x, list):
        return [_unmark(v) for v in x]
    return x


def _formats_case(world, c, i):
    pol = c["policy"]
    pol = dict(pol, annotations=[[kv[0], "".join(chr(x) for x in kv[1])] for kv in pol.get("annotations", [])])
    est = _unmark(c["est"])
    if est.get("annotations") == []:
        est["annotations"] = {}

    def fix_records(x):
        if isinstance(x, dict):
            return {k: ({} if k == "Record" and v == [] else fix_records(v)) for k, v in x.items()}
        if isinstance(x, list):
            return [fix_records(v) for v in x]
        return x
    alt = _unmark(c["alt"])
    if alt.get("annotations") == []:
        alt["annotations"] = {}
    return dict(id=i, policy=pol, est=fix_records(est), alt=fix_records(alt))


def _mutate_formats(ev):
    if ev.get("ev") != "Formats":
        return None
    ev = json.loads(json.dumps(ev))
    h = ev["hops"]["to_json_from_json"]
    if "effect" in h:
        h["effect"] = "forbid" if h["effect"] == "permit" else "permit"
    else:
        ev["hops"]["to_json_from_json"] = ev["p0"]
        ev["p0"] = dict(ev["p0"], effect="x")
    return ev


C06 = dict(
    family="formats", trace_module="Trace_Formats.tla",
    models=[dict(name="mc_formats", module="MC_Formats.tla", cfg=dict(quick="MC_Formats.cfg", thorough="MC_Formats.cfg"), cases=_formats_case)],
    nontrivial=lambda ev: ev.get("ev") == "Formats",
    key=lambda ev: ev.get("policy"),
    mutate=_mutate_formats, chunk=800,
    rule="G: 2877 policies and templates over World: every binary operator x 12 left / 4 right leaves (i64 extremes, escape-heavy strings, entities, records with reserved keys, "
         "extension calls), unary / && / || / . / has / is / like (patterns with wildcard, literal star, quote, backslash, non-BMP) / if / sets / records / extension calls, as when and "
         "as unless; every principal x action x resource scope form incl. slots, is..in and empty action lists; 0-3 clauses; annotations with escapes. For each, Est.tla's EstOf(policy) is "
         "parsed by from_json, and the policy parsed from text is taken through to_json/from_json, text->CST->EST->AST, PST, protobuf, and policy-set JSON / PST / protobuf (templates are "
         "linked first: template id, new id and bindings must survive). Every projection must equal the text-parsed one.",
    assumptions=["the tie between the abstract policy and its text-parsed projection is C05's (Parse(Render(a)) = Core(a)); here all hops are compared with that projection",
                 "the policy projection (fam_syntax::policy_to_wire) is a faithful structural walk"],
)
FAMILIES["C06"] = C06
