//! Independent renderers: wire expression -> Cedar source text (fully
//! parenthesised) and -> JSON policy format (EST) as documented.
//! These do not use cedar's printers.

use crate::abs::{as_obj, err, i64_from_wire, str_from_wire, R};
use serde_json::{json, Map, Value as J};

/// Cedar string-literal escaping for a Rust string: only what the grammar needs
pub fn quote_str(s: &str) -> String {
    let mut o = String::from("\"");
    for c in s.chars() {
        match c {
            '"' => o.push_str("\\\""),
            '\\' => o.push_str("\\\\"),
            '\n' => o.push_str("\\n"),
            '\r' => o.push_str("\\r"),
            '\t' => o.push_str("\\t"),
            '\0' => o.push_str("\\0"),
            c if (c as u32) < 0x20 || c == '\u{7f}' => o.push_str(&format!("\\u{{{:x}}}", c as u32)),
            c => o.push(c),
        }
    }
    o.push('"');
    o
}

pub fn quote_pattern(p: &J) -> R<String> {
    let a = p.as_array().ok_or("pattern")?;
    let mut o = String::from("\"");
    for e in a {
        let n = e.as_i64().ok_or("pattern elem")?;
        if n < 0 {
            o.push('*');
        } else {
            let c = char::from_u32(n as u32).ok_or("pattern scalar")?;
            match c {
                '*' => o.push_str("\\*"),
                '"' => o.push_str("\\\""),
                '\\' => o.push_str("\\\\"),
                '\n' => o.push_str("\\n"),
                '\r' => o.push_str("\\r"),
                '\t' => o.push_str("\\t"),
                '\0' => o.push_str("\\0"),
                c if (c as u32) < 0x20 || c == '\u{7f}' => {
                    o.push_str(&format!("\\u{{{:x}}}", c as u32))
                }
                c => o.push(c),
            }
        }
    }
    o.push('"');
    Ok(o)
}

pub fn uid_text(j: &J) -> R<String> {
    let a = j.as_array().ok_or("uid")?;
    Ok(format!(
        "{}::{}",
        a[1].as_str().ok_or("uid ty")?,
        quote_str(a[2].as_str().ok_or("uid id")?)
    ))
}

fn is_ident(s: &str) -> bool {
    let mut cs = s.chars();
    match cs.next() {
        Some(c) if c.is_ascii_alphabetic() || c == '_' => {}
        _ => return false,
    }
    cs.all(|c| c.is_ascii_alphanumeric() || c == '_')
}

const RESERVED: &[&str] = &[
    "true", "false", "if", "then", "else", "in", "like", "has", "is", "__cedar",
];

pub fn lit_text(v: &J) -> R<String> {
    let a = v.as_array().ok_or("lit")?;
    Ok(match a[0].as_str().ok_or("lit tag")? {
        "bool" => a[1].as_bool().ok_or("bool")?.to_string(),
        "long" => {
            let n = i64_from_wire(&a[1])?;
            // the grammar has no negative literals: `-N` is negation folded by the parser
            if n < 0 {
                format!("({n})")
            } else {
                n.to_string()
            }
        }
        "str" => quote_str(&str_from_wire(&a[1])?),
        "ent" => uid_text(v)?,
        t => return err(format!("lit_text: {t}")),
    })
}

const METHOD_FNS: &[&str] = &[
    "lessThan", "lessThanOrEqual", "greaterThan", "greaterThanOrEqual", "isIpv4", "isIpv6",
    "isLoopback", "isMulticast", "isInRange", "offset", "durationSince", "toDate", "toTime",
    "toMilliseconds", "toSeconds", "toMinutes", "toHours", "toDays",
];

pub fn expr_text(j: &J) -> R<String> {
    let a = j.as_array().ok_or_else(|| format!("expr_text: {j}"))?;
    let tag = a[0].as_str().ok_or("tag")?;
    let sub = |i: usize| -> R<String> { Ok(format!("({})", expr_text(&a[i])?)) };
    Ok(match tag {
        "lit" => lit_text(&a[1])?,
        "var" => a[1].as_str().ok_or("var")?.to_string(),
        "slot" => format!("?{}", a[1].as_str().ok_or("slot")?),
        "if" => format!("if {} then {} else {}", sub(1)?, sub(2)?, sub(3)?),
        "and" => format!("{} && {}", sub(1)?, sub(2)?),
        "or" => format!("{} || {}", sub(1)?, sub(2)?),
        "not" => format!("!{}", sub(1)?),
        "neg" => format!("-{}", sub(1)?),
        "isEmpty" => format!("{}.isEmpty()", sub(1)?),
        "bin" => {
            let op = a[1].as_str().ok_or("op")?;
            let (l, r) = (sub(2)?, sub(3)?);
            match op {
                "eq" => format!("{l} == {r}"),
                "less" => format!("{l} < {r}"),
                "lessEq" => format!("{l} <= {r}"),
                "add" => format!("{l} + {r}"),
                "sub" => format!("{l} - {r}"),
                "mul" => format!("{l} * {r}"),
                "in" => format!("{l} in {r}"),
                "contains" | "containsAll" | "containsAny" | "getTag" | "hasTag" => {
                    format!("{l}.{op}({r})")
                }
                _ => return err(format!("expr_text: op {op}")),
            }
        }
        "call" => {
            let f = a[1].as_str().ok_or("fn")?;
            let args = a[2].as_array().ok_or("args")?;
            let mut ts = vec![];
            for x in args {
                ts.push(format!("({})", expr_text(x)?));
            }
            if METHOD_FNS.contains(&f) && !ts.is_empty() {
                format!("{}.{}({})", ts[0], f, ts[1..].join(", "))
            } else {
                format!("{}({})", f, ts.join(", "))
            }
        }
        "get" => {
            let at = a[2].as_str().ok_or("attr")?;
            if is_ident(at) && !RESERVED.contains(&at) {
                format!("{}.{}", sub(1)?, at)
            } else {
                format!("{}[{}]", sub(1)?, quote_str(at))
            }
        }
        "has" => {
            let at = a[2].as_str().ok_or("attr")?;
            if is_ident(at) && !RESERVED.contains(&at) {
                format!("{} has {}", sub(1)?, at)
            } else {
                format!("{} has {}", sub(1)?, quote_str(at))
            }
        }
        "like" => format!("{} like {}", sub(1)?, quote_pattern(&a[2])?),
        "is" => format!("{} is {}", sub(1)?, a[2].as_str().ok_or("type")?),
        "set" => {
            let items = a[1].as_array().ok_or("items")?;
            let mut ts = vec![];
            for x in items {
                ts.push(expr_text(x)?);
            }
            format!("[{}]", ts.join(", "))
        }
        "record" => {
            let m = as_obj(&a[1])?;
            let mut ts = vec![];
            for (k, v) in m.iter() {
                ts.push(format!("{}: {}", quote_str(k), expr_text(v)?));
            }
            format!("{{{}}}", ts.join(", "))
        }
        _ => return err(format!("expr_text: tag {tag}")),
    })
}

// ---------------------------------------------------------------- EST (JSON policy format)
pub fn lit_est(v: &J) -> R<J> {
    let a = v.as_array().ok_or("lit")?;
    Ok(match a[0].as_str().ok_or("lit tag")? {
        "bool" => json!({"Value": a[1]}),
        "long" => json!({"Value": i64_from_wire(&a[1])?}),
        "str" => json!({"Value": str_from_wire(&a[1])?}),
        "ent" => json!({"Value": {"__entity": {"type": a[1], "id": a[2]}}}),
        t => return err(format!("lit_est: {t}")),
    })
}

pub fn expr_est(j: &J) -> R<J> {
    let a = j.as_array().ok_or_else(|| format!("expr_est: {j}"))?;
    let tag = a[0].as_str().ok_or("tag")?;
    let sub = |i: usize| -> R<J> { expr_est(&a[i]) };
    Ok(match tag {
        "lit" => lit_est(&a[1])?,
        "var" => json!({"Var": a[1]}),
        "slot" => json!({"Slot": format!("?{}", a[1].as_str().ok_or("slot")?)}),
        "if" => json!({"if-then-else": {"if": sub(1)?, "then": sub(2)?, "else": sub(3)?}}),
        "and" => json!({"&&": {"left": sub(1)?, "right": sub(2)?}}),
        "or" => json!({"||": {"left": sub(1)?, "right": sub(2)?}}),
        "not" => json!({"!": {"arg": sub(1)?}}),
        "neg" => json!({"neg": {"arg": sub(1)?}}),
        "isEmpty" => json!({"isEmpty": {"arg": sub(1)?}}),
        "bin" => {
            let op = a[1].as_str().ok_or("op")?;
            let key = match op {
                "eq" => "==",
                "less" => "<",
                "lessEq" => "<=",
                "add" => "+",
                "sub" => "-",
                "mul" => "*",
                o => o,
            };
            let mut m = Map::new();
            m.insert(key.to_string(), json!({"left": sub(2)?, "right": sub(3)?}));
            J::Object(m)
        }
        "call" => {
            let f = a[1].as_str().ok_or("fn")?;
            let args = a[2].as_array().ok_or("args")?;
            let mut m = Map::new();
            m.insert(
                f.to_string(),
                J::Array(args.iter().map(expr_est).collect::<R<Vec<_>>>()?),
            );
            J::Object(m)
        }
        "get" => json!({".": {"left": sub(1)?, "attr": a[2]}}),
        "has" => json!({"has": {"left": sub(1)?, "attr": a[2]}}),
        "like" => {
            let pa = a[2].as_array().ok_or("pattern")?;
            let mut elems = vec![];
            for e in pa {
                let n = e.as_i64().ok_or("pattern elem")?;
                if n < 0 {
                    elems.push(json!("Wildcard"));
                } else {
                    let c = char::from_u32(n as u32).ok_or("scalar")?;
                    elems.push(json!({"Literal": c.to_string()}));
                }
            }
            json!({"like": {"left": sub(1)?, "pattern": elems}})
        }
        "is" => json!({"is": {"left": sub(1)?, "entity_type": a[2]}}),
        "set" => {
            let items = a[1].as_array().ok_or("items")?;
            json!({"Set": items.iter().map(expr_est).collect::<R<Vec<_>>>()?})
        }
        "record" => {
            let m = as_obj(&a[1])?;
            let mut o = Map::new();
            for (k, v) in m.iter() {
                o.insert(k.clone(), expr_est(v)?);
            }
            json!({"Record": o})
        }
        _ => return err(format!("expr_est: tag {tag}")),
    })
}

// ---------------------------------------------------------------- policies
fn scope_text(var: &str, c: &J) -> R<String> {
    let a = c.as_array().ok_or("scope")?;
    Ok(match a[0].as_str().ok_or("scope tag")? {
        "any" => var.to_string(),
        "eq" => format!("{var} == {}", uid_text(&a[1])?),
        "in" => format!("{var} in {}", uid_text(&a[1])?),
        "is" => format!("{var} is {}", a[1].as_str().ok_or("ty")?),
        "isin" => format!("{var} is {} in {}", a[1].as_str().ok_or("ty")?, uid_text(&a[2])?),
        "inset" => {
            let es = a[1].as_array().ok_or("inset")?;
            let mut ts = vec![];
            for e in es {
                ts.push(uid_text(e)?);
            }
            format!("{var} in [{}]", ts.join(", "))
        }
        "eqslot" => format!("{var} == ?{var}"),
        "inslot" => format!("{var} in ?{var}"),
        "isinslot" => format!("{var} is {} in ?{var}", a[1].as_str().ok_or("ty")?),
        t => return err(format!("scope_text {t}")),
    })
}

/// wire policy (or template) -> Cedar text, without any @id annotation
pub fn policy_text(p: &J) -> R<String> {
    let mut s = String::new();
    if let Some(ann) = p.get("annotations").and_then(|x| x.as_array()) {
        for kv in ann {
            s.push_str(&format!(
                "@{}({}) ",
                kv[0].as_str().ok_or("ann key")?,
                quote_str(kv[1].as_str().ok_or("ann val")?)
            ));
        }
    }
    s.push_str(&format!(
        "{}({}, {}, {})",
        p["effect"].as_str().ok_or("effect")?,
        scope_text("principal", &p["principal"])?,
        scope_text("action", &p["action"])?,
        scope_text("resource", &p["resource"])?
    ));
    if let Some(cs) = p.get("conds").and_then(|x| x.as_array()) {
        for c in cs {
            s.push_str(&format!(
                " {} {{ {} }}",
                c[0].as_str().ok_or("cond kind")?,
                expr_text(&c[1])?
            ));
        }
    }
    s.push(';');
    Ok(s)
}

fn ent_est(j: &J) -> J {
    json!({"type": j[1], "id": j[2]})
}

fn scope_est(var: &str, c: &J) -> R<J> {
    let a = c.as_array().ok_or("scope")?;
    let slot = format!("?{var}");
    Ok(match a[0].as_str().ok_or("scope tag")? {
        "any" => json!({"op": "All"}),
        "eq" => json!({"op": "==", "entity": ent_est(&a[1])}),
        "in" => json!({"op": "in", "entity": ent_est(&a[1])}),
        "is" => json!({"op": "is", "entity_type": a[1]}),
        "isin" => json!({"op": "is", "entity_type": a[1], "in": {"entity": ent_est(&a[2])}}),
        "inset" => {
            let es = a[1].as_array().ok_or("inset")?;
            json!({"op": "in", "entities": es.iter().map(ent_est).collect::<Vec<_>>()})
        }
        "eqslot" => json!({"op": "==", "slot": slot}),
        "inslot" => json!({"op": "in", "slot": slot}),
        "isinslot" => json!({"op": "is", "entity_type": a[1], "in": {"slot": slot}}),
        t => return err(format!("scope_est {t}")),
    })
}

pub fn policy_est(p: &J) -> R<J> {
    let mut conds = vec![];
    if let Some(cs) = p.get("conds").and_then(|x| x.as_array()) {
        for c in cs {
            conds.push(json!({"kind": c[0], "body": expr_est(&c[1])?}));
        }
    }
    let mut ann = Map::new();
    if let Some(a) = p.get("annotations").and_then(|x| x.as_array()) {
        for kv in a {
            ann.insert(kv[0].as_str().ok_or("ann key")?.to_string(), kv[1].clone());
        }
    }
    Ok(json!({
        "effect": p["effect"],
        "principal": scope_est("principal", &p["principal"])?,
        "action": scope_est("action", &p["action"])?,
        "resource": scope_est("resource", &p["resource"])?,
        "conditions": conds,
        "annotations": ann,
    }))
}
