------------------------------ MODULE Trace_Eval ------------------------------
(* Trace specification for family "eval" (C02): every recorded evaluation - *)
(* through every arrival path - must be what CedarExpr!Eval prescribes.     *)
EXTENDS World, Json, IOUtils

Rec == ndJsonDeserialize(IOEnv.TRACE)
VARIABLES l, bad

ClausePolicy(kind, e) ==
  [id |-> "p", effect |-> "permit", principal |-> <<"any">>, action |-> <<"any">>,
   resource |-> <<"any">>, conds |-> <<<<kind, e>>>>, slots |-> <<>>]

Explained(ev) ==
  /\ ev.ev = "Eval"
  /\ LET req == IF "req" \in DOMAIN ev THEN FromWireReq(ev.req) ELSE Req
         store == IF "store" \in DOMAIN ev THEN FromWireStore(ev.store) ELSE Store
         slots == IF "slots" \in DOMAIN ev THEN ev.slots ELSE <<>>
         exp == Eval(ev.expr, req, store, slots)
     IN /\ FromWireR(ev.ast) = exp
        /\ "text" \in DOMAIN ev =>
             /\ FromWireR(ev.text) = exp
             /\ FromWireR(ev.est) = exp
             /\ ev.when = Outcome(ClausePolicy("when", ev.expr), req, store)
             /\ ev.unless = Outcome(ClausePolicy("unless", ev.expr), req, store)

Init == l = 1 /\ bad = {}
Next == /\ l <= Len(Rec)
        /\ l' = l + 1
        /\ bad' = IF Explained(Rec[l]) THEN bad ELSE bad \cup {l}
\* INVARIANT: always true; prints the verdict once, in the final state
Report == (l = Len(Rec) + 1) => PrintT(<<"TRACE-RESULT", Len(Rec), bad>>)
\* POSTCONDITION: every line was consumed
Accepted == TLCGet("stats").diameter = Len(Rec) + 1
==============================================================================
