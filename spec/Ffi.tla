--------------------------------- MODULE Ffi ---------------------------------
(***************************************************************************)
(* The JSON/FFI front end with its thread-local caches as a state machine  *)
(* (C19).  State: psC : name -> policy-source index, scC : name -> schema  *)
(* source index (only successfully parsed sources are ever registered).    *)
(*   PreparsePs(n, k)      registers source k under n iff it parses;       *)
(*                         on failure nothing changes                      *)
(*   PreparseSchema(n, j)  likewise                                        *)
(*   StatefulAuth(call)    answers exactly what the stateless call with    *)
(*                         the registered sources inlined would answer;    *)
(*                         a missing name is a failure                     *)
(*   StatelessAuth(call)   answers what the Rust API answers: a failure    *)
(*                         when a source does not parse, when the context  *)
(*                         does not fit the action's context type under    *)
(*                         the given schema, or (validateRequest) when the *)
(*                         request does not conform; otherwise the         *)
(*                         reference authorization response                *)
(***************************************************************************)
EXTENDS TypedWorld

\* provided by the instantiating module
CONSTANTS PolSources,      \* sequence of [pols |-> tuple of policies, good |-> BOOLEAN]
          SchemaSources,   \* sequence of [schema |-> abstract schema, good |-> BOOLEAN]
          Reqs,            \* sequence of requests
          StoreWith,       \* store when a schema is supplied (holds the schema's action entities)
          StoreWithout     \* store when no schema is supplied

PolSetOfSrc(k) == {PolSources[k].pols[i] : i \in 1..Len(PolSources[k].pols)}

ConformsCtx(Sc, action, ctx) ==
  /\ IsActionUid(action) /\ action[3] \in DOMAIN Sc.acts
  /\ EuidsOk(Sc, ctx)
  /\ ScInhabits(ctx, <<"Record", Sc.acts[action[3]].context>>)

FOk(resp) == <<"ok", resp>>
FFail == <<"fail">>
\* k: policy source index; j: schema source index or 0 (none)
Stateless(k, j, validate, ri) ==
  IF ~PolSources[k].good THEN FFail
  ELSE IF j # 0 /\ ~SchemaSources[j].good THEN FFail
  ELSE LET r == Reqs[ri]
       IN \* schema-directed parsing of the context needs the action's declared context type; for the value forms used
          \* here (primitives and explicit escapes) it refuses nothing else - type conformance is validateRequest's job
          IF j # 0 /\ ~(IsActionUid(r.action) /\ r.action[3] \in DOMAIN SchemaSources[j].schema.acts) THEN FFail
          ELSE IF j # 0 /\ validate /\ ~ConformsRequest(SchemaSources[j].schema, r) THEN FFail
          ELSE FOk(Authorize(PolSetOfSrc(k), r, IF j # 0 THEN StoreWith ELSE StoreWithout))

PreparsePs(psC, n, k) == IF PolSources[k].good THEN <<"ok", [x \in DOMAIN psC \cup {n} |-> IF x = n THEN k ELSE psC[x]]>> ELSE <<"fail", psC>>
PreparseSc(scC, n, j) == IF SchemaSources[j].good THEN <<"ok", [x \in DOMAIN scC \cup {n} |-> IF x = n THEN j ELSE scC[x]]>> ELSE <<"fail", scC>>
\* schemaName = "" means: no schema named
Stateful(psC, scC, psName, schemaName, validate, ri) ==
  IF psName \notin DOMAIN psC THEN FFail
  ELSE IF schemaName # "" /\ schemaName \notin DOMAIN scC THEN FFail
  ELSE Stateless(psC[psName], IF schemaName = "" THEN 0 ELSE scC[schemaName], validate, ri)
==============================================================================
