------------------------------ MODULE Trace_Ffi ------------------------------
(* Trace specification for family "ffi" (C19): each event is a whole history   *)
(* of FFI calls (fresh names per history); the cache state machine of Ffi.tla  *)
(* is folded over it and every answer must be the one the machine prescribes.  *)
EXTENDS FfiWorld, Json, IOUtils
INSTANCE Ffi WITH PolSources <- FPolSources, SchemaSources <- FSchemaSources, Reqs <- FReqs,
                  StoreWith <- FStoreWith, StoreWithout <- FStoreWithout

Rec == ndJsonDeserialize(IOEnv.TRACE)
VARIABLES l, bad

ToSet(s) == {s[i] : i \in 1..Len(s)}
NoDup(s) == \A i, j \in 1..Len(s) : i # j => s[i] # s[j]
AnsEq(a, exp) ==
  IF exp[1] = "fail" THEN a[1] = "fail"
  ELSE /\ a[1] = "ok"
       /\ a[2].decision = exp[2].decision
       /\ ToSet(a[2].reasons) = exp[2].reasons
       /\ NoDup(a[2].errors) /\ ToSet(a[2].errors) = exp[2].errors

RECURSIVE Fold(_, _, _, _)
Fold(steps, i, psC, scC) ==
  IF i > Len(steps) THEN TRUE
  ELSE LET s == steps[i] op == s.op IN
    CASE op[1] = "preparsePs" ->
           LET r == PreparsePs(psC, op[2], op[3])
           IN s.ok = (r[1] = "ok") /\ Fold(steps, i + 1, r[2], scC)
      [] op[1] = "preparseSchema" ->
           LET r == PreparseSc(scC, op[2], op[3])
           IN s.ok = (r[1] = "ok") /\ Fold(steps, i + 1, psC, r[2])
      [] op[1] = "stateful" ->
           AnsEq(s.answer, Stateful(psC, scC, op[2], op[3], op[4], op[5])) /\ Fold(steps, i + 1, psC, scC)
      [] op[1] = "stateless" ->
           /\ AnsEq(s.answer, Stateless(op[2], op[3], op[4], op[5]))     \* the JSON interface ...
           /\ AnsEq(s.api, Stateless(op[2], op[3], op[4], op[5]))        \* ... and the Rust API give the reference answer
           /\ Fold(steps, i + 1, psC, scC)

Explained(ev) == IF ev.ev = "FfiSetup" THEN TRUE ELSE ev.ev = "FfiHist" /\ Fold(ev.steps, 1, <<>>, <<>>)

Init == l = 1 /\ bad = {}
Next == /\ l <= Len(Rec)
        /\ l' = l + 1
        /\ bad' = IF Explained(Rec[l]) THEN bad ELSE bad \cup {l}
Report == (l = Len(Rec) + 1) => PrintT(<<"TRACE-RESULT", Len(Rec), bad>>)
Accepted == TLCGet("stats").diameter = Len(Rec) + 1
==============================================================================
