----------------------------- MODULE MC_TpePols -----------------------------
(* Strictly valid policy sets over Sc2 shared by the TPE, batched and slicing generators. *)
EXTENDS PolicyPool, Json, IOUtils

WhenP(s, e) == Pol(s, <<<<"when", e>>>>)
XC(f, args) == <<"call", f, args>>
\* strictly valid policies (checked against the real validator each run: an invalid one is a harness error)
TP == <<
  WhenP(3, Conn(1, Guard(1), TT_, Use(1))), WhenP(3, Conn(1, Guard(2), TT_, Use(2))), WhenP(3, Conn(1, Guard(3), TT_, Use(3))),
  WhenP(3, Conn(1, Guard(4), TT_, Use(4))), WhenP(3, Conn(1, Guard(5), TT_, Use(5))), WhenP(1, Conn(1, Guard(6), TT_, Use(6))),
  WhenP(3, Conn(1, Guard(7), TT_, Use(7))), WhenP(2, Use(8)), WhenP(3, Conn(1, Guard(9), TT_, Use(9))), WhenP(3, Conn(1, Guard(10), TT_, Use(10))),
  WhenP(3, Conn(7, Guard(1), TT_, Use(1))), WhenP(5, Conn(7, Guard(6), TT_, Use(6))), WhenP(2, Conn(10, Guard(5), TT_, Use(5))),
  WhenP(2, Probes[3][1]), WhenP(1, Probes[10][1]), WhenP(2, Probes[15][1]), WhenP(2, Probes[16][1]), WhenP(3, Probes[17][1]),
  WhenP(2, Probes[19][1]), WhenP(4, TT_), WhenP(2, FF_), WhenP(5, TT_),
  \* an error-capable operand (overflow / record-less entity) on either side of a comparison, next to a constant that
  \* partial evaluation may already know: the comparison must not be folded away
  WhenP(1, And_(H_(Pv, "mgr"), Or_(B_("less", LitL(5), B_("add", G_(G_(Pv, "mgr"), "n"), LitL(1))), G_(Cv, "flag")))),
  WhenP(1, And_(H_(Pv, "mgr"), And_(B_("lessEq", LitL(5), G_(G_(Pv, "mgr"), "n")), Not_(G_(Cv, "flag"))))),
  WhenP(1, And_(H_(Pv, "mgr"), Or_(B_("less", B_("add", G_(G_(Pv, "mgr"), "n"), LitL(1)), LitL(5)), G_(Cv, "flag")))),
  WhenP(1, Or_(B_("eq", G_(Pv, "n"), B_("mul", G_(G_(Rv, "owner"), "n"), LitL(2))), G_(Cv, "flag"))),
  WhenP(1, And_(B_("eq", LitL(0), B_("sub", LitL(0), B_("add", G_(G_(Rv, "owner"), "n"), LitL(1)))), Not_(G_(Cv, "flag")))),
  \* membership in a SET of entities, incl. the reflexive case with no declared hierarchy between the types
  WhenP(2, B_("in", Pv, <<"set", <<<<"lit", TU1>>, <<"lit", TU2>>>>>>)),
  WhenP(2, B_("in", Pv, <<"set", <<G_(Rv, "owner"), <<"lit", TU2>>>>>>)),
  WhenP(2, B_("in", G_(Rv, "owner"), <<"set", <<Pv>>>>)),
  WhenP(2, B_("in", Pv, <<"set", <<<<"lit", TG>>, <<"lit", TG2>>>>>>)),
  \* string-typed data: computed tag keys, like, equality of strings reached through entity references
  WhenP(3, Conn(1, Guard(11), TT_, Use(11))), WhenP(3, Conn(1, Guard(12), TT_, Use(12))),
  WhenP(2, <<"like", G_(G_(Rv, "owner"), "s"), <<107, Star>>>>), WhenP(2, B_("eq", G_(Pv, "s"), G_(G_(Rv, "owner"), "s"))),
  WhenP(2, And_(H_(Pv, "mgr"), B_("hasTag", Pv, G_(G_(Pv, "mgr"), "s")))),
  \* extension arithmetic around zero and before the epoch (floor / truncate conventions)
  WhenP(2, B_("eq", XC("toTime", <<XC("datetime", <<LitS(<<49, 57, 54, 57, 45, 49, 50, 45, 51, 49>>)>>)>>), XC("duration", <<LitS(<<48, 109, 115>>)>>))),   \* midnight before the epoch: 0ms, not a whole day
  WhenP(2, B_("less", XC("toTime", <<XC("datetime", <<LitS(<<49, 57, 54, 57, 45, 49, 50, 45, 51, 49, 84, 50, 51, 58, 53, 57, 58, 53, 57, 46, 57, 57, 57, 90>>)>>)>>), XC("duration", <<LitS(<<49, 100>>)>>))),
  WhenP(2, B_("eq", XC("toDate", <<XC("datetime", <<LitS(<<49, 57, 54, 57, 45, 49, 50, 45, 51, 49, 84, 48, 48, 58, 48, 48, 58, 48, 49, 90>>)>>)>>), XC("datetime", <<LitS(<<49, 57, 54, 57, 45, 49, 50, 45, 51, 49>>)>>))),
  WhenP(2, B_("eq", XC("offset", <<XC("toDate", <<XC("datetime", <<LitS(<<49, 57, 54, 48, 45, 48, 50, 45, 50, 57, 84, 49, 50, 58, 51, 48, 58, 48, 48, 45, 48, 53, 48, 48>>)>>)>>), XC("toTime", <<XC("datetime", <<LitS(<<49, 57, 54, 48, 45, 48, 50, 45, 50, 57, 84, 49, 50, 58, 51, 48, 58, 48, 48, 45, 48, 53, 48, 48>>)>>)>>)>>), XC("datetime", <<LitS(<<49, 57, 54, 48, 45, 48, 50, 45, 50, 57, 84, 49, 55, 58, 51, 48, 58, 48, 48, 90>>)>>))),
  WhenP(2, B_("eq", XC("durationSince", <<XC("datetime", <<LitS(<<49, 57, 54, 57, 45, 49, 50, 45, 51, 49>>)>>), XC("datetime", <<LitS(<<49, 57, 55, 48, 45, 48, 49, 45, 48, 49>>)>>)>>), XC("duration", <<LitS(<<45, 49, 100>>)>>))),
  WhenP(2, XC("lessThan", <<XC("decimal", <<LitS(<<45, 48, 46, 48, 48, 48, 49>>)>>), XC("decimal", <<LitS(<<48, 46, 48>>)>>)>>)),
  WhenP(2, XC("greaterThanOrEqual", <<XC("decimal", <<LitS(<<57, 50, 50, 51, 51, 55, 50, 48, 51, 54, 56, 53, 52, 55, 55, 46, 53, 56, 48, 55>>)>>), XC("decimal", <<LitS(<<45, 57, 50, 50, 51, 51, 55, 50, 48, 51, 54, 56, 53, 52, 55, 55, 46, 53, 56, 48, 56>>)>>)>>)),
  WhenP(2, B_("eq", XC("toSeconds", <<XC("duration", <<LitS(<<45, 49, 115, 53, 48, 48, 109, 115>>)>>)>>), LitL(0 - 1))),   \* truncation toward zero
  WhenP(2, B_("lessEq", XC("duration", <<LitS(<<45, 49, 100>>)>>), XC("duration", <<LitS(<<45, 50, 51, 104, 53, 57, 109, 53, 57, 115, 57, 57, 57, 109, 115>>)>>))),
  \* whole records compared: every attribute of the record type matters, optional ones included
  WhenP(2, B_("eq", G_(Pv, "rec"), G_(G_(Rv, "owner"), "rec"))),
  WhenP(2, B_("contains", <<"set", <<G_(G_(Rv, "owner"), "rec"), G_(<<"lit", TU2>>, "rec")>>>>, G_(Pv, "rec"))),
  \* extension values built from literals (no schema support needed): ranges with a CIDR receiver, decimals, datetimes
  WhenP(2, XC("isInRange", <<XC("ip", <<LitS(<<49, 48, 46, 48, 46, 48, 46, 48, 47, 56>>)>>), XC("ip", <<LitS(<<49, 48, 46, 48, 46, 48, 46, 48, 47, 49, 54>>)>>)>>)),   \* 10.0.0.0/8 in 10.0.0.0/16
  WhenP(2, XC("isInRange", <<XC("ip", <<LitS(<<49, 48, 46, 48, 46, 48, 46, 48, 47, 49, 54>>)>>), XC("ip", <<LitS(<<49, 48, 46, 48, 46, 48, 46, 48, 47, 56>>)>>)>>)),   \* 10.0.0.0/16 in 10.0.0.0/8
  WhenP(2, XC("isInRange", <<XC("ip", <<LitS(<<49, 48, 46, 48, 46, 48, 46, 49>>)>>), XC("ip", <<LitS(<<49, 48, 46, 48, 46, 48, 46, 48, 47, 56>>)>>)>>)),   \* 10.0.0.1 in 10.0.0.0/8
  WhenP(2, XC("isInRange", <<XC("ip", <<LitS(<<49, 57, 50, 46, 49, 54, 56, 46, 48, 46, 55, 55, 47, 49, 54>>)>>), XC("ip", <<LitS(<<49, 57, 50, 46, 49, 54, 56, 46, 48, 46, 48, 47, 50, 52>>)>>)>>)),   \* 192.168.0.77/16 in 192.168.0.0/24
  WhenP(2, XC("isInRange", <<XC("ip", <<LitS(<<50, 48, 48, 49, 58, 100, 98, 56, 58, 58, 47, 51, 50>>)>>), XC("ip", <<LitS(<<50, 48, 48, 49, 58, 100, 98, 56, 58, 58, 47, 52, 56>>)>>)>>)),   \* 2001:db8::/32 in 2001:db8::/48
  WhenP(2, XC("isInRange", <<XC("ip", <<LitS(<<58, 58, 49>>)>>), XC("ip", <<LitS(<<58, 58, 47, 48>>)>>)>>)),   \* ::1 in ::/0
  WhenP(2, XC("lessThan", <<XC("decimal", <<LitS(<<49, 46, 53>>)>>), XC("decimal", <<LitS(<<50, 46, 48>>)>>)>>)),
  WhenP(2, And_(XC("isLoopback", <<XC("ip", <<LitS(<<49, 50, 55, 46, 48, 46, 48, 46, 49, 47, 56>>)>>)>>), Not_(XC("isMulticast", <<XC("ip", <<LitS(<<49, 48, 46, 48, 46, 48, 46, 48, 47, 56>>)>>)>>)))),
  WhenP(2, B_("less", XC("datetime", <<LitS(<<50, 48, 50, 52, 45, 48, 49, 45, 48, 49>>)>>), XC("offset", <<XC("datetime", <<LitS(<<50, 48, 50, 51, 45, 49, 50, 45, 51, 49>>)>>), XC("duration", <<LitS(<<50, 100>>)>>)>>))),
  WhenP(2, And_(Probes[16][1], Conn(1, Guard(2), TT_, Use(2)))), WhenP(2, Or_(B_("eq", G_(Rv, "owner"), Pv), Conn(1, Guard(4), TT_, Use(4))))
>>
NTP == Len(TP)
WithId(p, id, eff) == [p EXCEPT !.id = id, !.effect = eff]
\* template links: two links of ONE template (shared tid), one of which binds the slot to an entity whose type makes the
\* scope unsatisfiable (a principal is never `in` a Doc), in both insertion orders, alone and next to a static forbid
Lnk(id, slotv, body) == [id |-> id, effect |-> "permit", principal |-> <<"inslot">>, action |-> <<"eq", TView>>, resource |-> AnyC,
                         conds |-> <<<<"when", body>>>>, slots |-> [principal |-> slotv], template |-> TRUE, tid |-> "T"]
LnkBodies == <<G_(Cv, "flag"), Conn(1, Guard(1), TT_, Use(1)), B_("eq", G_(Rv, "owner"), Pv)>>
LinkSets == UNION {{<<Lnk("p1", TD, b), Lnk("p2", TG, b)>>, <<Lnk("p1", TG, b), Lnk("p2", TD, b)>>, <<Lnk("p1", TG2, b), Lnk("p2", TG, b)>>,
                    <<Lnk("p1", TD, b), Lnk("p2", TG, b), WithId(TP[21], "p3", "forbid")>>} : b \in {LnkBodies[i] : i \in 1..Len(LnkBodies)}}
\* with RANDPOLS=<file> in the environment the sets are read from that file instead: ndjson lines {"pols": [...]} of
\* strictly valid random policies produced by the harness generator gen_typed.rs (the wire form IS the abstract form)
RandSets(dummy) == LET recs == ndJsonDeserialize(IOEnv.RANDPOLS) IN {recs[i].pols : i \in 1..Len(recs)}
BuiltinSets(dummy) == {<<WithId(TP[i], "p1", TP[i].effect)>> : i \in 1..NTP}
           \cup {<<WithId(TP[i], "p1", "permit"), WithId(TP[j], "p2", "forbid")>> : i \in 1..NTP, j \in {1, 4, 6, 14, 20, 21}}
           \cup {<<WithId(TP[i], "p1", "permit"), WithId(TP[20], "p2", "permit"), WithId(TP[j], "p3", "forbid")>> : i \in {2, 8, 16}, j \in {3, 7, 17}}
SetHash(x) == IF x[1].conds = <<>> THEN Len(x) ELSE Len(x) + Len(x[1].conds[1][2])
PolSets == IF "RANDPOLS" \in DOMAIN IOEnv THEN RandSets(0) ELSE BuiltinSets(0)
\* ... plus the template-link sets (TPE and permission queries)
PolSetsL == IF "RANDPOLS" \in DOMAIN IOEnv THEN RandSets(0) ELSE BuiltinSets(0) \cup LinkSets

==============================================================================
