//! family "ext" (C07): extension-type heavy cases.  Replay is the evaluation
//! family's `run` (one expression, every arrival path); `drive` produces random
//! constructor strings composed from the part tables of DESIGN.md C07 with
//! random single-character mutations, and random operation expressions over
//! them and over represented values arriving through the request context.
//! The harness never interprets extension values; TLC recomputes everything.

use crate::abs::{i64_to_wire, str_to_wire};
use crate::gen::Gen;
use rand::Rng;
use serde_json::{json, Map, Value as J};

pub use crate::fam_eval::run;

fn lit_s(x: &str) -> J {
    json!(["lit", ["str", str_to_wire(x)]])
}
fn call(f: &str, args: Vec<J>) -> J {
    json!(["call", f, args])
}
fn ctor(f: &str, x: &str) -> J {
    call(f, vec![lit_s(x)])
}
fn bin(op: &str, a: J, b: J) -> J {
    json!(["bin", op, a, b])
}
fn ctx(attr: &str) -> J {
    json!(["get", ["var", "context"], attr])
}

const EDGE: [i64; 14] = [
    0, 1, -1, i64::MAX, i64::MIN, i64::MAX - 1, i64::MIN + 1, 86_400_000, -86_400_000, 86_399_999,
    -86_400_001, 999, -1000, -9_223_372_036_828_800_000,
];
const MUT_ALPHABET: &[u8] = b"0123456789.-+:/TZdhms a_fF\n";

struct X<'a> {
    g: &'a mut Gen,
}

impl X<'_> {
    fn p<'b>(&mut self, xs: &'b [&'b str]) -> &'b str {
        xs[self.g.rng.gen_range(0..xs.len())]
    }
    fn digits(&mut self, n: usize) -> String {
        (0..n).map(|_| char::from(b'0' + self.g.rng.gen_range(0..10u8))).collect()
    }
    fn i64v(&mut self) -> i64 {
        match self.g.rng.gen_range(0..4) {
            0 => *self.g.pick(&EDGE),
            1 => self.g.rng.gen_range(-200_000..200_000),
            2 => self.g.rng.gen_range(-200_000_000_000..200_000_000_000),
            _ => self.g.rng.gen(),
        }
    }

    /// one random single-character mutation (delete, duplicate, replace, insert, swap)
    fn mutate(&mut self, s: String) -> String {
        let mut cs: Vec<char> = s.chars().collect();
        let r = char::from(*self.g.pick(MUT_ALPHABET));
        if cs.is_empty() {
            return r.to_string();
        }
        let i = self.g.rng.gen_range(0..cs.len());
        match self.g.rng.gen_range(0..6) {
            5 => {
                // a look-alike of the same Unicode class: digits of other scripts, full-width forms, odd spaces and dashes
                cs[i] = match cs[i] {
                    d @ '0'..='9' => {
                        let k = d as u32 - '0' as u32;
                        char::from_u32(*self.g.pick(&[0xFF10u32, 0x0660, 0x0966, 0x1D7CE]) + k).unwrap_or(d)
                    }
                    c @ ('a'..='z' | 'A'..='Z') => char::from_u32(0xFF00 + c as u32 - 0x20).unwrap_or(c),
                    ' ' => *self.g.pick(&['\u{a0}', '\u{2028}', '\u{3000}', '\u{200b}']),
                    '-' => *self.g.pick(&['\u{2212}', '\u{2010}', '\u{ff0d}']),
                    '+' => '\u{ff0b}',
                    ':' => '\u{ff1a}',
                    '.' => *self.g.pick(&['\u{ff0e}', '\u{3002}']),
                    '/' => '\u{2215}',
                    c => c,
                };
            }
            0 => {
                cs.remove(i);
            }
            1 => cs.insert(i, cs[i]),
            2 => cs[i] = r,
            3 => cs.insert(i, r),
            _ => {
                if i + 1 < cs.len() {
                    cs.swap(i, i + 1)
                }
            }
        }
        cs.into_iter().collect()
    }
    fn maybe_mut(&mut self, s: String) -> String {
        if self.g.chance(30) {
            self.mutate(s)
        } else {
            s
        }
    }

    // ------------------------------------------------------------ strings
    fn dec_str(&mut self) -> String {
        let sign = self.p(&["", "", "", "-", "-", "+"]);
        let ip = match self.g.rng.gen_range(0..4) {
            0 => self.p(&["0", "00", "1", "922337203685477", "922337203685478", "922337203685476", "", "000000000000000000000001"]).to_string(),
            1 => {
                let n = self.g.rng.gen_range(1..19);
                self.digits(n)
            }
            _ => {
                let n = self.g.rng.gen_range(1..4);
                self.digits(n)
            }
        };
        let fp = match self.g.rng.gen_range(0..3) {
            0 => self.p(&["0", "5", "5807", "5808", "5806", "0001", "9999", "00001", "0000", ""]).to_string(),
            _ => {
                let n = self.g.rng.gen_range(1..6);
                self.digits(n)
            }
        };
        let dot = if self.g.chance(95) { "." } else { "" };
        format!("{sign}{ip}{dot}{fp}")
    }

    fn v4_addr(&mut self) -> String {
        let n = if self.g.chance(92) { 4 } else { self.g.rng.gen_range(3..6) };
        (0..n)
            .map(|_| {
                if self.g.chance(70) {
                    self.p(&["0", "1", "9", "10", "01", "127", "128", "126", "223", "224", "239", "240", "255", "256", "00", ""]).to_string()
                } else {
                    self.g.rng.gen_range(0..300).to_string()
                }
            })
            .collect::<Vec<_>>()
            .join(".")
    }
    fn v6_addr(&mut self) -> String {
        let dc = self.g.chance(60);
        let total = if dc { self.g.rng.gen_range(0..9) } else if self.g.chance(90) { 8 } else { self.g.rng.gen_range(6..10) };
        let groups: Vec<String> = (0..total)
            .map(|_| {
                if self.g.chance(75) {
                    self.p(&["0", "1", "ffff", "FFFF", "ff00", "ff02", "feff", "7f00", "8000", "0001", "00001", "g", "", "a", "Ab9", "1.2.3.4"]).to_string()
                } else {
                    format!("{:x}", self.g.rng.gen_range(0..0x10000))
                }
            })
            .collect();
        if dc {
            let k = self.g.rng.gen_range(0..=groups.len());
            format!("{}::{}", groups[..k].join(":"), groups[k..].join(":"))
        } else {
            groups.join(":")
        }
    }
    fn prefix(&mut self, v6: bool) -> String {
        if self.g.chance(35) {
            return String::new();
        }
        if self.g.chance(65) {
            let t: &[&str] = if v6 {
                &["/0", "/1", "/7", "/8", "/9", "/16", "/63", "/64", "/65", "/127", "/128", "/129", "/00", "/064", "/"]
            } else {
                &["/0", "/1", "/3", "/4", "/5", "/7", "/8", "/9", "/24", "/31", "/32", "/33", "/00", "/08", "/128", "/"]
            };
            self.p(t).to_string()
        } else {
            format!("/{}", self.g.rng.gen_range(0..140))
        }
    }
    fn ip_str(&mut self) -> String {
        let v6 = self.g.chance(45);
        let a = if v6 { self.v6_addr() } else { self.v4_addr() };
        let p = self.prefix(v6);
        format!("{a}{p}")
    }

    fn two(&mut self, table: &[&str], hi: u32) -> String {
        if self.g.chance(50) {
            self.p(table).to_string()
        } else {
            format!("{:02}", self.g.rng.gen_range(0..hi))
        }
    }
    fn dt_str(&mut self) -> String {
        let y = if self.g.chance(70) {
            self.p(&["0000", "0001", "0004", "0100", "0400", "1600", "1900", "1969", "1970", "1999", "2000", "2023", "2024", "2100", "9999"]).to_string()
        } else {
            self.digits(4)
        };
        let mo = self.two(&["01", "02", "02", "03", "04", "12", "00", "13"], 14);
        let d = self.two(&["01", "28", "29", "30", "31", "32", "00"], 33);
        let mut s = format!("{y}-{mo}-{d}");
        if self.g.chance(75) {
            let hh = self.two(&["00", "12", "23", "24"], 25);
            let mm = self.two(&["00", "30", "59", "60"], 61);
            let ss = self.two(&["00", "30", "59", "60"], 61);
            s.push_str(&format!("T{hh}:{mm}:{ss}"));
            if self.g.chance(50) {
                let n = if self.g.chance(85) { 3 } else { self.g.rng.gen_range(1..5) };
                s.push('.');
                s.push_str(&self.digits(n));
            }
            if self.g.chance(50) {
                s.push_str(self.p(&["Z", "Z", "Z", "", "z"]));
            } else {
                let sg = self.p(&["+", "-"]);
                let oh = self.two(&["00", "01", "12", "23", "24"], 25);
                let om = self.two(&["00", "30", "59", "60"], 61);
                s.push_str(&format!("{sg}{oh}{om}"));
            }
        }
        s
    }

    fn dur_str(&mut self) -> String {
        let units = ["d", "h", "m", "s", "ms"];
        let edge_ok = ["106751991167", "2562047788015", "153722867280912", "9223372036854775", "9223372036854775807"];
        let edge_over = ["106751991168", "2562047788016", "153722867280913", "9223372036854776", "9223372036854775808"];
        let mut parts: Vec<String> = vec![];
        for i in 0..5 {
            if self.g.chance(45) {
                let q = match self.g.rng.gen_range(0..8) {
                    0 => edge_ok[i].to_string(),
                    1 => edge_over[i].to_string(),
                    2 => "0".to_string(),
                    3 => {
                        let n = self.g.rng.gen_range(1..21);
                        self.digits(n)
                    }
                    _ => self.g.rng.gen_range(0..2000).to_string(),
                };
                parts.push(format!("{q}{}", units[i]));
            }
        }
        if self.g.chance(10) && parts.len() >= 2 {
            let i = self.g.rng.gen_range(0..parts.len() - 1);
            parts.swap(i, i + 1);
        }
        if self.g.chance(5) && !parts.is_empty() {
            let i = self.g.rng.gen_range(0..parts.len());
            parts.push(parts[i].clone());
        }
        let sign = self.p(&["", "", "-", "-", "+"]);
        format!("{sign}{}", parts.concat())
    }

    // ------------------------------------------------------------ expressions
    fn dec(&mut self) -> J {
        let s = self.dec_str();
        ctor("decimal", &self.maybe_mut(s))
    }
    fn ip(&mut self) -> J {
        let s = self.ip_str();
        ctor("ip", &self.maybe_mut(s))
    }
    fn dur(&mut self) -> J {
        if self.g.chance(30) {
            let n = self.i64v();
            return ctor("duration", &format!("{n}ms"));
        }
        let s = self.dur_str();
        ctor("duration", &self.maybe_mut(s))
    }
    fn dt(&mut self) -> J {
        if self.g.chance(25) {
            let n = self.i64v();
            return call("offset", vec![ctor("datetime", "1970-01-01"), ctor("duration", &format!("{n}ms"))]);
        }
        let s = self.dt_str();
        ctor("datetime", &self.maybe_mut(s))
    }
    fn other(&mut self) -> J {
        match self.g.rng.gen_range(0..4) {
            0 => json!(["lit", ["long", i64_to_wire(self.g.rng.gen_range(-2..3))]]),
            1 => lit_s(self.p(&["1.0", "::1", "1970-01-01", "1ms", ""])),
            2 => json!(["lit", ["bool", true]]),
            _ => json!(["set", []]),
        }
    }
    /// an expression of extension type `ty` (0 decimal, 1 ip, 2 datetime, 3 duration), with slips
    fn of(&mut self, ty: u32) -> J {
        let ty = if self.g.chance(6) { self.g.rng.gen_range(0..5) } else { ty };
        match ty {
            0 => self.dec(),
            1 => self.ip(),
            2 => match self.g.rng.gen_range(0..8) {
                0 => call("toDate", vec![self.dt()]),
                1 => call("offset", vec![self.dt(), self.dur()]),
                _ => self.dt(),
            },
            3 => match self.g.rng.gen_range(0..8) {
                0 => call("toTime", vec![self.dt()]),
                1 => call("durationSince", vec![self.dt(), self.dt()]),
                _ => self.dur(),
            },
            _ => self.other(),
        }
    }

    fn respelled_pair(&mut self) -> (J, J) {
        match self.g.rng.gen_range(0..4) {
            0 => {
                // decimal: trailing fraction zeros / leading integer zeros do not change the value
                let ip = self.g.rng.gen_range(0..3000);
                let n = self.g.rng.gen_range(1..4);
                let fp = self.digits(n);
                let sg = self.p(&["", "-"]);
                let z = "0".repeat(self.g.rng.gen_range(0..3));
                let t = "0".repeat(self.g.rng.gen_range(0..=(4 - n)));
                (ctor("decimal", &format!("{sg}{ip}.{fp}")), ctor("decimal", &format!("{sg}{z}{ip}.{fp}{t}")))
            }
            1 => {
                // duration: the same amount in different units
                let d = self.g.rng.gen_range(0..400i64);
                let h = self.g.rng.gen_range(0..30i64);
                let ms = self.g.rng.gen_range(0..5000i64);
                let total = d * 86_400_000 + h * 3_600_000 + ms;
                let sg = self.p(&["", "-"]);
                (ctor("duration", &format!("{sg}{d}d{h}h{ms}ms")), ctor("duration", &format!("{sg}{total}ms")))
            }
            2 => {
                // datetime: an offset spelling and the UTC spelling of the same instant
                let oh = self.g.rng.gen_range(0..24i64);
                let om = self.g.rng.gen_range(0..60i64);
                let h = self.g.rng.gen_range(0..24i64);
                let m = self.g.rng.gen_range(0..60i64);
                let off = oh * 60 + om;
                let plus = self.g.chance(50);
                let local = format!("2024-03-01T{h:02}:{m:02}:00{}{oh:02}{om:02}", if plus { "+" } else { "-" });
                let shift = (if plus { -off } else { off }) * 60_000;
                (
                    ctor("datetime", &local),
                    call("offset", vec![ctor("datetime", &format!("2024-03-01T{h:02}:{m:02}:00Z")), ctor("duration", &format!("{shift}ms"))]),
                )
            }
            _ => {
                // ip: compressed and full spelling
                let a = self.g.rng.gen_range(0..0x10000);
                let b = self.g.rng.gen_range(0..0x10000);
                let p = self.g.rng.gen_range(0..129);
                (ctor("ip", &format!("{a:x}::{b:X}/{p}")), ctor("ip", &format!("{a:04x}:0:0:0:0:0:0:{b:x}/{p}")))
            }
        }
    }

    fn prefix_pair(&mut self) -> J {
        if self.g.chance(60) {
            let a: [u32; 4] = [self.g.rng.gen_range(0..256), self.g.rng.gen_range(0..256), self.g.rng.gen_range(0..256), self.g.rng.gen_range(0..256)];
            let mut b = a;
            if self.g.chance(70) {
                let bit: usize = self.g.rng.gen_range(0..32);
                b[bit / 8] ^= 1 << (7 - bit % 8);
            }
            let (p, q) = (self.g.rng.gen_range(0..33), self.g.rng.gen_range(0..33));
            call(
                "isInRange",
                vec![
                    ctor("ip", &format!("{}.{}.{}.{}/{p}", a[0], a[1], a[2], a[3])),
                    ctor("ip", &format!("{}.{}.{}.{}/{q}", b[0], b[1], b[2], b[3])),
                ],
            )
        } else {
            let a: Vec<u32> = (0..8).map(|_| self.g.rng.gen_range(0..0x10000)).collect();
            let mut b = a.clone();
            if self.g.chance(70) {
                let bit: usize = self.g.rng.gen_range(0..128);
                b[bit / 16] ^= 1 << (15 - bit % 16);
            }
            let (p, q) = (self.g.rng.gen_range(0..129), self.g.rng.gen_range(0..129));
            let sp = |v: &[u32]| v.iter().map(|x| format!("{x:x}")).collect::<Vec<_>>().join(":");
            call("isInRange", vec![ctor("ip", &format!("{}/{p}", sp(&a))), ctor("ip", &format!("{}/{q}", sp(&b)))])
        }
    }

    fn expr(&mut self) -> J {
        match self.g.rng.gen_range(0..16) {
            0 | 1 => {
                // a bare constructor, observed through the operations
                let ty = self.g.rng.gen_range(0..4);
                let k = match ty {
                    0 => self.dec(),
                    1 => self.ip(),
                    2 => self.dt(),
                    _ => self.dur(),
                };
                let mut m = Map::new();
                m.insert("a".into(), k.clone());
                match ty {
                    0 => {
                        m.insert("b".into(), call("lessThan", vec![k.clone(), self.dec()]));
                        m.insert("c".into(), call("greaterThanOrEqual", vec![k, ctor("decimal", "0.0")]));
                    }
                    1 => {
                        m.insert("b".into(), call("isLoopback", vec![k.clone()]));
                        m.insert("c".into(), call("isMulticast", vec![k.clone()]));
                        m.insert("d".into(), call("isIpv4", vec![k]));
                    }
                    2 => {
                        m.insert("b".into(), call("toMilliseconds", vec![call("durationSince", vec![k.clone(), ctor("datetime", "1970-01-01")])]));
                        m.insert("c".into(), call("toDate", vec![k.clone()]));
                        m.insert("d".into(), call("toTime", vec![k]));
                    }
                    _ => {
                        m.insert("b".into(), call("toMilliseconds", vec![k.clone()]));
                        m.insert("c".into(), call("toDays", vec![k]));
                    }
                }
                json!(["record", m])
            }
            2 => {
                let f = self.p(&["lessThan", "lessThanOrEqual", "greaterThan", "greaterThanOrEqual"]).to_string();
                call(&f, vec![self.of(0), self.of(0)])
            }
            3 => call("isInRange", vec![self.of(1), self.of(1)]),
            4 => self.prefix_pair(),
            5 => {
                let f = self.p(&["isIpv4", "isIpv6", "isLoopback", "isMulticast"]).to_string();
                call(&f, vec![self.of(1)])
            }
            6 => call("offset", vec![self.of(2), self.of(3)]),
            7 => call("durationSince", vec![self.of(2), self.of(2)]),
            8 => {
                let f = self.p(&["toDate", "toTime"]).to_string();
                call(&f, vec![self.of(2)])
            }
            9 => {
                let f = self.p(&["toMilliseconds", "toSeconds", "toMinutes", "toHours", "toDays"]).to_string();
                call(&f, vec![self.of(3)])
            }
            10 | 11 => {
                let op = self.p(&["less", "lessEq", "eq"]).to_string();
                let ty = self.g.rng.gen_range(0..4);
                let t2 = if self.g.chance(85) { ty } else { self.g.rng.gen_range(0..5) };
                bin(&op, self.of(ty), self.of(t2))
            }
            12 | 13 => {
                let (a, b) = self.respelled_pair();
                match self.g.rng.gen_range(0..3) {
                    0 => bin("eq", a, b),
                    1 => json!(["bin", "contains", ["set", [a]], b]),
                    _ => json!(["isEmpty", ["set", [bin("eq", a.clone(), b.clone()), bin("eq", b, a)]]]),
                }
            }
            14 => {
                let d = self.of(2);
                bin("eq", call("offset", vec![call("toDate", vec![d.clone()]), call("toTime", vec![d.clone()])]), d)
            }
            _ => {
                let f = self.p(&["toMilliseconds", "toSeconds", "toMinutes", "toHours", "toDays"]).to_string();
                call(&f, vec![call("durationSince", vec![self.of(2), self.of(2)])])
            }
        }
    }

    // ------------------------------------------------------------ represented values through the context
    fn repr(&mut self, ty: u32) -> J {
        match ty {
            0 => json!(["ext", "decimal", i64_to_wire(self.i64v())]),
            2 => json!(["ext", "datetime", i64_to_wire(self.i64v())]),
            3 => json!(["ext", "duration", i64_to_wire(self.i64v())]),
            _ => {
                if self.g.chance(55) {
                    let first = if self.g.chance(50) { *self.g.pick(&[127u32, 126, 128, 224, 239, 240, 223, 10, 0, 255]) } else { self.g.rng.gen_range(0..256) };
                    let a: Vec<u32> = vec![first, self.g.rng.gen_range(0..3), self.g.rng.gen_range(0..256), self.g.rng.gen_range(0..256)];
                    json!(["ext", "ipaddr", 4, a, self.g.rng.gen_range(0..33)])
                } else {
                    let mut a: Vec<u32> = (0..8).map(|_| if self.g.chance(60) { 0 } else { self.g.rng.gen_range(0..0x10000) }).collect();
                    if self.g.chance(30) {
                        a[0] = *self.g.pick(&[0xff00u32, 0xff02, 0xfeff, 0xffff]);
                    }
                    if self.g.chance(20) {
                        a = vec![0, 0, 0, 0, 0, 0, 0, self.g.rng.gen_range(0..3)];
                    }
                    json!(["ext", "ipaddr", 6, a, *self.g.pick(&[0u32, 1, 7, 8, 9, 64, 127, 128, 128, 128])])
                }
            }
        }
    }
    fn ctx_case(&mut self) -> (J, J) {
        let ty = self.g.rng.gen_range(0..4);
        let (a, b) = (ctx("a"), ctx("b"));
        let (tb, e) = match ty {
            0 => {
                let f = self.p(&["lessThan", "lessThanOrEqual", "greaterThan", "greaterThanOrEqual"]).to_string();
                (0, if self.g.chance(25) { bin("eq", a, b) } else { call(&f, vec![a, b]) })
            }
            1 => match self.g.rng.gen_range(0..4) {
                0 => (1, bin("eq", a, b)),
                1 => {
                    let f = self.p(&["isLoopback", "isMulticast", "isIpv4", "isIpv6"]).to_string();
                    (1, call(&f, vec![a]))
                }
                _ => (1, call("isInRange", vec![a, b])),
            },
            2 => match self.g.rng.gen_range(0..5) {
                0 => (3, call("offset", vec![a, b])),
                1 => (2, call("durationSince", vec![a, b])),
                2 => (2, bin(self.p(&["less", "lessEq", "eq"]), a, b)),
                3 => (2, call("toDate", vec![a])),
                _ => (2, call("toTime", vec![a])),
            },
            _ => {
                if self.g.chance(40) {
                    (3, bin(self.p(&["less", "lessEq", "eq"]), a, b))
                } else {
                    let f = self.p(&["toMilliseconds", "toSeconds", "toMinutes", "toHours", "toDays"]).to_string();
                    (3, call(&f, vec![a]))
                }
            }
        };
        let va = self.repr(ty);
        let vb = if self.g.chance(15) { va.clone() } else { self.repr(tb) };
        (e, json!(["rec", {"a": va, "b": vb}]))
    }
}

pub fn drive(seed: u64, n: usize) -> Vec<J> {
    let mut g = Gen::new(seed ^ 0xC07);
    let mut x = X { g: &mut g };
    (0..n)
        .map(|i| {
            let (expr, context) = if i % 5 == 4 { x.ctx_case() } else { (x.expr(), json!(["rec", {}])) };
            json!({
                "id": i,
                "expr": expr,
                "req": {
                    "principal": ["ent", "User", "a"], "action": ["ent", "Action", "view"],
                    "resource": ["ent", "Doc", "d"], "context": context,
                },
                "store": [],
            })
        })
        .collect()
}
