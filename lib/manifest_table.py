HOOKS = dict(
    guard="verif-trace",
    enable="cargo test -p cedar-policy-core -p cedar-policy --lib --features verif-trace with CEDAR_VERIF_TRACE=<prefix> (the conformance harness itself links cedar-policy-core with the feature: C04 runs a random store driver with CEDAR_VERIF_TRACE set in both tiers and validates the recorded stage before repair_tc and the touched set with Trace_StoreHook.tla / EntityStoreRepair.tla; the repository tests run under the hooks in the thorough tier of C01 and C04, which validate the recorded store and authorizer events with Trace_StoreHook.tla / Trace_AuthzHook.tla)",
    baseline_off_cmd="cd /repo && cargo nextest run --workspace --no-fail-fast --test-threads 8 --offline || cargo test --workspace --no-fail-fast --offline",
    source_commits=["c7e2586", "ebb1a85", "b8bf9b0"],
    add_only=True,
)
ENGINES = [
    dict(name="tla-conform", path="/verif/check",
         serves_properties=["C01", "C02", "C04"],
         kind_free_text="TLA+ reference semantics + state machines in /verif/spec, checked by TLC; Rust conformance harness /verif/harness replays TLC-generated cases and records executions that TLC validates (Trace_*.tla)"),
]
NOTES = ("Every check: (M) TLC model-checks the spec module and its sanity theorems, (G) TLC-enumerated cases are executed on the real "
         "code, (T) seeded random executions are recorded, and every recorded event is re-judged by TLC against the specification; a canary "
         "corrupts accepted events and must be rejected. Exit 2 = tool trouble, never a violation.")

_MC = "model_checking"
CLAIMED = {
    "C01": dict(category=_MC,
                text="CedarAuthz.tla defines decision/reasons/errors; TLC enumerates every multiset of <=3 (quick) / <=4 (thorough) policies over 32 policy kinds "
                     "and checks the decision algebra on the model; each case is authorised by the real code under all insertion orders, id spellings, syntaxes, "
                     "entity orders and preceding calls, and every response is re-derived by TLC from the recorded inputs; plus random policy sets.",
                note="bounded: complete for the stated multiset size over the fixed body pool and World; random driver beyond. Trusts harness renderers/projections and TLC."),
    "C02": dict(category=_MC,
                text="CedarExpr.tla is an executable reference semantics (Eval) with error classes and evaluation order; TLC enumerates the full depth-1 operator x leaf product, "
                     "an error algebra for &&/||/if/!, set and hierarchy families and like-patterns, checks the property's prose as invariants on the spec, and every case "
                     "is evaluated by the real code through five arrival paths and re-judged by TLC; plus random deep expressions.",
                note="bounded by the leaf pools of spec/World.tla and nesting depth; extension functions beyond decimal are covered by C07. Trusts harness renderers/projections and TLC."),
}
CLAIMED["C04"] = dict(category=_MC,
    text="EntityStore.tla is the store as a state machine (direct parents + data version; ancestors = least fixed point of parent steps; add/upsert/remove/from/"
         "fromEnforce with their error outcomes). TLC explores every reachable store over 3 uids (complete for histories of any length at the design level) and "
         "emits every (state, op, argument) transition; the real Entities API replays them and random longer histories over up to 8 uids, and TLC re-derives each "
         "recorded Hoare triple and all pairwise is_ancestor_of / `in` / ancestors() observations from the abstract state.",
    note="complete over 3 uids with single-entry batches for the abstract model; conformance on a seeded sample (quick) or all (thorough) generated transitions plus random histories. "
         "The incremental repair algorithm itself is observed only through its results.")
NOT_APPLICABLE = {}
ENGINES[0]["serves_properties"] = ["C01", "C02", "C04", "C08"]
CLAIMED["C08"] = dict(category=_MC,
    text="PolicySetSM.tla is the policy set as a state machine (statics / templates / links as three disjoint maps; add, add_template, link with exact-slot guard, unlink, "
         "remove_static, remove_template, merge with and without renaming; failed operations leave the state unchanged) and PsBodies.tla gives a state its meaning "
         "(a link = its template with the entity substituted for the slot). TLC explores every reachable state over 3 ids with the design invariants (ids disjoint, every "
         "link has its template, links bind exactly the slots) and emits every (state, operation) pair; the real PolicySet replays them and random histories; TLC re-derives "
         "each recorded step, every view (public shadow maps, core set, get_linked_policies, lookups, counts) and the authorizer's answers on a request battery.",
    note="complete for the 3-id pool / <=3 ids bound at the design level; conformance on a seeded sample (quick) or all (thorough) of 161k generated pairs plus random histories over 4 ids. "
         "Bodies are recognised by annotation+effect; their conditions are checked through authorization.")
ENGINES[0]["serves_properties"].append("C11")
CLAIMED["C11"] = dict(category=_MC,
    text="Schema.tla defines inhabitation of schema types and ConformsEntity / ConformsRequest / context conformance as the conjunction of the property's requirement "
         "classes. TLC builds every conformant datum of a schema family over the optional-component product and every single-fault mutant, checks on the model that the "
         "mutation table is consistent (bases conform, faults are faults), and each datum is pushed through 9 entity entry points (from_entities, add, upsert, schema-built "
         "stores, JSON value/str, add_from_json, Entity::from_json) or 4 request/context entry points; TLC re-derives each verdict from the recorded datum.",
    note="one schema family (Sc1: required/optional attrs, nested record, sets, entity refs, enum type, tags, diamond membership, action groups); data universe as generated. "
         "Trusts the harness's JSON-schema and entity-JSON renderers and TLC.")
ENGINES[0]["serves_properties"].append("C03")
CLAIMED["C03"] = dict(category=_MC,
    text="The validator is specified by what it promises (TypedWorld.tla / Trace_Validate.tla): accepted => on every conformant environment the reference semantics yields a boolean "
         "or only noEntity/overflow/ext errors; impossible => never satisfied; strict => permissive; and a syntactically defined must-accept fragment (documented has/hasTag guard "
         "patterns) is accepted. TLC generates ~2900 policies (atoms x guards x connectives x scopes + type probes) over schema Sc2, proves the must-accept fragment sound on the model, "
         "and for every policy recomputes its outcome class on all 960 conformant environments, comparing with the real evaluator's classes and the real validator's verdicts.",
    note="bounded: one schema and its 960-environment universe, generated programs only; environments are accepted by the library's own validation (checked each run). "
         "Typed ASTs (static type of every evaluated subexpression) are checked on a quarter of the universe in the quick tier and all of it in the thorough tier.")
ENGINES[0]["serves_properties"].append("C13")
CLAIMED["C13"] = dict(category=_MC,
    text="Partial.tla states the soundness relation of partial authorization over completions (decision in {None, Decision(c)}; must <= Reasons(c) <= may; definitely "
         "satisfied/errored/false policies have that outcome; reauthorize(c) = authorize(c)). TLC generates ~23500 policy sets whose conditions mix known atoms of every error "
         "class with atoms over unknown principal/resource/context-attribute/entity-attribute values in 6 unknown modes, with the complete completion set of each mode; the real "
         "is_authorized_partial, reauthorize_with_bindings and is_authorized are run and TLC re-derives the reference answer for every completion.",
    note="bounded by the atom pools, 6 modes and the completion domains of MC_Partial.tla; partial entity stores are covered by MC_PartialStore (one of three entities missing from a store marked partial, 18 atoms about the missing entity, its possible records or absence as completions); an unknown action is not generated. Residual shapes are never compared.")
ENGINES[0]["serves_properties"].append("C14")
CLAIMED["C14"] = dict(category=_MC,
    text="TPE is specified by its soundness relation over consistent completions (Trace_Tpe.tla over TypedWorld.tla): definite decision and true/false/error classes hold on every "
         "completion; each residual, evaluated by the reference semantics, has the outcome of its original on every completion; the views policies / policy_set / get_policy / "
         "residual_policies present the same residuals; reauthorize equals the reference response. TLC enumerates 178 strictly valid policy sets x 4 base environments x every "
         "erasure of <=2 unknown components with the complete completion sets (26196 cases); the real tpe()/reauthorize are run on each.",
    note="completions range over the 1920-environment model universe; permission queries (query_resource / query_principal = exactly the candidates the reference authorizer allows; query_action never omits an allowed action, never "
         "labels one it should not) over 178 sets x 192 base environments; random strictly valid policy sets from the type-directed generator go through the same generators each run. A genuine defect found by this check "
         "(policy_set returned originals) was repaired in /repo commit 5ae75d7.")
ENGINES[0]["serves_properties"].append("C15")
CLAIMED["C15"] = dict(category=_MC,
    text="Batched.tla is the loader-driven loop as a state machine (loaded set, iteration count, Iterate/Finish) with the property's four clauses over the outcomes for budgets 0..n "
         "(a reported decision is the ordinary one; small budgets say 'insufficient'; decisions persist under larger budgets; a budget above the number of distinct uids decides). "
         "TLC model-checks the abstract loop, generates 4272 (policy set, environment, loader behaviour) cases, and validates for each the outcomes of all budgets 0..9 and the "
         "recorded loader calls of the real is_authorized_batched against the state machine, with the expected decision re-derived by the reference semantics.",
    note="8 environments x 178 valid policy sets x 3 deterministic loaders (exact / prefetch-all / one extra per call); the harness loader never returns an entity twice.")
ENGINES[0]["serves_properties"] += ["C16", "C17"]
CLAIMED["C16"] = dict(category=_MC,
    text="Slicing.tla defines the level-n slice (entities within n attribute/tag hops of the request's principal, action, resource and context uids, with their data and ancestors) and "
         "adequacy (same decision, reasons and errors as over the full store). TLC generates 300 strictly valid policy sets that put dereference chains of depth 1-4 in every "
         "syntactic context, computes the slices for 10 conformant environments and n = 0..4, and checks for the real validate_with_level verdicts: accepted(n) => the slice is "
         "adequate on every environment, accepted(n) => accepted(n+1); the real authorizer's responses on the slices must equal the reference.",
    note="the literal (weaker) reading of 'within n hops'; one schema, 10 environments, generated programs only.")
CLAIMED["C17"] = dict(category=_MC,
    text="The manifest is a black box; Slicing.tla states adequacy of the store it slices. For the same 300 policy sets and 10 environments the real compute_entity_manifest and "
         "slice_entities are run; TLC checks that a manifest exists for every strictly valid set (except the documented, explicit refusal for policies using entity tags), that the "
         "sliced store is a sub-store (nothing invented), and that reference authorization over it - and the real response over it - equal the full-store response.",
    note="feature entity-manifest (deprecated upstream, still in scope); policies using tags are refused by the analysis with an explicit error and are therefore outside the claim.")
ENGINES[0]["serves_properties"].append("C19")
CLAIMED["C19"] = dict(category=_MC,
    text="Ffi.tla is the JSON/FFI front end with its thread-local caches as a state machine (preparse registers a source iff it parses and changes nothing on failure; a stateful call "
         "answers what the stateless call with the registered sources inlined answers; a stateless call answers what the Rust API answers: failure for unparsable sources, an "
         "undeclared action under a schema, or a non-conformant request when validateRequest, otherwise the reference response). TLC explores all 400 cache states over 2 names and "
         "emits all 32000 (state, operation) pairs; each runs as a history with fresh names through preparse_policy_set / preparse_schema / stateful_is_authorized / "
         "is_authorized_json and the Rust API; TLC folds the machine over each recorded history.",
    note="complete for the 2-name cache at the design level; conformance on a seeded sample (quick) or all pairs (thorough) plus random histories over 4 names. "
         "Front.tla states the stateless front ends (FFI validate / check_parse / policy and schema conversions / format, and the cedar CLI's authorize / validate / "
         "check-parse / format / translate-policy / translate-schema / link: exit status, printed decision, determining and erroring ids) as functions of abstract sources; 7782 "
         "TLC-enumerated cases run through cedar_policy::ffi, the plain API and the cedar binary built from /repo's tree; every answer is judged against the spec function and the API answer. "
         "Each authorize / validate / check_parse / format case goes through every entry point of the call (typed, JSON value, JSON string): they must present one answer, else the event "
         "records 'split', which no specification answer equals; authorize cases also go to is_authorized_partial_json, whose decision on a call without unknowns must be the specification's.")
ENGINES[0]["serves_properties"] += ["C07", "C18"]
CLAIMED["C07"] = dict(category=_MC,
    text="CedarExt.tla specifies the four extension types: acceptors as explicit grammars over code points (decimal, IPv4/IPv6 with prefixes, datetime with calendar validity and "
         "offsets, duration with ordered units) and every operation on the represented value through exact Int64 arithmetic. TLC composes constructor strings from per-type part "
         "tables (valid and near-miss) and operation cases over boundary pools, checks model-level laws (toDate+toTime identity, isInRange reflexive/monotone, parse(print(v)) = v, "
         "offset/durationSince inverse), and every case is evaluated by the real code through the five arrival paths of the eval family and re-judged by TLC (values observed through "
         "operations and through cedar's own constructor-call representation).",
    note="bounded by the part tables / boundary pools of MC_Ext.tla plus a mutation-based random driver; the entity-JSON __extn arrival path is not driven; non-ASCII digits are out of scope.")
CLAIMED["C18"] = dict(category=_MC,
    text="For a literal symbolic environment the verification conditions are ground; Trace_Symcc.tla requires every assert to have reduced to a constant and 'asserts unsatisfiable' to hold "
         "exactly when the reference semantics says the property holds on that environment (never-errors, always/never-matches per policy; always-allows/denies, implies, equivalent, "
         "disjoint per policy-set pair). TLC generates 915 (policy set, second set) cases over Sc2; each is compiled with compile_with_custom_symenv against SymEnv::from_concrete_env "
         "of 10 conformant environments.",
    note="no solver involved (cvc5 absent): literal environments only. One known finding (C18-dangling-reference, see known_findings.json): record-less entities get default data in the literal "
         "SymEnv; instances are recognised in the trace spec and reported as KNOWN-FINDING, every other disagreement is a violation.")
ENGINES[0]["serves_properties"].append("C20")
CLAIMED["C20"] = dict(category="exploration",
    text="In the specification every entry point's outcome alphabet is {ok, err}; Trace_Robust.tla (and every other family's trace spec) cannot explain a recorded panic. MC_Tokens.tla "
         "enumerates token sequences over the policy, schema and JSON alphabets (bare and in 12 valid skeletons) and nesting towers to depth 48; seeded structure-aware JSON mutants, "
         "character-level mutants and protobuf wire mutants are added. Each input runs through every text/JSON/bytes entry point of its kind under catch_unwind and, on success, "
         "through print / to_json / PST / protobuf / validate / authorize / partial / link / TPE / format; every error is rendered (Display and miette report).",
    note="exploration, not exhaustiveness: byte strings outside these generators are not covered; all other families (C01-C19) also count a caught panic as unexplained.",
    technique="TLA+ outcome alphabet + TLC-enumerated token sequences and nesting towers, seeded mutants, replayed into the implementation under catch_unwind; trace validation rejects any panic")
ENGINES[0]["serves_properties"] += ["C05", "C12"]
CLAIMED["C05"] = dict(category=_MC,
    text="Syntax.tla defines the surface abstract syntax, Core (the parser's documented desugarings) and Render: a token sequence derived from the grammar's precedence table in four "
         "styles (minimal, full, redundant parentheses, redundant + trailing commas). TLC enumerates operators in every operand position of every other operator, depth-3 nests, unary "
         "chains, i64 boundary literals, escape-heavy strings/ids/patterns, reserved attribute names, all scope forms, annotations, clause lists and policy sets, plus texts the grammar "
         "must reject; each case is spelled with seeded whitespace/comments/escapes, parsed by the real parser through 12 parse/print/re-parse paths and projected; TLC requires every "
         "projection to equal Core(ast). The tree's own policy files and embedded policies are round-tripped and re-rendered as well.",
    note="bounded by nesting depth and the pools of MC_Syntax.tla; evaluation agreement is delegated to C02; PolicySet Display omitting templates is modelled as documented behaviour.")
CLAIMED["C12"] = dict(category=_MC,
    text="Comments.tla models a policy text as tokens plus comment / blank lines at every token boundary. TLC chooses small and line-breaking policy sets, comment placements (none, each "
         "single boundary, pairs, all, special comment texts, EOF) and a (line width, indent) grid; the real formatter is run, its output re-parsed and re-formatted, and comments extracted "
         "by an independent scanner; Trace_Format.tla requires formatting to succeed, Parse(out) = Parse(in) (ids, annotations, order), the same comment sequence, the same again after "
         "re-formatting, and idempotence for comment-free text. The formatter fixtures and every policy file in the tree run at the whole grid.",
    note="layout quality is out of scope. A genuine defect found by this check (comments next to a trailing comma were dropped) was repaired in /repo commit fde431f.")
ENGINES[0]["serves_properties"].append("C06")
CLAIMED["C06"] = dict(category=_MC,
    text="Est.tla defines the JSON policy format as a function EstOf of the abstract policy, so TLC emits each generated policy together with its JSON. For 2877 policies and templates "
         "(every operator and scope form, escapes, several clauses, annotations) the real from_json parses the specification's JSON, and the text-parsed policy is taken through "
         "to_json/from_json, text->CST->EST->AST, PST, protobuf, and policy-set JSON / PST / protobuf with a template link; Trace_Formats.tla requires every projection (ids, effect, "
         "annotations, scope constraints, link template id / new id / bindings, structurally equal conditions) to equal the text-parsed one.",
    note="bounded by the pools of MC_Formats.tla; the abstract-policy-to-text tie is C05's; evaluation equality follows from structural equality (C02).",
    technique="TLA+ specification of the JSON format (EstOf) + TLC-generated cases replayed through every conversion hop; hop projections validated by TLC (translation-validation flavour)")
ENGINES[0]["serves_properties"] += ["C09", "C10"]
CLAIMED["C09"] = dict(category=_MC,
    text="SchemaSyntax.tla is the unresolved abstract schema and its meaning: ScResolve (candidate order NS::X then X, common type before entity type, builtins as common "
         "types of the empty namespace, __cedar::, common-type inlining), ScProblems (RFC-70 shadowing, undefined references, reserved names, cycles) and ScCanon. TLC "
         "enumerates layouts of a subject name x reference namespace x raw-name form x admitted kind x 12 positions x action variants; the harness renders each schema "
         "in both syntaxes (8 styles), loads it, translates with the library in every direction, reloads; TLC compares the projection of every ValidatorSchema with "
         "ScResolve and with its source, and acceptance with ScOk.",
    note="bounded by the generator tables (4.9k schemas quick, 13k thorough); schemas are small (<=3 namespaces); annotations compared on fragments. One known finding "
         "(to_cedarschema silently lossy) is classified by the trace spec and listed in known_findings.json.")
CLAIMED["C10"] = dict(category=_MC,
    text="EntityJson.tla defines JSON trees, value templates, every explicit/implicit spelling of a value (EjForms), the escape-directed decoder EjDecNS and the "
         "type-directed decoder EjDec over schema Sc10 (extension-typed attributes, tags, enum, look-alike records). TLC proves on the spec that every spelling decodes to "
         "the template's value and emits the documents; the harness parses Entity / Entities / Context with and without schema through every reader, serialises with "
         "every writer, reparses; TLC decodes the serialised trees with the spec and compares values, ancestors, tags and deep_eq verdicts.",
    note="bounded: 1.3k documents over one schema family; no namespaced type names, unknowns or open records.")
