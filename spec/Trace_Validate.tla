---------------------------- MODULE Trace_Validate ----------------------------
(* Trace specification for family "validate" (C03).  The validator is judged *)
(* by what it promises: acceptance implies semantic soundness over every      *)
(* conformant environment of the model universe; an "impossible" policy is    *)
(* never satisfied; must-accept policies are accepted; strict => permissive;  *)
(* and the real evaluator's outcome classes are exactly the specification's.  *)
EXTENDS TypedWorld, Json, IOUtils

Rec == ndJsonDeserialize(IOEnv.TRACE)
VARIABLES l, bad

EnvSet == Envs(0)
NEnvs == Cardinality(EnvSet)
OkClasses == {"true", "false", "noEntity", "overflow", "ext"}
ToSet(s) == {s[i] : i \in 1..Len(s)}

ClassesOf(p) == {ClassOf(p, env) : env \in EnvSet}

Explained(ev) ==
  IF ev.ev = "EnvCheck"
  THEN \* the library's own request / entity validation accepts every generated environment
       ev.accepted = NEnvs /\ Len(ev.rejected) = 0 /\ ev.storeMismatch = 0
  ELSE /\ ev.ev = "Validate"
       /\ LET cls == ClassesOf(ev.policy)
          IN /\ ToSet(ev.classes) = cls                       \* evaluator agrees with the reference semantics
             /\ ev.strict => cls \subseteq OkClasses             \* soundness
             /\ (ev.strict /\ ev.impossible) => "true" \notin cls   \* impossible => never satisfied
             /\ ev.strict => ev.permissive
             /\ ev.must => ev.strict                           \* not vacuous

Init == l = 1 /\ bad = {}
Next == /\ l <= Len(Rec)
        /\ l' = l + 1
        /\ bad' = IF Explained(Rec[l]) THEN bad ELSE bad \cup {l}
Report == (l = Len(Rec) + 1) => PrintT(<<"TRACE-RESULT", Len(Rec), bad>>)
Accepted == TLCGet("stats").diameter = Len(Rec) + 1
==============================================================================
