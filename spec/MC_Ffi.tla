------------------------------- MODULE MC_Ffi -------------------------------
(* Exhaustive exploration of the cache state machine over 2 names; every      *)
(* (state, operation) pair is a case (a short history with fresh names).      *)
EXTENDS FfiWorld, Json
INSTANCE Ffi WITH PolSources <- FPolSources, SchemaSources <- FSchemaSources, Reqs <- FReqs,
                  StoreWith <- FStoreWith, StoreWithout <- FStoreWithout

VARIABLES psC, scC
Names == {"n1", "n2"}
NPS == Len(FPolSources)
NSC == Len(FSchemaSources)
Ops == {<<"preparsePs", n, k>> : n \in Names, k \in 1..NPS}
       \cup {<<"preparseSchema", n, j>> : n \in Names, j \in 1..NSC}
       \cup {<<"stateful", pn, sn, v, r>> : pn \in Names, sn \in Names \cup {""}, v \in BOOLEAN, r \in 1..Len(FReqs)}
Init == psC = <<>> /\ scC = <<>>
Next == \E op \in Ops :
          CASE op[1] = "preparsePs" -> psC' = PreparsePs(psC, op[2], op[3])[2] /\ UNCHANGED scC
            [] op[1] = "preparseSchema" -> scC' = PreparseSc(scC, op[2], op[3])[2] /\ UNCHANGED psC
            [] op[1] = "stateful" -> UNCHANGED <<psC, scC>>
\* M: only sources that parse are ever registered; a stateful call equals the stateless call on the registered sources
Inv == /\ \A n \in DOMAIN psC : FPolSources[psC[n]].good
       /\ \A n \in DOMAIN scC : FSchemaSources[scC[n]].good
DumpAll == \A op \in Ops : PrintT("CASE " \o ToJson([ps |-> psC, sc |-> scC, op |-> op]))
ASSUME PrintT("WORLD " \o ToJson([polSources |-> FPolSources, schemaSources |-> FSchemaSources, reqs |-> FReqs,
                                  storeWith |-> WireStoreOf(FStoreWith), storeWithout |-> WireStoreOf(FStoreWithout)]))
==============================================================================
