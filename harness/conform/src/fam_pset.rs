//! family "pset" (C08): histories of policy-set edits through the public
//! `cedar_policy::PolicySet` API.  After every step the abstract state is
//! projected twice (public shadow maps and the core ast::PolicySet), every
//! view is recorded, and a battery of requests is authorised.

use crate::abs::*;
use crate::fam_authz::response_to_wire;
use crate::render;
use cedar_policy::{Authorizer, Effect, Policy, PolicyId, PolicySet, SlotId, Template};
use cedar_policy_core::ast;
use serde_json::{json, Map, Value as J};
use std::collections::{BTreeMap, BTreeSet, HashMap};

/// the id as given (Display escapes quotes, backslashes and control characters)
fn raw<T: AsRef<str> + ?Sized>(x: &T) -> String {
    AsRef::<str>::as_ref(x).to_string()
}

fn body_with_id(world: &J, kind: &str, idx: u64) -> R<J> {
    let arr = world[kind].as_array().ok_or("world bodies")?;
    arr.get((idx as usize).wrapping_sub(1)).cloned().ok_or_else(|| format!("no body {kind}[{idx}]"))
}

fn env_of(j: &J) -> R<HashMap<SlotId, cedar_policy::EntityUid>> {
    let mut vals = HashMap::new();
    for (k, v) in as_obj(j)?.iter() {
        let slot = if k == "principal" { SlotId::principal() } else { SlotId::resource() };
        vals.insert(slot, uid_from_wire(v)?.into());
    }
    Ok(vals)
}

fn tag_of(ann: Option<&str>) -> J {
    match ann {
        Some(s) => json!(s),
        None => json!("?"),
    }
}

fn eff(e: Effect) -> &'static str {
    match e {
        Effect::Permit => "permit",
        Effect::Forbid => "forbid",
    }
}

/// projection through the public API
fn project_pub(ps: &PolicySet, probe: &BTreeSet<String>) -> J {
    let mut st = Map::new();
    let mut ln = Map::new();
    let mut tm = Map::new();
    let mut dup_ids = false;
    for p in ps.policies() {
        let id = raw(p.id());
        if p.is_static() {
            dup_ids |= st.insert(id, json!([tag_of(p.annotation("body")), eff(p.effect())])).is_some();
        } else {
            let mut env = Map::new();
            for (s, u) in p.template_links().unwrap_or_default() {
                let k = if s == SlotId::principal() { "principal" } else { "resource" };
                env.insert(k.to_string(), uid_to_wire(u.as_ref()));
            }
            let tid = p.template_id().map(|t| raw(t)).unwrap_or_default();
            dup_ids |= ln
                .insert(id, json!({"tid": tid, "env": env, "body": tag_of(p.annotation("body")), "effect": eff(p.effect())}))
                .is_some();
        }
    }
    let mut linked_by = Map::new();
    for t in ps.templates() {
        let id = raw(t.id());
        dup_ids |= tm.insert(id.clone(), json!([tag_of(t.annotation("body")), eff(t.effect())])).is_some();
        let links: Option<BTreeSet<String>> = ps
            .get_linked_policies(t.id().clone())
            .ok()
            .map(|it| it.map(|x| raw(x)).collect());
        linked_by.insert(id, match links { Some(l) => json!(l), None => json!(["ERR"]) });
    }
    let mut lookups = Map::new();
    for id in probe {
        let pid = PolicyId::new(id);
        lookups.insert(
            id.clone(),
            json!([ps.policy(&pid).is_some(), ps.template(&pid).is_some(), ps.get_linked_policies(pid.clone()).is_ok()]),
        );
    }
    json!({"st": st, "tm": tm, "ln": ln, "linkedBy": linked_by, "lookups": lookups, "dupIds": dup_ids,
           "counts": [ps.num_of_policies(), ps.num_of_templates(), ps.is_empty()]})
}

/// projection of the core policy set the authorizer actually reads
fn project_ast(ps: &PolicySet) -> J {
    let a: &ast::PolicySet = ps.as_ref();
    let mut st = BTreeSet::new();
    let mut ln = BTreeMap::new();
    for p in a.policies() {
        if p.is_static() {
            st.insert(raw(p.id()));
        } else {
            ln.insert(raw(p.id()), raw(p.template().id()));
        }
    }
    let tm: BTreeSet<String> = a.templates().map(|t| raw(t.id())).collect();
    let mut linked_by = BTreeMap::new();
    for t in a.templates() {
        let links: BTreeSet<String> = a
            .get_linked_policies(t.id())
            .map(|it| it.map(|x| raw(x)).collect())
            .unwrap_or_default();
        linked_by.insert(raw(t.id()), links);
    }
    json!({"st": st, "tm": tm, "ln": ln, "linkedBy": linked_by})
}

fn mk_static(world: &J, id: &str, b: u64) -> R<Policy> {
    let body = body_with_id(world, "sbodies", b)?;
    Policy::parse(Some(PolicyId::new(id)), render::policy_text(&body)?).map_err(|e| e.to_string())
}

fn mk_template(world: &J, id: &str, b: u64) -> R<Template> {
    let body = body_with_id(world, "tbodies", b)?;
    Template::parse(Some(PolicyId::new(id)), render::policy_text(&body)?).map_err(|e| e.to_string())
}

/// canonical construction of an abstract state {st, tm, ln}
pub fn build_state(world: &J, s: &J) -> R<PolicySet> {
    let mut ps = PolicySet::new();
    for (id, b) in as_obj(&s["st"])?.iter() {
        ps.add(mk_static(world, id, b.as_u64().ok_or("st body")?)?).map_err(|e| e.to_string())?;
    }
    for (id, b) in as_obj(&s["tm"])?.iter() {
        ps.add_template(mk_template(world, id, b.as_u64().ok_or("tm body")?)?).map_err(|e| e.to_string())?;
    }
    for (id, l) in as_obj(&s["ln"])?.iter() {
        ps.link(PolicyId::new(l["tid"].as_str().ok_or("tid")?), PolicyId::new(id), env_of(&l["env"])?)
            .map_err(|e| e.to_string())?;
    }
    Ok(ps)
}

fn state_ids(s: &J, out: &mut BTreeSet<String>) {
    for k in ["st", "tm", "ln"] {
        if let Ok(m) = as_obj(&s[k]) {
            out.extend(m.keys().cloned());
        }
    }
}

pub fn run(case: &J) -> R<J> {
    let world = &case["world"];
    let store: cedar_policy::Entities = core_entities_from_wire(&world["store"])?.into();
    let requests: Vec<cedar_policy::Request> = world["requests"]
        .as_array()
        .ok_or("requests")?
        .iter()
        .map(|r| core_request_from_wire(r).map(Into::into))
        .collect::<R<Vec<_>>>()?;
    let mut probe: BTreeSet<String> = ["a", "b", "c", "d", "policy0", "policy1"].iter().map(|s| s.to_string()).collect();
    let mut ps = match case.get("pre") {
        Some(pre) => {
            state_ids(pre, &mut probe);
            build_state(world, pre)?
        }
        None => PolicySet::new(),
    };
    let ops: Vec<J> = match case.get("hist") {
        Some(h) => h.as_array().ok_or("hist")?.clone(),
        None => vec![case["op"].clone()],
    };
    let authorizer = Authorizer::new();
    let mut events = vec![];
    for op in &ops {
        let name = op[0].as_str().ok_or("op name")?;
        let s = |i: usize| -> R<&str> { op[i].as_str().ok_or_else(|| format!("op arg {i} of {op}")) };
        let pre = project_pub(&ps, &probe);
        let before = ps.clone();
        let mut renaming = json!({});
        let ok = match name {
            "add" => ps.add(mk_static(world, s(1)?, op[2].as_u64().ok_or("body")?)?).is_ok(),
            "addTemplate" => ps.add_template(mk_template(world, s(1)?, op[2].as_u64().ok_or("body")?)?).is_ok(),
            "link" => ps.link(PolicyId::new(s(1)?), PolicyId::new(s(2)?), env_of(&op[3])?).is_ok(),
            "unlink" => ps.unlink(PolicyId::new(s(1)?)).is_ok(),
            "removeStatic" => ps.remove_static(PolicyId::new(s(1)?)).is_ok(),
            "removeTemplate" => ps.remove_template(PolicyId::new(s(1)?)).is_ok(),
            "merge" => {
                state_ids(&op[1], &mut probe);
                let other = build_state(world, &op[1])?;
                match ps.merge(&other, op[2].as_bool().ok_or("rename flag")?) {
                    Ok(r) => {
                        let m: BTreeMap<String, String> = r.iter().map(|(a, b)| (raw(a), raw(b))).collect();
                        for v in m.values() {
                            probe.insert(v.clone());
                        }
                        renaming = json!(m);
                        true
                    }
                    Err(_) => false,
                }
            }
            _ => return err(format!("bad op {name}")),
        };
        let post = project_pub(&ps, &probe);
        let post_ast = project_ast(&ps);
        // the authorizer must consider exactly the policies of the (abstract) post state
        let mut back = HashMap::new();
        for p in ps.policies() {
            back.insert(raw(p.id()), raw(p.id()));
        }
        let battery: Vec<J> = requests
            .iter()
            .map(|rq| response_to_wire(&authorizer.is_authorized(rq, &ps, &store), &back))
            .collect();
        let _ = before;
        events.push(json!({"ev": "PsOp", "op": op, "ok": ok, "renaming": renaming, "pre": pre, "post": post,
                           "postAst": post_ast, "battery": battery}));
    }
    Ok(json!({"ev": "Multi", "events": events}))
}

pub fn drive(_seed: u64, _n: usize) -> Vec<J> {
    // histories for this family are generated on the Python side (they need the world printed by TLC)
    vec![]
}
