"""Glue for the cedar TLA+ verification framework.

Runs TLC (model checking + case generation, trace validation), the Rust
conformance harness, the canary, and writes evidence.  Exit codes: 0 held,
1 violation (with VIOLATION line + replay file), 2 tool trouble.
"""
import hashlib
import json
import os
import re
import shutil
import subprocess
import sys
import time
from concurrent.futures import ThreadPoolExecutor

VERIF = os.path.dirname(os.path.dirname(os.path.abspath(__file__)))
SPEC = os.path.join(VERIF, "spec")
HARNESS = os.path.join(VERIF, "harness")
WORK = os.path.join(VERIF, "work")
EVID = os.path.join(VERIF, "evidence")
REPO = "/repo"
# Development aid (never used by a registered command): VERIF_ALT_REPO=<a scratch checkout of cedar, e.g. one carrying a
# seeded change> runs the same check against that tree with a private copy of the harness, work and evidence
# directories under /tmp/verif-alt, so that /repo, /verif/work and /verif/evidence are left alone.
ALT_REPO = os.environ.get("VERIF_ALT_REPO")
if ALT_REPO:
    REPO = ALT_REPO.rstrip("/")
    _ALT = os.environ.get("VERIF_ALT_DIR", "/tmp/verif-alt")
    HARNESS_SRC, HARNESS = HARNESS, os.path.join(_ALT, "harness")
    WORK, EVID = os.path.join(_ALT, "work"), os.path.join(_ALT, "evidence")
    for _d in (HARNESS, WORK, EVID):
        os.makedirs(_d, exist_ok=True)
CONFORM = os.path.join(HARNESS, "target", "release", "conform")
NCPU = os.cpu_count() or 4


class ToolError(Exception):
    pass


def log(*a):
    print("[verif]", *a, file=sys.stderr, flush=True)


def seed():
    try:
        return int(os.environ.get("VERIF_SEED", "1"))
    except ValueError:
        return 1


def workdir(prop):
    d = os.path.join(WORK, prop)
    os.makedirs(d, exist_ok=True)
    return d


# ----------------------------------------------------------------- harness
def build_harness(bins=("conform",)):
    """(re)build the harness against /repo's current working tree"""
    if ALT_REPO:
        subprocess.run(["rsync", "-a", "--delete", "--exclude", "target", "--exclude", "target-cli", "--exclude", "Cargo.lock",
                        HARNESS_SRC + "/", HARNESS + "/"], check=True)
        toml = os.path.join(HARNESS, "conform", "Cargo.toml")
        with open(toml) as f:
            txt = f.read().replace('"/repo/', '"%s/' % REPO)
        with open(toml, "w") as f:
            f.write(txt)
    lock_src = os.path.join(REPO, "Cargo.lock")
    lock_dst = os.path.join(HARNESS, "Cargo.lock")
    if not os.path.exists(lock_dst):
        shutil.copy(lock_src, lock_dst)
    t0 = time.time()
    cmd = ["cargo", "build", "--release", "--offline"]
    for b in bins:
        cmd += ["-p", b]
    env = dict(os.environ, CARGO_NET_OFFLINE="true")
    r = subprocess.run(cmd, cwd=HARNESS, env=env, stdout=subprocess.PIPE, stderr=subprocess.STDOUT, text=True)
    if r.returncode != 0:
        sys.stderr.write(r.stdout[-6000:])
        raise ToolError("harness build failed (does /repo still compile?)")
    log("harness built in %.1fs" % (time.time() - t0))


def conform(*args, binary=None, timeout=3600):
    cmd = [binary or CONFORM] + [str(a) for a in args]
    r = subprocess.run(cmd, stdout=subprocess.PIPE, stderr=subprocess.PIPE, text=True, timeout=timeout)
    if r.returncode != 0:
        raise ToolError("harness failed: %s\n%s" % (" ".join(cmd), r.stderr[-3000:]))
    return r.stderr


# ----------------------------------------------------------------- TLC
TLC_CP = "/opt/veriftools/tla/tla2tools.jar:/opt/veriftools/tla/CommunityModules-deps.jar"


def tlc_cmd(module, cfg, metadir, workers, simulate=None, depth=None, seed_=None, xmx="8g", deque=False, extra=()):
    # UTF-8 everywhere: specifications, printed cases and trace files may hold non-ASCII text
    cmd = ["java", "-XX:+UseParallelGC", "-Xmx" + xmx, "-Xss1g", "-Dfile.encoding=UTF-8", "-Dstdout.encoding=UTF-8", "-Dsun.stdout.encoding=UTF-8"]
    if deque:
        cmd.append("-Dtlc2.tool.queue.IStateQueue=StateDeque")
    cmd += ["-cp", TLC_CP, "tlc2.TLC", "-workers", str(workers), "-metadir", metadir, "-cleanup",
            "-noGenerateSpecTE", "-config", cfg]
    if simulate:
        cmd += ["-simulate", "num=%d" % simulate]
    if depth:
        cmd += ["-depth", str(depth)]
    if seed_ is not None:
        cmd += ["-seed", str(seed_)]
    cmd += list(extra)
    cmd.append(module)
    return cmd


STATS_RE = re.compile(r"(\d+) states generated, (\d+) distinct states found")


def run_model(module, cfg, wd, out_name, workers=None, timeout=1800, simulate=None, depth=None, seed_=None, extra=(), env_extra=None):
    """Model-check `module` with `cfg`; returns dict(stdout_path, generated, distinct, ok, error)."""
    workers = workers or NCPU
    metadir = os.path.join(wd, "md_" + out_name)
    shutil.rmtree(metadir, ignore_errors=True)
    out_path = os.path.join(wd, out_name + ".tlcout")
    cmd = tlc_cmd(os.path.join(SPEC, module), os.path.join(SPEC, cfg), metadir, workers,
                  simulate=simulate, depth=depth, seed_=seed_, extra=extra)
    env = dict(os.environ)
    env.pop("JAVA_TOOL_OPTIONS", None)
    if env_extra:
        env.update(env_extra)
    t0 = time.time()
    with open(out_path, "w") as f:
        try:
            r = subprocess.run(cmd, cwd=SPEC, stdout=f, stderr=subprocess.STDOUT, env=env, timeout=timeout)
            rc = r.returncode
        except subprocess.TimeoutExpired:
            rc = -9
    shutil.rmtree(metadir, ignore_errors=True)
    gen = dist = 0
    err = None
    tail = []
    with open(out_path, encoding="utf-8", errors="replace") as f:
        for line in f:
            if line.startswith('"CASE') or line.startswith('"WORLD'):
                continue
            m = STATS_RE.search(line)
            if m:
                gen, dist = int(m.group(1)), int(m.group(2))
            if line.startswith("Error:") and err is None:
                err = line.strip()
            tail.append(line)
            if len(tail) > 60:
                tail.pop(0)
    ok = (rc == 0 and err is None) or (simulate is not None and rc in (0,) and err is None)
    return dict(out=out_path, generated=gen, distinct=dist, ok=ok, rc=rc, error=err, tail="".join(tail),
                wall=time.time() - t0)


def tlc_lines(out_path, prefix):
    """yield the JSON payload of lines printed by PrintT(prefix \\o ToJson(..))"""
    start = '"' + prefix + " "
    with open(out_path, encoding="utf-8", errors="replace") as f:
        for line in f:
            if line.startswith(start):
                s = json.loads(line)          # TLA+ string escapes = JSON string escapes
                yield json.loads(s[len(prefix) + 1:])


TRACE_RESULT_RE = re.compile(r'<<\s*"TRACE-RESULT",\s*(\d+),\s*\{([^}]*)\}\s*>>')


TRACE_KF_RE = re.compile(r'<<\s*"TRACE-KF",\s*\{([^}]*)\}\s*>>')
KF_BY_CHUNK = {}    # chunk path -> line numbers the trace spec classified as instances of a known finding
KF_EVENTS = []      # (source trace, line text) of those events, filled by validate_trace
TRACE_ENV = {}      # extra environment for trace validation (read by the trace specs through IOEnv)


def _validate_chunk(trace_module, cfg, chunk_path, wd, idx, timeout):
    metadir = os.path.join(wd, "mdv_%d_%d" % (os.getpid(), idx))
    shutil.rmtree(metadir, ignore_errors=True)
    cmd = tlc_cmd(os.path.join(SPEC, trace_module), os.path.join(SPEC, cfg), metadir, 1, xmx="3g", deque=True)
    env = dict(os.environ, TRACE=chunk_path)
    env.update(TRACE_ENV)
    env.pop("JAVA_TOOL_OPTIONS", None)
    try:
        r = subprocess.run(cmd, cwd=SPEC, stdout=subprocess.PIPE, stderr=subprocess.STDOUT, text=True, env=env, timeout=timeout)
    except subprocess.TimeoutExpired:
        shutil.rmtree(metadir, ignore_errors=True)
        raise ToolError("trace validation timed out on %s" % chunk_path)
    shutil.rmtree(metadir, ignore_errors=True)
    m = TRACE_RESULT_RE.search(r.stdout.replace("\n", " "))
    st = STATS_RE.search(r.stdout)
    if not m or r.returncode != 0:
        raise ToolError("trace validation did not complete on %s (rc=%d):\n%s" % (chunk_path, r.returncode, r.stdout[-3000:]))
    n = int(m.group(1))
    bad = [int(x) for x in m.group(2).replace(" ", "").split(",") if x]
    mk = TRACE_KF_RE.search(r.stdout.replace("\n", " "))
    if mk:
        KF_BY_CHUNK[chunk_path] = [int(x) for x in mk.group(1).replace(" ", "").split(",") if x]
    return n, bad, (int(st.group(1)) if st else 0)


def validate_trace(trace_module, trace_path, wd, cfg="Trace.cfg", chunk=4000, parallel=None, timeout=1800):
    """Validate an NDJSON trace with TLC.  Returns (n_events, bad_events(list of (lineno, event-json-str)), tlc_states)."""
    parallel = parallel or max(1, min(12, NCPU - 2))
    with open(trace_path) as f:
        lines = [l for l in f if l.strip()]
    if not lines:
        return 0, [], 0
    chunks = []
    for i in range(0, len(lines), chunk):
        p = "%s.chunk%d" % (trace_path, i // chunk)
        with open(p, "w") as f:
            f.writelines(lines[i:i + chunk])
        chunks.append((i, p))
    results = []
    with ThreadPoolExecutor(max_workers=parallel) as ex:
        futs = [(off, p, ex.submit(_validate_chunk, trace_module, cfg, p, wd, k, timeout)) for k, (off, p) in enumerate(chunks)]
        for off, p, fu in futs:
            n, bad, states = fu.result()
            results.append((off, n, bad, states))
            for k in KF_BY_CHUNK.pop(p, []):
                KF_EVENTS.append((trace_path, lines[off + k - 1]))
            os.remove(p)
    total = sum(r[1] for r in results)
    states = sum(r[3] for r in results)
    if total != len(lines):
        raise ToolError("trace validation consumed %d of %d lines" % (total, len(lines)))
    bad_events = []
    for off, n, bad, _ in results:
        for b in bad:
            bad_events.append((off + b, lines[off + b - 1]))
    return total, bad_events, states


# ----------------------------------------------------------------- canary
def canary(trace_module, trace_path, wd, mutate, want=3, cfg="Trace.cfg"):
    """Corrupt `want` events of an accepted trace with `mutate(event) -> event|None`
    and require TLC to reject exactly those lines.  Returns number of canaries planted."""
    with open(trace_path) as f:
        lines = [l for l in f if l.strip()][:3000]
    planted = []
    out = []
    step = max(1, len(lines) // (want * 3 + 1))
    for i, l in enumerate(lines):
        if len(planted) < want and i % step == 0:
            ev = json.loads(l)
            m = mutate(ev)
            if m is not None:
                planted.append(len(out) + 1)
                out.append(json.dumps(m) + "\n")
                continue
        out.append(l)
    if not planted:
        raise ToolError("canary: no event could be corrupted")
    p = trace_path + ".canary"
    with open(p, "w") as f:
        f.writelines(out)
    n, bad, _ = validate_trace(trace_module, p, wd, cfg=cfg, chunk=4000, parallel=1)
    os.remove(p)
    got = sorted(b[0] for b in bad)
    if got != planted:
        raise ToolError("canary not rejected as expected: planted %s, rejected %s" % (planted, got))
    return len(planted)


# ----------------------------------------------------------------- known findings / violations
def load_known():
    p = os.path.join(VERIF, "known_findings.json")
    if not os.path.exists(p):
        return []
    with open(p) as f:
        return json.load(f).get("findings", [])


def finding_matches(finding, prop, ev):
    """A known finding names a property and a `match` dict of dotted-path -> value that the
    failing event must carry; only status 'known' suppresses."""
    if finding.get("status") != "known" or finding.get("property") != prop:
        return False
    if not finding.get("match"):
        return False        # findings recognised by the trace spec itself (TRACE-KF) never match here
    for path, want in finding.get("match", {}).items():
        cur = ev
        for part in path.split("."):
            if isinstance(cur, dict) and part in cur:
                cur = cur[part]
            else:
                return False
        if cur != want:
            return False
    return True


def report(prop, bad_events, wd, explain=None):
    """Handle unexplained events: print KNOWN-FINDING / VIOLATION lines.  Returns number of violations."""
    known = load_known()
    nviol = 0
    seen_known = set()
    for k, (lineno, line) in enumerate(bad_events):
        try:
            ev = json.loads(line)
        except Exception:
            ev = {"raw": line}
        hit = None
        for f in known:
            if finding_matches(f, prop, ev):
                hit = f
                break
        if hit is not None:
            if hit["id"] not in seen_known:
                seen_known.add(hit["id"])
                print("KNOWN-FINDING: property=%s %s" % (prop, hit["what"]), flush=True)
            continue
        nviol += 1
        if nviol <= 20:
            path = os.path.join(wd, "replay_%s_%d.json" % (prop, nviol))
            with open(path, "w") as f:
                json.dump({"property": prop, "event": ev, "note": explain or "trace event the specification cannot explain"}, f)
            print("VIOLATION property=%s replay=%s" % (prop, path), flush=True)
    return nviol


# ----------------------------------------------------------------- evidence
def fingerprint(obj):
    return hashlib.sha1(json.dumps(obj, sort_keys=True).encode()).hexdigest()


def trunc(obj, limit=1500):
    s = json.dumps(obj)
    if len(s) <= limit:
        return obj
    return {"truncated": s[:limit]}


def write_evidence(prop, tier, level, coverage, assumptions, wall, violations):
    os.makedirs(EVID, exist_ok=True)
    ev = dict(property_id=prop, tier=tier, seed=seed(), level=level, coverage=coverage,
              assumptions=assumptions, wall_s=round(wall, 2), violations=violations)
    with open(os.path.join(EVID, prop + ".json"), "w") as f:
        json.dump(ev, f, indent=1)


def write_ndjson(path, objs):
    with open(path, "w") as f:
        for o in objs:
            f.write(json.dumps(o) + "\n")


def read_ndjson(path):
    with open(path) as f:
        return [json.loads(l) for l in f if l.strip()]
