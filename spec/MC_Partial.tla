----------------------------- MODULE MC_Partial -----------------------------
(* Case generator for C13 over World: policy conditions built from known    *)
(* atoms (incl. every error class) and atoms that mention unknowns, in       *)
(* several unknown "modes" with their complete completion sets.  Binding M:  *)
(* the reference three-valued reading (evaluate every completion) is         *)
(* consistent: a condition with no unknown leaf has the same outcome under   *)
(* every completion.                                                         *)
EXTENDS World, Partial, Json

VARIABLES coord, c

Unk(n) == <<"unknown", n>>
PV == V("principal")  RV == V("resource")  CV == V("context")
And2(a, b) == <<"and", a, b>>
Or2(a, b) == <<"or", a, b>>

Known == << Lit(TrueV), Lit(FalseV), TypeErrE, OverflowE, NoEntityE >>
Xs == <<
  Bin("eq", Get(CV, "n"), Lit(L(2))),
  Bin("less", Get(CV, "n"), Lit(L(3))),
  Bin("eq", Bin("add", Get(CV, "n"), Lit(L(1))), Lit(L(3))),
  Get(CV, "n"),
  Bin("eq", PV, Lit(Ua)),
  Bin("in", PV, Lit(Gg)),
  Bin("eq", Get(PV, "n"), Lit(L(1))),
  <<"has", PV, "n">>,
  <<"is", PV, "User">>,
  Bin("eq", RV, Lit(Dd)),
  Bin("eq", Get(RV, "owner"), PV),
  Bin("contains", SetE(<<Get(CV, "n"), Lit(L(1))>>), Lit(L(2))),
  Bin("eq", Get(RecE([a |-> Get(CV, "n"), b |-> Lit(L(1))], <<"a", "b">>), "a"), Lit(L(2))),
  Bin("eq", Get(RecE([a |-> Lit(L(1)), b |-> Get(CV, "n")], <<"a", "b">>), "a"), Lit(L(1))),
  Bin("eq", Get(RecE([a |-> Lit(L(1)), b |-> Bin("add", Get(CV, "n"), Lit(L(1)))], <<"a", "b">>), "a"), Lit(L(1))),
  <<"has", RecE([a |-> Bin("add", Get(CV, "n"), Lit(L(1)))], <<"a">>), "a">>,
  Bin("eq", Get(Lit(Ua), "n"), Lit(L(1))),
  Bin("contains", Get(PV, "tags"), Get(CV, "n")),
  <<"if", Bin("eq", Get(CV, "n"), Lit(L(2))), OverflowE, Lit(TrueV)>>,
  <<"like", Get(CV, "s"), <<97, Star>>>>,
  <<"not", Get(CV, "n")>>,
  Bin("eq", Get(CV, "n"), Get(Lit(Ua), "n")),
  \* a record literal whose OTHER field is an attribute access on unknown data (may error once substituted)
  Bin("eq", Get(RecE([a |-> Lit(L(1)), b |-> Get(Get(CV, "n"), "x")], <<"a", "b">>), "a"), Lit(L(1))),
  <<"has", RecE([b |-> Get(Get(CV, "n"), "x")], <<"b">>), "b">>,
  Bin("eq", Get(RecE([a |-> Lit(L(1)), b |-> Get(PV, "n")], <<"a", "b">>), "a"), Lit(L(1))),
  <<"has", RecE([a |-> Get(Get(Lit(Ua), "n"), "x")], <<"a">>), "zz">>,
  Bin("eq", Get(Get(CV, "n"), "x"), Lit(L(1))),
  <<"has", Get(CV, "n"), "x">>
>>
AllAtoms == {Known[i] : i \in 1..Len(Known)} \cup {Xs[i] : i \in 1..Len(Xs)}
XSet == {Xs[i] : i \in 1..Len(Xs)}
\* atoms that can error or fail to be a boolean under some completion
XE == {Xs[i] : i \in {2, 3, 4, 7, 11, 12, 18, 20, 21, 22, 27, 28}}
KSet == {Known[i] : i \in 1..Len(Known)}

\* ---- unknown modes: partial request / store and the completion domains
CtxWith(nv) == <<"rec", [Req.context[2] EXCEPT !.n = nv]>>
StoreWith(anv) == [Store EXCEPT ![Ua] = [@ EXCEPT !.attrs = [@ EXCEPT !.n = anv]]]
PrincDom == {Ua, Ub, Uz, Gg}
ResDom == {Dd, Gg}
CnDom == {L(2), MaxL, StrA, <<"bool", TRUE>>, <<"bool", FALSE>>, <<"rec", [x |-> L(1)]>>, <<"rec", <<>>>>}
AnDom == {L(1), L(0), StrA, <<"rec", [x |-> L(1)]>>}

\* mode: [p: "known"|"untyped"|"typed", r: BOOLEAN (unknown?), cn: BOOLEAN, an: BOOLEAN]
Modes == <<
  [p |-> "known", r |-> FALSE, cn |-> TRUE, an |-> FALSE],
  [p |-> "untyped", r |-> FALSE, cn |-> FALSE, an |-> FALSE],
  [p |-> "typed", r |-> FALSE, cn |-> TRUE, an |-> FALSE],
  [p |-> "known", r |-> TRUE, cn |-> FALSE, an |-> TRUE],
  [p |-> "untyped", r |-> TRUE, cn |-> TRUE, an |-> TRUE],
  [p |-> "known", r |-> FALSE, cn |-> FALSE, an |-> TRUE]
>>
PReq(m) == [principal |-> CASE m.p = "known" -> Ua [] m.p = "untyped" -> <<"unknown">> [] m.p = "typed" -> <<"unknown", "User">>,
            action |-> Av,
            resource |-> IF m.r THEN <<"unknown">> ELSE Dd,
            context |-> IF m.cn THEN CtxWith(Unk("cn")) ELSE Req.context]
PStore(m) == IF m.an THEN StoreWith(Unk("an")) ELSE Store
FunOfPairs(pairs) == [k \in {p[1] : p \in pairs} |-> (CHOOSE p \in pairs : p[1] = k)[2]]
Completions(m) ==
  {FunOfPairs((IF m.p = "known" THEN {} ELSE {<<"principal", pv>>}) \cup (IF m.r THEN {<<"resource", rv>>} ELSE {})
              \cup (IF m.cn THEN {<<"cn", cnv>>} ELSE {}) \cup (IF m.an THEN {<<"an", anv>>} ELSE {}))
   : pv \in (IF m.p = "typed" THEN {Ua, Ub, Uz} ELSE IF m.p = "untyped" THEN PrincDom ELSE {Ua}),
     rv \in (IF m.r THEN ResDom ELSE {Dd}), cnv \in (IF m.cn THEN CnDom ELSE {L(2)}), anv \in (IF m.an THEN AnDom ELSE {L(1)})}

AnyS == <<"any">>
P1(id, eff, cond) == [id |-> id, effect |-> eff, principal |-> AnyS, action |-> AnyS, resource |-> AnyS,
                      conds |-> <<<<"when", cond>>>>, slots |-> <<>>, template |-> FALSE]
\* scope-position unknowns as well
PScope(id, eff, pc, rc) == [id |-> id, effect |-> eff, principal |-> pc, action |-> AnyS, resource |-> rc,
                            conds |-> <<>>, slots |-> <<>>, template |-> FALSE]

Coords == {<<"single", m>> : m \in 1..Len(Modes)} \cup {<<"and", m, i>> : m \in 1..Len(Modes), i \in 1..Len(Xs)}
          \cup {<<"or", m, i>> : m \in 1..Len(Modes), i \in 1..Len(Xs)}
          \cup {<<"pair", m, i>> : m \in 1..Len(Modes), i \in 1..Len(Xs)}
          \cup {<<"scope", m>> : m \in 1..Len(Modes)}
          \cup {<<"ifeq", m>> : m \in 1..Len(Modes)}

CasesOf(k) ==
  LET m == k[2] IN
  CASE k[1] = "single" -> {[mode |-> m, pols |-> <<P1("p1", "permit", x)>>] : x \in XSet}
                          \cup {[mode |-> m, pols |-> <<P1("p1", "permit", <<"if", x, y, z>>)>>] : x \in XSet, y \in KSet, z \in {Lit(TrueV), Xs[1], Xs[5]}}
    [] k[1] = "and" -> {[mode |-> m, pols |-> <<P1("p1", "permit", And2(Xs[k[3]], y))>>] : y \in AllAtoms}
                       \cup {[mode |-> m, pols |-> <<P1("p1", "permit", And2(y, Xs[k[3]]))>>] : y \in AllAtoms}
    [] k[1] = "or" -> {[mode |-> m, pols |-> <<P1("p1", "permit", Or2(Xs[k[3]], y))>>] : y \in AllAtoms}
                      \cup {[mode |-> m, pols |-> <<P1("p1", "permit", Or2(y, Xs[k[3]]))>>] : y \in AllAtoms}
    [] k[1] = "pair" -> {[mode |-> m, pols |-> <<P1("p1", "permit", Xs[k[3]]), P1("p2", "forbid", y)>>] : y \in AllAtoms}
                        \cup {[mode |-> m, pols |-> <<P1("p1", "permit", y), P1("p2", "forbid", Xs[k[3]]), P1("p3", "permit", Lit(TrueV))>>] : y \in AllAtoms}
    [] k[1] = "scope" -> {[mode |-> m, pols |-> <<PScope("p1", e1, pc, rc), P1("p2", "forbid", y)>>]
                          : e1 \in {"permit"}, pc \in {<<"eq", Ua>>, <<"in", Gg>>, <<"is", "User">>, <<"isin", "User", Gg>>},
                            rc \in {AnyS, <<"eq", Dd>>, <<"is", "Doc">>}, y \in {Lit(FalseV), Xs[1], Xs[5], TypeErrE}}

    \* an if whose branches agree concretely while the guard mentions an unknown (and may error, or not be a boolean,
    \* once it is substituted): the guard must survive.  Always replayed (keep).
    [] k[1] = "ifeq" -> {[mode |-> m, keep |-> TRUE, pols |-> <<P1("p1", "permit", w)>>]
                         : w \in UNION {{<<"if", x, br[1], br[2]>>, <<"not", <<"if", x, br[1], br[2]>>>>}
                                        : x \in XE,
                                          br \in {<<Lit(TrueV), Lit(TrueV)>>, <<Lit(FalseV), Lit(FalseV)>>,
                                                   <<Bin("less", Lit(L(1)), Lit(L(3))), Bin("eq", Get(Lit(Ub), "zz"), Get(Lit(Ub), "zz"))>>}}
                            \cup {Bin("eq", <<"if", x, Lit(L(1)), Lit(L(1))>>, Lit(L(1))) : x \in XE}
                            \cup {Bin("eq", <<"if", x, Lit(Ua), Lit(Ua)>>, PV) : x \in XE}}
                        \cup {[mode |-> m, keep |-> TRUE, pols |-> <<P1("p1", "permit", Lit(TrueV)), P1("p2", "forbid", <<"if", x, Lit(FalseV), Lit(FalseV)>>)>>] : x \in XE}

Init == coord \in Coords /\ c = <<>>
Next == c = <<>> /\ c' \in CasesOf(coord) /\ UNCHANGED coord

\* ---------------------------------------------------------------- binding M
PolSetOf(ps) == {ps[i] : i \in 1..Len(ps)}
\* completing is the identity on a mode with no unknowns in the touched positions, and every completion yields a concrete environment
CompletionsConcrete ==
  c # <<>> => \A cm \in Completions(Modes[c.mode]) :
     LET rq == CompleteReq(PReq(Modes[c.mode]), cm)
     IN rq.principal[1] = "ent" /\ rq.resource[1] = "ent" /\ Authorize(PolSetOf(c.pols), rq, CompleteStore(PStore(Modes[c.mode]), cm)).decision \in {"Allow", "Deny"}

\* ---------------------------------------------------------------- binding G
WirePStore(st) == {[uid |-> u, attrs |-> st[u].attrs, tags |-> st[u].tags, anc |-> st[u].anc] : u \in DOMAIN st}
Dump == PrintT("CASE " \o ToJson(c'))
ASSUME PrintT("WORLD " \o ToJson([modes |-> [i \in 1..Len(Modes) |->
                                    [req |-> PReq(Modes[i]), store |-> WirePStore(PStore(Modes[i])), completions |-> Completions(Modes[i])]]]))
==============================================================================
