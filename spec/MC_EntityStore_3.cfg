CONSTANTS NU = 3
  Two = FALSE
INIT Init
NEXT Next
INVARIANT Inv
INVARIANT DumpAll
CHECK_DEADLOCK FALSE
