//! family "eval" (C02): one expression, one environment, every arrival path.

use crate::abs::*;
use crate::gen;
use crate::render;
use cedar_policy_core::ast;
use cedar_policy_core::evaluator::Evaluator;
use cedar_policy_core::extensions::Extensions;
use serde_json::{json, Value as J};
use std::collections::HashMap;

fn contains_tag(j: &J, tags: &[&str]) -> bool {
    match j {
        J::Array(a) => {
            if let Some(t) = a.first().and_then(|x| x.as_str()) {
                if tags.contains(&t) && a.len() >= 2 {
                    return true;
                }
            }
            a.iter().any(|x| contains_tag(x, tags))
        }
        J::Object(m) => m.values().any(|x| contains_tag(x, tags)),
        _ => false,
    }
}

pub fn slot_env(case: &J) -> R<HashMap<ast::SlotId, ast::EntityUID>> {
    let mut env = HashMap::new();
    if let Some(s) = case.get("slots") {
        for (k, v) in as_obj(s)?.iter() {
            let id = if k == "principal" { ast::SlotId::principal() } else { ast::SlotId::resource() };
            env.insert(id, uid_from_wire(v)?);
        }
    }
    Ok(env)
}

/// outcome of a one-policy set whose only condition is `kind { expr }`
pub fn clause_outcome(kind: &str, text: &str, req: &J, store: &J) -> R<J> {
    use cedar_policy::{Authorizer, Decision, PolicySet};
    use std::str::FromStr;
    let src = format!("permit(principal, action, resource) {kind} {{ {text} }};");
    let ps = match PolicySet::from_str(&src) {
        Ok(ps) => ps,
        Err(e) => return Ok(json!(["parseError", e.to_string()])),
    };
    let ents: cedar_policy::Entities = core_entities_from_wire(store)?.into();
    let request: cedar_policy::Request = core_request_from_wire(req)?.into();
    let resp = Authorizer::new().is_authorized(&request, &ps, &ents);
    let nerr = resp.diagnostics().errors().count();
    Ok(json!(if nerr > 0 {
        "err"
    } else if resp.decision() == Decision::Allow {
        "sat"
    } else {
        "unsat"
    }))
}

pub fn run(case: &J) -> R<J> {
    let wexpr = with_record_keys(&case["expr"]);
    let req = core_request_from_wire(&case["req"])?;
    let ents = core_entities_from_wire(&case["store"])?;
    let slots = slot_env(case)?;
    let ext = Extensions::all_available();
    let ev = Evaluator::new(req.clone(), &ents, ext);

    // path 1: AST through the public constructors
    let e_ast = expr_from_wire(&wexpr)?;
    let r_ast = result_to_wire(&ev.interpret(&e_ast, &slots));
    // what the constructors built (the builders fold boolean literals)
    let built = expr_to_wire(&e_ast);

    let textable = !contains_tag(&wexpr, &["unknown", "slot"]);
    let mut out = json!({"ev": "Eval", "expr": wexpr, "ast": r_ast, "built": built});
    if let Some(w) = case.get("world") {
        // the fixed world of spec/World.tla: not repeated in every event
        out["world"] = w.clone();
    } else {
        out["req"] = case["req"].clone();
        out["store"] = case["store"].clone();
    }
    if let Some(s) = case.get("slots") {
        out["slots"] = s.clone();
    }
    if let Some(id) = case.get("id") {
        out["id"] = id.clone();
    }
    if textable {
        // path 2: Cedar text
        let text = render::expr_text(&wexpr)?;
        out["text"] = match <ast::Expr as std::str::FromStr>::from_str(&text) {
            Ok(e) => result_to_wire(&ev.interpret(&e, &slots)),
            Err(e) => json!(["parseError", e.to_string(), text]),
        };
        // path 3: JSON policy format
        let est = render::expr_est(&wexpr)?;
        out["est"] = match serde_json::from_value::<cedar_policy_core::est::Expr>(est.clone()) {
            Ok(e) => match e.try_into_ast(&ast::PolicyID::from_string("p")) {
                Ok(e) => result_to_wire(&ev.interpret(&e, &slots)),
                Err(e) => json!(["fromJsonError", e.to_string(), est]),
            },
            Err(e) => json!(["fromJsonError", e.to_string(), est]),
        };
        // paths 4, 5: as the when / unless clause of a policy, through the authorizer
        out["when"] = clause_outcome("when", &text, &case["req"], &case["store"])?;
        out["unless"] = clause_outcome("unless", &text, &case["req"], &case["store"])?;
    }
    Ok(out)
}

pub fn drive(seed: u64, n: usize) -> Vec<J> {
    let mut g = gen::Gen::new(seed);
    (0..n)
        .map(|i| {
            let w = g.world();
            let depth = 1 + (i % 4);
            json!({"id": i, "expr": g.expr(&w, depth), "req": w.req, "store": w.store})
        })
        .collect()
}
