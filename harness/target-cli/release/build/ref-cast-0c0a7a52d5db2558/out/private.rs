#[doc(hidden)]
pub mod __private26 {
    #[doc(hidden)]
    pub use crate::private::*;
}
