#[doc(hidden)]
pub mod __private229 {
    #[doc(hidden)]
    pub use crate::private::*;
}
