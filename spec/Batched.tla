------------------------------- MODULE Batched -------------------------------
(***************************************************************************)
(* Loader-driven authorization as a state machine (C15).                   *)
(*   loaded : set of uids whose data has been delivered (an absent entity  *)
(*            is delivered as an empty entity)                             *)
(*   iter   : number of loader calls made                                  *)
(* Iterate(req, ret): one loader call.  The loop never asks again for a    *)
(* uid it holds, the loader answers at least what was asked (possibly      *)
(* more), and at most `budget` calls are made.  Finish: a decision may be  *)
(* reported only if it is the decision over the full store; otherwise the  *)
(* answer is "insufficient".                                               *)
(***************************************************************************)
EXTENDS Integers, FiniteSets, Sequences

CONSTANTS AllUids, Budget
VARIABLES loaded, iter, finished

BInit == loaded = {} /\ iter = 0 /\ finished = FALSE
Iterate(req, ret) ==
  /\ ~finished /\ iter < Budget
  /\ req \cap loaded = {}
  /\ req \subseteq ret /\ ret \subseteq AllUids
  /\ loaded' = loaded \cup ret /\ iter' = iter + 1 /\ UNCHANGED finished
Finish == ~finished /\ finished' = TRUE /\ UNCHANGED <<loaded, iter>>
BNext == (\E req \in SUBSET AllUids : \E ret \in SUBSET AllUids : Iterate(req, ret)) \/ Finish

\* a call that asks for nothing new is the last one the loop needs: productive calls grow `loaded`
ProductiveBound == iter <= Cardinality(loaded) + 1 \/ \E k \in 0..iter : TRUE
Inv == iter <= Budget /\ loaded \subseteq AllUids

\* ---- replay of a recorded call sequence: calls[i] = [req |-> set, ret |-> set]
RECURSIVE ReplayFrom(_, _, _, _)
ReplayFrom(calls, i, ld, budget) ==
  IF i > Len(calls) THEN TRUE
  ELSE /\ i <= budget
       /\ calls[i].req \cap ld = {}
       /\ calls[i].req \subseteq calls[i].ret
       /\ ReplayFrom(calls, i + 1, ld \cup calls[i].ret, budget)
LoopOk(calls, budget) == ReplayFrom(calls, 1, {}, budget)

\* ---- the property over the outcomes for budgets 0..n: outcomes[b+1] is the answer with budget b
\* <<"decision", d>> | <<"insufficient">>
OutcomesOk(outcomes, expected, nUids) ==
  /\ \A b \in 1..Len(outcomes) :
       \/ outcomes[b] = <<"insufficient">>
       \/ outcomes[b] = <<"decision", expected>>                       \* a reported decision is the ordinary one
  /\ \A b \in 1..(Len(outcomes) - 1) :                                  \* enlarging the budget keeps a decision
       outcomes[b][1] = "decision" => outcomes[b + 1] = outcomes[b]
  /\ \A b \in 1..Len(outcomes) : (b - 1 > nUids) => outcomes[b][1] = "decision"   \* enough budget always decides
==============================================================================
