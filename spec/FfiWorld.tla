------------------------------- MODULE FfiWorld -------------------------------
(* Concrete sources, requests and stores for the FFI family. *)
EXTENDS PolicyPool

FBase == <<TRUE, "u2", TRUE, TRUE, "g", TRUE, "u1", 3, "u1">>
FEnv == EnvP(FBase)
FStoreWith == FEnv.store
FStoreWithout == [u \in {x \in DOMAIN FEnv.store : ~IsActionUid(x)} |-> FEnv.store[u]]

FP(id, eff, pr, ac, re, conds) == [id |-> id, effect |-> eff, principal |-> pr, action |-> ac, resource |-> re,
                                   conds |-> conds, slots |-> <<>>, template |-> FALSE]
FAny == <<"any">>
\* shape: how the harness presents the source to the FFI (concat text, map of text, map of JSON, templates+links)
FPolSources == <<
  [shape |-> "concat", good |-> TRUE,
   pols |-> <<FP("policy0", "permit", <<"eq", TU1>>, FAny, FAny, <<>>),
              FP("policy1", "forbid", FAny, <<"eq", TEdit>>, FAny, <<<<"when", B_("less", G_(Pv, "n"), LitL(5))>>>>)>>],
  [shape |-> "map", good |-> TRUE,
   pols |-> <<FP("a", "permit", FAny, FAny, FAny, <<<<"when", B_("eq", G_(Pv, "n"), LitL(1))>>>>),
              FP("b", "forbid", FAny, FAny, FAny, <<<<"when", B_("less", G_(G_(Pv, "mgr"), "n"), LitL(0))>>>>),
              \* decided by the action hierarchy, which only the schema supplies (schema-directed entity loading)
              FP("c", "permit", <<"eq", TU2>>, <<"in", TAll>>, FAny, <<>>)>>],
  [shape |-> "json", good |-> TRUE,
   pols |-> <<FP("j", "permit", <<"is", "User">>, <<"eq", TView>>, FAny, <<<<"unless", G_(Cv, "flag")>>>>)>>],
  [shape |-> "links", good |-> TRUE,
   pols |-> <<[FP("l", "permit", <<"eqslot">>, FAny, <<"inslot">>, <<>>) EXCEPT !.slots = [principal |-> TU1, resource |-> TD], !.template = TRUE]>>],
  [shape |-> "concat", good |-> FALSE, pols |-> <<>>],
  [shape |-> "map", good |-> FALSE, pols |-> <<>>]
>>
Sc3 == [Sc2 EXCEPT !.acts = [a \in {"view", "all"} |-> Sc2.acts[a]]]
FSchemaSources == <<
  [syntax |-> "json", good |-> TRUE, schema |-> Sc2],
  [syntax |-> "cedar", good |-> TRUE, schema |-> Sc2],
  [syntax |-> "json", good |-> TRUE, schema |-> Sc3],
  [syntax |-> "json", good |-> FALSE, schema |-> Sc2]
>>
FReqs == <<
  FEnv.req,                                                                  \* conformant (view)
  [FEnv.req EXCEPT !.action = TEdit, !.context = <<"rec", <<>>>>],            \* conformant (edit)
  [FEnv.req EXCEPT !.principal = TD],                                         \* principal type not applicable
  [FEnv.req EXCEPT !.context = <<"rec", [flag |-> TL(1)]>>],                  \* context value of the wrong type
  [FEnv.req EXCEPT !.principal = TU2, !.context = <<"rec", [flag |-> <<"bool", FALSE>>]>>]
>>
==============================================================================
