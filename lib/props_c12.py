"""C12 - formatter (family "format").  Under construction."""


def C12(prop, tier, replay):
    print("C12: not built yet")
    return 2
