//! family "slice" (C16, C17): level validation and entity-manifest slicing.
//! For a policy set: the level-validation verdict for n = 0..4, the manifest,
//! and for every environment the authorizer's response over the full store,
//! over each level-n slice (uid sets supplied by the specification) and over
//! the manifest slice (computed by cedar; also projected so that TLC can check
//! it is a sub-store).

#![allow(deprecated)]
use crate::abs::*;
use crate::fam_authz::{add_policy, response_to_wire};
use crate::fam_tpe::build_env;
use crate::schema::*;
use cedar_policy::{Authorizer, Entities, PolicySet, Request, ValidationMode, Validator};
use cedar_policy_core::ast;
use cedar_policy_core::entities::{NoEntitiesSchema, TCComputation};
use cedar_policy_core::extensions::Extensions;
use serde_json::{json, Map, Value as J};
use std::cell::RefCell;
use std::collections::HashMap;

pub struct SEnv {
    params: J,
    req: Request,
    ents: Entities,
    levels: Vec<Entities>,
}
pub struct SSetup {
    schema: cedar_policy::Schema,
    envs: Vec<SEnv>,
}
thread_local! {
    static SSETUP: RefCell<Option<SSetup>> = const { RefCell::new(None) };
}

fn sub_store(ents: &Entities, uids: &J) -> R<Entities> {
    let mut list = vec![];
    for u in uids.as_array().ok_or("level uids")? {
        let uid: cedar_policy::EntityUid = uid_from_wire(u)?.into();
        if let Some(e) = ents.get(&uid) {
            let core: &ast::Entity = e.as_ref();
            list.push(core.clone());
        }
    }
    cedar_policy_core::entities::Entities::from_entities(
        list,
        None::<&NoEntitiesSchema>,
        TCComputation::AssumeAlreadyComputed,
        Extensions::all_available(),
    )
    .map(Entities::from)
    .map_err(|e| e.to_string())
}

pub fn store_to_wire(es: &cedar_policy_core::entities::Entities) -> J {
    let mut rows: Vec<J> = es
        .iter()
        .map(|e| {
            let mut attrs = Map::new();
            for (k, v) in e.attrs() {
                if let ast::PartialValue::Value(v) = v {
                    attrs.insert(k.to_string(), value_to_wire(v));
                }
            }
            let mut tags = vec![];
            for (k, v) in e.tags() {
                if let ast::PartialValue::Value(v) = v {
                    tags.push(json!([str_to_wire(k), value_to_wire(v)]));
                }
            }
            let mut anc: Vec<J> = e.ancestors().map(uid_to_wire).collect();
            anc.sort_by_key(|x| x.to_string());
            json!({"uid": uid_to_wire(e.uid()), "attrs": attrs, "tags": tags, "anc": anc})
        })
        .collect();
    rows.sort_by_key(|x| x["uid"].to_string());
    J::Array(rows)
}

fn do_setup(s: &J) -> R<J> {
    let schema = schema_of(&s["schema"])?;
    let mut envs = vec![];
    for pe in s["envs"].as_array().ok_or("envs")? {
        let (req, ents) = build_env(&schema, &pe["env"])?;
        let mut levels = vec![];
        for l in pe["levels"].as_array().ok_or("levels")? {
            levels.push(sub_store(&ents, l)?);
        }
        envs.push(SEnv { params: pe["params"].clone(), req, ents, levels });
    }
    let n = envs.len();
    SSETUP.with(|c| *c.borrow_mut() = Some(SSetup { schema, envs }));
    Ok(json!({"ev": "SliceSetup", "envs": n}))
}

pub fn run(case: &J) -> R<J> {
    if let Some(s) = case.get("setup") {
        return do_setup(s);
    }
    SSETUP.with(|cell| {
        let b = cell.borrow();
        let setup = b.as_ref().ok_or("no setup")?;
        let mut ps = PolicySet::new();
        let mut back = HashMap::new();
        for p in case["pols"].as_array().ok_or("pols")? {
            let id = p["id"].as_str().ok_or("id")?;
            add_policy(&mut ps, p, id, 0)?;
            back.insert(id.to_string(), id.to_string());
        }
        let validator = Validator::new(setup.schema.clone());
        let strict = validator.validate(&ps, ValidationMode::Strict).validation_passed();
        let accepted: Vec<bool> = (0..5u32)
            .map(|n| validator.validate_with_level(&ps, ValidationMode::Strict, n).validation_passed())
            .collect();
        let manifest = cedar_policy::compute_entity_manifest(&validator, &ps);
        let auth = Authorizer::new();
        let mut envs = vec![];
        for env in &setup.envs {
            let full = response_to_wire(&auth.is_authorized(&env.req, &ps, &env.ents), &back);
            let level: Vec<J> = env.levels.iter().map(|s| response_to_wire(&auth.is_authorized(&env.req, &ps, s), &back)).collect();
            let mut o = json!({"params": env.params, "full": full, "level": level});
            match &manifest {
                Ok(m) => {
                    let core_e: &cedar_policy_core::entities::Entities = env.ents.as_ref();
                    let core_r: &ast::Request = env.req.as_ref();
                    match m.slice_entities(core_e, core_r) {
                        Ok(slice) => {
                            o["manifestStore"] = store_to_wire(&slice);
                            let sl: Entities = slice.into();
                            o["manifest"] = response_to_wire(&auth.is_authorized(&env.req, &ps, &sl), &back);
                        }
                        Err(e) => o["manifestSliceError"] = json!(e.to_string()),
                    }
                }
                Err(_) => {}
            }
            envs.push(o);
        }
        let mut out = json!({
            "ev": "Slice", "pols": with_record_keys(&case["pols"]), "strict": strict, "accepted": accepted,
            "manifestOk": manifest.is_ok(), "manifestError": manifest.as_ref().err().map(|e| e.to_string()).unwrap_or_default(),
            "envs": envs,
        });
        if let Some(id) = case.get("id") {
            out["id"] = id.clone();
        }
        Ok(out)
    })
}

pub fn drive(_seed: u64, _n: usize) -> Vec<J> {
    vec![]
}
