---------------------------- MODULE Trace_Conform ----------------------------
(* Trace specification for family "conform" (C11): every schema-taking entry *)
(* point must accept a datum exactly when Schema!Conforms* says it conforms.  *)
EXTENDS SchemaFam, Json, IOUtils

Rec == ndJsonDeserialize(IOEnv.TRACE)
VARIABLES l, bad

FromWireEnt(w) == [uid |-> w.uid,
                   attrs |-> [k \in DOMAIN w.attrs |-> FromWireV(w.attrs[k])],
                   tags |-> {<<w.tags[j][1], FromWireV(w.tags[j][2])>> : j \in 1..Len(w.tags)},
                   anc |-> {w.anc[j] : j \in 1..Len(w.anc)}]

ConformsContext(Sc, action, ctx) ==
  /\ IsActionUid(action) /\ action[3] \in DOMAIN Sc.acts
  /\ EuidsOk(Sc, ctx)
  /\ ScInhabits(ctx, <<"Record", Sc.acts[action[3]].context>>)

Explained(ev) ==
  /\ ev.ev = "Conform"
  /\ IF ev.kind = "entity"
     THEN LET ok == ConformsEntity(Sc1, FromWireEnt(ev.datum))
          IN \A k \in DOMAIN ev.results : ev.results[k] = ok
     ELSE LET r == FromWireReq(ev.datum)
              ok == ConformsRequest(Sc1, r)
          IN \A k \in DOMAIN ev.results :
               ev.results[k] = IF k = "context_validate" THEN ConformsContext(Sc1, r.action, r.context) ELSE ok

Init == l = 1 /\ bad = {}
Next == /\ l <= Len(Rec)
        /\ l' = l + 1
        /\ bad' = IF Explained(Rec[l]) THEN bad ELSE bad \cup {l}
Report == (l = Len(Rec) + 1) => PrintT(<<"TRACE-RESULT", Len(Rec), bad>>)
Accepted == TLCGet("stats").diameter = Len(Rec) + 1
==============================================================================
