//! family "batched" (C15): loader-driven authorization for every budget,
//! with a recording loader (one recorded call = one iteration of the loop).

use crate::abs::*;
use crate::fam_authz::add_policy;
use crate::fam_tpe::{do_setup, TSETUP};
use cedar_policy::{Decision, Entities, Entity, EntityLoader, EntityUid, PolicySet};
use serde_json::{json, Value as J};
use std::collections::{BTreeSet, HashMap, HashSet};

struct RecLoader<'a> {
    ents: &'a Entities,
    /// 0: exactly what is asked; 1: everything in the store on the first call; 2: the asked ones plus
    /// their (present) attribute-referenced neighbours that were never returned before
    mode: u64,
    returned: HashSet<EntityUid>,
    calls: Vec<J>,
}

impl EntityLoader for RecLoader<'_> {
    fn load_entities(&mut self, uids: &HashSet<EntityUid>) -> HashMap<EntityUid, Option<Entity>> {
        let mut out: HashMap<EntityUid, Option<Entity>> = HashMap::new();
        for u in uids {
            out.insert(u.clone(), self.ents.get(u).cloned());
        }
        if self.mode == 1 && self.calls.is_empty() {
            for e in self.ents.iter() {
                out.entry(e.uid()).or_insert_with(|| Some(e.clone()));
            }
        }
        if self.mode == 2 {
            // one extra, not yet returned, entity per call
            if let Some(e) = self.ents.iter().find(|e| !self.returned.contains(&e.uid()) && !uids.contains(&e.uid())) {
                out.insert(e.uid(), Some(e.clone()));
            }
        }
        let mut req: Vec<J> = uids.iter().map(|u| uid_to_wire(u.as_ref())).collect();
        req.sort_by_key(|x| x.to_string());
        let mut ret: Vec<J> = out.keys().map(|u| uid_to_wire(u.as_ref())).collect();
        ret.sort_by_key(|x| x.to_string());
        let again: Vec<J> = uids.iter().filter(|u| self.returned.contains(*u)).map(|u| uid_to_wire(u.as_ref())).collect();
        self.calls.push(json!({"req": req, "ret": ret, "again": again}));
        for k in out.keys() {
            self.returned.insert(k.clone());
        }
        out
    }
}

pub fn run(case: &J) -> R<J> {
    if let Some(s) = case.get("setup") {
        return do_setup(s);
    }
    TSETUP.with(|cell| {
        let b = cell.borrow();
        let setup = b.as_ref().ok_or("no setup")?;
        let mut ps = PolicySet::new();
        for p in case["pols"].as_array().ok_or("pols")? {
            add_policy(&mut ps, p, p["id"].as_str().ok_or("id")?, 0)?;
        }
        let (_, req, ents) = setup.envs.get(&case["params"].to_string()).ok_or("env not in universe")?;
        let maxb = case["maxBudget"].as_u64().ok_or("maxBudget")?;
        let mode = case["loader"].as_u64().unwrap_or(0);
        let mut outcomes = vec![];
        let mut calls = vec![];
        for budget in 0..=maxb {
            let mut loader = RecLoader { ents, mode, returned: HashSet::new(), calls: vec![] };
            let r = ps.is_authorized_batched(req, &setup.schema, &mut loader, budget as u32);
            outcomes.push(match r {
                Ok(Decision::Allow) => json!(["decision", "Allow"]),
                Ok(Decision::Deny) => json!(["decision", "Deny"]),
                Err(cedar_policy_core::batched_evaluator::err::BatchedEvalError::InsufficientIterations(_)) => json!(["insufficient"]),
                Err(e) => json!(["error", e.to_string()]),
            });
            calls.push(J::Array(loader.calls));
        }
        let uids: BTreeSet<String> = ents.iter().map(|e| e.uid().to_string()).collect();
        let mut out = json!({
            "ev": "Batched", "pols": with_record_keys(&case["pols"]), "params": case["params"], "loader": mode,
            "outcomes": outcomes, "calls": calls, "storeUids": uids.len(),
        });
        if let Some(id) = case.get("id") {
            out["id"] = id.clone();
        }
        Ok(out)
    })
}

pub fn drive(_seed: u64, _n: usize) -> Vec<J> {
    vec![]
}
