----------------------------- MODULE PolicySetSM -----------------------------
(***************************************************************************)
(* The policy set as a state machine (C08).                                *)
(*                                                                         *)
(* Abstract state: a record                                                *)
(*   [st |-> id -> static body, tm |-> id -> template body,                *)
(*    ln |-> id -> [tid, env]]          (three finite maps, ids = strings) *)
(* Bodies are opaque here (small integers / any values); their meaning is  *)
(* given by the instantiating module through SlotsOf(tbody).               *)
(* Every operation answers <<"ok", state'>> or <<"err">> and a failed      *)
(* operation changes nothing.                                              *)
(***************************************************************************)
EXTENDS Integers, Sequences, FiniteSets, TLC

CONSTANT TSlots(_)       \* template body -> set of slot names

Empty == [st |-> <<>>, tm |-> <<>>, ln |-> <<>>]
Ids(S) == DOMAIN S.st \cup DOMAIN S.tm \cup DOMAIN S.ln
Used(S, id) == id \in Ids(S)

PutF(f, k, v) == [x \in DOMAIN f \cup {k} |-> IF x = k THEN v ELSE f[x]]
DelF(f, k) == [x \in DOMAIN f \ {k} |-> f[x]]

PsOk(S) == <<"ok", S>>
PsErr == <<"err">>

LinksOf(S, tid) == {l \in DOMAIN S.ln : S.ln[l].tid = tid}

AddStatic(S, id, body) ==
  IF Used(S, id) THEN PsErr ELSE PsOk([S EXCEPT !.st = PutF(@, id, body)])
AddTemplate(S, id, tbody) ==
  IF Used(S, id) THEN PsErr ELSE PsOk([S EXCEPT !.tm = PutF(@, id, tbody)])
\* linking succeeds only when exactly the template's slots are bound and the new id is unused
Link(S, tid, new, env) ==
  IF tid \notin DOMAIN S.tm THEN PsErr
  ELSE IF DOMAIN env # TSlots(S.tm[tid]) THEN PsErr
  ELSE IF Used(S, new) THEN PsErr
  ELSE PsOk([S EXCEPT !.ln = PutF(@, new, [tid |-> tid, env |-> env])])
Unlink(S, id) ==
  IF id \in DOMAIN S.ln THEN PsOk([S EXCEPT !.ln = DelF(@, id)]) ELSE PsErr
RemoveStatic(S, id) ==
  IF id \in DOMAIN S.st THEN PsOk([S EXCEPT !.st = DelF(@, id)]) ELSE PsErr
RemoveTemplate(S, id) ==
  IF id \in DOMAIN S.tm /\ LinksOf(S, id) = {} THEN PsOk([S EXCEPT !.tm = DelF(@, id)]) ELSE PsErr

\* ---- merge.  An id of `O` conflicts when `S` binds the same id to something different.
\* Identical definitions under the same id merge silently (cedar's rule).
LinkSame(S, O, id) ==
  /\ id \in DOMAIN S.ln /\ id \in DOMAIN O.ln
  /\ S.ln[id] = O.ln[id]
  /\ S.ln[id].tid \in DOMAIN S.tm /\ O.ln[id].tid \in DOMAIN O.tm
  /\ S.tm[S.ln[id].tid] = O.tm[O.ln[id].tid]
Conflicts(S, O) ==
  {id \in DOMAIN O.st : Used(S, id) /\ ~(id \in DOMAIN S.st /\ S.st[id] = O.st[id])}
  \cup {id \in DOMAIN O.tm : Used(S, id) /\ ~(id \in DOMAIN S.tm /\ S.tm[id] = O.tm[id])}
  \cup {id \in DOMAIN O.ln : Used(S, id) /\ ~LinkSame(S, O, id)}

\* ren: function from Conflicts(S, O) to fresh ids
GoodRenaming(S, O, ren) ==
  /\ DOMAIN ren = Conflicts(S, O)
  /\ \A a, b \in DOMAIN ren : a # b => ren[a] # ren[b]
  /\ \A a \in DOMAIN ren : ren[a] \notin Ids(S) \cup Ids(O)
R(ren, id) == IF id \in DOMAIN ren THEN ren[id] ELSE id
MergeWith(S, O, ren) ==
  LET st2 == [x \in DOMAIN S.st \cup {R(ren, i) : i \in DOMAIN O.st} |->
                IF x \in DOMAIN S.st THEN S.st[x] ELSE O.st[CHOOSE i \in DOMAIN O.st : R(ren, i) = x]]
      tm2 == [x \in DOMAIN S.tm \cup {R(ren, i) : i \in DOMAIN O.tm} |->
                IF x \in DOMAIN S.tm THEN S.tm[x] ELSE O.tm[CHOOSE i \in DOMAIN O.tm : R(ren, i) = x]]
      ln2 == [x \in DOMAIN S.ln \cup {R(ren, i) : i \in DOMAIN O.ln} |->
                IF x \in DOMAIN S.ln THEN S.ln[x]
                ELSE LET i == CHOOSE i \in DOMAIN O.ln : R(ren, i) = x
                     IN [tid |-> R(ren, O.ln[i].tid), env |-> O.ln[i].env]]
  IN [st |-> st2, tm |-> tm2, ln |-> ln2]
\* without renaming: fails on any conflict
MergeStrict(S, O) == IF Conflicts(S, O) = {} THEN PsOk(MergeWith(S, O, <<>>)) ELSE PsErr

\* ---- invariants of the design (binding M)
IdsDisjoint(S) == /\ DOMAIN S.st \cap DOMAIN S.tm = {}
                  /\ DOMAIN S.st \cap DOMAIN S.ln = {}
                  /\ DOMAIN S.tm \cap DOMAIN S.ln = {}
EveryLinkHasTemplate(S) == \A l \in DOMAIN S.ln : S.ln[l].tid \in DOMAIN S.tm
LinksWellFormed(S) == \A l \in DOMAIN S.ln : DOMAIN S.ln[l].env = TSlots(S.tm[S.ln[l].tid])
WellFormed(S) == IdsDisjoint(S) /\ EveryLinkHasTemplate(S) /\ LinksWellFormed(S)
==============================================================================
