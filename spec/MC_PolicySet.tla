---------------------------- MODULE MC_PolicySet ----------------------------
(* Exhaustive exploration of PolicySetSM over a small id pool; every enabled *)
(* (state, operation) pair is printed as a case (binding G) and the design   *)
(* invariants are checked in every reachable state (binding M).              *)
EXTENDS PsBodies, Json

CONSTANTS Pool, MaxIds
INSTANCE PolicySetSM WITH TSlots <- TSlotsOf

VARIABLE PS

PrincVals == {Ua, Gg}
ResVals == {Dd, Gg}
Envs == {<<>>} \cup {[principal |-> p] : p \in PrincVals} \cup {[resource |-> r] : r \in ResVals}
        \cup {[principal |-> p, resource |-> r] : p \in PrincVals, r \in ResVals}

Others == <<
  [st |-> [a |-> 1], tm |-> <<>>, ln |-> <<>>],
  [st |-> [a |-> 2], tm |-> <<>>, ln |-> <<>>],
  [st |-> <<>>, tm |-> [a |-> 1], ln |-> [b |-> [tid |-> "a", env |-> [principal |-> Ua]]]],
  [st |-> <<>>, tm |-> [b |-> 1], ln |-> [a |-> [tid |-> "b", env |-> [principal |-> Ua]]]],
  [st |-> <<>>, tm |-> [a |-> 2], ln |-> <<>>],
  [st |-> [c |-> 1], tm |-> [a |-> 1], ln |-> [b |-> [tid |-> "a", env |-> [principal |-> Gg]]]]
>>

Fresh == <<"policy0", "policy1", "policy2", "policy3", "policy4", "policy5">>
\* cedar picks policyN with the smallest unused N; any fresh injective choice satisfies the property
RECURSIVE PickFresh(_, _, _)
PickFresh(todo, taken, i) ==
  IF todo = {} THEN <<>>
  ELSE IF Fresh[i] \in taken THEN PickFresh(todo, taken, i + 1)
  ELSE LET x == CHOOSE x \in todo : TRUE
       IN (x :> Fresh[i]) @@ PickFresh(todo \ {x}, taken \cup {Fresh[i]}, i + 1)

Ops ==
  {<<"add", id, b>> : id \in Pool, b \in 1..Len(SBodies)}
  \cup {<<"addTemplate", id, b>> : id \in Pool, b \in 1..Len(TBodies)}
  \cup {<<"link", t, n, e>> : t \in Pool, n \in Pool, e \in Envs}
  \cup {<<"unlink", id>> : id \in Pool}
  \cup {<<"removeStatic", id>> : id \in Pool}
  \cup {<<"removeTemplate", id>> : id \in Pool}
  \cup {<<"merge", k, r>> : k \in 1..Len(Others), r \in BOOLEAN}

ApplyOp(s, op) ==
  CASE op[1] = "add" -> AddStatic(s, op[2], op[3])
    [] op[1] = "addTemplate" -> AddTemplate(s, op[2], op[3])
    [] op[1] = "link" -> Link(s, op[2], op[3], op[4])
    [] op[1] = "unlink" -> Unlink(s, op[2])
    [] op[1] = "removeStatic" -> RemoveStatic(s, op[2])
    [] op[1] = "removeTemplate" -> RemoveTemplate(s, op[2])
    [] op[1] = "merge" ->
         LET O == Others[op[2]]
         IN IF op[3] THEN PsOk(MergeWith(s, O, PickFresh(Conflicts(s, O), Ids(s) \cup Ids(O), 1)))
            ELSE MergeStrict(s, O)

Init == PS = Empty
Next == \E op \in Ops : LET r == ApplyOp(PS, op) IN PS' = IF r[1] = "ok" THEN r[2] ELSE PS
Bound == Cardinality(Ids(PS)) <= MaxIds

\* ---------------------------------------------------------------- binding M
Inv == WellFormed(PS)
\* every renaming chosen for a merge is a good one
RenamingsGood == \A k \in 1..Len(Others) :
                   GoodRenaming(PS, Others[k], PickFresh(Conflicts(PS, Others[k]), Ids(PS) \cup Ids(Others[k]), 1))

\* ---------------------------------------------------------------- binding G
WireSet(s) == [st |-> s.st, tm |-> s.tm, ln |-> s.ln]
DumpAll == Bound => \A op \in Ops :
  PrintT("CASE " \o ToJson([pre |-> WireSet(PS),
                            op |-> IF op[1] = "merge" THEN <<"merge", WireSet(Others[op[2]]), op[3]>> ELSE op]))
ASSUME PrintT("WORLD " \o ToJson([req |-> Req, store |-> WireStore,
                                  sbodies |-> SBodies, tbodies |-> TBodies,
                                  requests |-> Requests]))
==============================================================================
