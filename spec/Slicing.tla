------------------------------- MODULE Slicing -------------------------------
(***************************************************************************)
(* Entity slices (C16, C17).  LevelSlice(env, n): the entities reachable   *)
(* from the request's principal, action, resource and the uids in its      *)
(* context within n attribute/tag hops (the request's own entities are at  *)
(* 0 hops), each kept with its attributes, tags and full ancestor set.     *)
(* A slice is adequate for a policy set when authorization over it gives   *)
(* the same decision, determining policies and erroring policies as over   *)
(* the full store.                                                         *)
(***************************************************************************)
EXTENDS TypedWorld

RECURSIVE UidsInValue(_)
UidsInValue(v) ==
  CASE v[1] = "ent" -> {v}
    [] v[1] = "set" -> UNION {UidsInValue(x) : x \in v[2]}
    [] v[1] = "rec" -> UNION {UidsInValue(v[2][k]) : k \in DOMAIN v[2]}
    [] OTHER -> {}
DataUids(store, u) ==
  IF u \in DOMAIN store
  THEN UNION {UidsInValue(store[u].attrs[k]) : k \in DOMAIN store[u].attrs} \cup UNION {UidsInValue(t[2]) : t \in store[u].tags}
  ELSE {}
Roots(env) == {env.req.principal, env.req.action, env.req.resource} \cup UidsInValue(env.req.context)
RECURSIVE Within(_, _, _)
Within(store, U, n) == IF n = 0 THEN U ELSE Within(store, U \cup UNION {DataUids(store, u) : u \in U}, n - 1)
LevelUids(env, n) == Within(env.store, Roots(env), n) \cap DOMAIN env.store
Restrict(store, U) == [u \in U \cap DOMAIN store |-> store[u]]
LevelSlice(env, n) == Restrict(env.store, LevelUids(env, n))

Adequate(P, env, sub) == Authorize(P, env.req, sub) = Authorize(P, env.req, env.store)

\* sub is a sub-store of store: no invented entities, attributes, tags or ancestors
SubStore(sub, store) ==
  /\ DOMAIN sub \subseteq DOMAIN store
  /\ \A u \in DOMAIN sub :
       /\ DOMAIN sub[u].attrs \subseteq DOMAIN store[u].attrs
       /\ \A k \in DOMAIN sub[u].attrs : sub[u].attrs[k] = store[u].attrs[k]
       /\ sub[u].tags \subseteq store[u].tags
       /\ sub[u].anc \subseteq store[u].anc
==============================================================================
