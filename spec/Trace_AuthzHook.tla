--------------------------- MODULE Trace_AuthzHook ---------------------------
(* Trace specification for the authorizer events recorded by the `verif-trace` *)
(* hooks: the outcome of every policy (sat / unsat / err) and the response.    *)
(* Explained iff the response is the decision algebra of CedarAuthz applied to  *)
(* the recorded partition.                                                      *)
EXTENDS CedarAuthz, TLC, Json, IOUtils

Rec == ndJsonDeserialize(IOEnv.TRACE)
VARIABLES l, bad
ToSet(s) == {s[i] : i \in 1..Len(s)}
NoDup(s) == \A i, j \in 1..Len(s) : i # j => s[i] # s[j]
Explained(ev) ==
  /\ ev.ev = "AuthzHook"
  /\ NoDup([i \in 1..Len(ev.pols) |-> ev.pols[i][1]])
  /\ LET T == {<<ev.pols[i][1], ev.pols[i][2], ev.pols[i][3]>> : i \in 1..Len(ev.pols)}
         exp == ResponseOf(T)
     IN /\ ev.decision = exp.decision
        /\ ToSet(ev.reasons) = exp.reasons
        /\ NoDup(ev.errors) /\ ToSet(ev.errors) = exp.errors
Init == l = 1 /\ bad = {}
Next == /\ l <= Len(Rec)
        /\ l' = l + 1
        /\ bad' = IF Explained(Rec[l]) THEN bad ELSE bad \cup {l}
Report == (l = Len(Rec) + 1) => PrintT(<<"TRACE-RESULT", Len(Rec), bad>>)
Accepted == TLCGet("stats").diameter = Len(Rec) + 1
==============================================================================
