//! Seeded random generators of wire-form worlds (request + store) and
//! expressions / policies, for the (T) binding: the real code runs them and the
//! specification judges the recorded results.

use crate::abs::{i64_to_wire, str_to_wire};
use rand::rngs::StdRng;
use rand::{Rng, SeedableRng};
use serde_json::{json, Map, Value as J};
use std::collections::{BTreeMap, BTreeSet};

pub struct Gen {
    pub rng: StdRng,
}

pub struct World {
    pub req: J,
    pub store: J,
    pub uids: Vec<J>,
}

#[derive(Clone, Copy, PartialEq, Eq, Debug)]
pub enum Ty {
    Bool,
    Long,
    Str,
    Ent,
    Set,
    Rec,
}

const TYS: [Ty; 6] = [Ty::Bool, Ty::Long, Ty::Str, Ty::Ent, Ty::Set, Ty::Rec];
pub const ATTRS: [&str; 6] = ["n", "s", "b", "owner", "tags", "rec"];
const STRS: [&str; 8] = ["", "a", "ab", "a*b", "k", "\u{1F600}x", "e\u{301}", "k2"];
const LONGS: [i64; 10] = [0, 1, -1, 2, 3, 7, i64::MAX, i64::MIN, i64::MAX - 1, i64::MIN + 1];

pub fn ent(ty: &str, id: &str) -> J {
    json!(["ent", ty, id])
}

impl Gen {
    pub fn new(seed: u64) -> Self {
        Gen { rng: StdRng::seed_from_u64(seed) }
    }
    pub fn pick<'a, T>(&mut self, xs: &'a [T]) -> &'a T {
        &xs[self.rng.gen_range(0..xs.len())]
    }
    pub fn chance(&mut self, pct: u32) -> bool {
        self.rng.gen_range(0..100) < pct
    }

    pub fn all_uids() -> Vec<J> {
        vec![
            ent("User", "a"), ent("User", "b"), ent("Doc", "d"), ent("Doc", "e"),
            ent("Group", "g"), ent("Group", "h"), ent("Action", "view"), ent("Action", "edit"),
        ]
    }

    pub fn long(&mut self) -> J {
        let n = if self.chance(70) { self.rng.gen_range(-3..6) } else { *self.pick(&LONGS) };
        json!(["long", i64_to_wire(n)])
    }
    pub fn string(&mut self) -> J {
        { let s: &str = *self.pick(&STRS[..]); json!(["str", str_to_wire(s)]) }
    }

    /// a random value of the given type (depth-bounded), drawn from small pools
    pub fn value(&mut self, ty: Ty, depth: usize, uids: &[J]) -> J {
        match ty {
            Ty::Bool => json!(["bool", self.chance(50)]),
            Ty::Long => self.long(),
            Ty::Str => self.string(),
            Ty::Ent => self.pick(uids).clone(),
            Ty::Set => {
                let n = self.rng.gen_range(0..3);
                let et = if depth == 0 { *self.pick(&[Ty::Long, Ty::Str, Ty::Ent, Ty::Bool]) } else { *self.pick(&TYS) };
                let mixed = self.chance(15);
                let mut items = vec![];
                for _ in 0..n {
                    let t = if mixed { *self.pick(&TYS) } else { et };
                    items.push(self.value(t, depth.saturating_sub(1), uids));
                }
                json!(["set", items])
            }
            Ty::Rec => {
                let n = self.rng.gen_range(0..3);
                let mut m = Map::new();
                for _ in 0..n {
                    let k = *self.pick(&ATTRS);
                    let t = if depth == 0 { *self.pick(&[Ty::Long, Ty::Str, Ty::Ent, Ty::Bool]) } else { *self.pick(&TYS) };
                    m.insert(k.to_string(), self.value(t, depth.saturating_sub(1), uids));
                }
                json!(["rec", m])
            }
        }
    }

    fn attr_value(&mut self, attr: &str, uids: &[J]) -> J {
        // mostly the "natural" type of the attribute, sometimes anything
        let ty = if self.chance(85) {
            match attr {
                "n" => Ty::Long,
                "s" => Ty::Str,
                "b" => Ty::Bool,
                "owner" => Ty::Ent,
                "tags" => Ty::Set,
                _ => Ty::Rec,
            }
        } else {
            *self.pick(&TYS)
        };
        self.value(ty, 1, uids)
    }

    pub fn world(&mut self) -> World {
        let uids = Self::all_uids();
        // parents only towards later uids in a fixed order -> acyclic
        let order: Vec<usize> = (0..uids.len()).collect();
        let mut parents: BTreeMap<usize, BTreeSet<usize>> = BTreeMap::new();
        for &i in &order {
            let mut ps = BTreeSet::new();
            for j in (i + 1)..uids.len() {
                if self.chance(22) {
                    ps.insert(j);
                }
            }
            parents.insert(i, ps);
        }
        let present: Vec<bool> = (0..uids.len()).map(|_| self.chance(75)).collect();
        // closure over present entities' edges (a parent without a record is a leaf)
        let mut anc: BTreeMap<usize, BTreeSet<usize>> = BTreeMap::new();
        for i in (0..uids.len()).rev() {
            let mut a = BTreeSet::new();
            if present[i] {
                for &p in &parents[&i] {
                    a.insert(p);
                    if let Some(pa) = anc.get(&p) {
                        a.extend(pa.iter().cloned());
                    }
                }
            }
            anc.insert(i, a);
        }
        let mut store = vec![];
        for i in 0..uids.len() {
            if !present[i] {
                continue;
            }
            let mut attrs = Map::new();
            for a in ATTRS {
                if self.chance(55) {
                    attrs.insert(a.to_string(), self.attr_value(a, &uids));
                }
            }
            let mut tags = vec![];
            let mut seen = BTreeSet::new();
            for _ in 0..self.rng.gen_range(0..3) {
                let k = *self.pick(&STRS);
                if seen.insert(k) {
                    let t = *self.pick(&TYS);
                    tags.push(json!([str_to_wire(k), self.value(t, 1, &uids)]));
                }
            }
            let ancs: Vec<J> = anc[&i].iter().map(|&j| uids[j].clone()).collect();
            store.push(json!({"uid": uids[i], "attrs": attrs, "tags": tags, "anc": ancs}));
        }
        let mut ctx = Map::new();
        for a in ATTRS {
            if self.chance(50) {
                ctx.insert(a.to_string(), self.attr_value(a, &uids));
            }
        }
        let req = json!({
            "principal": self.pick(&uids[0..2]).clone(),
            "action": self.pick(&uids[6..8]).clone(),
            "resource": self.pick(&uids[2..4]).clone(),
            "context": ["rec", ctx],
        });
        World { req, store: J::Array(store), uids }
    }

    fn lit(&mut self, ty: Ty, w: &World) -> J {
        match ty {
            Ty::Bool | Ty::Long | Ty::Str | Ty::Ent => json!(["lit", self.value(ty, 0, &w.uids)]),
            Ty::Set => {
                let n = self.rng.gen_range(0..3);
                let et = *self.pick(&[Ty::Long, Ty::Str, Ty::Ent, Ty::Bool]);
                let items: Vec<J> = (0..n).map(|_| self.lit(et, w)).collect();
                json!(["set", items])
            }
            Ty::Rec => {
                let mut m = Map::new();
                for _ in 0..self.rng.gen_range(0..3) {
                    let k = *self.pick(&ATTRS);
                    let t = *self.pick(&[Ty::Long, Ty::Str, Ty::Ent, Ty::Bool]);
                    m.insert(k.to_string(), self.lit(t, w));
                }
                json!(["record", m])
            }
        }
    }

    fn entity_source(&mut self, w: &World) -> J {
        match self.rng.gen_range(0..4) {
            0 => json!(["var", "principal"]),
            1 => json!(["var", "resource"]),
            2 => json!(["var", "action"]),
            _ => json!(["lit", self.pick(&w.uids).clone()]),
        }
    }

    fn attr_for(ty: Ty) -> &'static str {
        match ty {
            Ty::Long => "n",
            Ty::Str => "s",
            Ty::Bool => "b",
            Ty::Ent => "owner",
            Ty::Set => "tags",
            Ty::Rec => "rec",
        }
    }

    /// random expression intended to have type `ty` (with deliberate slips)
    pub fn expr_ty(&mut self, ty: Ty, depth: usize, w: &World) -> J {
        let ty = if self.chance(8) { *self.pick(&TYS) } else { ty };
        if depth == 0 {
            return match self.rng.gen_range(0..10) {
                0..=5 => self.lit(ty, w),
                6 => json!(["get", ["var", "context"], Self::attr_for(ty)]),
                7 => json!(["get", self.entity_source(w), Self::attr_for(ty)]),
                8 if ty == Ty::Ent => self.entity_source(w),
                8 if ty == Ty::Rec => json!(["var", "context"]),
                _ => self.lit(ty, w),
            };
        }
        let d = depth - 1;
        // access forms available at any type
        if self.chance(18) {
            let base = if self.chance(50) { self.expr_ty(Ty::Ent, d, w) } else { self.expr_ty(Ty::Rec, d, w) };
            return json!(["get", base, Self::attr_for(ty)]);
        }
        if self.chance(6) {
            return json!(["if", self.expr_ty(Ty::Bool, d, w), self.expr_ty(ty, d, w), self.expr_ty(ty, d, w)]);
        }
        if self.chance(4) {
            let k = json!(["lit", self.string()]);
            return json!(["bin", "getTag", self.expr_ty(Ty::Ent, d, w), k]);
        }
        match ty {
            Ty::Bool => match self.rng.gen_range(0..17) {
                0 => json!(["and", self.expr_ty(Ty::Bool, d, w), self.expr_ty(Ty::Bool, d, w)]),
                1 => json!(["or", self.expr_ty(Ty::Bool, d, w), self.expr_ty(Ty::Bool, d, w)]),
                2 => json!(["not", self.expr_ty(Ty::Bool, d, w)]),
                3 => {
                    let t = *self.pick(&TYS);
                    let t2 = if self.chance(80) { t } else { *self.pick(&TYS) };
                    json!(["bin", "eq", self.expr_ty(t, d, w), self.expr_ty(t2, d, w)])
                }
                4 => json!(["bin", "less", self.expr_ty(Ty::Long, d, w), self.expr_ty(Ty::Long, d, w)]),
                5 => json!(["bin", "lessEq", self.expr_ty(Ty::Long, d, w), self.expr_ty(Ty::Long, d, w)]),
                6 => {
                    let rhs = match self.rng.gen_range(0..4) {
                        0 | 1 => self.expr_ty(Ty::Ent, d, w),
                        2 => self.expr_ty(Ty::Set, d, w),
                        _ => {
                            // a set of entities, possibly with one stray element of another type anywhere
                            let n = self.rng.gen_range(1..4);
                            let mut items: Vec<J> = (0..n).map(|_| self.expr_ty(Ty::Ent, 0, w)).collect();
                            if self.chance(50) {
                                let t = *self.pick(&TYS);
                                let pos = self.rng.gen_range(0..=items.len());
                                let stray = self.expr_ty(t, 0, w);
                                items.insert(pos, stray);
                            }
                            json!(["set", items])
                        }
                    };
                    json!(["bin", "in", self.expr_ty(Ty::Ent, d, w), rhs])
                }
                7 => {
                    let t = *self.pick(&TYS);
                    json!(["bin", "contains", self.expr_ty(Ty::Set, d, w), self.expr_ty(t, d, w)])
                }
                8 => json!(["bin", "containsAll", self.expr_ty(Ty::Set, d, w), self.expr_ty(Ty::Set, d, w)]),
                9 => json!(["bin", "containsAny", self.expr_ty(Ty::Set, d, w), self.expr_ty(Ty::Set, d, w)]),
                10 => json!(["isEmpty", self.expr_ty(Ty::Set, d, w)]),
                11 => {
                    let base = if self.chance(50) { self.expr_ty(Ty::Ent, d, w) } else { self.expr_ty(Ty::Rec, d, w) };
                    json!(["has", base, *self.pick(&ATTRS)])
                }
                12 => json!(["bin", "hasTag", self.expr_ty(Ty::Ent, d, w), ["lit", self.string()]]),
                13 => {
                    let pat = self.pattern();
                    json!(["like", self.expr_ty(Ty::Str, d, w), pat])
                }
                14 => json!(["is", self.expr_ty(Ty::Ent, d, w), *self.pick(&["User", "Doc", "Group", "Action"])]),
                15 => {
                    let f = *self.pick(&["lessThan", "lessThanOrEqual", "greaterThan", "greaterThanOrEqual"]);
                    json!(["call", f, [self.decimal_expr(), self.decimal_expr()]])
                }
                _ => self.lit(Ty::Bool, w),
            },
            Ty::Long => match self.rng.gen_range(0..5) {
                0 => json!(["bin", "add", self.expr_ty(Ty::Long, d, w), self.expr_ty(Ty::Long, d, w)]),
                1 => json!(["bin", "sub", self.expr_ty(Ty::Long, d, w), self.expr_ty(Ty::Long, d, w)]),
                2 => json!(["bin", "mul", self.expr_ty(Ty::Long, d, w), self.expr_ty(Ty::Long, d, w)]),
                3 => json!(["neg", self.expr_ty(Ty::Long, d, w)]),
                _ => self.lit(Ty::Long, w),
            },
            Ty::Set => {
                let n = self.rng.gen_range(0..4);
                let et = *self.pick(&TYS);
                let mixed = self.chance(25);
                let items: Vec<J> = (0..n)
                    .map(|_| {
                        let t = if mixed { *self.pick(&TYS) } else { et };
                        self.expr_ty(t, d, w)
                    })
                    .collect();
                json!(["set", items])
            }
            Ty::Rec => {
                let mut m = Map::new();
                for _ in 0..self.rng.gen_range(0..3) {
                    let k = *self.pick(&ATTRS);
                    let t = *self.pick(&TYS);
                    m.insert(k.to_string(), self.expr_ty(t, d, w));
                }
                json!(["record", m])
            }
            Ty::Str | Ty::Ent => self.expr_ty(ty, 0, w),
        }
    }

    fn decimal_expr(&mut self) -> J {
        let s = *self.pick(&["0.0", "1.5", "-1.5", "1.50", "922337203685477.5807", "-922337203685477.5808", "1.23456", "00.1", "x"]);
        json!(["call", "decimal", [["lit", ["str", str_to_wire(s)]]]])
    }

    pub fn pattern(&mut self) -> J {
        let n = self.rng.gen_range(0..4);
        let mut p = vec![];
        for _ in 0..n {
            p.push(match self.rng.gen_range(0..6) {
                0 | 1 => json!(-1),
                2 => json!('a' as u32),
                3 => json!('b' as u32),
                4 => json!('*' as u32),
                _ => json!(0x1F600),
            });
        }
        J::Array(p)
    }

    pub fn expr(&mut self, w: &World, depth: usize) -> J {
        let ty = *self.pick(&[Ty::Bool, Ty::Bool, Ty::Bool, Ty::Long, Ty::Set, Ty::Rec, Ty::Str, Ty::Ent]);
        self.expr_ty(ty, depth, w)
    }
}
