--------------------------- MODULE MC_EntityStore ---------------------------
(* Exhaustive exploration of EntityStore over a small uid universe; every   *)
(* transition (pre-state, operation, argument) is printed as a case.        *)
EXTENDS EntityStore, TLC, Json

CONSTANTS NU,        \* number of uids
          Two        \* TRUE: also batches of two entries

VARIABLE ents
Uids == 1..NU
Entries == {<<u, p, v>> : u \in Uids, p \in SUBSET Uids, v \in {0, 1}}
Batches == {<<e>> : e \in Entries} \cup (IF Two THEN {<<e1, e2>> : e1 \in Entries, e2 \in Entries} ELSE {})

Init == ents = <<>>
Step(op, arg) == LET r == Apply(ents, op, arg)
                 IN ents' = IF r[1] = "ok" THEN r[2] ELSE ents
Next == \/ \E b \in Batches : Step("add", b)
        \/ \E b \in Batches : Step("upsert", b)
        \/ \E s \in SUBSET Uids : Step("remove", s)

\* binding M: the store never holds a cycle; ancestors are exactly reachability by construction
Inv == Acyclic(ents)

\* binding G.  The label of the step is not part of the state, so the case is
\* reconstructed here from (ents, ents'): print every enabled (op, arg) once per pre-state.
\* ACTION_CONSTRAINT is evaluated per generated successor; to print each labelled
\* transition exactly once we print from an invariant on the pre-state instead.
WirePre == {<<u, ents[u].par, ents[u].v>> : u \in DOMAIN ents}
\* states only: the harness side walks the operation product itself (seeded sample per state)
DumpStates == PrintT("CASE " \o ToJson([pre |-> WirePre]))
\* only removals and single replacements (the operations that can strand an ancestor)
DumpRU ==
  /\ \A e \in Entries : PrintT("CASE " \o ToJson([pre |-> WirePre, op |-> "upsert", arg |-> <<e>>]))
  /\ \A s \in SUBSET Uids : PrintT("CASE " \o ToJson([pre |-> WirePre, op |-> "remove", arg |-> s]))
DumpAll ==
  /\ \A b \in Batches : PrintT("CASE " \o ToJson([pre |-> WirePre, op |-> "add", arg |-> b]))
  /\ \A b \in Batches : PrintT("CASE " \o ToJson([pre |-> WirePre, op |-> "upsert", arg |-> b]))
  /\ \A s \in SUBSET Uids : PrintT("CASE " \o ToJson([pre |-> WirePre, op |-> "remove", arg |-> s]))
==============================================================================
