------------------------------ MODULE MC_Authz ------------------------------
(***************************************************************************)
(* Case generator and model-level checks for C01.  A case is a multiset of *)
(* policies drawn from 16 bodies x 2 effects; bodies realise each outcome  *)
(* (sat / unsat / err) in several independent ways: constant conditions,   *)
(* scope matches, request-dependent conditions of every error class, and   *)
(* template-linked policies whose slot decides the scope match.            *)
(***************************************************************************)
EXTENDS World, Json

CONSTANT N               \* maximum number of policies in a case

VARIABLES first, c
T_ == Lit(TrueV)
F_ == Lit(FalseV)

Body(pr, ac, re, conds, slots, tmpl) ==
  [principal |-> pr, action |-> ac, resource |-> re, conds |-> conds, slots |-> slots, template |-> tmpl]
AnyS == <<"any">>

Bodies == <<
  \* ---- satisfied
  Body(AnyS, AnyS, AnyS, <<>>, <<>>, FALSE),
  Body(<<"eq", Ua>>, AnyS, AnyS, <<<<"when", T_>>>>, <<>>, FALSE),
  Body(<<"in", Gh>>, <<"inset", <<Av, Ae>>>>, <<"is", "Doc">>, <<>>, <<>>, FALSE),
  Body(<<"eqslot">>, AnyS, <<"inslot">>, <<>>, [principal |-> Ua, resource |-> Dd], TRUE),
  Body(AnyS, AnyS, AnyS, <<<<"when", Bin("eq", Get(V("principal"), "n"), Lit(L(1)))>>, <<"unless", F_>>>>, <<>>, FALSE),
  \* ---- not satisfied
  Body(AnyS, AnyS, AnyS, <<<<"when", F_>>>>, <<>>, FALSE),
  Body(<<"eq", Ub>>, AnyS, AnyS, <<>>, <<>>, FALSE),
  Body(<<"eqslot">>, AnyS, AnyS, <<>>, [principal |-> Ub], TRUE),
  Body(AnyS, AnyS, AnyS, <<<<"unless", T_>>>>, <<>>, FALSE),
  Body(AnyS, <<"eq", Av>>, <<"isin", "Doc", Gg>>, <<>>, <<>>, FALSE),
  \* the empty action list matches no request; its clauses are never reached
  Body(AnyS, <<"inset", <<>>>>, AnyS, <<>>, <<>>, FALSE),
  Body(AnyS, <<"inset", <<>>>>, AnyS, <<<<"when", Bin("eq", TypeErrE, Lit(L(2)))>>>>, <<>>, FALSE),
  \* ---- erroring
  Body(AnyS, AnyS, AnyS, <<<<"when", Bin("eq", TypeErrE, Lit(L(2)))>>>>, <<>>, FALSE),
  Body(AnyS, AnyS, AnyS, <<<<"when", Bin("eq", OverflowE, Lit(L(0)))>>>>, <<>>, FALSE),
  Body(<<"is", "User">>, AnyS, AnyS, <<<<"when", Bin("eq", NoEntityE, Lit(L(1)))>>>>, <<>>, FALSE),
  Body(<<"inslot">>, AnyS, AnyS, <<<<"when", NoAttrE>>>>, [principal |-> Gg], TRUE),
  Body(AnyS, AnyS, AnyS, <<<<"unless", Bin("eq", ExtErrE, ExtErrE)>>>>, <<>>, FALSE),
  Body(AnyS, AnyS, AnyS, <<<<"when", T_>>, <<"when", Lit(L(1))>>>>, <<>>, FALSE)
>>
Expected == <<"sat", "sat", "sat", "sat", "sat", "unsat", "unsat", "unsat", "unsat", "unsat", "unsat", "unsat",
              "err", "err", "err", "err", "err", "err">>

NB == Len(Bodies)
Kinds == 1..(2 * NB)
EffOf(k) == IF k % 2 = 1 THEN "permit" ELSE "forbid"
BodyOf(k) == (k + 1) \div 2
IdOf(i) == <<"p1", "p2", "p3", "p4", "p5", "p6">>[i]
Pol(k, i) == LET b == Bodies[BodyOf(k)]
             IN [id |-> IdOf(i), effect |-> EffOf(k), principal |-> b.principal, action |-> b.action,
                 resource |-> b.resource, conds |-> b.conds, slots |-> b.slots, template |-> b.template]

\* non-decreasing tuples over Kinds, first element fixed
RECURSIVE Ext(_, _)
Ext(t, n) == IF n = 0 THEN {t}
             ELSE {t} \cup UNION {Ext(Append(t, k), n - 1) : k \in {j \in Kinds : j >= t[Len(t)]}}

Init == /\ first \in Kinds \cup {0}
        /\ c = <<0>>
Next == /\ c = <<0>>
        /\ c' \in (IF first = 0 THEN {<<>>} ELSE Ext(<<first>>, N - 1))
        /\ UNCHANGED first

Pols(t) == [i \in 1..Len(t) |-> Pol(t[i], i)]
PolSetOf(t) == {Pol(t[i], i) : i \in 1..Len(t)}

\* ---------------------------------------------------------------- binding M
Trip(t) == Triples(PolSetOf(t), Req, Store)
Algebra(t) ==
  LET T == Trip(t)
      R == ResponseOf(T)
      sat == {x[1] : x \in {u \in T : u[3] = "sat"}}
      noErr == {u \in T : u[3] # "err"}
  IN /\ (R.decision = "Allow") <=> (SatIds(T, "permit") # {} /\ SatIds(T, "forbid") = {})
     /\ R.reasons \subseteq sat
     /\ R.reasons \cap R.errors = {}
     /\ (R.decision = "Allow") => R.reasons = SatIds(T, "permit")
     /\ (SatIds(T, "forbid") # {}) => (R.decision = "Deny" /\ R.reasons = SatIds(T, "forbid"))
     /\ (T = {}) => R.decision = "Deny"
     \* an erroring policy counts as not satisfied: dropping it changes neither decision nor reasons
     /\ DecisionOf(noErr) = R.decision /\ ReasonsOf(noErr) = R.reasons
     \* each body has the outcome the pool claims for it
     /\ \A i \in 1..Len(t) : Outcome(Pol(t[i], i), Req, Store) = Expected[BodyOf(t[i])]
\* a linked template behaves as its substitution instance
LinkIsSubstitution(t) ==
  \A i \in 1..Len(t) :
    LET p == Pol(t[i], i)
    IN p.template => Outcome(p, Req, Store) = Outcome(LinkBySubstitution(p, p.id, p.slots), Req, Store)

Sane == c # <<0>> => Algebra(c) /\ LinkIsSubstitution(c)

\* ---------------------------------------------------------------- binding G
Dump == PrintT("CASE " \o ToJson([pols |-> Pols(c')]))
ASSUME PrintT("WORLD " \o ToJson([req |-> Req, store |-> WireStore]))
==============================================================================
