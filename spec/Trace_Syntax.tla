----------------------------- MODULE Trace_Syntax -----------------------------
(* Trace specification for family "syntax" (C05).                             *)
(*  Syntax        one surface policy set of MC_Syntax, spelled by the harness  *)
(*                from the token sequence of one style; `views` are the        *)
(*                distinct projections obtained over all parse / print /       *)
(*                re-parse paths.  Explained iff every view is the desugaring  *)
(*                Syntax!SxSetCore of the surface set: in order where ids are  *)
(*                stable, as a multiset where the set was printed as a whole.  *)
(*  SyntaxReject  a token sequence the reference grammar does not derive:      *)
(*                every parser entry point must refuse it.                     *)
(*  Stable        (binding T) a policy text found in the tree: the projection  *)
(*                is stable under every print / re-parse path.                 *)
EXTENDS Syntax, TLC, Json, IOUtils

Rec == ndJsonDeserialize(IOEnv.TRACE)
VARIABLES l, bad

\* every one of these paths must have been exercised and must agree
Paths == {"set", "core-set", "each", "ast-print", "to_cedar", "json", "est-print",
          "set-to_cedar", "set-display", "set-json", "set-json-to_cedar", "set-json-display"}
\* a view: one distinct projection `p` and the (kind, path) pairs that produced it
UsesOf(v) == {v.as[i] : i \in 1..Len(v.as)}

SxCount(s, x) == Cardinality({j \in 1..Len(s) : s[j] = x})
SameBag(s, t) == Len(s) = Len(t) /\ \A i \in 1..Len(s) : SxCount(s, s[i]) = SxCount(t, s[i])
\* PolicySet's Display lists policies(); templates are not policies and are not shown
IsTemplateCore(p) == p[3][1] \in {"eqslot", "inslot", "isinslot"} \/ p[5][1] \in {"eqslot", "inslot", "isinslot"}
Statics(s) == SelectSeq(s, LAMBDA p : ~IsTemplateCore(p))

ViewOk(v, exp) ==
  /\ v.k = "ok"
  /\ \A i \in 1..Len(v.p) : SxWireAnnOk(v.p[i])
  /\ LET got == SxSeqOfWire(v.p)
     IN \A u \in UsesOf(v) :
          CASE u[1] = "seq" -> got = exp                      \* ids are stable: same policies in the same order
            [] u[1] = "bag" -> SameBag(got, exp)              \* a printed set: same collection
            [] u[1] = "bagS" -> SameBag(got, Statics(exp))
            [] OTHER -> FALSE

AllViewsOk(views, exp) ==
  /\ \A i \in 1..Len(views) : ViewOk(views[i], exp)
  /\ Paths \subseteq {u[2] : u \in UNION {UsesOf(views[i]) : i \in 1..Len(views)}}

Explained(ev) ==
  CASE ev.ev = "Syntax" -> AllViewsOk(ev.views, SxSetCore(ev.pols))
    [] ev.ev = "SyntaxReject" -> Len(ev.parse) = 2 /\ \A i \in 1..Len(ev.parse) : ev.parse[i][1] = "err"
    [] ev.ev = "Stable" -> Len(ev.base) = ev.n /\ AllViewsOk(ev.views, SxSeqOfWire(ev.base))
    \* a file of the tree that is not a policy set (negative fixtures): nothing to check
    [] ev.ev = "SyntaxSkip" -> TRUE
    [] OTHER -> FALSE

Init == l = 1 /\ bad = {}
Next == /\ l <= Len(Rec)
        /\ l' = l + 1
        /\ bad' = IF Explained(Rec[l]) THEN bad ELSE bad \cup {l}
Report == (l = Len(Rec) + 1) => PrintT(<<"TRACE-RESULT", Len(Rec), bad>>)
Accepted == TLCGet("stats").diameter = Len(Rec) + 1
==============================================================================
