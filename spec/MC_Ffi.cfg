INIT Init
NEXT Next
INVARIANT Inv
INVARIANT DumpAll
CHECK_DEADLOCK FALSE
