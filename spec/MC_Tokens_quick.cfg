CONSTANTS SeqLen = 2
  HoleLen = 2
  MaxDepth = 48
INIT Init
NEXT Next
ACTION_CONSTRAINT Dump
CHECK_DEADLOCK FALSE
