-------------------------- MODULE EntityStoreRepair --------------------------
(***************************************************************************)
(* The entity store as the implementation keeps it (C04, one level below   *)
(* EntityStore.tla): every entity stores its direct parents AND its        *)
(* indirect ancestors, and add / upsert / remove repair the stored closure *)
(* incrementally (cedar-policy-core/src/entities.rs, transitive_closure.rs)*)
(* instead of recomputing it:                                              *)
(*   remove   strip the removed uid and the removed entity's ancestors     *)
(*            from every descendant, then repair exactly those descendants *)
(*   upsert   strip the replaced uid and its old ancestors from every      *)
(*            descendant, install the new record, extend the touched set   *)
(*            by every entity with a touched ancestor (one pass, in hash   *)
(*            order, over a growing set), repair                           *)
(*   add      install, extend the touched set the same way, repair         *)
(*   repair   = add_ancestors from every touched node: depth first over    *)
(*            the stored edges, trusting the stored closure of every node  *)
(*            outside the touched set; then a node with an edge to itself  *)
(*            is a cycle                                                   *)
(* Hash-container iteration orders are a parameter (ord, a permutation of  *)
(* the uid universe); the caller's batch order is part of the argument.    *)
(* Refinement: for every reachable state, operation, argument and order    *)
(* the outcome (ok / duplicate / tc) is EntityStore's, the stored parents  *)
(* and values are EntityStore's, and parents + indirect ancestors are      *)
(* exactly Reach in the abstract result.                                   *)
(***************************************************************************)
EXTENDS EntityStore, TLC

OrdSeq(S, ord) == SelectSeq(ord, LAMBDA x : x \in S)
AncI(I, u) == I[u].par \cup I[u].ind                       \* Entity::ancestors() as stored
OutI(I, u) == IF u \in DOMAIN I THEN AncI(I, u) ELSE {}
AbsI(I) == [u \in DOMAIN I |-> [par |-> I[u].par, v |-> I[u].v]]
ClosedI(I) == \A u \in DOMAIN I : AncI(I, u) = Reach(AbsI(I), u)

\* transitive_closure.rs: add_ancestors(node_id, nodes, seen); st = [I, seen]
RECURSIVE AddAnc(_, _, _)
AddAnc(n, st, ord) ==
  IF n \notin DOMAIN st.I THEN st
  ELSE LET out == OrdSeq(AncI(st.I, n), ord)               \* the out-edges are read before the loop
           RECURSIVE Loop(_, _, _)
           Loop(i, s, acc) ==
             IF i > Len(out) THEN <<s, acc>>
             ELSE LET a == out[i]
                      s1 == IF a \in s.seen THEN s ELSE AddAnc(a, [s EXCEPT !.seen = @ \cup {a}], ord)
                  IN Loop(i + 1, s1, acc \cup OutI(s1.I, a))
           r == Loop(1, st, {})
       IN [r[1] EXCEPT !.I = [@ EXCEPT ![n].ind = @ \cup r[2]]]

\* repair_tc(nodes_to_fix, nodes, enforce_dag = true)
RepairTC(I, fix, ord) ==
  LET nodes == OrdSeq(fix, ord)
      RECURSIVE Go(_, _)
      Go(i, st) == IF i > Len(nodes) THEN st ELSE Go(i + 1, AddAnc(nodes[i], st, ord))
      I2 == Go(1, [I |-> I, seen |-> DOMAIN I \ fix]).I
  IN IF \E k \in fix \cap DOMAIN I2 : k \in AncI(I2, k) THEN EsErr("tc") ELSE EsOk(I2)

\* the pass that extends the touched set: entities in hash order, the set grows while it is read
Grow(I, touched, ord) ==
  LET es == OrdSeq(DOMAIN I, ord)
      RECURSIVE Go(_, _)
      Go(i, t) == IF i > Len(es) THEN t ELSE Go(i + 1, IF t \cap AncI(I, es[i]) # {} THEN t \cup {es[i]} ELSE t)
  IN Go(1, touched)

PutI(I, u, rec) == [x \in DOMAIN I \cup {u} |-> IF x = u THEN rec ELSE I[x]]

\* remove_entities(collection, ComputeNow); rs is the caller's sequence
RemoveStage(I, rs) ==
  LET RECURSIVE Go(_, _, _)
      Go(i, J, touched) ==
        IF i > Len(rs) THEN <<J, touched>>
        ELSE LET r == rs[i]
             IN IF r \notin DOMAIN J THEN Go(i + 1, J, touched)
                ELSE LET gone == {r} \cup AncI(J, r)
                         K == [e \in DOMAIN J \ {r} |->
                                 IF r \in AncI(J, e) THEN [J[e] EXCEPT !.ind = @ \ gone, !.par = @ \ {r}] ELSE J[e]]
                     IN Go(i + 1, K, touched \cup {e \in DOMAIN J \ {r} : r \in AncI(J, e)})
  IN Go(1, I, {})
RemoveImpl(I, rs, ord) == LET res == RemoveStage(I, rs) IN RepairTC(res[1], res[2], ord)

\* upsert_entities(collection, ComputeNow); batch = sequence of <<uid, parents, v>>
UpsertStage(I, batch) ==
  LET RECURSIVE Go(_, _, _)
      Go(i, J, touched) ==
        IF i > Len(batch) THEN <<J, touched>>
        ELSE LET u == batch[i][1]
                 old == OutI(J, u)
                 desc == IF u \in DOMAIN J THEN {e \in DOMAIN J \ {u} : u \in AncI(J, e)} ELSE {}
                 K == [e \in DOMAIN J |-> IF e \in desc THEN [J[e] EXCEPT !.ind = @ \ ({u} \cup old)] ELSE J[e]]
             IN Go(i + 1, PutI(K, u, [par |-> batch[i][2], v |-> batch[i][3], ind |-> {}]), touched \cup desc \cup {u})
  IN Go(1, I, {})
UpsertImpl(I, batch, ord) == LET res == UpsertStage(I, batch) IN RepairTC(res[1], Grow(res[1], res[2], ord), ord)

\* add_entities(collection, ComputeNow)
AddStage(I, batch) ==
  LET RECURSIVE Go(_, _, _)
      Go(i, J, touched) ==
        IF i > Len(batch) THEN <<"ok", J, touched>>
        ELSE LET u == batch[i][1]
             IN IF u \notin DOMAIN J
                THEN Go(i + 1, PutI(J, u, [par |-> batch[i][2], v |-> batch[i][3], ind |-> {}]), touched \cup {u})
                ELSE IF J[u].v = batch[i][3] /\ AncI(J, u) = batch[i][2]     \* deep_eq: same data, same ancestor set
                     THEN Go(i + 1, J, touched \cup {u})
                     ELSE <<"err">>
  IN Go(1, I, {})
AddImpl(I, batch, ord) ==
  LET res == AddStage(I, batch)
  IN IF res[1] = "err" THEN EsErr("duplicate") ELSE RepairTC(res[2], Grow(res[2], res[3], ord), ord)
\* the touched set is read while it grows, in hash order: any result lies between one pass over the seed set and the fixpoint
RECURSIVE GrowFix(_, _)
GrowFix(I, t) == LET t2 == t \cup {e \in DOMAIN I : t \cap AncI(I, e) # {}} IN IF t2 = t THEN t ELSE GrowFix(I, t2)
GrowOk(I, t0, t) == t0 \cup {e \in DOMAIN I : t0 \cap AncI(I, e) # {}} \subseteq t /\ t \subseteq GrowFix(I, t0)

ApplyImpl(I, op, arg, ord) ==
  CASE op = "add" -> AddImpl(I, arg, ord)
    [] op = "upsert" -> UpsertImpl(I, arg, ord)
    [] op = "remove" -> RemoveImpl(I, arg, ord)

SeqToSet(s) == {s[i] : i \in 1..Len(s)}
\* the refinement obligation of one step
Refines(I, op, arg, ord) ==
  LET rI == ApplyImpl(I, op, arg, ord)
      rA == Apply(AbsI(I), op, IF op = "remove" THEN SeqToSet(arg) ELSE arg)
  IN /\ rI[1] = rA[1]
     /\ rI[1] = "err" => rI[2] = rA[2]
     /\ rI[1] = "ok" => /\ AbsI(rI[2]) = rA[2]
                        /\ ClosedI(rI[2])
==============================================================================
