"""Family "front" of property C19: the stateless FFI entry points (validate, check_parse_*, conversions,
format) and the `cedar` command line, each next to the plain Rust API.  Spec: spec/Front.tla; generator
MC_Front.tla; trace spec Trace_Front.tla; harness fam_front.rs.  Registered from props.py by
`C19["models"] += props_front.MODELS` and `C19["extra_traces"] = props_front.extra_traces(C19.get("extra_traces"))`."""
import hashlib
import json
import os
import subprocess
import time

import vlib
from vlib import ToolError, log

CLI_TARGET = os.path.join(vlib.HARNESS, "target-cli")
CLI_BIN = os.path.join(CLI_TARGET, "release", "cedar")
WORLD_FILE = os.path.join(vlib.WORK, "C19", "front_world.json")
CLI_KINDS = {"cliAuthorize": 260, "cliValidate": 60, "cliCheckParse": 120, "cliFormat": 40, "cliTranslatePolicy": 26,
             "cliTranslateSchema": 16, "cliLink": 80}            # quick-tier quota per CLI operation kind
FFI_QUOTA = {"authorize": 400}                                    # quick-tier quota for the FFI kinds that are large


def build_cli():
    """build the `cedar` binary from /repo's current working tree (own target dir; incremental after the first time)"""
    t0 = time.time()
    env = dict(os.environ, CARGO_TARGET_DIR=CLI_TARGET, CARGO_NET_OFFLINE="true")
    r = subprocess.run(["cargo", "build", "--release", "--offline", "-p", "cedar-policy-cli", "--manifest-path", os.path.join(vlib.REPO, "Cargo.toml")],
                       env=env, stdout=subprocess.PIPE, stderr=subprocess.STDOUT, text=True)
    if r.returncode != 0 or not os.path.exists(CLI_BIN):
        import sys
        sys.stderr.write(r.stdout[-6000:])
        raise ToolError("building the cedar CLI failed (does /repo still compile?)")
    os.environ["CEDAR_CLI"] = CLI_BIN          # inherited by the harness process
    os.makedirs(os.path.join(vlib.WORK, "C19", "cli"), exist_ok=True)
    log("cedar CLI built in %.1fs" % (time.time() - t0))


def _unmark(x):
    """Est.tla's {"__long": limbs} / {"__str": code points} markers -> JSON numbers / strings"""
    if isinstance(x, dict):
        if set(x) == {"__long"}:
            neg, limbs = x["__long"]
            n = 0
            for l in reversed(limbs):
                n = n * 10000 + l
            return -n if neg else n
        if set(x) == {"__str"}:
            return "".join(chr(c) for c in x["__str"])
        return {k: _unmark(v) for k, v in x.items()}
    if isinstance(x, list):
        return [_unmark(v) for v in x]
    return x


def _plain_est(est):
    e = _unmark(est)
    if e.get("annotations") == []:
        e["annotations"] = {}

    def fix(x):
        if isinstance(x, dict):
            return {k: ({} if k == "Record" and v == [] else fix(v)) for k, v in x.items()}
        if isinstance(x, list):
            return [fix(v) for v in x]
        return x
    return fix(e)


def _setup(world):
    build_cli()
    w = dict(world)
    w["convEstPlain"] = [_plain_est(e) for e in world["convEst"]]
    del w["convEst"]
    os.makedirs(os.path.dirname(WORLD_FILE), exist_ok=True)
    with open(WORLD_FILE, "w") as f:
        json.dump(w, f)
    return dict(setup=w)


def _keep(op, quota, total):
    """deterministic seeded sampling: keep about `quota` of the `total` cases of a kind"""
    if quota >= total:
        return True
    h = int(hashlib.sha1(("%d|%s" % (vlib.seed(), json.dumps(op))).encode()).hexdigest()[:8], 16)
    return (h % total) < quota


_TOTALS = {}


def _case(world, c, i):
    op = c["op"]
    if vlib.TRACE_ENV.get("TIER") == "quick":
        kind = op[0]
        quota = CLI_KINDS.get(kind, FFI_QUOTA.get(kind))
        if quota is not None:
            total = _TOTALS.get(kind)
            if total is None:
                total = _TOTALS[kind] = _kind_total(world, kind)
            if not _keep(op, quota, total):
                return None
    return dict(id=i, op=op)


def _kind_total(world, kind):
    nP, nS, nE, nR = len(world["polSources"]), len(world["schemaSources"]), len(world["entDocs"]), len(world["reqs"])
    return {"cliAuthorize": nP * (nS + 1) * 2 * nR * 2 * 2, "cliValidate": nP * nS, "cliCheckParse": (nP + 1) * (nS + 1) * (nE + 1) - 1,
            "cliFormat": nP * 8, "cliTranslatePolicy": nP * 2, "cliTranslateSchema": nS * 2, "cliLink": 4 * 6 * 6 * 4,
            "authorize": nP * (nS + 1) * 2 * nR}.get(kind, 1)


MODELS = [dict(name="mc_front", module="MC_Front.tla", cfg=dict(quick="MC_Front.cfg", thorough="MC_Front.cfg"),
               cases=_case, setup=_setup, family="front", trace_module="Trace_Front.tla", workers=4)]
