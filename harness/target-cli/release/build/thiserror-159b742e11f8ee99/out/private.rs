#[doc(hidden)]
pub mod __private20 {
    #[doc(hidden)]
    pub use crate::private::*;
}
