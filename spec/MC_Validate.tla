----------------------------- MODULE MC_Validate -----------------------------
(***************************************************************************)
(* Policy generator for the validation family (C03) over schema Sc2:       *)
(* access atoms x guards x connectives x scopes, plus type probes.         *)
(* Binding M: every policy of the must-accept fragment is semantically     *)
(* sound on every conformant environment (so the bracket                   *)
(* "must-accept => accepted => sound" is consistent).                      *)
(***************************************************************************)
EXTENDS PolicyPool, Json

VARIABLES coord, c

Coords == {<<"atom", i, s>> : i \in 1..NA, s \in 1..Len(Scopes)} \cup {<<"probe", s>> : s \in 1..Len(Scopes)}

\* a case: [policy, must]
MustConn(k, gk, g2k) == (k \in {1, 7, 10, 19, 20} /\ gk = 1) \/ (k \in {6, 13} /\ gk = 1 /\ g2k \in {2, 3, 4})
CasesOf(k) ==
  IF k[1] = "atom"
  THEN LET i == k[2] s == k[3]
       IN {[policy |-> Pol(s, <<<<"when", Conn(kk, GuardOf(i, gk), GuardOf(i, g2k), Use(i))>>>>),
            must |-> (MustConn(kk, gk, g2k) \/ (i = 8 /\ kk = 12)) /\ (Atoms[i][3] => ScopeIsViewOnly(s))
                     \* the second guard of the pool must itself be well-typed in this scope
                     /\ (kk \in {6, 13} /\ g2k = 2 => (Atoms[(i % NA) + 1][3] => ScopeIsViewOnly(s)))]
            : kk \in 1..NK, gk \in 1..4, g2k \in {2, 3, 4}}
          \cup {[policy |-> Pol(s, <<<<"unless", Not_(And_(Guard(i), Use(i)))>>>>),
                 must |-> (Atoms[i][3] => ScopeIsViewOnly(s))]}
  ELSE {[policy |-> Pol(k[2], <<<<"when", Probes[j][1]>>>>), must |-> Probes[j][2]] : j \in 1..Len(Probes)}

Init == coord \in Coords /\ c = <<>>
Next == c = <<>> /\ c' \in CasesOf(coord) /\ UNCHANGED coord

\* ---------------------------------------------------------------- binding M
EnvSet == Envs(0)
OkClasses == {"true", "false", "noEntity", "overflow", "ext"}
SoundOn(p) == \A env \in EnvSet : ClassOf(p, env) \in OkClasses
MustIsSound == (c # <<>> /\ c.must) => SoundOn(c.policy)

\* ---------------------------------------------------------------- binding G
Dump == PrintT("CASE " \o ToJson(c'))
ASSUME PrintT("WORLD " \o ToJson([schema |-> Sc2, envs |-> {WireEnv(e) : e \in EnvSet}]))
==============================================================================
