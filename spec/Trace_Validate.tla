---------------------------- MODULE Trace_Validate ----------------------------
(* Trace specification for family "validate" (C03).  The validator is judged *)
(* by what it promises: acceptance implies semantic soundness over every      *)
(* conformant environment of the model universe; an "impossible" policy is    *)
(* never satisfied; must-accept policies are accepted; strict => permissive;  *)
(* and the real evaluator's outcome classes are exactly the specification's.  *)
EXTENDS TypedWorld, Json, IOUtils

Rec == ndJsonDeserialize(IOEnv.TRACE)
VARIABLES l, bad

EnvSet == Envs(0)
NEnvs == Cardinality(EnvSet)
OkClasses == {"true", "false", "noEntity", "overflow", "ext"}
ToSet(s) == {s[i] : i \in 1..Len(s)}

ClassesOf(p) == {ClassOf(p, env) : env \in EnvSet}

\* ---------------------------------------------------------------- typed ASTs
\* A typed tree is <<"t", type, node>>: node is an expression whose children are typed trees again.
RECURSIVE InhabitsT(_, _)
InhabitsT(v, ty) ==
  CASE ty[1] = "none" -> TRUE
    [] ty[1] = "Never" -> FALSE
    [] ty[1] = "Bool" -> IsBool(v)
    [] ty[1] = "True" -> v = TrueV
    [] ty[1] = "False" -> v = FalseV
    [] ty[1] = "Long" -> IsLong(v)
    [] ty[1] = "String" -> IsStr(v)
    [] ty[1] = "AnyEntity" -> IsEnt(v)
    [] ty[1] = "Entity" -> IsEnt(v) /\ v[2] = ty[2]
    [] ty[1] = "AnySet" -> IsSet(v)
    [] ty[1] = "Set" -> IsSet(v) /\ \A x \in v[2] : InhabitsT(x, ty[2])
    [] ty[1] = "Record" ->
         /\ IsRec(v)
         /\ \A k \in DOMAIN ty[2] : ty[2][k][2] => k \in DOMAIN v[2]
         /\ \A k \in DOMAIN v[2] \cap DOMAIN ty[2] : InhabitsT(v[2][k], ty[2][k][1])
         /\ (~ty[3]) => DOMAIN v[2] \subseteq DOMAIN ty[2]
    [] ty[1] = "Ext" -> IsExt(v) /\ v[2] = ty[2]
RECURSIVE Strip(_)
Strip(te) ==
  LET n == te[3] IN
  CASE n[1] \in {"lit", "var", "slot"} -> n
    [] n[1] = "if" -> <<"if", Strip(n[2]), Strip(n[3]), Strip(n[4])>>
    [] n[1] \in {"and", "or"} -> <<n[1], Strip(n[2]), Strip(n[3])>>
    [] n[1] \in {"not", "neg", "isEmpty"} -> <<n[1], Strip(n[2])>>
    [] n[1] = "bin" -> <<"bin", n[2], Strip(n[3]), Strip(n[4])>>
    [] n[1] = "call" -> <<"call", n[2], [i \in 1..Len(n[3]) |-> Strip(n[3][i])]>>
    [] n[1] \in {"get", "has", "like", "is"} -> <<n[1], Strip(n[2]), n[3]>>
    [] n[1] = "set" -> <<"set", [i \in 1..Len(n[2]) |-> Strip(n[2][i])]>>
    [] n[1] = "record" -> <<"record", [k \in DOMAIN n[2] |-> Strip(n[2][k])], n[3]>>
EvT(te, env) == Eval(Strip(te), env.req, env.store, <<>>)
\* every subexpression that is actually evaluated yields a value inhabiting its static type
RECURSIVE TOk(_, _)
TOk(te, env) ==
  LET n == te[3]
      r == EvT(te, env)
      seqOk(cs) == \A i \in 1..Len(cs) : (\A j \in 1..(i - 1) : IsOk(EvT(cs[j], env))) => TOk(cs[i], env)
  IN /\ IsOk(r) => InhabitsT(r[2], te[2])
     /\ CASE n[1] \in {"lit", "var", "slot"} -> TRUE
          [] n[1] = "and" -> TOk(n[2], env) /\ (EvT(n[2], env) = Ok(TrueV) => TOk(n[3], env))
          [] n[1] = "or" -> TOk(n[2], env) /\ (EvT(n[2], env) = Ok(FalseV) => TOk(n[3], env))
          [] n[1] = "if" -> /\ TOk(n[2], env)
                           /\ (EvT(n[2], env) = Ok(TrueV) => TOk(n[3], env))
                           /\ (EvT(n[2], env) = Ok(FalseV) => TOk(n[4], env))
          [] n[1] \in {"not", "neg", "isEmpty", "get", "has", "like", "is"} -> TOk(n[2], env)
          [] n[1] = "bin" -> TOk(n[3], env) /\ (IsOk(EvT(n[3], env)) => TOk(n[4], env))
          [] n[1] = "call" -> seqOk(n[3])
          [] n[1] = "set" -> seqOk(n[2])
          [] n[1] = "record" -> seqOk([i \in 1..Len(n[3]) |-> n[2][n[3][i]]])
\* quick tier: a quarter of the universe; thorough tier: all of it
TypedEnvs == IF "TIER" \in DOMAIN IOEnv /\ IOEnv.TIER = "thorough" THEN EnvSet
             ELSE {e \in EnvSet : e.store[TD].attrs["owner"] = TU1 /\ "opt" \notin DOMAIN e.store[TU2].attrs}
TypedOk(ev) ==
  \A i \in 1..Len(ev.typed) :
    LET t == ev.typed[i]
    IN t.kind # "fail" /\
       \A env \in {e \in TypedEnvs : e.req.principal[2] = t.principal /\ e.req.action = t.action /\ e.req.resource[2] = t.resource} :
         TOk(t.typed, env)

Explained(ev) ==
  IF ev.ev = "EnvCheck"
  THEN \* the library's own request / entity validation accepts every generated environment
       ev.accepted = NEnvs /\ Len(ev.rejected) = 0 /\ ev.storeMismatch = 0
  ELSE /\ ev.ev = "Validate"
       /\ LET cls == ClassesOf(ev.policy)
          IN /\ ToSet(ev.classes) = cls                       \* evaluator agrees with the reference semantics
             /\ ev.strict => cls \subseteq OkClasses             \* soundness
             /\ (ev.strict /\ ev.impossible) => "true" \notin cls   \* impossible => never satisfied
             /\ ev.strict => ev.permissive
             /\ ev.must => ev.strict                           \* not vacuous
             /\ ev.strict => TypedOk(ev)                        \* evaluated subexpressions inhabit their static types

Init == l = 1 /\ bad = {}
Next == /\ l <= Len(Rec)
        /\ l' = l + 1
        /\ bad' = IF Explained(Rec[l]) THEN bad ELSE bad \cup {l}
Report == (l = Len(Rec) + 1) => PrintT(<<"TRACE-RESULT", Len(Rec), bad>>)
Accepted == TLCGet("stats").diameter = Len(Rec) + 1
==============================================================================
