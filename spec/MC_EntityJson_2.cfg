CONSTANT Part = 2
INIT Init
NEXT Next
ACTION_CONSTRAINT Dump
CHECK_DEADLOCK FALSE
