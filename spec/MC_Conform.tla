----------------------------- MODULE MC_Conform -----------------------------
(***************************************************************************)
(* Case generator and consistency check for C11: conformant entities and   *)
(* requests of schema Sc1 and single-fault mutants of them.  Binding M:    *)
(* every base datum conforms and every mutant violates Conforms (so the    *)
(* mutation table cannot raise a false alarm); binding G: each datum is    *)
(* pushed through every schema-taking entry point of the library.          *)
(***************************************************************************)
EXTENDS SchemaFam, Json

VARIABLES kind, seed, c
Sc == Sc1
LL(n) == <<"long", OfInt(n)>>
SS(cps) == <<"str", cps>>
EE(t, id) == <<"ent", t, id>>
BB(b) == <<"bool", b>>
RR(f) == <<"rec", f>>
ST(s) == <<"set", s>>

U1 == EE("User", "u1")   U2 == EE("User", "u2")
G1 == EE("Group", "g1")  O1 == EE("Org", "o1")
D1 == EE("Doc", "d1")    F1 == EE("Folder", "f1")   F2 == EE("Folder", "f2")
Red == EE("Color", "red") Green == EE("Color", "green") Blue == EE("Color", "blue")
Ghost == EE("Ghost", "x")

Ent(u, attrs, tags, anc) == [uid |-> u, attrs |-> attrs, tags |-> tags, anc |-> anc]
PutA(f, k, v) == [x \in DOMAIN f \cup {k} |-> IF x = k THEN v ELSE f[x]]
DelA(f, k) == [x \in DOMAIN f \ {k} |-> f[x]]

RecOk == {RR([flag |-> BB(TRUE)]), RR([flag |-> BB(FALSE), inner |-> LL(3)])}
\* ---- conformant users: every optional component present or absent
BaseUsers ==
  {Ent(U1,
       [x \in {"n", "rec"} \cup opts |->
          CASE x = "n" -> LL(1) [] x = "rec" -> rec [] x = "opt" -> SS(<<120>>) [] x = "mgr" -> U2
            [] x = "fav" -> Red [] x = "colors" -> cols
            [] x = "palette" -> ST({RR([c |-> Red]), RR([c |-> Green])}) [] x = "grid" -> ST({ST({Red}), ST({})})],
       tags, anc)
   : opts \in {{}, {"opt"}, {"mgr", "fav"}, {"colors"}, {"palette"}, {"grid"}, {"opt", "mgr", "fav", "colors", "palette", "grid"}}, rec \in RecOk,
     cols \in {ST({}), ST({Red, Green})}, tags \in {{}, {<<<<107>>, LL(5)>>}}, anc \in {{}, {G1}, {G1, O1}}}
BaseDocs ==
  {Ent(D1, [x \in {"owner", "labels"} \cup opts |->
              CASE x = "owner" -> U1 [] x = "labels" -> labels [] x = "lvl" -> LL(2)],
       tags, anc)
   : opts \in SUBSET {"lvl"}, labels \in {ST({}), ST({SS(<<97>>), SS(<<>>)})},
     tags \in {{}, {<<<<116>>, SS(<<118>>)>>}}, anc \in {{}, {F1}, {F1, F2}}}
BaseOther ==
  { Ent(G1, <<>>, {}, {}), Ent(G1, <<>>, {}, {O1}), Ent(O1, <<>>, {}, {}),
    Ent(F1, <<>>, {}, {F2}), Ent(Red, <<>>, {}, {}), Ent(Green, <<>>, {}, {}),
    Ent(ActUid("view"), <<>>, {}, {ActUid("all")}),
    Ent(ActUid("edit"), <<>>, {}, {ActUid("rw"), ActUid("all")}),
    Ent(ActUid("rw"), <<>>, {}, {ActUid("all")}), Ent(ActUid("all"), <<>>, {}, {}) }
BaseEntities == BaseUsers \cup BaseDocs \cup BaseOther

\* ---- single faults
WrongVals == {ST({RR([c |-> Blue])}), ST({RR([c |-> Red]), RR([c |-> Blue])}), ST({ST({Blue})}), ST({ST({Red, Blue})}), ST({RR([c |-> LL(1)])}),
              ST({RR(<<>>)}), ST({ST({LL(1)})}), ST({RR([c |-> Red])}), ST({ST({Green})}),
              LL(7), SS(<<119>>), BB(TRUE), U1, G1, D1, Blue, ST({LL(1)}), ST({Blue}), ST({Red, LL(1)}), RR(<<>>),
              RR([flag |-> LL(1)]), RR([flag |-> BB(TRUE), extra |-> LL(1)]), RR([flag |-> BB(TRUE), inner |-> SS(<<>>)])}
MutAttrValue(e) == {[e EXCEPT !.attrs = PutA(@, k, w)] : k \in DOMAIN e.attrs, w \in WrongVals}
MutDropAttr(e) == {[e EXCEPT !.attrs = DelA(@, k)] : k \in DOMAIN e.attrs}
MutExtraAttr(e) == {[e EXCEPT !.attrs = PutA(@, "zzz", LL(1))]}
MutTag(e) == {[e EXCEPT !.tags = @ \cup {<<<<122>>, w>>}] : w \in {LL(9), SS(<<115>>), Blue, BB(FALSE)}}
\* (never the entity itself: a self-ancestor is a hierarchy cycle, rejected for reasons outside conformance - C04)
MutAnc(e) == {[e EXCEPT !.anc = @ \cup {a}] : a \in {U2, D1, G1, O1, F1, Blue, Red, Ghost, ActUid("all"), ActUid("zap")} \ {e.uid}}
MutUid(e) == {[e EXCEPT !.uid = u] : u \in {Ghost, Blue, EE("User", "u9"), ActUid("zap"), ActUid("view")}}
Mutants(e) == MutAttrValue(e) \cup MutDropAttr(e) \cup MutExtraAttr(e) \cup MutTag(e) \cup MutAnc(e) \cup MutUid(e)
\* a "mutant" may happen to conform (e.g. replacing a value by another good one): the label is computed, not assumed

\* ---- requests: full product over small pools
Principals == {U1, G1, D1, Red, Blue, Ghost}
Actions == {ActUid("view"), ActUid("edit"), ActUid("rw"), ActUid("all"), ActUid("zap"), EE("User", "view")}
Resources == {D1, F1, U1, Red, Ghost}
Contexts == { RR([flag |-> BB(TRUE)]), RR([flag |-> BB(FALSE), note |-> SS(<<110>>)]), RR([flag |-> BB(TRUE), who |-> U2]),
              RR([flag |-> BB(TRUE), tint |-> Red]), RR(<<>>), RR([flag |-> LL(1)]), RR([flag |-> BB(TRUE), extra |-> LL(1)]),
              RR([flag |-> BB(TRUE), who |-> G1]), RR([flag |-> BB(TRUE), tint |-> Blue]), RR([flag |-> BB(TRUE), note |-> LL(1)]),
              RR([note |-> SS(<<>>)]),
              RR([flag |-> BB(TRUE), tints |-> ST({RR([c |-> Green])})]), RR([flag |-> BB(TRUE), tints |-> ST({RR([c |-> Blue])})]),
              RR([flag |-> BB(TRUE), tints |-> ST({RR([c |-> Red]), RR([c |-> Blue])})]), RR([flag |-> BB(TRUE), tints |-> ST({RR(<<>>)})]) }
ReqOf(p) == {[principal |-> p, action |-> a, resource |-> r, context |-> x] : a \in Actions, r \in Resources, x \in Contexts}

\* one seed state per base entity (its successors: itself and its mutants) and one per principal (requests)
Init == /\ c = <<>>
        /\ \/ kind = "entity" /\ seed \in BaseEntities
           \/ kind = "request" /\ seed \in Principals
Next == /\ c = <<>>
        /\ c' \in (IF kind = "entity" THEN {seed} \cup Mutants(seed)
                   ELSE ReqOf(seed))
        /\ UNCHANGED <<kind, seed>>

\* ---------------------------------------------------------------- binding M
BaseSmall == {e \in BaseUsers : e.tags = {} /\ e.anc = {G1} /\ e.attrs["rec"] = RR([flag |-> BB(TRUE)])
                                 /\ DOMAIN e.attrs \in {{"n", "rec"}, {"n", "rec", "opt", "mgr", "fav", "colors", "palette", "grid"}}}
             \cup {e \in BaseDocs : e.tags = {} /\ e.anc = {F1}}
BasesConform == \A e \in BaseEntities : ConformsEntity(Sc, e)
\* each fault class really is a fault on the bases it is meant for
FaultsAreFaults ==
  /\ \A e \in BaseSmall :
       /\ \A m \in MutExtraAttr(e) : ~ConformsEntity(Sc, m)
       /\ \A m \in MutUid(e) : (m.uid # EE("User", "u9")) => ~ConformsEntity(Sc, m)
       /\ \A k \in {x \in DOMAIN e.attrs : Sc.ets[e.uid[2]].attrs[x][2]} : ~ConformsEntity(Sc, [e EXCEPT !.attrs = DelA(@, k)])
       /\ \A m \in MutAnc(e) : (m.anc # e.anc) =>
            (ConformsEntity(Sc, m) <=> (m.anc \ e.anc) \subseteq (IF e.uid[2] = "User" THEN {G1, O1} ELSE {F1}))
  /\ \E p \in Principals, a \in Actions, r \in Resources, x \in Contexts :
       ConformsRequest(Sc, [principal |-> p, action |-> a, resource |-> r, context |-> x])
ASSUME BasesConform
ASSUME FaultsAreFaults

\* ---------------------------------------------------------------- binding G
WireEnt(e) == [uid |-> e.uid, attrs |-> e.attrs, tags |-> e.tags, anc |-> e.anc]
Dump == PrintT("CASE " \o ToJson([kind |-> kind, datum |-> IF kind = "entity" THEN WireEnt(c') ELSE c',
                                  expect |-> IF kind = "entity" THEN ConformsEntity(Sc, c') ELSE ConformsRequest(Sc, c')]))
ASSUME PrintT("WORLD " \o ToJson([schema |-> WireSchema(Sc)]))
==============================================================================
