"""C09 - the JSON and the Cedar schema syntaxes denote the same schema."""
import json

STATS = dict(schemas=0, json_accepted=0, cedar_rendered=0, cedar_accepted=0, both_accepted=0,
             translations_ok=0, translations_refused=0)


def _case(world, c, i):
    """CASE line of MC_SchemaSyntax -> harness case; the renderer style (bit 0 quote every name, bit 1 alternative layout,
    bit 2 annotations on every declaration) cycles with the case number"""
    return dict(id=i, s=c["s"], coord=c["coord"], cedar=c["cedar"], ok=c["ok"], style=i % 8)


def _case_of_event(ev):
    """replay: the event echoes the case; ask the harness to print both renderings and the translated text as well"""
    case = {k: ev[k] for k in ("id", "s", "coord", "cedar", "ok", "style") if k in ev}
    case["verbose"] = True
    return case


def _loaded(ev, k):
    r = ev.get("steps", {}).get(k)
    return bool(r) and r[0] == "ok"


def _nontrivial(ev):
    if ev.get("ev") == "SchemaFile":
        return _loaded(ev, "S")
    if ev.get("ev") != "SchemaSyn":
        return False
    STATS["schemas"] += 1
    j, c = _loaded(ev, "J"), _loaded(ev, "C")
    STATS["json_accepted"] += j
    STATS["cedar_rendered"] += ev["steps"]["C"][0] != "na"
    STATS["cedar_accepted"] += c
    STATS["both_accepted"] += j and c
    for k in ("JC", "JJ", "CJ", "CC", "CR"):
        r = ev["steps"].get(k)
        if r:
            STATS["translations_ok"] += r[0] == "ok"
            STATS["translations_refused"] += r[0] == "err" and r[1] == "translate"
    return j or c


def _mutate(ev):
    """corrupt the projection of the JSON rendering (or pretend a rejected schema loaded)"""
    if ev.get("ev") != "SchemaSyn":
        return None
    ev = json.loads(json.dumps(ev))
    r = ev["steps"]["J"]
    if r[0] != "ok":
        ev["steps"]["J"] = ["ok", {"ets": [], "acts": []}]
        return ev
    for et in r[1]["ets"]:
        for k, v in et["attrs"].items():
            v[1] = not v[1]           # flip one optionality flag
            return ev
    r[1]["ets"] = r[1]["ets"][1:]     # or lose an entity type
    return ev


def _files(fam, tier, wd, seed):
    """T: every schema file of the repository (Cedar and JSON syntax) through the library's translations"""
    import os
    import vlib
    cases = []
    for root, dirs, files in os.walk(vlib.REPO):
        dirs[:] = [d for d in dirs if d not in ("target", ".git")]
        for f in sorted(files):
            path = os.path.join(root, f)
            if f.endswith(".cedarschema"):
                cases.append(dict(file=path, syntax="cedar"))
            elif f.endswith(".cedarschema.json") or (f.endswith(".json") and "schema" in f.lower() and "entit" not in f.lower()):
                cases.append(dict(file=path, syntax="json"))
    cases.sort(key=lambda c: c["file"])
    cpath = os.path.join(wd, "files.cases.ndjson")
    tpath = os.path.join(wd, "files.trace.ndjson")
    vlib.write_ndjson(cpath, cases)
    vlib.conform("replay", "schemasyn", cpath, tpath)
    return [(tpath, "T:files", "Trace_SchemaSyntax.tla")]


C09 = dict(
    extra_traces=_files,
    family="schemasyn", trace_module="Trace_SchemaSyntax.tla",
    models=[dict(name="mc_schemasyn", module="MC_SchemaSyntax.tla",
                 cfg=dict(quick="MC_SchemaSyntax.cfg", thorough="MC_SchemaSyntax_thorough.cfg"), cases=_case)],
    nontrivial=_nontrivial, key=lambda ev: ev.get("s") or ev.get("file"),
    mutate=_mutate, chunk=450, case_of_event=_case_of_event, known_finding_id="C09-to_cedarschema-silently-lossy",
    extra_coverage=dict(acceptance=STATS),
    rule="G: MC_SchemaSyntax (TLC-enumerated, complete for its tables): 29 layouts of a subject name X in {A, String, Long, Bool, ipaddr} (declared in "
         "namespaces '', N, N::M as entity / enum entity / common type / both, incl. RFC-70 violations and reserved common-type names) x 3 reference "
         "namespaces x raw-name forms (bare, qualified by a declaring namespace, __cedar::X, a wrong namespace) x admitted kinds (EntityOrCommon, Entity, "
         "common-type-only) x 12 positions (required/optional attribute, set element, nested record member, tags, common-type body used from another "
         "namespace, common-type alias, context member, context as a reference, memberOfTypes, principalTypes, resourceTypes) x 2 scaffold variants "
         "(attribute names needing quotes, cross-namespace parents, tags, context as common type) x 10 action-parent / appliesTo variants; every schema "
         "also has an enum type with an id needing escapes, an action group per namespace and cross-namespace references in both directions. Each "
         "schema is rendered to the JSON and (when expressible) the Cedar syntax by the harness in one of 8 styles (names quoted or bare, two layouts, "
         "with or without two annotations - one needing escapes, one without value - on every namespace, common type, entity type and action), loaded, translated by the library "
         "(to_cedarschema, to_json_value, schema_str_to_json_with_resolved_types), reloaded; every ValidatorSchema is projected (entity types, attribute "
         "and tag types with optionality, descendants, enum ids, actions, principals, resources, context, action descendants) and compared in TLC with "
         "SchemaSyntax!ScResolve and with each other; the annotations of every fragment (read off its lossless JSON form) must be exactly the ones written; "
         "rejections must coincide with ScProblems. non-trivial = at least one rendering loads; distinct by schema.",
    exhaustive=dict(quick=False, thorough=False),
    assumptions=["the harness renderers (harness/conform/src/schema_syntax.rs) spell the abstract schema faithfully; they never resolve a name",
                 "the projection walk over ValidatorSchema (fam_schemasyn.rs) is faithful; membership is compared as the descendant closure the library keeps",
                 "annotations are not observable on ValidatorSchema: they are compared on SchemaFragment::to_json_value; attribute-level annotations and "
                 "action attributes (JSON only, deprecated) are not generated",
                 "a schema the specification says denotes nothing (ScProblems # {}) must be refused by both loaders - stricter than the property, "
                 "kept because it holds and anchors the acceptance rate"],
)
