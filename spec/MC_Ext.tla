------------------------------- MODULE MC_Ext -------------------------------
(***************************************************************************)
(* Case generator and model-level checks for C07 (extension types).        *)
(*                                                                         *)
(* Init picks a coordinate; Next produces, as the successors of that seed  *)
(* state, every case of the coordinate:                                    *)
(*  - constructor argument strings composed from per-type part tables      *)
(*    (every combination, valid or near-miss), each wrapped in a record of *)
(*    observations so that the represented value is seen through the       *)
(*    operations and not only through the returned constructor call;       *)
(*  - operation cases over pools of boundary values (pairs for binary      *)
(*    functions, ==, <, <=, singles for unary ones, incl. wrong types);    *)
(*  - prefix sweeps for isInRange / isLoopback / isMulticast;              *)
(*  - cases whose operands arrive as represented values in the request     *)
(*    context (the harness spells them canonically).                       *)
(* Every case is checked against the sanity theorems below (binding M) and *)
(* printed as one JSON line (binding G).  A case is <<expr, ctx>>; ctx is  *)
(* a record of context attributes (<<>> when the fixed World is used).     *)
(***************************************************************************)
EXTENDS World, Json

CONSTANT Tier            \* "quick" | "thorough"

VARIABLES coord, c
vars == <<coord, c>>

Thorough == Tier = "thorough"

-----------------------------------------------------------------------------
\* readable strings: TLC can take SubSeq of a string, so a code table turns "1970-01-01"
\* into the code-point sequence the specification works on
SegMap(str, base) ==
  [ch \in {SubSeq(str, i, i) : i \in 1..Len(str)} |->
     base - 1 + CHOOSE i \in 1..Len(str) : SubSeq(str, i, i) = ch]
CodeTab == SegMap(" ", 32) @@ SegMap("%", 37) @@ SegMap("+,-./0123456789:", 43)
           @@ SegMap("ABCDEFGHIJKLMNOPQRSTUVWXYZ[", 65) @@ SegMap("]", 93) @@ SegMap("_", 95)
           @@ SegMap("abcdefghijklmnopqrstuvwxyz", 97)
Cp(str) == [i \in 1..Len(str) |-> CodeTab[SubSeq(str, i, i)]]

StrLit(str) == Lit(S(Cp(str)))
Ctor(f, str) == Call(f, <<StrLit(str)>>)             \* f("str")
CtorC(f, cps) == Call(f, <<Lit(S(cps))>>)
Un(f, x) == Call(f, <<x>>)
NotE(x) == <<"not", x>>
Bi(f, x, y) == Call(f, <<x, y>>)
EpochE == Ctor("datetime", "1970-01-01")
AtMs(str) == Bi("offset", EpochE, Ctor("duration", str))   \* the instant `str` after the epoch
MsOf(dt) == Un("toMilliseconds", Bi("durationSince", dt, EpochE))
CtxA == Get(V("context"), "a")
CtxB == Get(V("context"), "b")

Plain(es) == {<<x, <<>>>> : x \in es}

-----------------------------------------------------------------------------
\* observation records: the constructor result and what the operations say about it
ObsDec(cps) ==
  LET r == ParseDecimal(cps)
      k == CtorC("decimal", cps)
  IN IF r[1] # "ok" THEN k
     ELSE LET x == r[2][3]
              canon == CtorC("decimal", XPrintDecimal(x))
              up == Add(x, OfInt(1))
              dn == Sub(x, OfInt(1))
          IN RecE([a |-> k,
                   b |-> Bin("eq", k, canon),
                   c |-> Bi("lessThanOrEqual", k, canon),
                   d |-> Bi("greaterThanOrEqual", k, canon),
                   e |-> IF up[1] = "ok" THEN Bi("lessThan", k, CtorC("decimal", XPrintDecimal(up[2]))) ELSE Lit(TrueV),
                   f |-> IF dn[1] = "ok" THEN Bi("greaterThan", k, CtorC("decimal", XPrintDecimal(dn[2]))) ELSE Lit(TrueV),
                   g |-> Bi("lessThan", k, Ctor("decimal", "0.0"))],
                  <<"a", "b", "c", "d", "e", "f", "g">>)

ObsIp(cps) ==
  LET r == XParseIp(cps)
      k == CtorC("ip", cps)
  IN IF r[1] # "ok" THEN k
     ELSE LET canon == CtorC("ip", XPrintIp(r[2]))
          IN RecE([a |-> k,
                   b |-> Bin("eq", k, canon),
                   c |-> Un("isIpv4", k),
                   d |-> Un("isIpv6", k),
                   e |-> Un("isLoopback", k),
                   f |-> Un("isMulticast", k),
                   g |-> Bi("isInRange", k, canon),
                   h |-> Bi("isInRange", canon, k)],
                  <<"a", "b", "c", "d", "e", "f", "g", "h">>)

ObsDt(cps) ==
  LET k == CtorC("datetime", cps)
  IN RecE([a |-> k, b |-> MsOf(k), c |-> Un("toDate", k), d |-> Un("toTime", k)],
          <<"a", "b", "c", "d">>)

ObsDur(cps) ==
  LET k == CtorC("duration", cps)
  IN RecE([a |-> k, b |-> Un("toMilliseconds", k), c |-> Un("toSeconds", k), d |-> Un("toMinutes", k),
           e |-> Un("toHours", k), f |-> Un("toDays", k)],
          <<"a", "b", "c", "d", "e", "f">>)

-----------------------------------------------------------------------------
\* part tables: decimal
DecSigns == {"", "-", "+"}
DecInts == {"", "0", "00", "1", "922337203685477", "922337203685478", "9223372036854775807",
            "10000000000000000000", "0000000000000000000000001"}
DecFracs == {"", ".", ".0", ".5", ".5807", ".5808", ".00001", ".0000", ".9999", ".58070", ".5.0", ".5e1"}
DecOdd == {" 1.5", "1.5 ", "1,5", "1_0.5", "0x1.5", "1.5f", "--1.5", "-+1.5", "1.-5", "-", "-.", "abc",
           "NaN", "1e5", "1. 5", "- 1.5"}
DecStrings == {Cp(sg \o ip \o fr) : sg \in DecSigns, ip \in DecInts, fr \in DecFracs} \cup {Cp(x) : x \in DecOdd}

\* part tables: ip
Octs == IF Thorough THEN {"0", "1", "01", "255", "256", "", "00", "127", "1000"} ELSE {"0", "1", "01", "255", "256"}
V4Pre == {"", "/0", "/8", "/32", "/33", "/00", "/128", "/129", "/", "/08"}
V4Strings(o1) == {Cp(o1 \o "." \o o2 \o "." \o o3 \o "." \o o4 \o pr) : o2 \in Octs, o3 \in Octs, o4 \in Octs, pr \in V4Pre}
V4Odd == {"1.2.3", "1.2.3.4.5", "1.2.3.4.", ".1.2.3.4", "1..3.4", "1.2.3.4/8/8", " 1.2.3.4", "1.2.3.4 ",
          "1.2.3.4/ 8", "1.2.3.4/+8", "1.2.3.4/-0", "0x1.2.3.4", "", "/8", "1.2.3.4/008", "1.2.3.4/1e1",
          "1,2,3,4", "1.2.3.a", "1234", "1.2.3.4/32/", "127.1", "2130706433", "1.2.3.4:80", "1.2.3.4/3 ",
          "localhost", "1.2.3.-4", "1.2.3.+4", "1.2.3.4/032", "1.2.3.04", "1.2.3.4/24", "1.2.3.4/31"}

Digit(k) == SubSeq("123456789", k, k)
GroupsFrom(n, from) == [i \in 1..n |-> Digit(from + i - 1)]
RECURSIVE JoinColon(_, _)
JoinColon(gs, i) == IF i > Len(gs) THEN "" ELSE (IF i > 1 THEN ":" ELSE "") \o gs[i] \o JoinColon(gs, i + 1)
V6Text(hg, tg, dc) == JoinColon(hg, 1) \o (IF dc THEN "::" ELSE "") \o JoinColon(tg, 1)
V6Mut == {"0", "ffff", "FFFF", "0001", "00001", "g", "", "1.2.3.4", "Ab9", "10000", "-1"}
V6Pre == {"", "/0", "/128", "/129", "/00", "/64", "/"}
\* h head groups, then (with "::") t tail groups; one group at a time replaced by each mutation
V6Strings(h) ==
  UNION {
    LET hg == GroupsFrom(h, 1)
        tg == GroupsFrom(st[1], h + 1)
        dc == st[2]
    IN {Cp(V6Text(hg, tg, dc) \o pr) : pr \in V6Pre}
       \cup {Cp(V6Text([hg EXCEPT ![p] = mu], tg, dc)) : p \in 1..h, mu \in V6Mut}
       \cup {Cp(V6Text(hg, [tg EXCEPT ![p] = mu], dc)) : p \in 1..st[1], mu \in V6Mut}
    : st \in {<<t, TRUE>> : t \in 0..(9 - h)} \cup {<<0, FALSE>>} }
V6Odd == {":", ":::", "::/", "1::2::3", "1:::2", ":1:2:3:4:5:6:7:8", "1:2:3:4:5:6:7:8:", "::ffff:127.0.0.1",
          "::127.0.0.1", "1:2:3:4:5:6:1.2.3.4", "[::1]", "::1%eth0", "fe80::1%1", "::1/128/", " ::1", "::1 ",
          "::G", "0:0:0:0:0:0:0:0", "0::0", "::0.0.0.0", "::1/0128", "::1/ 1", "::ffff:7f00:1", "1.2.3.4::",
          "ABCD:EF01:2345:6789:ABCD:EF01:2345:6789/128", "ABCD:EF01:2345:6789:ABCD:EF01:2345:6789/1280",
          "abcd:ef01:2345:6789:abcd:ef01:2345:6789", "0000:0000:0000:0000:0000:0000:0000:0001"}

\* part tables: datetime
Years == {"0000", "1969", "1970", "2000", "2024", "2023", "9999", "1900", "2100"}
MDs == {"01-01", "02-28", "02-29", "02-30", "12-31", "04-30", "04-31", "00-10", "13-01", "01-00", "01-32", "06-15"}
HHs == IF Thorough THEN {"00", "01", "12", "23", "24", "99"} ELSE {"00", "23", "24"}
MMs == IF Thorough THEN {"00", "01", "30", "59", "60", "99"} ELSE {"00", "59", "60"}
SSs == IF Thorough THEN {"00", "01", "30", "59", "60", "99"} ELSE {"00", "59", "60"}
Fracs == {"", ".000", ".999", ".99", ".9999"}
Zones == {"Z", "", "+0000", "-2359", "+2359", "+2400", "+0060", "-0001", "+1", "z", "-0000", "+0530"}
TimesAt(hh) == {"T" \o hh \o ":" \o mm \o ":" \o ss \o fr \o zn : mm \in MMs, ss \in SSs, fr \in Fracs, zn \in Zones}
SelDates == {"1970-01-01", "0000-01-01", "9999-12-31", "2024-02-29"}
            \cup (IF Thorough THEN {"1969-12-31", "2023-02-29", "2000-02-29", "1900-02-28", "2100-03-01", "0000-12-31", "0000-02-29", "9999-01-01"} ELSE {})
SelTimes == {"", "T00:00:00Z", "T23:59:59.999Z", "T23:59:59.999-2359", "T00:00:00.000+2359", "T12:34:56+0530",
             "T", "T00:00:00", "Z", "T00:00Z", "T24:00:00Z"}
DtOdd == {"1970/01/01", "1970-1-1", "19700101", "1970-01-01t00:00:00Z", "1970-01-01 00:00:00Z", "1970-01-01T00.00.00Z",
          "1970-01-01T00:00:00,000Z", "+1970-01-01", "01970-01-01", "1970-01-01T00:00:00.000", "1970-01-01T00:00:00+00:00",
          "1970-01-01T00:00:00+000", "1970-01-01T00:00:00Z ", "1970-01-01Z", " 1970-01-01", "1970-01-01 ", "", "1970",
          "1970-01", "1970-01-01T00:00:00.Z", "1970-01-01T00:00:00.0Z", "1970-01-01T00:00:00.00Z", "1970-01-01T00:00:00ZZ",
          "1970-01-01T00:00:00+0000Z", "1970-01-01T00:00:00.000.000Z", "1970-01-01T0:00:00Z", "-001-01-01", "1970-01-01T00:00:00-",
          "1970-01-01T23:59:60.999Z", "1970-01-01T00:00:00+2360", "1970-01-01T00:00:00-2400", "10000-01-01"}
DatesByTimes(ds, ts) == {Cp(dd \o tt) : dd \in ds, tt \in ts}

\* part tables: duration
Units == <<"d", "h", "m", "s", "ms">>
EdgeOk == <<"106751991167", "2562047788015", "153722867280912", "9223372036854775", "9223372036854775807">>
EdgeOver == <<"106751991168", "2562047788016", "153722867280913", "9223372036854776", "9223372036854775808">>
Mags(i) == {"", "0", "1", "007", "99999999999999999999", "18446744073709551615", "18446744073709551616",
            "000000000000000000000000000001", "9223372036854775809", EdgeOk[i], EdgeOver[i]}
DurSingle == UNION {{Cp(sg \o mg \o Units[i]) : sg \in {"", "-", "+"}, mg \in Mags(i)} : i \in 1..5}
UnitChoice(i) == {"", "1" \o Units[i], "0" \o Units[i], "23" \o Units[i]}
DurSubsets == {Cp(sg \o ud \o uh \o um \o us \o ums) : sg \in {"", "-"}, ud \in UnitChoice(1), uh \in UnitChoice(2),
                                                         um \in UnitChoice(3), us \in UnitChoice(4), ums \in UnitChoice(5)}
\* 2^63-1 ms = 106751991167d 7h 12m 55s 807ms
DurEdge == {Cp(sg \o ud \o uh \o um \o us \o ums) : sg \in {"", "-"}, ud \in {"106751991167d", "106751991168d", ""},
                                                      uh \in {"7h", "8h", ""}, um \in {"12m", "13m", ""},
                                                      us \in {"55s", "56s", ""}, ums \in {"807ms", "808ms", "809ms", ""}}
DurOrder == {Cp("1" \o Units[i] \o "2" \o Units[j]) : i \in 1..5, j \in 1..5}
            \cup {Cp("3" \o Units[i] \o "1" \o Units[j] \o "2" \o Units[k]) : i \in 1..5, j \in 1..5, k \in 1..5}
DurOdd == {"1", "d", "1D", "1 d", "1d ", " 1d", "1.5d", "1d-2h", "--1d", "1dd", "1ms1ms", "1sm", "1m s", "1us",
           "1w", "1y", "1e3ms", "+1d", "1d2", "-", "", "1d2h3m4s5ms", "1d2h3m4s5ms6", "-0ms", "1h1d", "1m1h", "1s1m",
           "1ms1s", "1ms1m", "1m1ms", "1ms1d", "1d 2h", "1d,2h", "d1", "ms", "1mms", "1mss", "-1d-2h", "1d-", "0d0h0m0s0ms",
           "00d", "1M", "1S", "1MS", "1Ms"}

-----------------------------------------------------------------------------
\* pools of boundary values for the operations (expressions)
NotExt == {Lit(L(1)), StrLit("1.0"), Lit(TrueV), ExtErrE}
DecPoolS == {"0.0", "-0.0", "0.0001", "-0.0001", "1.0", "1.00", "1.5", "-1.5", "00001.5", "922337203685477.5807",
             "922337203685477.5806", "-922337203685477.5808", "-922337203685477.5807", "0.9999", "12345.6789", "-12345.6789"}
DecOps == {Ctor("decimal", x) : x \in DecPoolS}
IpPoolS == {"127.0.0.1", "127.0.0.1/8", "127.0.0.0/7", "127.255.255.255/8", "127.0.0.1/32", "126.255.255.255", "128.0.0.0",
            "224.0.0.0/4", "224.0.0.0/3", "239.255.255.255", "240.0.0.0", "224.0.0.1/32", "10.0.0.0/8", "10.0.0.0/0", "0.0.0.0/0",
            "255.255.255.255", "10.1.2.3/24", "10.1.2.255/24", "10.1.3.0/23", "10.1.2.3", "10.1.2.3/31", "10.1.2.2/31",
            "::1", "::1/127", "::/0", "::", "ff00::/8", "ff00::/7", "ff02::1", "feff::", "::ffff:7f00:1", "0:0:0:0:0:0:0:1",
            "1:2:3:4:5:6:7:8/64", "1:2:3:4:ffff::/65", "1:2:3:4:8000::/65", "1:2:3:4::/64", "7f00:1::", "a00::/8"}
IpOps == {Ctor("ip", x) : x \in IpPoolS}
DtPoolS == {"1970-01-01", "1969-12-31T23:59:59.999Z", "1970-01-01T00:00:00.001Z", "1970-01-02", "1969-12-31",
            "1970-01-01T23:59:59.999Z", "0000-01-01", "9999-12-31T23:59:59.999Z", "2024-02-29T12:00:00+0100",
            "2024-02-29T11:00:00Z", "2024-01-01T00:00:00-2359"}
DtAtS == {"9223372036854775807ms", "-9223372036854775808ms", "9223372036854775806ms", "-9223372036854775807ms",
          "-9223372036828800000ms", "-9223372036828800001ms", "-86400001ms", "-86400000ms", "9223372036828800000ms"}
DtOps == {Ctor("datetime", x) : x \in DtPoolS} \cup {AtMs(x) : x \in DtAtS}
DurPoolS == {"0ms", "1ms", "-1ms", "999ms", "1000ms", "-999ms", "-1000ms", "-1500ms", "59999ms", "60000ms", "-60000ms",
             "3599999ms", "3600000ms", "86399999ms", "86400000ms", "-86400000ms", "-86400001ms", "9223372036854775807ms",
             "-9223372036854775808ms", "-9223372036854775807ms", "1d", "24h"}
DurOps == {Ctor("duration", x) : x \in DurPoolS}
OneEach == {Ctor("decimal", "1.0"), Ctor("ip", "::1"), EpochE, Ctor("duration", "1ms")}
Mixed == NotExt \cup OneEach

UnaryFns == {"isIpv4", "isIpv6", "isLoopback", "isMulticast", "toDate", "toTime",
             "toMilliseconds", "toSeconds", "toMinutes", "toHours", "toDays"}
DecCmpFns == {"lessThan", "lessThanOrEqual", "greaterThan", "greaterThanOrEqual"}

\* prefix sweeps
RECURSIVE NatStr(_)
DigitCh(k) == SubSeq("0123456789", k + 1, k + 1)
NatStr(n) == IF n < 10 THEN DigitCh(n) ELSE NatStr(n \div 10) \o DigitCh(n % 10)
WithPre(addr, p) == Ctor("ip", addr \o "/" \o NatStr(p))
Sweep4 == <<<<"10.1.2.3", "10.1.2.3">>, <<"10.1.2.3", "10.1.2.2">>, <<"128.0.0.0", "0.0.0.0">>,
            <<"255.255.255.255", "255.255.255.254">>, <<"10.128.0.0", "10.0.0.0">>, <<"10.0.1.0", "10.0.0.0">>>>
Sweep6 == <<<<"1:2:3:4:5:6:7:8", "1:2:3:4:5:6:7:9">>, <<"8000::", "::">>, <<"1:2:3:4:8000::", "1:2:3:4::">>,
            <<"ffff:ffff:ffff:ffff:ffff:ffff:ffff:ffff", "ffff:ffff:ffff:ffff:ffff:ffff:ffff:fffe">>>>
Pre6 == {0, 1, 15, 16, 17, 31, 32, 33, 63, 64, 65, 112, 127, 128}
NSweep4 == IF Thorough THEN 6 ELSE 3
Class4 == {"127.0.0.0", "127.255.255.255", "126.0.0.0", "128.0.0.0", "224.0.0.0", "239.255.255.255",
           "223.255.255.255", "240.0.0.0", "232.1.2.3"}
Class6 == {"::1", "::", "::2", "ff00::", "ff02::1", "feff::", "ffff:ffff:ffff:ffff:ffff:ffff:ffff:ffff", "::ffff:7f00:1"}
ClassPre6 == {0, 1, 7, 8, 9, 64, 126, 127, 128}

-----------------------------------------------------------------------------
EvalW(x) == Eval(x, Req, Store, <<>>)
ValsOf(pool) == {EvalW(x)[2] : x \in {y \in pool : EvalW(y)[1] = "ok"}}

CtxCases(ty) ==
  CASE ty = "decimal" ->
         {<<op, [a |-> x, b |-> y]>> : x \in ValsOf(DecOps), y \in ValsOf(DecOps),
                                        op \in {Bi("lessThan", CtxA, CtxB), Bi("greaterThanOrEqual", CtxA, CtxB), Bin("eq", CtxA, CtxB)}}
         \cup {<<Bin("eq", CtxA, CtorC("decimal", XPrintDecimal(x[3]))), [a |-> x]>> : x \in ValsOf(DecOps)}
    [] ty = "ipaddr" ->
         {<<op, [a |-> x, b |-> y]>> : x \in ValsOf(IpOps), y \in ValsOf(IpOps),
                                        op \in {Bi("isInRange", CtxA, CtxB), Bin("eq", CtxA, CtxB)}}
         \cup {<<Un(f, CtxA), [a |-> x]>> : x \in ValsOf(IpOps), f \in {"isIpv4", "isLoopback", "isMulticast"}}
    [] ty = "datetime" ->
         {<<op, [a |-> x, b |-> y]>> : x \in ValsOf(DtOps), y \in ValsOf(DtOps),
                                        op \in {Bi("durationSince", CtxA, CtxB), Bin("less", CtxA, CtxB), Bin("eq", CtxA, CtxB)}}
         \cup {<<Bi("offset", CtxA, CtxB), [a |-> x, b |-> y]>> : x \in ValsOf(DtOps), y \in ValsOf(DurOps)}
         \cup {<<Un(f, CtxA), [a |-> x]>> : x \in ValsOf(DtOps), f \in {"toDate", "toTime"}}
    [] ty = "duration" ->
         {<<op, [a |-> x, b |-> y]>> : x \in ValsOf(DurOps), y \in ValsOf(DurOps),
                                        op \in {Bin("lessEq", CtxA, CtxB), Bin("eq", CtxA, CtxB)}}
         \cup {<<Un(f, CtxA), [a |-> x]>> : x \in ValsOf(DurOps), f \in {"toMilliseconds", "toSeconds", "toMinutes", "toHours", "toDays"}}

Coords ==
  {<<"dec">>, <<"v4odd">>, <<"v6odd">>, <<"dtdates">>, <<"dtodd">>, <<"class">>, <<"chain">>}
  \cup {<<"v4", o>> : o \in Octs}
  \cup {<<"v6", h>> : h \in 0..9}
  \cup {<<"dt", x, hh>> : x \in SelDates, hh \in HHs}
  \cup {<<"dur", k>> : k \in {"single", "subsets", "edge", "order"}}
  \cup {<<"decop", f>> : f \in DecCmpFns \cup {"eq"}}
  \cup {<<"ipop", f>> : f \in {"isInRange", "eq"}}
  \cup {<<"sweep4", k>> : k \in 1..NSweep4}
  \cup {<<"sweep6", k>> : k \in 1..Len(Sweep6)}
  \cup {<<"dtop", f>> : f \in {"offset", "durationSince"}}
  \cup {<<"cmp", op>> : op \in {"less", "lessEq", "eq"}}
  \cup {<<"un", f>> : f \in UnaryFns}
  \cup {<<"ctx", ty>> : ty \in {"decimal", "ipaddr", "datetime", "duration"}}

CasesOf(k) ==
  CASE k[1] = "dec" -> Plain({ObsDec(x) : x \in DecStrings})
    [] k[1] = "v4" -> Plain({ObsIp(x) : x \in V4Strings(k[2])})
    [] k[1] = "v4odd" -> Plain({ObsIp(Cp(x)) : x \in V4Odd})
    [] k[1] = "v6" -> Plain({ObsIp(x) : x \in V6Strings(k[2])})
    [] k[1] = "v6odd" -> Plain({ObsIp(Cp(x)) : x \in V6Odd})
    [] k[1] = "dt" -> Plain({ObsDt(x) : x \in DatesByTimes({k[2]}, TimesAt(k[3]))})
    [] k[1] = "dtdates" -> Plain({ObsDt(x) : x \in DatesByTimes({yy \o "-" \o md : yy \in Years, md \in MDs}, SelTimes)})
    [] k[1] = "dtodd" -> Plain({ObsDt(Cp(x)) : x \in DtOdd})
    [] k[1] = "dur" ->
         Plain({ObsDur(x) : x \in (CASE k[2] = "single" -> DurSingle
                                     [] k[2] = "subsets" -> DurSubsets
                                     [] k[2] = "edge" -> DurEdge
                                     [] k[2] = "order" -> DurOrder \cup {Cp(y) : y \in DurOdd})})
    [] k[1] = "decop" ->
         LET P == DecOps \cup Mixed
         IN Plain({IF k[2] = "eq" THEN Bin("eq", x, y) ELSE Bi(k[2], x, y) : x \in P, y \in P})
    [] k[1] = "ipop" ->
         LET P == IpOps \cup Mixed
         IN Plain({IF k[2] = "eq" THEN Bin("eq", x, y) ELSE Bi(k[2], x, y) : x \in P, y \in P})
    [] k[1] = "sweep4" ->
         Plain({Bi("isInRange", WithPre(Sweep4[k[2]][1], p), WithPre(Sweep4[k[2]][2], q)) : p \in 0..32, q \in 0..32})
    [] k[1] = "sweep6" ->
         Plain({Bi("isInRange", WithPre(Sweep6[k[2]][1], p), WithPre(Sweep6[k[2]][2], q)) : p \in Pre6, q \in Pre6}
               \cup {Bi("isInRange", WithPre(Sweep6[k[2]][2], p), WithPre(Sweep6[k[2]][1], q)) : p \in Pre6, q \in Pre6})
    [] k[1] = "class" ->
         Plain({Un(f, WithPre(x, p)) : f \in {"isLoopback", "isMulticast"}, x \in Class4, p \in 0..32}
               \cup {Un(f, WithPre(x, p)) : f \in {"isLoopback", "isMulticast"}, x \in Class6, p \in ClassPre6})
    [] k[1] = "dtop" ->
         Plain({Bi(k[2], x, y) : x \in DtOps \cup Mixed,
                                  y \in (IF k[2] = "offset" THEN DurOps ELSE DtOps) \cup Mixed})
    [] k[1] = "cmp" ->
         LET P == DtOps \cup DurOps \cup Mixed \cup {Ctor("decimal", "2.0"), Ctor("ip", "1.2.3.4")}
         IN Plain({Bin(k[2], x, y) : x \in P, y \in P})
    [] k[1] = "un" ->
         Plain({Un(k[2], x) : x \in DtOps \cup DurOps \cup IpOps \cup Mixed})
    [] k[1] = "chain" ->
         Plain({Un("toDate", Bi("offset", x, y)) : x \in DtOps, y \in DurOps}
               \cup {Bin("eq", Bi("durationSince", Bi("offset", x, y), x), y) : x \in DtOps, y \in DurOps}
               \cup {Bin("eq", Bi("offset", Un("toDate", x), Un("toTime", x)), x) : x \in DtOps}
               \cup {Un(f, Un("toTime", x)) : x \in DtOps, f \in {"toHours", "toMilliseconds"}}
               \cup {Un("toDays", Bi("durationSince", x, y)) : x \in DtOps, y \in DtOps}
               \cup {Bin("lessEq", Un("toDate", x), x) : x \in DtOps}
               \cup {SetE(<<x, y>>) : x \in {Ctor("decimal", "1.0"), Ctor("decimal", "1.00"), Ctor("decimal", "1.5")},
                                      y \in {Ctor("decimal", "1.0000"), Ctor("decimal", "01.5"), Ctor("duration", "1ms")}}
               \cup {Bin("contains", SetE(<<Ctor("ip", "::1"), Ctor("duration", "1s"), Ctor("datetime", "1970-01-02")>>), y)
                       : y \in {Ctor("ip", "0:0:0:0:0:0:0:1"), Ctor("ip", "::1/127"), Ctor("duration", "1000ms"),
                                Ctor("duration", "1ms"), Ctor("datetime", "1970-01-02T00:00:00Z"),
                                Ctor("datetime", "1970-01-01T23:00:00-0100"), AtMs("1d"), AtMs("86400000ms")}})
    [] k[1] = "ctx" -> CtxCases(k[2])

Init == coord \in Coords /\ c = <<>>
Next == /\ c = <<>>
        /\ c' \in CasesOf(coord)
        /\ UNCHANGED coord

-----------------------------------------------------------------------------
\* binding M: the prose of C07 checked on the specification itself, for every generated case
ReqOf(cs) == IF DOMAIN cs[2] = {} THEN Req ELSE [Req EXCEPT !.context = <<"rec", cs[2]>>]
EvalIn(x, cs) == Eval(x, ReqOf(cs), Store, <<>>)

\* second, arithmetic definition of range containment: compare the lowest and highest address
RECURSIVE Pow2(_)
Pow2(k) == IF k = 0 THEN 1 ELSE 2 * Pow2(k - 1)
KeepBits(v, i) == LET w == XGroupBits(v[3])
                      kb == v[5] - w * (i - 1)
                  IN IF kb > w THEN w ELSE IF kb < 0 THEN 0 ELSE kb
NetLo(v) == LET w == XGroupBits(v[3])
            IN [i \in 1..Len(v[4]) |-> (v[4][i] \div Pow2(w - KeepBits(v, i))) * Pow2(w - KeepBits(v, i))]
NetHi(v) == LET w == XGroupBits(v[3])
            IN [i \in 1..Len(v[4]) |-> NetLo(v)[i] + Pow2(w - KeepBits(v, i)) - 1]
RECURSIVE LexLe(_, _, _)
LexLe(x, y, i) == IF i > Len(x) THEN TRUE ELSE IF x[i] < y[i] THEN TRUE ELSE IF x[i] > y[i] THEN FALSE ELSE LexLe(x, y, i + 1)
InRangeByBounds(x, y) == x[3] = y[3] /\ LexLe(NetLo(y), NetLo(x), 1) /\ LexLe(NetHi(x), NetHi(y), 1)

MinPlusDay == Add(I64Min, OfInt(XDayMs))[2]

CallSane(fn, av) ==
  \* av: tuple of argument VALUES (all arguments evaluated successfully)
  CASE fn \in {"toDate", "toTime"} /\ IsExtOf(av[1], "datetime") ->
         LET x == av[1][3]
             dd == XToDate(x)
             tt == XToTime(x)[2][3]
         IN /\ ~tt[1] /\ Lt(tt, OfInt(XDayMs))                                 \* 0 <= toTime < one day
            /\ dd[1] = "ok" => /\ Add(dd[2][3], tt) = <<"ok", x>>               \* toDate + toTime = identity
                               /\ Le(dd[2][3], x)
                               /\ XTimeOfDay(dd[2][3]) = 0
                               /\ XToDate(dd[2][3]) = dd                        \* idempotent
            /\ dd[1] # "ok" => Lt(x, MinPlusDay)                                \* only below the representable days
    [] fn = "isInRange" /\ IsExtOf(av[1], "ipaddr") /\ IsExtOf(av[2], "ipaddr") ->
         LET x == av[1]
             y == av[2]
         IN /\ XIpInRange(x, x) /\ XIpInRange(y, y)                             \* reflexive
            /\ XIpInRange(x, y) = InRangeByBounds(x, y)                         \* both definitions agree
            /\ (XIpInRange(x, y) /\ y[5] > 0) => XIpInRange(x, [y EXCEPT ![5] = y[5] - 1])   \* monotone in the prefix
            /\ (XIpInRange(x, y) /\ XIpInRange(y, x)) => (x[5] = y[5] /\ NetLo(x) = NetLo(y))
            /\ XIpInRange(x, XIpV(x[3], [i \in 1..Len(x[4]) |-> 0], 0))         \* everything is in /0
    [] fn \in DecCmpFns /\ IsExtOf(av[1], "decimal") /\ IsExtOf(av[2], "decimal") ->
         LET Rel(f) == DecimalCmp(f, av[1], av[2])[2][2]
         IN /\ Rel("lessThan") = ~Rel("greaterThanOrEqual")
            /\ Rel("greaterThan") = ~Rel("lessThanOrEqual")
            /\ (Rel("lessThanOrEqual") /\ Rel("greaterThanOrEqual")) = (av[1] = av[2])
            /\ Rel("lessThan") => Rel("lessThanOrEqual")
    [] fn \in XDurConvs /\ IsExtOf(av[1], "duration") ->
         \* truncation toward zero: |q| * unit <= |x| < (|q| + 1) * unit, and q has x's sign or is 0
         LET x == av[1][3]
             q == XDurTo(fn, x)
             unit == CASE fn = "toMilliseconds" -> <<1>> [] fn = "toSeconds" -> <<1000>> [] fn = "toMinutes" -> <<0, 6>>
                       [] fn = "toHours" -> <<0, 360>> [] fn = "toDays" -> <<0, 8640>>
         IN /\ CmpM(MulM(q[2], unit), x[2]) <= 0
            /\ CmpM(x[2], MulM(AddM(q[2], <<1>>), unit)) < 0
            /\ (q[1] = x[1] \/ IsZeroM(q[2]))
    [] fn = "offset" /\ IsExtOf(av[1], "datetime") /\ IsExtOf(av[2], "duration") ->
         LET r == Add(av[1][3], av[2][3])
         IN /\ r[1] = "ok" => Sub(r[2], av[1][3]) = <<"ok", av[2][3]>>
            /\ r[1] # "ok" => av[1][3][1] = av[2][3][1]                         \* overflow needs equal signs
    [] fn = "durationSince" /\ IsExtOf(av[1], "datetime") /\ IsExtOf(av[2], "datetime") ->
         LET r == Sub(av[1][3], av[2][3])
         IN /\ r[1] = "ok" => Add(av[2][3], r[2]) = <<"ok", av[1][3]>>
            /\ r[1] # "ok" => av[1][3][1] # av[2][3][1]
    [] OTHER -> TRUE

CtorSane(fn, cps) ==
  \* parse of the canonical print is the value; the canonical print is a fixed point
  LET r == ExtCall(fn, <<S(cps)>>)
  IN r[1] = "ok" =>
       CASE fn = "decimal" -> /\ ParseDecimal(XPrintDecimal(r[2][3])) = r
                              /\ IsI64(r[2][3])
         [] fn = "ip" -> /\ XParseIp(XPrintIp(r[2])) = r
                         /\ r[2][5] <= XMaxPrefix(r[2][3])
                         /\ \A i \in 1..Len(r[2][4]) : r[2][4][i] >= 0 /\ r[2][4][i] < Pow2(XGroupBits(r[2][3]))
         [] fn = "duration" -> /\ XParseDuration(XPrintDuration(r[2][3])) = r
                               /\ IsI64(r[2][3])
         [] fn = "datetime" -> /\ IsI64(r[2][3])
                               /\ XDtPrintable(r[2][3]) => XParseDatetime(XPrintDatetime(r[2][3])) = r

CmpSane(op, x, y) ==
  (IsExt(x) /\ IsExt(y) /\ ExtComparable(x) /\ ExtComparable(y) /\ x[2] = y[2]) =>
     /\ ExtLt(x, y) = ~ExtLe(y, x)
     /\ (ExtLe(x, y) /\ ExtLe(y, x)) = (x = y)

RECURSIVE AllOk(_, _)
AllOk(rs, i) == i > Len(rs) \/ (rs[i][1] = "ok" /\ AllOk(rs, i + 1))

\* every call node of the case (records of observations are walked) is checked
RECURSIVE NodeSane(_, _)
NodeSane(x, cs) ==
  CASE x[1] = "call" ->
         LET rs == [i \in 1..Len(x[3]) |-> EvalIn(x[3][i], cs)]
         IN /\ \A i \in 1..Len(x[3]) : NodeSane(x[3][i], cs)
            /\ AllOk(rs, 1) => CallSane(x[2], [i \in 1..Len(rs) |-> rs[i][2]])
            /\ (x[2] \in XCtors /\ Len(x[3]) = 1 /\ x[3][1][1] = "lit" /\ IsStr(x[3][1][2])) => CtorSane(x[2], x[3][1][2][2])
    [] x[1] = "bin" ->
         LET ra == EvalIn(x[3], cs)
             rb == EvalIn(x[4], cs)
         IN /\ NodeSane(x[3], cs) /\ NodeSane(x[4], cs)
            /\ (x[2] \in {"less", "lessEq"} /\ ra[1] = "ok" /\ rb[1] = "ok") => CmpSane(x[2], ra[2], rb[2])
            /\ (x[2] = "eq" /\ ra[1] = "ok" /\ rb[1] = "ok") => EvalIn(x, cs)[2][1] = "bool"
    [] x[1] = "not" -> NodeSane(x[2], cs)
    [] x[1] = "record" -> \A key \in DOMAIN x[2] : NodeSane(x[2][key], cs)
    [] x[1] = "set" -> \A i \in 1..Len(x[2]) : NodeSane(x[2][i], cs)
    [] OTHER -> TRUE

ResultWellFormed(cs) ==
  LET r == EvalIn(cs[1], cs)
  IN r[1] \in {"ok", "err"} /\ (r[1] = "err" => r[2] \in {"type", "ext"})

Sane == c # <<>> => (ResultWellFormed(c) /\ NodeSane(c[1], c))

\* fixed reference points (DESIGN.md Appendix C) and calendar cross-checks, evaluated once
RefTrue == {
  Bin("eq", Ctor("decimal", "1.0"), Ctor("decimal", "1.00")),
  Bin("eq", Ctor("decimal", "00001.5"), Ctor("decimal", "1.5")),
  Bin("eq", Ctor("decimal", "-0.0"), Ctor("decimal", "0.0")),
  Bin("eq", Ctor("ip", "::1"), Ctor("ip", "0:0:0:0:0:0:0:1")),
  NotE(Bin("eq", Ctor("ip", "10.0.0.1/24"), Ctor("ip", "10.0.0.2/24"))),
  Bin("eq", Ctor("datetime", "2024-01-01T00:00:00+0100"), Ctor("datetime", "2023-12-31T23:00:00Z")),
  Bin("eq", Un("toSeconds", Ctor("duration", "-1500ms")), Lit(L(0 - 1))),
  Bin("eq", Un("toSeconds", Ctor("duration", "-1ms")), Lit(L(0))),
  Bin("eq", Un("toTime", Ctor("datetime", "1969-12-31T23:59:59.999Z")), Ctor("duration", "86399999ms")),
  Bin("eq", Un("toDate", Ctor("datetime", "1969-12-31T23:59:59.999Z")), Ctor("datetime", "1969-12-31")),
  Un("isLoopback", Ctor("ip", "127.0.0.1/8")),
  NotE(Un("isLoopback", Ctor("ip", "127.0.0.1/7"))),
  NotE(Un("isLoopback", Ctor("ip", "::1/127"))),
  Bi("isInRange", Ctor("ip", "10.0.0.0/8"), Ctor("ip", "10.0.0.0/0")),
  NotE(Bi("isInRange", Ctor("ip", "10.0.0.0/0"), Ctor("ip", "10.0.0.0/8"))),
  Bin("eq", MsOf(Ctor("datetime", "2000-03-01")), Lit(<<"long", Mul(OfInt(11017), OfInt(XDayMs))[2]>>)),
  Bin("eq", Ctor("duration", "1d2h3m4s5ms"), Ctor("duration", "93784005ms")) }
RefExtErr == {
  Ctor("decimal", "922337203685477.5808"), Ctor("decimal", "1.12345"), Ctor("decimal", "1."), Ctor("decimal", ".5"),
  Ctor("decimal", "+1.5"), Ctor("duration", "1h1d"), Ctor("duration", ""), Ctor("duration", "9223372036854775808ms"),
  Ctor("datetime", "2024-01-01T00:00:00+2400"), Ctor("datetime", "2024-01-01T24:00:00Z"), Ctor("datetime", "2024-01-01T23:59:60Z"),
  Ctor("datetime", "2023-02-29"), Bi("offset", Ctor("datetime", "1970-01-02"), Ctor("duration", "9223372036854775807ms")),
  Ctor("ip", "1.2.3.04"), Ctor("ip", "1.2.3.4/032"), Ctor("ip", "::ffff:1.2.3.4") }
RefOk == { Ctor("decimal", "-922337203685477.5808"), Ctor("duration", "9223372036854775807ms"),
           Ctor("duration", "-9223372036854775808ms"), Ctor("datetime", "2024-01-01T00:00:00+2359"), Ctor("datetime", "0000-01-01") }
ASSUME \A x \in RefTrue : EvalW(x) = Ok(TrueV)
ASSUME \A x \in RefExtErr : EvalW(x) = Err("ext")
ASSUME \A x \in RefOk : EvalW(x)[1] = "ok"
\* the day count (sum of year and month lengths) and the civil-from-days algorithm are inverse
CalYears == {0, 1, 4, 100, 400, 1900, 1969, 1970, 2000, 2023, 2024, 9999}
ASSUME \A y \in CalYears, mo \in 1..12 : \A d \in 1..XDaysInMonth(y, mo) : XCivil(XDayNumber(y, mo, d)) = <<y, mo, d>>
ASSUME XDayNumber(1970, 1, 1) = 0 /\ XDayNumber(0, 1, 1) = XMinDay /\ XDayNumber(9999, 12, 31) = XMaxDay

\* ---------------------------------------------------------------- binding G
Dump == PrintT("CASE " \o ToJson([expr |-> c'[1], ctx |-> c'[2], coord |-> coord]))
ASSUME PrintT("WORLD " \o ToJson([req |-> Req, store |-> WireStore]))
==============================================================================
